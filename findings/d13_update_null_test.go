package pub

// Demonstration of finding D13 (C16-R8, repaired by b540567 in /repo). Drop into /repo/pub/ and run
//   go test -run TestFindingD13 ./pub/
// It fails on the tree before b540567 and passes after it.
//
// Finding D13 (C16): a client Update whose object carries a
// member as JSON null must remove that member from the stored object
// (ActivityPub 6.3; SocialWrappedCallbacks.Update doc: "Any top-level null
// literals will be deleted on the stored objects"). The library looks for the
// nulls among the *activity's* top-level members instead of the object's.

import (
	"context"
	"encoding/json"
	"net/url"
	"testing"

	"github.com/go-fed/activity/streams"
	"github.com/go-fed/activity/streams/vocab"
)

type d13DB struct {
	Database
	content map[string]vocab.Type
}

func (d *d13DB) Lock(c context.Context, id *url.URL) error   { return nil }
func (d *d13DB) Unlock(c context.Context, id *url.URL) error { return nil }
func (d *d13DB) Get(c context.Context, id *url.URL) (vocab.Type, error) {
	return d.content[id.String()], nil
}
func (d *d13DB) Update(c context.Context, t vocab.Type) error {
	id, err := GetId(t)
	if err != nil {
		return err
	}
	d.content[id.String()] = t
	return nil
}

func d13Run(t *testing.T, body string) map[string]interface{} {
	ctx := context.Background()
	stored := map[string]interface{}{
		"@context": "https://www.w3.org/ns/activitystreams",
		"type":     "Note",
		"id":       "https://example.com/notes/1",
		"content":  "old content",
		"summary":  "old summary",
	}
	st, err := streams.ToType(ctx, stored)
	if err != nil {
		t.Fatal(err)
	}
	db := &d13DB{content: map[string]vocab.Type{"https://example.com/notes/1": st}}
	var raw map[string]interface{}
	if err := json.Unmarshal([]byte(body), &raw); err != nil {
		t.Fatal(err)
	}
	at, err := streams.ToType(ctx, raw)
	if err != nil {
		t.Fatalf("decode activity: %v", err)
	}
	upd, ok := at.(vocab.ActivityStreamsUpdate)
	if !ok {
		t.Fatalf("not an Update: %T", at)
	}
	undeliverable := false
	w := SocialWrappedCallbacks{db: db, rawActivity: raw, undeliverable: &undeliverable}
	if err := w.update(ctx, upd); err != nil {
		t.Fatalf("update: %v", err)
	}
	m, err := streams.Serialize(db.content["https://example.com/notes/1"])
	if err != nil {
		t.Fatal(err)
	}
	return m
}

func TestFindingD13_ObjectNullRemovesMember(t *testing.T) {
	m := d13Run(t, `{"@context":"https://www.w3.org/ns/activitystreams","type":"Update","id":"https://example.com/act/1","actor":"https://example.com/users/a",
	  "object":{"type":"Note","id":"https://example.com/notes/1","content":"new content","summary":null}}`)
	if m["content"] != "new content" {
		t.Errorf("content not replaced: %v", m["content"])
	}
	if _, ok := m["summary"]; ok {
		t.Errorf("summary was supplied as null in the object but is still stored: %v", m["summary"])
	}
}

func TestFindingD13_ActivityNullLeavesObjectAlone(t *testing.T) {
	// a null at the top level of the *activity* says nothing about the object
	m := d13Run(t, `{"@context":"https://www.w3.org/ns/activitystreams","type":"Update","id":"https://example.com/act/1","actor":"https://example.com/users/a",
	  "summary":null,
	  "object":{"type":"Note","id":"https://example.com/notes/1","content":"new content"}}`)
	if _, ok := m["summary"]; !ok {
		t.Errorf("summary of the stored object was removed because the activity (not the object) had a null summary")
	}
}
