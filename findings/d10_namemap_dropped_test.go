package streams

// Demonstration of known finding D10 (C01-R1): a document carrying both the
// plain and the Map spelling of a natural-language property loses the Map
// member on a decode → encode round trip. Drop into /repo/streams/ and run
//   go test -run TestFindingD10 ./streams/
// It FAILS on the current tree (that is the finding).

import (
	"context"
	"encoding/json"
	"testing"
)

func TestFindingD10(t *testing.T) {
	for _, p := range []string{"name", "summary", "content", "preferredUsername"} {
		typ := "Note"
		if p == "preferredUsername" {
			typ = "Person"
		}
		in := map[string]interface{}{
			"@context": "https://www.w3.org/ns/activitystreams",
			"type":     typ,
			p:          "plain",
			p + "Map":  map[string]interface{}{"en": "mapped"},
		}
		v, err := ToType(context.Background(), in)
		if err != nil {
			t.Fatalf("%s: decode: %v", p, err)
		}
		out, err := Serialize(v)
		if err != nil {
			t.Fatalf("%s: encode: %v", p, err)
		}
		b, _ := json.Marshal(out)
		if _, ok := out[p+"Map"]; !ok {
			found := false
			// it may legitimately reappear under the other spelling
			if arr, isArr := out[p].([]interface{}); isArr {
				for _, e := range arr {
					if _, isMap := e.(map[string]interface{}); isMap {
						found = true
					}
				}
			}
			if !found {
				t.Errorf("%sMap was silently dropped: %s", p, b)
			}
		}
	}
}
