package streams

// Demonstration of finding D15 (C01-R9): vocabulary aliases were only half supported.
// Drop into /repo/streams/ and run   go test -run TestFindingD15 ./streams/
// It fails on the tree before the repair and passes after it.
//
//  (a) toAliasMap read an @context object as {vocabulary: alias}; JSON-LD — and streams.Serialize
//      itself — write {alias: vocabulary}. A document in the standard form was rejected
//      ("did not match any known types"), so the library could not decode its own output.
//  (b) the four natural-language properties (content, name, summary, preferredUsername) are read
//      under "<alias>:<name>" but their Name() ignored the alias: the member was written back
//      under its plain name and once more, verbatim, from the unknown members.

import (
	"context"
	"encoding/json"
	"reflect"
	"testing"
)

func TestFindingD15(t *testing.T) {
	doc := `{"@context": {"as":"https://www.w3.org/ns/activitystreams"}, "type":"as:Note", "id":"https://example.com/n/1",
	         "as:content":"hi", "as:name":"n", "as:summaryMap":{"en":"s"}, "as:to":"https://example.com/u/1"}`
	var m map[string]interface{}
	if err := json.Unmarshal([]byte(doc), &m); err != nil {
		t.Fatal(err)
	}
	v, err := ToType(context.Background(), m)
	if err != nil {
		t.Fatalf("(a) a document whose @context is {alias: vocabulary} is not decoded: %v", err)
	}
	out, err := Serialize(v)
	if err != nil {
		t.Fatal(err)
	}
	b, _ := json.Marshal(out)
	var back map[string]interface{}
	json.Unmarshal(b, &back)
	if !reflect.DeepEqual(m, back) {
		t.Errorf("(b) not JSON-equal after one round trip:\n in:  %s\n out: %s", doc, b)
	}
	v2, err := ToType(context.Background(), back)
	if err != nil {
		t.Fatalf("(a) the library cannot decode its own output %s: %v", b, err)
	}
	out2, _ := Serialize(v2)
	b2, _ := json.Marshal(out2)
	if string(b2) != string(b) {
		t.Errorf("a second round trip changes the document:\n %s\n %s", b, b2)
	}
}
