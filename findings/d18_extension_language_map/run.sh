#!/bin/bash
# Demonstration of D18 (C15 → C12/C01 for an extension vocabulary): ext.jsonld declares one
# property, `caption`, on as:Object with range [xsd:string, rdf:langString] — the way
# ActivityStreams declares summary / name / content. Before the fix astool generated no
# `captionMap` handling at all: rdf:langString had already been registered while parsing
# ActivityStreams, so its node never marked the extension's properties as natural language maps.
# usage: run.sh <repo>
set -u
export GOFLAGS=-mod=mod GOPROXY=off GOSUMDB=off GOTOOLCHAIN=local GOWORK=off
repo=${1:-/repo}; here=$(cd "$(dirname "$0")" && pwd)
t=$(mktemp -d); trap 'rm -rf $t' EXIT
(cd "$repo" && go build -o $t/astool ./astool) || exit 2
mkdir $t/out
(cd $t && ./astool -spec "$repo/astool/activitystreams.jsonld" -spec "$here/ext.jsonld" -path example.org/x ./out >log 2>&1) || { tail -3 $t/log; exit 2; }
n=$(grep -c captionMap $t/out/impl/ext/property_caption/gen_property_ext_caption.go)
c=$(grep -c 'extKeyPrefix+"captionMap"' $t/out/impl/activitystreams/type_note/gen_type_activitystreams_note.go)
echo "captionMap handled in the property: $n place(s); claimed by Note: $c"
[ "$n" -ge 1 ] && [ "$c" -ge 1 ]
