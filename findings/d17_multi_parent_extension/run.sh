#!/bin/bash
# Demonstration of D17 (C15): an extension vocabulary whose type Aaa extends
# [as:Object, Zzz] (Zzz its own). Before the fix astool panics (nil parent
# generator) whenever map iteration tries Aaa before Zzz: allExtendsAreIn
# answered after looking at the first foreign parent only.
# usage: run.sh <repo>   (builds astool from <repo> into a scratch dir, runs it 10 times)
set -u
export GOFLAGS=-mod=mod GOPROXY=off GOSUMDB=off GOTOOLCHAIN=local GOWORK=off
repo=${1:-/repo}; here=$(cd "$(dirname "$0")" && pwd)
t=$(mktemp -d); trap 'rm -rf $t' EXIT
(cd "$repo" && go build -o $t/astool ./astool) || exit 2
bad=0
for i in 1 2 3 4 5 6 7 8 9 10; do
  rm -rf $t/out; mkdir $t/out
  (cd $t && ./astool -spec "$repo/astool/activitystreams.jsonld" -spec "$here/ext.jsonld" -path example.org/x ./out >log 2>&1) || { bad=$((bad+1)); grep -m1 panic $t/log; }
done
echo "astool failed in $bad of 10 runs"
[ $bad -eq 0 ]
