package pub

import (
	"bytes"
	"context"
	"net/http"
	"net/http/httptest"
	"testing"

	"github.com/golang/mock/gomock"
)

// Demonstration of finding D14 (C10-R8 / C11-R1p, repaired by 4bd6e74 in /repo). Drop into /repo/pub/ and run
//   go test -run TestFindingD14 ./pub/
// It fails on the tree before 4bd6e74 and passes after it.
//
// Finding D14 (C10): an inbox POST whose id member is present but not a usable
// IRI (null, "", a number, an object, a relative reference) must be answered
// 400. The library only tests GetJSONLDId() == nil, which is false for all of
// these (the id property is kept with an 'unknown' value); the request goes on
// to the delegate with an activity whose id.Get() is nil.
func TestFindingD14(t *testing.T) {
	ctx := context.Background()
	for _, id := range []string{`null`, `""`, `5`, `{"a":1}`, `"relative/ref"`} {
		id := id
		t.Run(id, func(t *testing.T) {
			ctl := gomock.NewController(t)
			defer ctl.Finish()
			delegate := NewMockDelegateActor(ctl)
			clock := NewMockClock(ctl)
			a := NewCustomActor(delegate, false, true, clock)
			body := `{"@context":"https://www.w3.org/ns/activitystreams","type":"Create","id":` + id + `,"actor":"https://example.com/users/a","object":"https://example.com/notes/1"}`
			req := toAPRequest(httptest.NewRequest("POST", testMyInboxIRI, bytes.NewBufferString(body)))
			resp := httptest.NewRecorder()
			delegate.EXPECT().AuthenticatePostInbox(ctx, resp, req).Return(ctx, true, nil)
			// what happens on the defective tree: the delegate sees an activity without a usable id
			delegate.EXPECT().PostInboxRequestBodyHook(gomock.Any(), gomock.Any(), gomock.Any()).DoAndReturn(
				func(c context.Context, r *http.Request, act Activity) (context.Context, error) {
					t.Errorf("id %s: the request reached the delegate; activity.GetJSONLDId().Get() = %v", id, act.GetJSONLDId().Get())
					return c, nil
				}).AnyTimes()
			delegate.EXPECT().AuthorizePostInbox(gomock.Any(), gomock.Any(), gomock.Any()).Return(false, nil).AnyTimes()
			handled, err := a.PostInbox(ctx, resp, req)
			if err != nil || !handled {
				t.Fatalf("handled=%v err=%v", handled, err)
			}
			if resp.Code != http.StatusBadRequest {
				t.Errorf("id %s: status %d, want 400", id, resp.Code)
			}
		})
	}
}
