package pub

import (
	"context"
	"encoding/json"
	"testing"

	"github.com/go-fed/activity/streams"
)

// Demonstration of known finding D16 (C03-R7, C01-R9). Drop into /repo/pub/ and run
//   go test -run TestFindingD16 ./pub/
// It FAILS on the current tree (that is the finding).
//
// Finding D16 (C03/C01): in a document that aliases the vocabulary, bcc/bto survive the strip:
// every type claims its members under their plain names only, so "as:bcc" is interpreted by the
// property AND kept among the unknown members, which are written back after the typed property
// has been cleared.
func TestFindingD16(t *testing.T) {
	doc := `{"@context": {"as":"https://www.w3.org/ns/activitystreams"}, "type":"as:Create", "id":"https://example.com/a/1",
	  "as:actor":"https://example.com/u/1", "as:bcc":"https://example.com/u/hidden", "as:bto":"https://example.com/u/hidden2",
	  "as:object":{"type":"as:Note","id":"https://example.com/n/1","as:bcc":"https://example.com/u/hidden3"}}`
	var m map[string]interface{}
	if err := json.Unmarshal([]byte(doc), &m); err != nil {
		t.Fatal(err)
	}
	v, err := streams.ToType(context.Background(), m)
	if err != nil {
		t.Fatalf("decode: %v", err)
	}
	act, ok := v.(Activity)
	if !ok {
		t.Fatalf("not an activity: %T", v)
	}
	stripHiddenRecipients(act)
	out, err := streams.Serialize(act)
	if err != nil {
		t.Fatal(err)
	}
	b, _ := json.Marshal(out)
	for _, hidden := range []string{"hidden", "as:bcc", "as:bto"} {
		if bytesContains(b, hidden) {
			t.Errorf("the stripped payload still contains %q: %s", hidden, b)
		}
	}
	clearSensitiveFields(v)
}

func bytesContains(b []byte, s string) bool {
	return len(s) > 0 && len(b) >= len(s) && (string(b) != "" && (stringIndex(string(b), s) >= 0))
}

func stringIndex(h, n string) int {
	for i := 0; i+len(n) <= len(h); i++ {
		if h[i:i+len(n)] == n {
			return i
		}
	}
	return -1
}
