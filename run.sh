#!/bin/bash
# ./run.sh <property id> <quick|thorough>      decide one property on /repo's current working tree
# ./run.sh <property id> --explain <replay>    print a replay file and re-evaluate
cd "$(dirname "$0")"
export GOFLAGS=-mod=mod GOPROXY=off GOSUMDB=off GOTOOLCHAIN=local GOWORK=off
ID=$1; MODE=${2:-quick}
if [ ! -x bin/verifchk ] || [ -n "$(find checker -name '*.go' -newer bin/verifchk 2>/dev/null | head -1)" ]; then
  ./setup.sh >/dev/null || { echo "ERROR: checker build failed"; exit 2; }
fi
if [ "$MODE" = "--explain" ]; then
  echo "== replay file $3"; cat "$3" 2>/dev/null || echo "(no such file: the violation is no longer reported)"
  echo "== re-evaluating $ID on the current tree"
  exec ./bin/verifchk -prop "$ID" -tier quick -repo "${VERIF_REPO:-/repo}" -verif "$(pwd)"
fi
if [ "$MODE" = "thorough" ]; then
  exec ./thorough.sh "$ID"
fi
exec ./bin/verifchk -prop "$ID" -tier quick -repo "${VERIF_REPO:-/repo}" -verif "$(pwd)"
