package streams

import (
	"context"
	"encoding/json"
	"testing"

	"github.com/go-fed/activity/streams/vocab"
)

// seedC13x6load resolves a JSON-LD document into a vocab.Type.
func seedC13x6load(t *testing.T, doc string) vocab.Type {
	var m map[string]interface{}
	if err := json.Unmarshal([]byte(doc), &m); err != nil {
		t.Fatalf("unmarshal: %v", err)
	}
	v, err := ToType(context.Background(), m)
	if err != nil {
		t.Fatalf("ToType(%s): %v", doc, err)
	}
	return v
}

// seedC13x6aliased deserializes a bare {"id", "type": "as:<name>"} map with the
// generated per-type deserializer, handing it the alias map a document binding
// the ActivityStreams vocabulary to the prefix "as" gives rise to. This is the
// path every nested value of such a document takes.
func seedC13x6aliased(t *testing.T, name string) vocab.Type {
	m := map[string]interface{}{
		"id":   "https://example.com/" + name,
		"type": "as:" + name,
	}
	am := map[string]string{"https://www.w3.org/ns/activitystreams": "as"}
	var v vocab.Type
	var err error
	switch name {
	case "Object":
		v, err = mgr.DeserializeObjectActivityStreams()(m, am)
	case "Collection":
		v, err = mgr.DeserializeCollectionActivityStreams()(m, am)
	case "OrderedCollection":
		v, err = mgr.DeserializeOrderedCollectionActivityStreams()(m, am)
	case "CollectionPage":
		v, err = mgr.DeserializeCollectionPageActivityStreams()(m, am)
	case "OrderedCollectionPage":
		v, err = mgr.DeserializeOrderedCollectionPageActivityStreams()(m, am)
	case "Link":
		v, err = mgr.DeserializeLinkActivityStreams()(m, am)
	default:
		t.Fatalf("no deserializer for %s", name)
	}
	if err != nil {
		t.Fatalf("deserialize aliased %s: %v", name, err)
	}
	return v
}

// TestSeedC13_6 checks that the hierarchy predicates give the answer dictated
// by the type hierarchy no matter how the value handed to them was obtained:
// freshly constructed, deserialized from a plain ActivityStreams document, or
// deserialized from a document whose @context binds the ActivityStreams
// vocabulary to an alias (so that the wire form of the type is "as:<Name>").
// It does this for every type on the diamond
// Object <- Collection <- {OrderedCollection, CollectionPage} <- OrderedCollectionPage.
func TestSeedC13_6(t *testing.T) {
	const plainCtx = `"@context":"https://www.w3.org/ns/activitystreams"`
	type subject struct {
		name  string
		fresh vocab.Type
	}
	subjects := []subject{
		{"Object", NewActivityStreamsObject()},
		{"Collection", NewActivityStreamsCollection()},
		{"OrderedCollection", NewActivityStreamsOrderedCollection()},
		{"CollectionPage", NewActivityStreamsCollectionPage()},
		{"OrderedCollectionPage", NewActivityStreamsOrderedCollectionPage()},
		{"Link", NewActivityStreamsLink()},
	}
	type predicate struct {
		name string
		fn   func(vocab.Type) bool
		// want maps the subject type name to the oracle answer.
		want map[string]bool
	}
	page := NewActivityStreamsOrderedCollectionPage()
	preds := []predicate{
		{"ObjectIsExtendedBy", ActivityStreamsObjectIsExtendedBy,
			map[string]bool{"Collection": true, "OrderedCollection": true, "CollectionPage": true, "OrderedCollectionPage": true}},
		{"CollectionIsExtendedBy", ActivityStreamsCollectionIsExtendedBy,
			map[string]bool{"OrderedCollection": true, "CollectionPage": true, "OrderedCollectionPage": true}},
		{"IsOrExtendsCollection", IsOrExtendsActivityStreamsCollection,
			map[string]bool{"Collection": true, "OrderedCollection": true, "CollectionPage": true, "OrderedCollectionPage": true}},
		{"IsOrExtendsOrderedCollection", IsOrExtendsActivityStreamsOrderedCollection,
			map[string]bool{"OrderedCollection": true, "OrderedCollectionPage": true}},
		{"IsOrExtendsCollectionPage", IsOrExtendsActivityStreamsCollectionPage,
			map[string]bool{"CollectionPage": true, "OrderedCollectionPage": true}},
		{"OrderedCollectionPageExtends", ActivityStreamsActivityStreamsOrderedCollectionPageExtends,
			map[string]bool{"Object": true, "Collection": true, "OrderedCollection": true, "CollectionPage": true}},
		{"OrderedCollectionPage.IsExtending", page.IsExtending,
			map[string]bool{"Object": true, "Collection": true, "OrderedCollection": true, "CollectionPage": true}},
		{"OrderedCollectionExtends", ActivityStreamsActivityStreamsOrderedCollectionExtends,
			map[string]bool{"Object": true, "Collection": true}},
		{"LinkIsDisjointWith", ActivityStreamsLinkIsDisjointWith,
			map[string]bool{"Object": true, "Collection": true, "OrderedCollection": true, "CollectionPage": true, "OrderedCollectionPage": true}},
		{"OrderedCollectionIsDisjointWith", ActivityStreamsOrderedCollectionIsDisjointWith,
			map[string]bool{"Link": true}},
	}
	for _, s := range subjects {
		id := `"id":"https://example.com/` + s.name + `"`
		forms := []struct {
			how string
			v   vocab.Type
		}{
			{"constructed", s.fresh},
			{"plain document", seedC13x6load(t, `{`+plainCtx+`,`+id+`,"type":"`+s.name+`"}`)},
			{"aliased document", seedC13x6aliased(t, s.name)},
		}
		for _, f := range forms {
			for _, p := range preds {
				if got, want := p.fn(f.v), p.want[s.name]; got != want {
					t.Errorf("%s(%s from %s) = %v, want %v", p.name, s.name, f.how, got, want)
				}
			}
			// The value's own IsExtending must not depend on its origin either.
			ext, ok := f.v.(interface{ IsExtending(vocab.Type) bool })
			if !ok {
				t.Fatalf("%s (%s) has no IsExtending", s.name, f.how)
			}
			for _, o := range subjects {
				want := false
				switch s.name {
				case "Collection":
					want = o.name == "Object"
				case "OrderedCollection", "CollectionPage":
					want = o.name == "Object" || o.name == "Collection"
				case "OrderedCollectionPage":
					want = o.name != "OrderedCollectionPage" && o.name != "Link"
				}
				if got := ext.IsExtending(o.fresh); got != want {
					t.Errorf("%s(from %s).IsExtending(%s) = %v, want %v", s.name, f.how, o.name, got, want)
				}
			}
		}
	}
	// Round trip sanity: an aliased document keeps its aliased wire type.
	oc := seedC13x6aliased(t, "OrderedCollection")
	m, err := oc.Serialize()
	if err != nil {
		t.Fatalf("Serialize: %v", err)
	}
	if m["type"] != "as:OrderedCollection" {
		t.Errorf("serialized type = %v, want as:OrderedCollection", m["type"])
	}
}
