package pub

import (
	"bytes"
	"context"
	"errors"
	"fmt"
	"net/http"
	"net/http/httptest"
	"net/url"
	"strings"
	"sync"
	"testing"
	"time"

	"github.com/go-fed/activity/streams"
	"github.com/go-fed/activity/streams/vocab"
)

// ---------------------------------------------------------------------------
// Self-contained in-memory fakes (no gomock): a Database that snapshots values
// by serialising them at the moment they are stored (like a real database
// would), a Transport that records deliveries, and trivial protocol hooks.
// Every fake appends to one shared event log so orderings can be asserted.
// ---------------------------------------------------------------------------

type seedC05x5World struct {
	mu     sync.Mutex
	events []string
}

func (w *seedC05x5World) log(format string, a ...interface{}) {
	w.mu.Lock()
	defer w.mu.Unlock()
	w.events = append(w.events, fmt.Sprintf(format, a...))
}

func seedC05x5MustURL(s string) *url.URL {
	u, err := url.Parse(s)
	if err != nil {
		panic(err)
	}
	return u
}

type seedC05x5DB struct {
	Database // nil: any method not overridden below panics if the library calls it
	w        *seedC05x5World
	mu       sync.Mutex
	nextID   int
	// stored holds the JSON snapshot taken when Create was called.
	stored map[string]map[string]interface{}
	// outbox maps outbox IRI -> activity ids, newest first.
	outbox map[string][]string
	// owner maps outbox IRI -> actor IRI; inboxOf maps actor IRI -> inbox IRI.
	owner   map[string]string
	inboxOf map[string]string
	// fault injection
	failSetOutbox bool
	failGetOutbox bool
	failCreateFor func(t vocab.Type) bool
}

func seedC05x5NewDB(w *seedC05x5World) *seedC05x5DB {
	return &seedC05x5DB{
		w:       w,
		stored:  map[string]map[string]interface{}{},
		outbox:  map[string][]string{},
		owner:   map[string]string{},
		inboxOf: map[string]string{},
	}
}

func (d *seedC05x5DB) Lock(c context.Context, id *url.URL) error   { return nil }
func (d *seedC05x5DB) Unlock(c context.Context, id *url.URL) error { return nil }

func (d *seedC05x5DB) NewID(c context.Context, t vocab.Type) (*url.URL, error) {
	d.mu.Lock()
	defer d.mu.Unlock()
	d.nextID++
	return seedC05x5MustURL(fmt.Sprintf("https://example.com/fresh/%s/%d", strings.ToLower(t.GetTypeName()), d.nextID)), nil
}

func (d *seedC05x5DB) ActorForOutbox(c context.Context, outboxIRI *url.URL) (*url.URL, error) {
	d.mu.Lock()
	defer d.mu.Unlock()
	a, ok := d.owner[outboxIRI.String()]
	if !ok {
		return nil, fmt.Errorf("no such outbox %s", outboxIRI)
	}
	return seedC05x5MustURL(a), nil
}

func (d *seedC05x5DB) InboxForActor(c context.Context, actorIRI *url.URL) (*url.URL, error) {
	d.mu.Lock()
	defer d.mu.Unlock()
	if in, ok := d.inboxOf[actorIRI.String()]; ok {
		return seedC05x5MustURL(in), nil
	}
	return nil, nil
}

func (d *seedC05x5DB) Get(c context.Context, id *url.URL) (vocab.Type, error) {
	d.mu.Lock()
	defer d.mu.Unlock()
	if in, ok := d.inboxOf[id.String()]; ok {
		p := streams.NewActivityStreamsPerson()
		idp := streams.NewJSONLDIdProperty()
		idp.Set(id)
		p.SetJSONLDId(idp)
		inbox := streams.NewActivityStreamsInboxProperty()
		inbox.SetIRI(seedC05x5MustURL(in))
		p.SetActivityStreamsInbox(inbox)
		return p, nil
	}
	if m, ok := d.stored[id.String()]; ok {
		return streams.ToType(c, m)
	}
	return nil, fmt.Errorf("not found: %s", id)
}

func (d *seedC05x5DB) Create(c context.Context, t vocab.Type) error {
	if d.failCreateFor != nil && d.failCreateFor(t) {
		d.w.log("db.Create FAILED %s", t.GetTypeName())
		return errors.New("injected: Create failed")
	}
	id, err := GetId(t)
	if err != nil {
		return err
	}
	m, err := streams.Serialize(t)
	if err != nil {
		return err
	}
	d.mu.Lock()
	d.stored[id.String()] = m
	d.mu.Unlock()
	d.w.log("db.Create %s %s", t.GetTypeName(), id)
	return nil
}

func (d *seedC05x5DB) GetOutbox(c context.Context, outboxIRI *url.URL) (vocab.ActivityStreamsOrderedCollectionPage, error) {
	if d.failGetOutbox {
		d.w.log("db.GetOutbox FAILED %s", outboxIRI)
		return nil, errors.New("injected: GetOutbox failed")
	}
	d.mu.Lock()
	defer d.mu.Unlock()
	p := streams.NewActivityStreamsOrderedCollectionPage()
	idp := streams.NewJSONLDIdProperty()
	idp.Set(outboxIRI)
	p.SetJSONLDId(idp)
	oi := streams.NewActivityStreamsOrderedItemsProperty()
	for _, s := range d.outbox[outboxIRI.String()] {
		oi.AppendIRI(seedC05x5MustURL(s))
	}
	p.SetActivityStreamsOrderedItems(oi)
	return p, nil
}

func (d *seedC05x5DB) SetOutbox(c context.Context, p vocab.ActivityStreamsOrderedCollectionPage) error {
	id, err := GetId(p)
	if err != nil {
		return err
	}
	if d.failSetOutbox {
		d.w.log("db.SetOutbox FAILED %s", id)
		return errors.New("injected: SetOutbox failed")
	}
	var items []string
	if oi := p.GetActivityStreamsOrderedItems(); oi != nil {
		for it := oi.Begin(); it != oi.End(); it = it.Next() {
			u, err := ToId(it)
			if err != nil {
				return err
			}
			items = append(items, u.String())
		}
	}
	d.mu.Lock()
	d.outbox[id.String()] = items
	d.mu.Unlock()
	d.w.log("db.SetOutbox %s", id)
	return nil
}

type seedC05x5Transport struct {
	Transport
	w *seedC05x5World
}

func (t *seedC05x5Transport) Dereference(c context.Context, iri *url.URL) ([]byte, error) {
	return nil, errors.New("offline")
}

func (t *seedC05x5Transport) BatchDeliver(c context.Context, b []byte, recipients []*url.URL) error {
	var rs []string
	for _, r := range recipients {
		rs = append(rs, r.String())
	}
	t.w.log("transport.BatchDeliver %s", strings.Join(rs, ","))
	return nil
}

type seedC05x5Common struct {
	CommonBehavior
	w *seedC05x5World
}

func (p *seedC05x5Common) NewTransport(c context.Context, actorBoxIRI *url.URL, gofedAgent string) (Transport, error) {
	return &seedC05x5Transport{w: p.w}, nil
}

type seedC05x5Social struct{ SocialProtocol }

func (seedC05x5Social) PostOutboxRequestBodyHook(c context.Context, r *http.Request, data vocab.Type) (context.Context, error) {
	return c, nil
}
func (seedC05x5Social) AuthenticatePostOutbox(c context.Context, w http.ResponseWriter, r *http.Request) (context.Context, bool, error) {
	return c, true, nil
}
func (seedC05x5Social) SocialCallbacks(c context.Context) (SocialWrappedCallbacks, []interface{}, error) {
	return SocialWrappedCallbacks{}, nil, nil
}
func (seedC05x5Social) DefaultCallback(c context.Context, activity Activity) error { return nil }

type seedC05x5Fed struct{ FederatingProtocol }

func (seedC05x5Fed) MaxDeliveryRecursionDepth(c context.Context) int { return 3 }

type seedC05x5Clock struct{}

func (seedC05x5Clock) Now() time.Time { return time.Date(2020, 1, 2, 3, 4, 5, 0, time.UTC) }

// seedC05x5Post performs one client POST to the given outbox URL and returns the
// status code, the Location header and the handler error.
func seedC05x5Post(a Actor, outbox string, body string) (int, string, error) {
	req := httptest.NewRequest("POST", outbox, bytes.NewBufferString(body))
	req.Header.Set("Content-Type", "application/ld+json; profile=\"https://www.w3.org/ns/activitystreams\"")
	rec := httptest.NewRecorder()
	handled, err := a.PostOutbox(context.Background(), rec, req)
	if !handled {
		return 0, "", errors.New("request was not handled as an ActivityPub POST")
	}
	return rec.Code, rec.Header().Get("Location"), err
}

func seedC05x5Count(events []string, prefix string) int {
	n := 0
	for _, e := range events {
		if strings.HasPrefix(e, prefix) {
			n++
		}
	}
	return n
}

// seedC05x5IRIs extracts the IRIs of a serialised property value, which may be
// absent, a single string or a list of strings.
func seedC05x5IRIs(v interface{}) []string {
	switch x := v.(type) {
	case nil:
		return nil
	case string:
		return []string{x}
	case []interface{}:
		var out []string
		for _, e := range x {
			if s, ok := e.(string); ok {
				out = append(out, s)
			} else if m, ok := e.(map[string]interface{}); ok {
				if s, ok := m["id"].(string); ok {
					out = append(out, s)
				}
			}
		}
		return out
	case map[string]interface{}:
		if s, ok := x["id"].(string); ok {
			return []string{s}
		}
	}
	return nil
}

func seedC05x5Has(list []string, s string) bool {
	for _, e := range list {
		if e == s {
			return true
		}
	}
	return false
}

func seedC05x5SameSet(got []string, want ...string) bool {
	seen := map[string]bool{}
	for _, g := range got {
		seen[g] = true
	}
	if len(seen) != len(want) {
		return false
	}
	for _, w := range want {
		if !seen[w] {
			return false
		}
	}
	return true
}

// TestSeedC05_5: a client posts a Create with three embedded objects whose
// attribution overlaps only partly with the Create's actor. With the Social
// protocol enabled the Create must end with EVERY actor in EACH object's
// attributedTo (also when some other object already names that actor), every
// attributedTo entry among its actors, the addressing normalised, every object
// given a fresh id and stored, the activity stored and listed in the outbox.
func TestSeedC05_5(t *testing.T) {
	const alice = "https://example.com/alice"
	const outbox = alice + "/outbox"
	const dave = "https://example.com/dave"
	const erin = "https://remote.example/users/erin"
	const p1 = "https://remote.example/users/p1"
	const p2 = "https://remote.example/users/p2"
	const p3 = "https://remote.example/users/p3"
	const p4 = "https://remote.example/users/p4"
	body := `{"@context":"https://www.w3.org/ns/activitystreams","type":"Create",
	 "actor":"` + alice + `","to":["` + p1 + `"],"cc":["` + p2 + `"],
	 "object":[
	  {"type":"Note","content":"n0","attributedTo":["` + alice + `","` + dave + `"],"to":["` + p1 + `","` + p3 + `"]},
	  {"type":"Note","content":"n1","attributedTo":"` + erin + `","bcc":["` + p4 + `"]},
	  {"type":"Note","content":"n2"}]}`

	w := &seedC05x5World{}
	db := seedC05x5NewDB(w)
	db.owner[outbox] = alice
	db.inboxOf[alice] = alice + "/inbox"
	for _, p := range []string{p1, p2, p3, p4} {
		db.inboxOf[p] = p + "/inbox"
	}
	a := NewActor(&seedC05x5Common{w: w}, seedC05x5Social{}, seedC05x5Fed{}, db, seedC05x5Clock{})

	code, loc, err := seedC05x5Post(a, outbox, body)
	if err != nil || code != http.StatusCreated || loc == "" {
		t.Fatalf("post: code=%d loc=%q err=%v", code, loc, err)
	}
	if got := db.outbox[outbox]; len(got) != 1 || got[0] != loc {
		t.Fatalf("outbox=%v, want [%s]", got, loc)
	}
	cr, ok := db.stored[loc]
	if !ok || cr["type"] != "Create" {
		t.Fatalf("Create %s not stored: %v", loc, cr)
	}
	objs, _ := cr["object"].([]interface{})
	if len(objs) != 3 {
		t.Fatalf("stored Create has %d embedded objects, want 3: %v", len(objs), cr["object"])
	}

	// Attribution: actors <-> attributedTo.
	if got := seedC05x5IRIs(cr["actor"]); !seedC05x5SameSet(got, alice, dave, erin) {
		t.Errorf("Create actor=%v, want the set {alice, dave, erin}", got)
	}
	wantAttr := [][]string{{alice, dave}, {erin, alice}, {alice}}
	// Addressing: activity = union, each object gains the activity's.
	if got := seedC05x5IRIs(cr["to"]); !seedC05x5SameSet(got, p1, p3) {
		t.Errorf("Create to=%v, want {p1,p3}", got)
	}
	if got := seedC05x5IRIs(cr["cc"]); !seedC05x5SameSet(got, p2) {
		t.Errorf("Create cc=%v, want {p2}", got)
	}
	if got := seedC05x5IRIs(cr["bcc"]); !seedC05x5SameSet(got, p4) {
		t.Errorf("Create bcc=%v, want {p4}", got)
	}
	wantTo := [][]string{{p1, p3}, {p1}, {p1}}
	wantBcc := [][]string{nil, {p4}, nil}
	ids := map[string]bool{loc: true}
	for i, o := range objs {
		m, _ := o.(map[string]interface{})
		if m == nil {
			t.Fatalf("object %d is not embedded: %v", i, o)
		}
		id, _ := m["id"].(string)
		if !strings.HasPrefix(id, "https://example.com/fresh/note/") || ids[id] {
			t.Errorf("object %d: id %q is not a fresh, distinct id", i, id)
		}
		ids[id] = true
		// Check both the copy embedded in the stored Create and the object as
		// stored on its own.
		views := map[string]map[string]interface{}{"embedded": m}
		if sm, ok := db.stored[id]; ok {
			views["stored"] = sm
		} else {
			t.Errorf("object %d (%s) was not stored", i, id)
		}
		for name, v := range views {
			if got := seedC05x5IRIs(v["attributedTo"]); !seedC05x5SameSet(got, wantAttr[i]...) {
				t.Errorf("%s object %d (%v): attributedTo=%v, want the set %v (every actor of the Create must be in it)", name, i, v["content"], got, wantAttr[i])
			}
			if got := seedC05x5IRIs(v["to"]); !seedC05x5SameSet(got, wantTo[i]...) {
				t.Errorf("%s object %d: to=%v, want %v", name, i, got, wantTo[i])
			}
			if got := seedC05x5IRIs(v["cc"]); !seedC05x5SameSet(got, p2) {
				t.Errorf("%s object %d: cc=%v, want {p2}", name, i, got)
			}
			if got := seedC05x5IRIs(v["bcc"]); !seedC05x5SameSet(got, wantBcc[i]...) {
				t.Errorf("%s object %d: bcc=%v, want %v", name, i, got, wantBcc[i])
			}
		}
	}
	// Everything was persisted before the single delivery.
	if n := seedC05x5Count(w.events, "transport.BatchDeliver"); n != 1 || !strings.HasPrefix(w.events[len(w.events)-1], "transport.BatchDeliver") {
		t.Errorf("want exactly one delivery, as the last step; events=%v", w.events)
	}
}
