package pub

import (
	"context"
	"crypto"
	"net/http"
	"net/http/httptest"
	"net/url"
	"sync/atomic"
	"testing"
	"time"
)

type seedC19x5Clock struct{}

func (seedC19x5Clock) Now() time.Time { return time.Date(2021, 3, 4, 5, 6, 7, 0, time.UTC) }

// seedC19x5Client answers every request with 200.
type seedC19x5Client struct{}

func (seedC19x5Client) Do(req *http.Request) (*http.Response, error) {
	rec := httptest.NewRecorder()
	rec.WriteHeader(http.StatusOK)
	rec.Write([]byte("{}"))
	return rec.Result(), nil
}

// seedC19x5Signer is a stateful signer: it notes how many goroutines are
// inside SignRequest at once, announces every entry and then parks until the
// test releases it.
type seedC19x5Signer struct {
	inside    int32
	maxInside int32
	calls     int32
	entered   chan struct{}
	release   chan struct{}
}

func seedC19x5NewSigner() *seedC19x5Signer {
	return &seedC19x5Signer{entered: make(chan struct{}, 64), release: make(chan struct{})}
}

func (s *seedC19x5Signer) SignRequest(pKey crypto.PrivateKey, pubKeyId string, r *http.Request, body []byte) error {
	n := atomic.AddInt32(&s.inside, 1)
	for {
		m := atomic.LoadInt32(&s.maxInside)
		if n <= m || atomic.CompareAndSwapInt32(&s.maxInside, m, n) {
			break
		}
	}
	atomic.AddInt32(&s.calls, 1)
	s.entered <- struct{}{}
	<-s.release
	atomic.AddInt32(&s.inside, -1)
	r.Header.Set("Signature", "seedC19x5")
	return nil
}

func (s *seedC19x5Signer) SignResponse(pKey crypto.PrivateKey, pubKeyId string, r http.ResponseWriter, body []byte) error {
	return nil
}

// seedC19x5Probe runs `run` (which must end up making `want` SignRequest calls
// from several goroutines), holds the first caller inside the signer and
// checks that nobody else gets in while it is there.
func seedC19x5Probe(t *testing.T, what string, s *seedC19x5Signer, want int32, run func()) {
	t.Helper()
	done := make(chan struct{})
	go func() {
		defer close(done)
		run()
	}()
	select {
	case <-s.entered:
	case <-time.After(5 * time.Second):
		close(s.release)
		t.Fatalf("%s: signer never called", what)
	}
	// One goroutine is now parked inside the signer. With the signer
	// serialised by its mutex no second one can enter until we release.
	var second bool
	select {
	case <-s.entered:
		second = true
	case <-time.After(400 * time.Millisecond):
	}
	close(s.release)
	select {
	case <-done:
	case <-time.After(5 * time.Second):
		t.Fatalf("%s: did not finish", what)
	}
	if second || atomic.LoadInt32(&s.maxInside) > 1 {
		t.Fatalf("%s: %d goroutines were inside the shared signer at the same time; signer use is not serialised",
			what, atomic.LoadInt32(&s.maxInside))
	}
	if got := atomic.LoadInt32(&s.calls); got != want {
		t.Fatalf("%s: %d SignRequest calls, want %d", what, got, want)
	}
}

func TestSeedC19_5(t *testing.T) {
	ctx := context.Background()
	mk := func(s string) *url.URL {
		u, err := url.Parse(s)
		if err != nil {
			t.Fatal(err)
		}
		return u
	}
	// Goroutines inside one batch share the POST signer.
	{
		gs, ps := seedC19x5NewSigner(), seedC19x5NewSigner()
		tp := NewHttpSigTransport(seedC19x5Client{}, "seedApp", seedC19x5Clock{}, gs, ps, "key#1", []byte("k"))
		rcpts := []*url.URL{mk("https://a.example/inbox"), mk("https://b.example/inbox"), mk("https://c.example/inbox")}
		seedC19x5Probe(t, "one BatchDeliver of 3", ps, 3, func() {
			if err := tp.BatchDeliver(ctx, []byte(`{"a":1}`), rcpts); err != nil {
				t.Errorf("BatchDeliver: %v", err)
			}
		})
	}
	// Two batches on one transport value, run concurrently.
	{
		gs, ps := seedC19x5NewSigner(), seedC19x5NewSigner()
		tp := NewHttpSigTransport(seedC19x5Client{}, "seedApp", seedC19x5Clock{}, gs, ps, "key#1", []byte("k"))
		seedC19x5Probe(t, "two concurrent BatchDeliver of 1", ps, 2, func() {
			d := make(chan struct{})
			go func() {
				defer close(d)
				if err := tp.BatchDeliver(ctx, []byte(`{"a":1}`), []*url.URL{mk("https://a.example/inbox")}); err != nil {
					t.Errorf("BatchDeliver: %v", err)
				}
			}()
			if err := tp.BatchDeliver(ctx, []byte(`{"b":2}`), []*url.URL{mk("https://b.example/inbox")}); err != nil {
				t.Errorf("BatchDeliver: %v", err)
			}
			<-d
		})
	}
	// Concurrent dereferences share the GET signer.
	{
		gs, ps := seedC19x5NewSigner(), seedC19x5NewSigner()
		tp := NewHttpSigTransport(seedC19x5Client{}, "seedApp", seedC19x5Clock{}, gs, ps, "key#1", []byte("k"))
		seedC19x5Probe(t, "two concurrent Dereference", gs, 2, func() {
			d := make(chan struct{})
			go func() {
				defer close(d)
				if _, err := tp.Dereference(ctx, mk("https://a.example/x")); err != nil {
					t.Errorf("Dereference: %v", err)
				}
			}()
			if _, err := tp.Dereference(ctx, mk("https://b.example/y")); err != nil {
				t.Errorf("Dereference: %v", err)
			}
			<-d
		})
	}
}
