package streams

import (
	"testing"

	"github.com/go-fed/activity/streams/vocab"
)

// seedC13x5side bundles one type's value with its package-level
// IsDisjointWith predicate.
type seedC13x5side struct {
	name     string
	value    vocab.Type
	disjoint func(vocab.Type) bool
}

// TestSeedC13_5 checks the disjointness predicate of the Link family against
// representatives of every root of the shipped type forest: the Object tree
// (ActivityStreams, ForgeFed and Toot members), the Link tree itself, and the
// W3ID security vocabulary's PublicKey, which has no ancestors and no
// disjointness declaration at all. Disjointness must be symmetric and must
// hold only where an ancestor-or-self is declared disjoint.
func TestSeedC13_5(t *testing.T) {
	link := seedC13x5side{"Link", NewActivityStreamsLink(), ActivityStreamsLinkIsDisjointWith}
	mention := seedC13x5side{"Mention", NewActivityStreamsMention(), ActivityStreamsMentionIsDisjointWith}
	others := []struct {
		seedC13x5side
		want bool // disjoint with Link (and, by inheritance, with Mention)?
	}{
		{seedC13x5side{"Object", NewActivityStreamsObject(), ActivityStreamsObjectIsDisjointWith}, true},
		{seedC13x5side{"Note", NewActivityStreamsNote(), ActivityStreamsNoteIsDisjointWith}, true},
		{seedC13x5side{"OrderedCollectionPage", NewActivityStreamsOrderedCollectionPage(), ActivityStreamsOrderedCollectionPageIsDisjointWith}, true},
		{seedC13x5side{"View", NewActivityStreamsView(), ActivityStreamsViewIsDisjointWith}, true},
		{seedC13x5side{"Push", NewForgeFedPush(), ForgeFedPushIsDisjointWith}, true},
		{seedC13x5side{"TicketDependency", NewForgeFedTicketDependency(), ForgeFedTicketDependencyIsDisjointWith}, true},
		{seedC13x5side{"Emoji", NewTootEmoji(), TootEmojiIsDisjointWith}, true},
		{seedC13x5side{"Link", NewActivityStreamsLink(), ActivityStreamsLinkIsDisjointWith}, false},
		{seedC13x5side{"Mention", NewActivityStreamsMention(), ActivityStreamsMentionIsDisjointWith}, false},
		{seedC13x5side{"PublicKey", NewW3IDSecurityV1PublicKey(), W3IDSecurityV1PublicKeyIsDisjointWith}, false},
	}
	for _, l := range []seedC13x5side{link, mention} {
		for _, o := range others {
			if got := l.disjoint(o.value); got != o.want {
				t.Errorf("%sIsDisjointWith(%s) = %v, want %v", l.name, o.name, got, o.want)
			}
			if got := o.disjoint(l.value); got != o.want {
				t.Errorf("%sIsDisjointWith(%s) = %v, want %v", o.name, l.name, got, o.want)
			}
			if a, b := l.disjoint(o.value), o.disjoint(l.value); a != b {
				t.Errorf("disjointness not symmetric for (%s, %s): %v vs %v", l.name, o.name, a, b)
			}
		}
	}
}
