package pub

import (
	"bytes"
	"context"
	"errors"
	"fmt"
	"net/http"
	"net/http/httptest"
	"net/url"
	"strings"
	"sync"
	"testing"
	"time"

	"github.com/go-fed/activity/streams"
	"github.com/go-fed/activity/streams/vocab"
)

// ---------------------------------------------------------------------------
// Self-contained in-memory fakes (no gomock): a Database that snapshots values
// by serialising them at the moment they are stored (like a real database
// would), a Transport that records deliveries, and trivial protocol hooks.
// Every fake appends to one shared event log so orderings can be asserted.
// ---------------------------------------------------------------------------

type seedC05x6World struct {
	mu     sync.Mutex
	events []string
}

func (w *seedC05x6World) log(format string, a ...interface{}) {
	w.mu.Lock()
	defer w.mu.Unlock()
	w.events = append(w.events, fmt.Sprintf(format, a...))
}

func seedC05x6MustURL(s string) *url.URL {
	u, err := url.Parse(s)
	if err != nil {
		panic(err)
	}
	return u
}

type seedC05x6DB struct {
	Database // nil: any method not overridden below panics if the library calls it
	w        *seedC05x6World
	mu       sync.Mutex
	nextID   int
	// stored holds the JSON snapshot taken when Create was called.
	stored map[string]map[string]interface{}
	// outbox maps outbox IRI -> activity ids, newest first.
	outbox map[string][]string
	// owner maps outbox IRI -> actor IRI; inboxOf maps actor IRI -> inbox IRI.
	owner   map[string]string
	inboxOf map[string]string
	// fault injection
	failSetOutbox bool
	failGetOutbox bool
	failCreateFor func(t vocab.Type) bool
}

func seedC05x6NewDB(w *seedC05x6World) *seedC05x6DB {
	return &seedC05x6DB{
		w:       w,
		stored:  map[string]map[string]interface{}{},
		outbox:  map[string][]string{},
		owner:   map[string]string{},
		inboxOf: map[string]string{},
	}
}

func (d *seedC05x6DB) Lock(c context.Context, id *url.URL) error   { return nil }
func (d *seedC05x6DB) Unlock(c context.Context, id *url.URL) error { return nil }

func (d *seedC05x6DB) NewID(c context.Context, t vocab.Type) (*url.URL, error) {
	d.mu.Lock()
	defer d.mu.Unlock()
	d.nextID++
	return seedC05x6MustURL(fmt.Sprintf("https://example.com/fresh/%s/%d", strings.ToLower(t.GetTypeName()), d.nextID)), nil
}

func (d *seedC05x6DB) ActorForOutbox(c context.Context, outboxIRI *url.URL) (*url.URL, error) {
	d.mu.Lock()
	defer d.mu.Unlock()
	a, ok := d.owner[outboxIRI.String()]
	if !ok {
		return nil, fmt.Errorf("no such outbox %s", outboxIRI)
	}
	return seedC05x6MustURL(a), nil
}

func (d *seedC05x6DB) InboxForActor(c context.Context, actorIRI *url.URL) (*url.URL, error) {
	d.mu.Lock()
	defer d.mu.Unlock()
	if in, ok := d.inboxOf[actorIRI.String()]; ok {
		return seedC05x6MustURL(in), nil
	}
	return nil, nil
}

func (d *seedC05x6DB) Get(c context.Context, id *url.URL) (vocab.Type, error) {
	d.mu.Lock()
	defer d.mu.Unlock()
	if in, ok := d.inboxOf[id.String()]; ok {
		p := streams.NewActivityStreamsPerson()
		idp := streams.NewJSONLDIdProperty()
		idp.Set(id)
		p.SetJSONLDId(idp)
		inbox := streams.NewActivityStreamsInboxProperty()
		inbox.SetIRI(seedC05x6MustURL(in))
		p.SetActivityStreamsInbox(inbox)
		return p, nil
	}
	if m, ok := d.stored[id.String()]; ok {
		return streams.ToType(c, m)
	}
	return nil, fmt.Errorf("not found: %s", id)
}

func (d *seedC05x6DB) Create(c context.Context, t vocab.Type) error {
	if d.failCreateFor != nil && d.failCreateFor(t) {
		d.w.log("db.Create FAILED %s", t.GetTypeName())
		return errors.New("injected: Create failed")
	}
	id, err := GetId(t)
	if err != nil {
		return err
	}
	m, err := streams.Serialize(t)
	if err != nil {
		return err
	}
	d.mu.Lock()
	d.stored[id.String()] = m
	d.mu.Unlock()
	d.w.log("db.Create %s %s", t.GetTypeName(), id)
	return nil
}

func (d *seedC05x6DB) GetOutbox(c context.Context, outboxIRI *url.URL) (vocab.ActivityStreamsOrderedCollectionPage, error) {
	if d.failGetOutbox {
		d.w.log("db.GetOutbox FAILED %s", outboxIRI)
		return nil, errors.New("injected: GetOutbox failed")
	}
	d.mu.Lock()
	defer d.mu.Unlock()
	p := streams.NewActivityStreamsOrderedCollectionPage()
	idp := streams.NewJSONLDIdProperty()
	idp.Set(outboxIRI)
	p.SetJSONLDId(idp)
	oi := streams.NewActivityStreamsOrderedItemsProperty()
	for _, s := range d.outbox[outboxIRI.String()] {
		oi.AppendIRI(seedC05x6MustURL(s))
	}
	p.SetActivityStreamsOrderedItems(oi)
	return p, nil
}

func (d *seedC05x6DB) SetOutbox(c context.Context, p vocab.ActivityStreamsOrderedCollectionPage) error {
	id, err := GetId(p)
	if err != nil {
		return err
	}
	if d.failSetOutbox {
		d.w.log("db.SetOutbox FAILED %s", id)
		return errors.New("injected: SetOutbox failed")
	}
	var items []string
	if oi := p.GetActivityStreamsOrderedItems(); oi != nil {
		for it := oi.Begin(); it != oi.End(); it = it.Next() {
			u, err := ToId(it)
			if err != nil {
				return err
			}
			items = append(items, u.String())
		}
	}
	d.mu.Lock()
	d.outbox[id.String()] = items
	d.mu.Unlock()
	d.w.log("db.SetOutbox %s", id)
	return nil
}

type seedC05x6Transport struct {
	Transport
	w *seedC05x6World
}

func (t *seedC05x6Transport) Dereference(c context.Context, iri *url.URL) ([]byte, error) {
	return nil, errors.New("offline")
}

func (t *seedC05x6Transport) BatchDeliver(c context.Context, b []byte, recipients []*url.URL) error {
	var rs []string
	for _, r := range recipients {
		rs = append(rs, r.String())
	}
	t.w.log("transport.BatchDeliver %s", strings.Join(rs, ","))
	return nil
}

type seedC05x6Common struct {
	CommonBehavior
	w *seedC05x6World
}

func (p *seedC05x6Common) NewTransport(c context.Context, actorBoxIRI *url.URL, gofedAgent string) (Transport, error) {
	return &seedC05x6Transport{w: p.w}, nil
}

type seedC05x6Social struct{ SocialProtocol }

func (seedC05x6Social) PostOutboxRequestBodyHook(c context.Context, r *http.Request, data vocab.Type) (context.Context, error) {
	return c, nil
}
func (seedC05x6Social) AuthenticatePostOutbox(c context.Context, w http.ResponseWriter, r *http.Request) (context.Context, bool, error) {
	return c, true, nil
}
func (seedC05x6Social) SocialCallbacks(c context.Context) (SocialWrappedCallbacks, []interface{}, error) {
	return SocialWrappedCallbacks{}, nil, nil
}
func (seedC05x6Social) DefaultCallback(c context.Context, activity Activity) error { return nil }

type seedC05x6Fed struct{ FederatingProtocol }

func (seedC05x6Fed) MaxDeliveryRecursionDepth(c context.Context) int { return 3 }

type seedC05x6Clock struct{}

func (seedC05x6Clock) Now() time.Time { return time.Date(2020, 1, 2, 3, 4, 5, 0, time.UTC) }

// seedC05x6Post performs one client POST to the given outbox URL and returns the
// status code, the Location header and the handler error.
func seedC05x6Post(a Actor, outbox string, body string) (int, string, error) {
	req := httptest.NewRequest("POST", outbox, bytes.NewBufferString(body))
	req.Header.Set("Content-Type", "application/ld+json; profile=\"https://www.w3.org/ns/activitystreams\"")
	rec := httptest.NewRecorder()
	handled, err := a.PostOutbox(context.Background(), rec, req)
	if !handled {
		return 0, "", errors.New("request was not handled as an ActivityPub POST")
	}
	return rec.Code, rec.Header().Get("Location"), err
}

func seedC05x6Count(events []string, prefix string) int {
	n := 0
	for _, e := range events {
		if strings.HasPrefix(e, prefix) {
			n++
		}
	}
	return n
}

// seedC05x6IRIs extracts the IRIs of a serialised property value, which may be
// absent, a single string or a list of strings.
func seedC05x6IRIs(v interface{}) []string {
	switch x := v.(type) {
	case nil:
		return nil
	case string:
		return []string{x}
	case []interface{}:
		var out []string
		for _, e := range x {
			if s, ok := e.(string); ok {
				out = append(out, s)
			} else if m, ok := e.(map[string]interface{}); ok {
				if s, ok := m["id"].(string); ok {
					out = append(out, s)
				}
			}
		}
		return out
	case map[string]interface{}:
		if s, ok := x["id"].(string); ok {
			return []string{s}
		}
	}
	return nil
}

func seedC05x6Has(list []string, s string) bool {
	for _, e := range list {
		if e == s {
			return true
		}
	}
	return false
}

// seedC05x6StoredCreate returns the stored (serialised) Create with the given id.
func seedC05x6StoredCreate(t *testing.T, db *seedC05x6DB, id string) map[string]interface{} {
	m, ok := db.stored[id]
	if !ok {
		t.Fatalf("activity %s was not stored; have %d stored values", id, len(db.stored))
	}
	if m["type"] != "Create" {
		t.Fatalf("stored %s is a %v, want Create", id, m["type"])
	}
	return m
}

// TestSeedC05_6: one Actor value serves the outboxes of many users. A bare
// object posted to an outbox is wrapped in a Create whose actor is the owner of
// THAT outbox (and that owner is added to the object's attributedTo), whatever
// was posted before to other outboxes through the same Actor; each outbox then
// lists exactly the ids returned for it, newest first.
func TestSeedC05_6(t *testing.T) {
	const alice = "https://example.com/alice"
	const bob = "https://example.com/bob"
	const carol = "https://example.com/carol"
	const peer = "https://remote.example/users/zed"
	note := func(s string) string {
		return `{"@context":"https://www.w3.org/ns/activitystreams","type":"Note","content":"` + s + `","to":["` + peer + `"]}`
	}

	w := &seedC05x6World{}
	db := seedC05x6NewDB(w)
	for _, who := range []string{alice, bob, carol} {
		db.owner[who+"/outbox"] = who
		db.inboxOf[who] = who + "/inbox"
	}
	db.inboxOf[peer] = peer + "/inbox"
	a := NewActor(&seedC05x6Common{w: w}, seedC05x6Social{}, seedC05x6Fed{}, db, seedC05x6Clock{})

	// A history of posts to the same and to different outboxes.
	seq := []string{alice, alice, bob, carol, bob, alice}
	want := map[string][]string{}
	for i, who := range seq {
		code, loc, err := seedC05x6Post(a, who+"/outbox", note(fmt.Sprintf("post %d", i)))
		if err != nil || code != http.StatusCreated || loc == "" {
			t.Fatalf("post %d to %s: code=%d loc=%q err=%v", i, who, code, loc, err)
		}
		want[who] = append([]string{loc}, want[who]...)

		cr := seedC05x6StoredCreate(t, db, loc)
		if got := seedC05x6IRIs(cr["actor"]); len(got) != 1 || got[0] != who {
			t.Errorf("post %d to %s/outbox: stored Create %s has actor %v, want [%s]", i, who, loc, got, who)
		}
		// The embedded (and separately stored) Note must be attributed to the
		// owner of the outbox it was posted to, and to nobody else.
		obj, _ := cr["object"].(map[string]interface{})
		if obj == nil {
			t.Fatalf("post %d: stored Create has no embedded object: %v", i, cr)
		}
		if got := seedC05x6IRIs(obj["attributedTo"]); len(got) != 1 || got[0] != who {
			t.Errorf("post %d to %s/outbox: embedded Note attributedTo=%v, want [%s]", i, who, got, who)
		}
		objID, _ := obj["id"].(string)
		if sn, ok := db.stored[objID]; !ok {
			t.Errorf("post %d: Note %q was not stored", i, objID)
		} else if got := seedC05x6IRIs(sn["attributedTo"]); len(got) != 1 || got[0] != who {
			t.Errorf("post %d to %s/outbox: stored Note attributedTo=%v, want [%s]", i, who, got, who)
		}
	}
	for _, who := range []string{alice, bob, carol} {
		got := db.outbox[who+"/outbox"]
		if strings.Join(got, " ") != strings.Join(want[who], " ") {
			t.Errorf("%s/outbox lists %v, want %v", who, got, want[who])
		}
	}
	if n := seedC05x6Count(w.events, "transport.BatchDeliver"); n != len(seq) {
		t.Errorf("%d deliveries for %d posts", n, len(seq))
	}
}
