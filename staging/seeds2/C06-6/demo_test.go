package pub

import (
	"context"
	"net/http"
	"net/http/httptest"
	"net/url"
	"testing"

	"github.com/go-fed/activity/streams"
	"github.com/go-fed/activity/streams/vocab"
	"github.com/golang/mock/gomock"
)

// TestSeedC06_6: when the application's block check cannot give an answer
// (Blocked returns an error) the inbox request fails and nothing is stored -
// exactly as when the answer is "blocked". Drives the real baseActor on top of
// the real sideEffectActor; only the application interfaces are faked.
func TestSeedC06_6(t *testing.T) {
	setupData()
	ctx := context.Background()

	type seedC06x6result struct {
		handled bool
		err     error
		code    int
		asked   [][]string // arguments of each Blocked call
		writes  []string   // database mutations, in order
	}

	run := func(t *testing.T, blocked bool, blockedErr error) seedC06x6result {
		var res seedC06x6result
		ctl := gomock.NewController(t)
		defer ctl.Finish()
		common := NewMockCommonBehavior(ctl)
		fp := NewMockFederatingProtocol(ctl)
		sp := NewMockSocialProtocol(ctl)
		db := NewMockDatabase(ctl)
		cl := NewMockClock(ctl)

		fp.EXPECT().AuthenticatePostInbox(gomock.Any(), gomock.Any(), gomock.Any()).DoAndReturn(
			func(c context.Context, w http.ResponseWriter, r *http.Request) (context.Context, bool, error) {
				return c, true, nil
			}).AnyTimes()
		fp.EXPECT().PostInboxRequestBodyHook(gomock.Any(), gomock.Any(), gomock.Any()).DoAndReturn(
			func(c context.Context, r *http.Request, a Activity) (context.Context, error) {
				return c, nil
			}).AnyTimes()
		fp.EXPECT().Blocked(gomock.Any(), gomock.Any()).DoAndReturn(
			func(c context.Context, iris []*url.URL) (bool, error) {
				if len(res.writes) != 0 {
					t.Errorf("Blocked consulted after side effects %v", res.writes)
				}
				var s []string
				for _, u := range iris {
					s = append(s, u.String())
				}
				res.asked = append(res.asked, s)
				return blocked, blockedErr
			}).AnyTimes()
		fp.EXPECT().FederatingCallbacks(gomock.Any()).Return(FederatingWrappedCallbacks{}, nil, nil).AnyTimes()
		fp.EXPECT().DefaultCallback(gomock.Any(), gomock.Any()).Return(nil).AnyTimes()

		db.EXPECT().Lock(gomock.Any(), gomock.Any()).Return(nil).AnyTimes()
		db.EXPECT().Unlock(gomock.Any(), gomock.Any()).Return(nil).AnyTimes()
		db.EXPECT().InboxContains(gomock.Any(), gomock.Any(), gomock.Any()).Return(false, nil).AnyTimes()
		db.EXPECT().GetInbox(gomock.Any(), gomock.Any()).DoAndReturn(
			func(c context.Context, u *url.URL) (vocab.ActivityStreamsOrderedCollectionPage, error) {
				return streams.NewActivityStreamsOrderedCollectionPage(), nil
			}).AnyTimes()
		db.EXPECT().SetInbox(gomock.Any(), gomock.Any()).DoAndReturn(
			func(c context.Context, p vocab.ActivityStreamsOrderedCollectionPage) error {
				res.writes = append(res.writes, "SetInbox")
				return nil
			}).AnyTimes()
		db.EXPECT().Create(gomock.Any(), gomock.Any()).DoAndReturn(
			func(c context.Context, v vocab.Type) error {
				res.writes = append(res.writes, "Create "+v.GetTypeName())
				return nil
			}).AnyTimes()
		db.EXPECT().Update(gomock.Any(), gomock.Any()).DoAndReturn(
			func(c context.Context, v vocab.Type) error {
				res.writes = append(res.writes, "Update "+v.GetTypeName())
				return nil
			}).AnyTimes()
		db.EXPECT().Delete(gomock.Any(), gomock.Any()).DoAndReturn(
			func(c context.Context, u *url.URL) error {
				res.writes = append(res.writes, "Delete "+u.String())
				return nil
			}).AnyTimes()
		// Short-circuit inbox forwarding: pretend the activity is known.
		db.EXPECT().Exists(gomock.Any(), gomock.Any()).Return(true, nil).AnyTimes()

		a := NewCustomActor(
			&sideEffectActor{common: common, s2s: fp, c2s: sp, db: db, clock: cl},
			/*enableSocialProtocol=*/ false,
			/*enableFederatedProtocol=*/ true,
			cl)
		resp := httptest.NewRecorder()
		req := toAPRequest(toPostInboxRequest(testCreate))
		res.handled, res.err = a.PostInbox(ctx, resp, req)
		res.code = resp.Code
		return res
	}

	// Control: not blocked -> processed, Blocked asked first about the actor.
	t.Run("NotBlockedIsProcessed", func(t *testing.T) {
		r := run(t, false, nil)
		if r.err != nil || !r.handled || r.code != http.StatusOK {
			t.Fatalf("unblocked request: handled=%v err=%v code=%d", r.handled, r.err, r.code)
		}
		if len(r.asked) != 1 || len(r.asked[0]) != 1 || r.asked[0][0] != testFederatedActorIRI {
			t.Fatalf("Blocked asked about %v, want [[%s]]", r.asked, testFederatedActorIRI)
		}
		if len(r.writes) == 0 {
			t.Fatalf("expected the Create to be stored")
		}
	})
	// Control: blocked -> 403, nothing stored.
	t.Run("BlockedIsRefused", func(t *testing.T) {
		r := run(t, true, nil)
		if r.err != nil || !r.handled || r.code != http.StatusForbidden {
			t.Fatalf("blocked request: handled=%v err=%v code=%d", r.handled, r.err, r.code)
		}
		if len(r.writes) != 0 {
			t.Fatalf("blocked request caused %v", r.writes)
		}
	})
	// The application could not decide (e.g. its block-list lookup failed).
	t.Run("BlockedErrorFailsRequestWithoutSideEffects", func(t *testing.T) {
		r := run(t, false, testErr)
		if len(r.asked) != 1 {
			t.Fatalf("Blocked asked %d times", len(r.asked))
		}
		if r.err == nil {
			t.Errorf("PostInbox reported success (status %d) although Blocked failed", r.code)
		}
		if r.code == http.StatusOK && r.err == nil {
			t.Errorf("peer was answered 200 OK although the block check failed")
		}
		if len(r.writes) != 0 {
			t.Errorf("side effects happened although the block check failed: %v", r.writes)
		}
	})
}
