package streams

import (
	"context"
	"encoding/json"
	"testing"

	"github.com/go-fed/activity/streams/vocab"
)

// seedC12x6Doc is a PeerTube-flavoured Video: its id is a URN, and its url
// list mixes a plain IRI, an opaque (authority-less) IRI and a Link whose href
// is an opaque IRI. All of these are in the declared ranges (xsd:anyURI).
const seedC12x6Doc = `{
  "@context": "https://www.w3.org/ns/activitystreams",
  "type": "Video",
  "id": "urn:uuid:6ba7b810-9dad-11d1-80b4-00c04fd430c8",
  "name": "A video",
  "url": [
    "https://example.com/videos/1.mp4",
    "magnet:?xt=urn:btih:c12fe1c06bba254a9dc9f519b335aa7c1367a88a",
    {
      "type": "Link",
      "mediaType": "application/x-bittorrent;x-scheme-handler/magnet",
      "href": "magnet:?xt=urn:btih:c12fe1c06bba254a9dc9f519b335aa7c1367a88a"
    },
    {
      "type": "Link",
      "href": "https://example.com/videos/1.torrent"
    }
  ],
  "attributedTo": {
    "type": "Person",
    "id": "https://example.com/users/alice",
    "url": "mailto:alice@example.com"
  }
}`

func TestSeedC12_6(t *testing.T) {
	var m map[string]interface{}
	if err := json.Unmarshal([]byte(seedC12x6Doc), &m); err != nil {
		t.Fatal(err)
	}
	ty, err := ToType(context.Background(), m)
	if err != nil {
		t.Fatalf("ToType: %v", err)
	}
	vid, ok := ty.(vocab.ActivityStreamsVideo)
	if !ok {
		t.Fatalf("decoded %T, want Video", ty)
	}

	// id: xsd:anyURI.
	id := vid.GetJSONLDId()
	if id == nil {
		t.Fatal("no id property")
	}
	if !id.IsXMLSchemaAnyURI() || id.Get() == nil || id.Get().String() != "urn:uuid:6ba7b810-9dad-11d1-80b4-00c04fd430c8" {
		t.Errorf("id: IsXMLSchemaAnyURI=%v Get=%v, want the URN as an xsd:anyURI value", id.IsXMLSchemaAnyURI(), id.Get())
	}

	// url: xsd:anyURI | Link, non-functional, ordered.
	u := vid.GetActivityStreamsUrl()
	if u == nil || u.Len() != 4 {
		t.Fatalf("url: want 4 ordered values, got %v", u)
	}
	if it := u.At(0); !it.IsXMLSchemaAnyURI() || it.GetXMLSchemaAnyURI().String() != "https://example.com/videos/1.mp4" {
		t.Errorf("control url[0]: not decoded as xsd:anyURI https IRI")
	}
	const magnet = "magnet:?xt=urn:btih:c12fe1c06bba254a9dc9f519b335aa7c1367a88a"
	if it := u.At(1); !it.IsXMLSchemaAnyURI() || it.GetXMLSchemaAnyURI() == nil || it.GetXMLSchemaAnyURI().String() != magnet {
		t.Errorf("url[1]: IsXMLSchemaAnyURI=%v value=%v, want xsd:anyURI %s", it.IsXMLSchemaAnyURI(), it.GetXMLSchemaAnyURI(), magnet)
	}
	if it := u.At(2); !it.IsActivityStreamsLink() {
		t.Errorf("url[2]: not decoded as a Link")
	} else {
		href := it.GetActivityStreamsLink().GetActivityStreamsHref()
		if href == nil {
			t.Errorf("url[2].href: missing")
		} else if !href.IsXMLSchemaAnyURI() || href.Get() == nil || href.Get().String() != magnet {
			t.Errorf("url[2].href: IsXMLSchemaAnyURI=%v Get=%v, want xsd:anyURI %s", href.IsXMLSchemaAnyURI(), href.Get(), magnet)
		}
	}
	if it := u.At(3); !it.IsActivityStreamsLink() {
		t.Errorf("control url[3]: not decoded as a Link")
	} else if href := it.GetActivityStreamsLink().GetActivityStreamsHref(); href == nil || !href.IsXMLSchemaAnyURI() || href.Get().String() != "https://example.com/videos/1.torrent" {
		t.Errorf("control url[3].href: not decoded as xsd:anyURI https IRI")
	}

	// Nested actor: url is a mailto: IRI.
	at := vid.GetActivityStreamsAttributedTo()
	if at == nil || at.Len() != 1 || !at.At(0).IsActivityStreamsPerson() {
		t.Fatalf("attributedTo: want one Person")
	}
	pu := at.At(0).GetActivityStreamsPerson().GetActivityStreamsUrl()
	if pu == nil || pu.Len() != 1 {
		t.Fatalf("attributedTo.url: want one value")
	}
	if it := pu.At(0); !it.IsXMLSchemaAnyURI() || it.GetXMLSchemaAnyURI() == nil || it.GetXMLSchemaAnyURI().String() != "mailto:alice@example.com" {
		t.Errorf("attributedTo.url: IsXMLSchemaAnyURI=%v value=%v, want xsd:anyURI mailto:alice@example.com", it.IsXMLSchemaAnyURI(), it.GetXMLSchemaAnyURI())
	}
}
