package streams

import (
	"testing"

	"github.com/go-fed/activity/streams/vocab"
)

// seedC13x4pair is one (descendant, ancestor) pair whose subclass link crosses
// a vocabulary boundary: the descendant is declared in an extension vocabulary
// (ForgeFed, Toot) while the ancestor lives in ActivityStreams.
type seedC13x4pair struct {
	name string
	// child is a value of the descendant type.
	child vocab.Type
	// parent is a value of the ancestor type.
	parent vocab.Type
	// extendedBy is "<Ancestor>IsExtendedBy".
	extendedBy func(vocab.Type) bool
	// isOrExtends is "IsOrExtends<Ancestor>".
	isOrExtends func(vocab.Type) bool
	// extends is "<Descendant>Extends".
	extends func(vocab.Type) bool
}

// TestSeedC13_4 checks that extends / extended-by / is-or-extends stay
// converses of each other for the subclass links that cross from an extension
// vocabulary into ActivityStreams, including the transitive ones
// (Push -> Activity -> Object, TicketDependency -> Relationship -> Object).
func TestSeedC13_4(t *testing.T) {
	push := NewForgeFedPush()
	dep := NewForgeFedTicketDependency()
	emoji := NewTootEmoji()
	activity := NewActivityStreamsActivity()
	object := NewActivityStreamsObject()
	relationship := NewActivityStreamsRelationship()
	pairs := []seedC13x4pair{
		{"Push<Activity", push, activity, ActivityStreamsActivityIsExtendedBy, IsOrExtendsActivityStreamsActivity, ForgeFedForgeFedPushExtends},
		{"Push<Object", push, object, ActivityStreamsObjectIsExtendedBy, IsOrExtendsActivityStreamsObject, ForgeFedForgeFedPushExtends},
		{"TicketDependency<Relationship", dep, relationship, ActivityStreamsRelationshipIsExtendedBy, IsOrExtendsActivityStreamsRelationship, ForgeFedForgeFedTicketDependencyExtends},
		{"TicketDependency<Object", dep, object, ActivityStreamsObjectIsExtendedBy, IsOrExtendsActivityStreamsObject, ForgeFedForgeFedTicketDependencyExtends},
		{"Emoji<Object", emoji, object, ActivityStreamsObjectIsExtendedBy, IsOrExtendsActivityStreamsObject, TootTootEmojiExtends},
	}
	for _, p := range pairs {
		if !p.extends(p.parent) {
			t.Errorf("%s: <child>Extends(parent) = false, want true", p.name)
		}
		if ext, ok := p.child.(interface{ IsExtending(vocab.Type) bool }); !ok {
			t.Errorf("%s: child has no IsExtending method", p.name)
		} else if !ext.IsExtending(p.parent) {
			t.Errorf("%s: child.IsExtending(parent) = false, want true", p.name)
		}
		if !p.extendedBy(p.child) {
			t.Errorf("%s: <parent>IsExtendedBy(child) = false, want true (converse of Extends)", p.name)
		}
		if !p.isOrExtends(p.child) {
			t.Errorf("%s: IsOrExtends<parent>(child) = false, want true", p.name)
		}
		// The reverse direction must not hold.
		if p.extendedBy(p.parent) {
			t.Errorf("%s: <parent>IsExtendedBy(parent) = true, want false", p.name)
		}
	}
	// Same-vocabulary control: these must hold before and after.
	if !ActivityStreamsActivityIsExtendedBy(NewActivityStreamsCreate()) {
		t.Errorf("ActivityIsExtendedBy(Create) = false, want true")
	}
	// A non-Activity from the extension vocabulary must not be an Activity.
	if IsOrExtendsActivityStreamsActivity(NewForgeFedTicket()) {
		t.Errorf("IsOrExtendsActivity(Ticket) = true, want false")
	}
}
