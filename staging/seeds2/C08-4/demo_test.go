package pub

import (
	"context"
	"fmt"
	"net/url"
	"sync"
	"testing"
	"time"

	"github.com/go-fed/activity/streams"
	"github.com/go-fed/activity/streams/vocab"
)

// Demonstration for seed C08/4.
//
// Two Add activities are handled concurrently by the federating 'add' side
// effect. Both name the same two owned collections as 'target', but in
// opposite order. Each request is parked inside its first Database.Update
// call (i.e. while it is inside the critical section of its first target)
// until the other request has reached the same point; then both are let go.
//
// The application's locks are a per-id lock manager that, like a real database
// lock manager, refuses (returns an error from Lock) when granting the wait
// would close a wait-for cycle. With correct per-target lock scoping no request
// ever waits while holding another lock, so no cycle can form.

type seedC08x4ctxKey struct{}

// seedC08x4DB is a minimal in-memory Database with real per-id mutual
// exclusion. Only the methods used by the 'add' side effect are implemented;
// the embedded nil interface makes any other call panic.
type seedC08x4DB struct {
	Database

	mu      sync.Mutex
	cond    *sync.Cond
	holder  map[string]string // lock id -> request name
	waiting map[string]string // request name -> lock id it waits for
	data    map[string]vocab.Type

	// first Update call of each request parks here.
	parked   map[string]bool
	atUpdate chan string
	release  chan struct{}
}

func seedC08x4NewDB() *seedC08x4DB {
	d := &seedC08x4DB{
		holder:   make(map[string]string),
		waiting:  make(map[string]string),
		data:     make(map[string]vocab.Type),
		parked:   make(map[string]bool),
		atUpdate: make(chan string, 4),
		release:  make(chan struct{}),
	}
	d.cond = sync.NewCond(&d.mu)
	return d
}

func seedC08x4Req(c context.Context) string {
	s, _ := c.Value(seedC08x4ctxKey{}).(string)
	return s
}

func (d *seedC08x4DB) Lock(c context.Context, id *url.URL) error {
	me := seedC08x4Req(c)
	k := id.String()
	d.mu.Lock()
	defer d.mu.Unlock()
	for {
		h, held := d.holder[k]
		if !held {
			d.holder[k] = me
			delete(d.waiting, me)
			return nil
		}
		if h == me {
			return fmt.Errorf("deadlock: %s locks %s twice", me, k)
		}
		// Would waiting close a cycle? Follow the wait-for chain.
		cur := h
		for i := 0; i < 8; i++ {
			w, ok := d.waiting[cur]
			if !ok {
				break
			}
			next, ok := d.holder[w]
			if !ok {
				break
			}
			if next == me {
				delete(d.waiting, me)
				return fmt.Errorf("deadlock: %s waits for %s held by %s, which (transitively) waits for a lock held by %s", me, k, h, me)
			}
			cur = next
		}
		d.waiting[me] = k
		d.cond.Wait()
	}
}

func (d *seedC08x4DB) Unlock(c context.Context, id *url.URL) error {
	d.mu.Lock()
	defer d.mu.Unlock()
	if d.holder[id.String()] == seedC08x4Req(c) {
		delete(d.holder, id.String())
	}
	d.cond.Broadcast()
	return nil
}

func (d *seedC08x4DB) Owns(c context.Context, id *url.URL) (bool, error) {
	d.mu.Lock()
	defer d.mu.Unlock()
	_, ok := d.data[id.String()]
	return ok, nil
}

func (d *seedC08x4DB) Get(c context.Context, id *url.URL) (vocab.Type, error) {
	d.mu.Lock()
	v, ok := d.data[id.String()]
	d.mu.Unlock()
	if !ok {
		return nil, fmt.Errorf("no such entry: %s", id)
	}
	// Hand out a private copy, as a real database would.
	m, err := streams.Serialize(v)
	if err != nil {
		return nil, err
	}
	return streams.ToType(c, m)
}

func (d *seedC08x4DB) Update(c context.Context, t vocab.Type) error {
	me := seedC08x4Req(c)
	d.mu.Lock()
	first := !d.parked[me]
	d.parked[me] = true
	d.mu.Unlock()
	if first {
		d.atUpdate <- me
		<-d.release
	}
	id, err := GetId(t)
	if err != nil {
		return err
	}
	d.mu.Lock()
	d.data[id.String()] = t
	d.mu.Unlock()
	return nil
}

func seedC08x4Add(id string, object string, targets ...string) vocab.ActivityStreamsAdd {
	a := streams.NewActivityStreamsAdd()
	idp := streams.NewJSONLDIdProperty()
	idp.Set(mustParse(id))
	a.SetJSONLDId(idp)
	op := streams.NewActivityStreamsObjectProperty()
	op.AppendIRI(mustParse(object))
	a.SetActivityStreamsObject(op)
	tp := streams.NewActivityStreamsTargetProperty()
	for _, t := range targets {
		tp.AppendIRI(mustParse(t))
	}
	a.SetActivityStreamsTarget(tp)
	return a
}

func seedC08x4Items(t *testing.T, d *seedC08x4DB, id string) map[string]int {
	got := make(map[string]int)
	d.mu.Lock()
	v := d.data[id]
	d.mu.Unlock()
	col, ok := v.(vocab.ActivityStreamsCollection)
	if !ok {
		t.Fatalf("%s is not a Collection: %T", id, v)
	}
	items := col.GetActivityStreamsItems()
	if items == nil {
		return got
	}
	for iter := items.Begin(); iter != items.End(); iter = iter.Next() {
		u, err := ToId(iter)
		if err != nil {
			t.Fatal(err)
		}
		got[u.String()]++
	}
	return got
}

func TestSeedC08_4(t *testing.T) {
	const (
		colA = "https://example.com/seedC08x4/collections/a"
		colB = "https://example.com/seedC08x4/collections/b"
		obj1 = "https://peer.example/seedC08x4/notes/1"
		obj2 = "https://peer.example/seedC08x4/notes/2"
	)
	db := seedC08x4NewDB()
	for _, id := range []string{colA, colB} {
		col := streams.NewActivityStreamsCollection()
		idp := streams.NewJSONLDIdProperty()
		idp.Set(mustParse(id))
		col.SetJSONLDId(idp)
		db.data[id] = col
	}
	var w FederatingWrappedCallbacks
	w.db = db
	w.inboxIRI = mustParse("https://example.com/seedC08x4/inbox")

	add1 := seedC08x4Add("https://peer.example/seedC08x4/add/1", obj1, colA, colB)
	add2 := seedC08x4Add("https://peer.example/seedC08x4/add/2", obj2, colB, colA)

	errs := make(chan error, 2)
	run := func(name string, a vocab.ActivityStreamsAdd) {
		c := context.WithValue(context.Background(), seedC08x4ctxKey{}, name)
		go func() { errs <- w.add(c, a) }()
	}
	run("r1", add1)
	run("r2", add2)

	// Wait until both requests sit inside the critical section of their
	// first target (r1 in A, r2 in B), then let both continue.
	for i := 0; i < 2; i++ {
		select {
		case <-db.atUpdate:
		case err := <-errs:
			t.Fatalf("a request ended before reaching its first Update: %v", err)
		case <-time.After(10 * time.Second):
			t.Fatalf("requests did not both reach their first Update")
		}
	}
	close(db.release)

	for i := 0; i < 2; i++ {
		select {
		case err := <-errs:
			if err != nil {
				t.Errorf("concurrent Add did not complete: %v", err)
			}
		case <-time.After(10 * time.Second):
			t.Fatalf("concurrent Adds blocked forever")
		}
	}
	if t.Failed() {
		return
	}
	for _, col := range []string{colA, colB} {
		got := seedC08x4Items(t, db, col)
		if got[obj1] != 1 || got[obj2] != 1 || len(got) != 2 {
			t.Errorf("%s: want exactly {%s, %s} once each, got %v", col, obj1, obj2, got)
		}
	}
}
