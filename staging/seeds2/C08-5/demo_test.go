package pub

import (
	"context"
	"net/url"
	"sync"
	"testing"
	"time"

	"github.com/go-fed/activity/streams"
	"github.com/go-fed/activity/streams/vocab"
)

// Demonstration for seed C08/5.
//
// Three POSTs to one inbox:
//
//   A  delivers activity X and is parked inside Database.GetInbox, i.e. in the
//      middle of the inbox critical section (membership test done, page read,
//      page not yet written);
//   C  delivers some other activity Y, but its request context is already
//      cancelled (client went away), so the application's Lock refuses it with
//      an error, as database.go allows ("If an error is returned, the lock
//      must not have been taken");
//   B  delivers X again (a duplicate of A) while A is still parked.
//
// The application's lock is an ordinary non-owner-tracking mutex per id (like
// sync.Mutex): Unlock frees it whoever calls it. As long as the library only
// unlocks what it locked, B has to wait for A, sees X in the inbox and is
// dropped as a duplicate: X is in the inbox once and its side effect ran once.

type seedC08x5ctxKey struct{}

func seedC08x5Req(c context.Context) string {
	s, _ := c.Value(seedC08x5ctxKey{}).(string)
	return s
}

type seedC08x5DB struct {
	Database // any method not overridden below panics

	mu    sync.Mutex
	locks map[string]chan struct{}
	inbox []string // first page of the inbox, newest first

	bLock   chan string   // "acquired" or "blocked": how B's Lock call went
	atGet   chan struct{} // A has read the page and is parked
	release chan struct{} // lets A go on
}

func (d *seedC08x5DB) lockFor(id *url.URL) chan struct{} {
	d.mu.Lock()
	defer d.mu.Unlock()
	ch, ok := d.locks[id.String()]
	if !ok {
		ch = make(chan struct{}, 1)
		d.locks[id.String()] = ch
	}
	return ch
}

func (d *seedC08x5DB) Lock(c context.Context, id *url.URL) error {
	// A cancelled request does not get the lock.
	if err := c.Err(); err != nil {
		return err
	}
	ch := d.lockFor(id)
	select {
	case ch <- struct{}{}:
		if seedC08x5Req(c) == "B" {
			d.bLock <- "acquired"
		}
		return nil
	default:
	}
	if seedC08x5Req(c) == "B" {
		d.bLock <- "blocked"
	}
	ch <- struct{}{}
	return nil
}

func (d *seedC08x5DB) Unlock(c context.Context, id *url.URL) error {
	select {
	case <-d.lockFor(id):
	default:
	}
	return nil
}

func (d *seedC08x5DB) InboxContains(c context.Context, inbox, id *url.URL) (bool, error) {
	d.mu.Lock()
	defer d.mu.Unlock()
	for _, s := range d.inbox {
		if s == id.String() {
			return true, nil
		}
	}
	return false, nil
}

func (d *seedC08x5DB) GetInbox(c context.Context, inboxIRI *url.URL) (vocab.ActivityStreamsOrderedCollectionPage, error) {
	page := streams.NewActivityStreamsOrderedCollectionPage()
	idp := streams.NewJSONLDIdProperty()
	idp.Set(inboxIRI)
	page.SetJSONLDId(idp)
	oi := streams.NewActivityStreamsOrderedItemsProperty()
	d.mu.Lock()
	for _, s := range d.inbox {
		u, err := url.Parse(s)
		if err != nil {
			d.mu.Unlock()
			return nil, err
		}
		oi.AppendIRI(u)
	}
	d.mu.Unlock()
	page.SetActivityStreamsOrderedItems(oi)
	if seedC08x5Req(c) == "A" {
		d.atGet <- struct{}{}
		<-d.release
	}
	return page, nil
}

func (d *seedC08x5DB) SetInbox(c context.Context, inbox vocab.ActivityStreamsOrderedCollectionPage) error {
	var items []string
	if oi := inbox.GetActivityStreamsOrderedItems(); oi != nil {
		for iter := oi.Begin(); iter != oi.End(); iter = iter.Next() {
			u, err := ToId(iter)
			if err != nil {
				return err
			}
			items = append(items, u.String())
		}
	}
	d.mu.Lock()
	d.inbox = items
	d.mu.Unlock()
	return nil
}

// seedC08x5FP is the application's FederatingProtocol: no wrapped behaviour,
// every activity ends in DefaultCallback, which counts invocations per id.
type seedC08x5FP struct {
	FederatingProtocol

	mu    sync.Mutex
	calls map[string]int
}

func (f *seedC08x5FP) FederatingCallbacks(c context.Context) (FederatingWrappedCallbacks, []interface{}, error) {
	return FederatingWrappedCallbacks{}, nil, nil
}

func (f *seedC08x5FP) DefaultCallback(c context.Context, activity Activity) error {
	f.mu.Lock()
	defer f.mu.Unlock()
	f.calls[activity.GetJSONLDId().Get().String()]++
	return nil
}

type seedC08x5Common struct {
	CommonBehavior
}

func seedC08x5Listen(id string) Activity {
	l := streams.NewActivityStreamsListen()
	idp := streams.NewJSONLDIdProperty()
	idp.Set(mustParse(id))
	l.SetJSONLDId(idp)
	actor := streams.NewActivityStreamsActorProperty()
	actor.AppendIRI(mustParse("https://peer.example/seedC08x5/actor"))
	l.SetActivityStreamsActor(actor)
	return l
}

func TestSeedC08_5(t *testing.T) {
	const (
		inbox = "https://example.com/seedC08x5/inbox"
		idX   = "https://peer.example/seedC08x5/activities/x"
		idY   = "https://peer.example/seedC08x5/activities/y"
	)
	db := &seedC08x5DB{
		locks:   make(map[string]chan struct{}),
		bLock:   make(chan string, 4),
		atGet:   make(chan struct{}, 1),
		release: make(chan struct{}),
	}
	fp := &seedC08x5FP{calls: make(map[string]int)}
	a := &sideEffectActor{
		common: seedC08x5Common{},
		s2s:    fp,
		db:     db,
	}
	inboxIRI := mustParse(inbox)
	ctxFor := func(name string) context.Context {
		return context.WithValue(context.Background(), seedC08x5ctxKey{}, name)
	}
	wait := func(what string, ch <-chan error) error {
		select {
		case err := <-ch:
			return err
		case <-time.After(10 * time.Second):
			t.Fatalf("%s did not complete", what)
			return nil
		}
	}

	// A: first delivery of X, parked inside the inbox critical section.
	doneA := make(chan error, 1)
	go func() { doneA <- a.PostInbox(ctxFor("A"), inboxIRI, seedC08x5Listen(idX)) }()
	select {
	case <-db.atGet:
	case err := <-doneA:
		t.Fatalf("A ended early: %v", err)
	case <-time.After(10 * time.Second):
		t.Fatalf("A did not reach GetInbox")
	}

	// C: a request whose context is already cancelled; Lock refuses it.
	ctxC, cancel := context.WithCancel(ctxFor("C"))
	cancel()
	if err := a.PostInbox(ctxC, inboxIRI, seedC08x5Listen(idY)); err == nil {
		t.Fatalf("C: expected the Lock error to be returned")
	}

	// B: duplicate delivery of X while A is still parked.
	doneB := make(chan error, 1)
	go func() { doneB <- a.PostInbox(ctxFor("B"), inboxIRI, seedC08x5Listen(idX)) }()
	var how string
	select {
	case how = <-db.bLock:
	case <-time.After(10 * time.Second):
		t.Fatalf("B did not reach Lock")
	}
	if how == "acquired" {
		// B got into the critical section although A is still inside
		// it. Let B run to completion first, then A.
		if err := wait("B", doneB); err != nil {
			t.Fatalf("B: %v", err)
		}
		close(db.release)
	} else {
		close(db.release)
		if err := wait("B", doneB); err != nil {
			t.Fatalf("B: %v", err)
		}
	}
	if err := wait("A", doneA); err != nil {
		t.Fatalf("A: %v", err)
	}

	// X was delivered twice: once in the inbox, side effect once.
	nX, nY := 0, 0
	for _, s := range db.inbox {
		switch s {
		case idX:
			nX++
		case idY:
			nY++
		}
	}
	if nX != 1 {
		t.Errorf("activity X appears %d times in the inbox %v, want 1", nX, db.inbox)
	}
	if nY != 0 {
		t.Errorf("activity Y of the failed request is in the inbox %v", db.inbox)
	}
	if got := fp.calls[idX]; got != 1 {
		t.Errorf("side effect of X ran %d times (B's Lock call: %s), want 1", got, how)
	}
	if got := fp.calls[idY]; got != 0 {
		t.Errorf("side effect of Y ran %d times although its request failed", got)
	}
}
