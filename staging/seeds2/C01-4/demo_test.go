package streams

import (
	"context"
	"encoding/json"
	"reflect"
	"testing"
)

// seedC01x4RoundTrip decodes a JSON document into native values with ToType,
// encodes it again with Serialize and returns the re-parsed JSON result.
func seedC01x4RoundTrip(t *testing.T, in string) map[string]interface{} {
	t.Helper()
	var m map[string]interface{}
	if err := json.Unmarshal([]byte(in), &m); err != nil {
		t.Fatalf("bad test input: %v", err)
	}
	ty, err := ToType(context.Background(), m)
	if err != nil {
		t.Fatalf("ToType rejected the document: %v", err)
	}
	out, err := Serialize(ty)
	if err != nil {
		t.Fatalf("Serialize: %v", err)
	}
	b, err := json.Marshal(out)
	if err != nil {
		t.Fatalf("json.Marshal: %v", err)
	}
	var r map[string]interface{}
	if err := json.Unmarshal(b, &r); err != nil {
		t.Fatalf("json.Unmarshal of output: %v", err)
	}
	return r
}

// A natural-language map the decoder accepts must not lose entries on the way
// through decode -> encode, even if some entries are not strings (a peer that
// writes null or a placeholder for a missing translation). The member may come
// back under either spelling ("name" or "nameMap"), but with the same entries.
func TestSeedC01_4(t *testing.T) {
	cases := []struct {
		name   string
		doc    string
		short  string
		long   string
		expect map[string]interface{}
	}{
		{
			name:   "null translation in nameMap",
			doc:    `{"@context":"https://www.w3.org/ns/activitystreams","type":"Note","id":"https://example.com/n/1","nameMap":{"en":"hello","fr":null},"content":"x"}`,
			short:  "name",
			long:   "nameMap",
			expect: map[string]interface{}{"en": "hello", "fr": nil},
		},
		{
			name:   "numeric placeholder in nested summaryMap",
			doc:    `{"@context":"https://www.w3.org/ns/activitystreams","type":"Create","id":"https://example.com/c/1","actor":"https://example.com/a","object":{"type":"Article","id":"https://example.com/n/2","summaryMap":{"en":"hello","de":0}}}`,
			short:  "summary",
			long:   "summaryMap",
			expect: map[string]interface{}{"en": "hello", "de": float64(0)},
		},
		{
			name:   "well-formed contentMap is untouched",
			doc:    `{"@context":"https://www.w3.org/ns/activitystreams","type":"Note","id":"https://example.com/n/3","contentMap":{"en":"hello","fr":"salut"}}`,
			short:  "content",
			long:   "contentMap",
			expect: map[string]interface{}{"en": "hello", "fr": "salut"},
		},
	}
	for _, c := range cases {
		c := c
		t.Run(c.name, func(t *testing.T) {
			out := seedC01x4RoundTrip(t, c.doc)
			holder := out
			if obj, ok := out["object"].(map[string]interface{}); ok {
				holder = obj
			}
			got, ok := holder[c.long]
			if !ok {
				got, ok = holder[c.short]
			}
			if !ok {
				t.Fatalf("neither %q nor %q survived the round trip: %v", c.short, c.long, out)
			}
			if !reflect.DeepEqual(got, interface{}(c.expect)) {
				t.Errorf("language map changed by decode -> encode:\n got: %#v\nwant: %#v", got, c.expect)
			}
		})
	}
}
