package pub

import (
	"context"
	"net/http"
	"testing"

	"github.com/golang/mock/gomock"
)

// seedC10x5Writer is a ResponseWriter that records every call made on it, in
// order, so a second (superfluous) WriteHeader is visible. A httptest recorder
// silently keeps the first status only.
type seedC10x5Writer struct {
	header      http.Header
	statusCalls []int
	events      []string
	body        []byte
}

func (w *seedC10x5Writer) Header() http.Header {
	if w.header == nil {
		w.header = make(http.Header)
	}
	return w.header
}

func (w *seedC10x5Writer) WriteHeader(code int) {
	w.statusCalls = append(w.statusCalls, code)
	w.events = append(w.events, "WriteHeader")
}

func (w *seedC10x5Writer) Write(b []byte) (int, error) {
	w.body = append(w.body, b...)
	w.events = append(w.events, "Write")
	return len(b), nil
}

// seedC10x5Deny is what an application does, per the documented contract of
// AuthenticateGetInbox/AuthenticateGetOutbox, when the request is not
// authenticated: it writes its own complete response and returns
// authenticated=false with a nil error.
func seedC10x5Deny(c context.Context, w http.ResponseWriter, r *http.Request) (context.Context, bool, error) {
	w.Header().Set("WWW-Authenticate", `Signature realm="seed"`)
	w.WriteHeader(http.StatusForbidden)
	w.Write([]byte(`{"error":"forbidden"}`))
	return c, false, nil
}

func seedC10x5Check(t *testing.T, w *seedC10x5Writer, handled bool, err error) {
	if !handled {
		t.Errorf("handled = false, want true")
	}
	if err != nil {
		t.Errorf("err = %v, want nil", err)
	}
	if len(w.statusCalls) != 1 || w.statusCalls[0] != http.StatusForbidden {
		t.Errorf("WriteHeader calls = %v, want exactly [403] (the application's own); call sequence %v", w.statusCalls, w.events)
	}
	if len(w.events) > 0 && w.events[len(w.events)-1] == "WriteHeader" && len(w.events) > 1 {
		t.Errorf("a status was written after the response body: call sequence %v", w.events)
	}
	if string(w.body) != `{"error":"forbidden"}` {
		t.Errorf("body = %q, want only the application's body", w.body)
	}
}

// TestSeedC10_5 sends an ActivityPub GET that the application refuses to
// authenticate. The application answers it itself (403 + body), as the
// Authenticate* contract requires, so the library must not write anything: the
// request ends handled, nil error, exactly one status on the wire.
func TestSeedC10_5(t *testing.T) {
	ctx := context.Background()
	t.Run("CustomDelegateGetOutbox", func(t *testing.T) {
		ctl := gomock.NewController(t)
		defer ctl.Finish()
		delegate := NewMockDelegateActor(ctl)
		a := NewCustomActor(delegate, true, true, NewMockClock(ctl))
		delegate.EXPECT().AuthenticateGetOutbox(gomock.Any(), gomock.Any(), gomock.Any()).DoAndReturn(seedC10x5Deny)
		w := &seedC10x5Writer{}
		handled, err := a.GetOutbox(ctx, w, toAPRequest(toGetOutboxRequest()))
		seedC10x5Check(t, w, handled, err)
	})
	t.Run("CustomDelegateGetInbox", func(t *testing.T) {
		ctl := gomock.NewController(t)
		defer ctl.Finish()
		delegate := NewMockDelegateActor(ctl)
		a := NewCustomActor(delegate, true, true, NewMockClock(ctl))
		delegate.EXPECT().AuthenticateGetInbox(gomock.Any(), gomock.Any(), gomock.Any()).DoAndReturn(seedC10x5Deny)
		w := &seedC10x5Writer{}
		handled, err := a.GetInbox(ctx, w, toAPRequest(toGetInboxRequest()))
		seedC10x5Check(t, w, handled, err)
	})
	t.Run("LibraryDelegateGetOutbox", func(t *testing.T) {
		ctl := gomock.NewController(t)
		defer ctl.Finish()
		common := NewMockCommonBehavior(ctl)
		a := NewActor(common, NewMockSocialProtocol(ctl), NewMockFederatingProtocol(ctl), NewMockDatabase(ctl), NewMockClock(ctl))
		common.EXPECT().AuthenticateGetOutbox(gomock.Any(), gomock.Any(), gomock.Any()).DoAndReturn(seedC10x5Deny)
		w := &seedC10x5Writer{}
		handled, err := a.GetOutbox(ctx, w, toAPRequest(toGetOutboxRequest()))
		seedC10x5Check(t, w, handled, err)
	})
	t.Run("LibraryDelegateGetInbox", func(t *testing.T) {
		ctl := gomock.NewController(t)
		defer ctl.Finish()
		common := NewMockCommonBehavior(ctl)
		a := NewActor(common, NewMockSocialProtocol(ctl), NewMockFederatingProtocol(ctl), NewMockDatabase(ctl), NewMockClock(ctl))
		common.EXPECT().AuthenticateGetInbox(gomock.Any(), gomock.Any(), gomock.Any()).DoAndReturn(seedC10x5Deny)
		w := &seedC10x5Writer{}
		handled, err := a.GetInbox(ctx, w, toAPRequest(toGetInboxRequest()))
		seedC10x5Check(t, w, handled, err)
	})
	// An authentication *error* must still leave the writer untouched.
	t.Run("AuthenticateErrorWritesNothing", func(t *testing.T) {
		ctl := gomock.NewController(t)
		defer ctl.Finish()
		delegate := NewMockDelegateActor(ctl)
		a := NewCustomActor(delegate, true, true, NewMockClock(ctl))
		delegate.EXPECT().AuthenticateGetOutbox(gomock.Any(), gomock.Any(), gomock.Any()).Return(ctx, false, testErr)
		w := &seedC10x5Writer{}
		handled, err := a.GetOutbox(ctx, w, toAPRequest(toGetOutboxRequest()))
		if !handled || err != testErr {
			t.Errorf("(handled, err) = (%v, %v), want (true, testErr)", handled, err)
		}
		if len(w.events) != 0 || len(w.header) != 0 {
			t.Errorf("library touched the writer on an error: calls %v header %v", w.events, w.header)
		}
	})
}
