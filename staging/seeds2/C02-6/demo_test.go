package pub

import (
	"context"
	"encoding/json"
	"fmt"
	"net/url"
	"sort"
	"strings"
	"testing"

	"github.com/go-fed/activity/streams"
	"github.com/go-fed/activity/streams/vocab"
	"github.com/golang/mock/gomock"
)

const (
	seedC02x6Me       = "https://me.example/users/me"
	seedC02x6MeInbox  = "https://me.example/users/me/inbox"
	seedC02x6MeOutbox = "https://me.example/users/me/outbox"
)

// seedC02x6World is a tiny fake federation: remote documents by IRI, inboxes
// the application has stored by actor IRI, and a log of what the transport
// was asked to do.
type seedC02x6World struct {
	docs      map[string]string // IRI -> JSON document ("" => fetch error)
	stored    map[string]string // actor IRI -> application-stored inbox
	depth     int
	derefs    []string
	delivered [][]string
}

func seedC02x6Person(id, inbox string) string {
	return fmt.Sprintf(`{"@context":"https://www.w3.org/ns/activitystreams","type":"Person","id":%q,"inbox":%q}`, id, inbox)
}

func seedC02x6Collection(typ, id string, items ...string) string {
	prop := "items"
	if strings.HasPrefix(typ, "Ordered") {
		prop = "orderedItems"
	}
	b, _ := json.Marshal(items)
	return fmt.Sprintf(`{"@context":"https://www.w3.org/ns/activitystreams","type":%q,"id":%q,%q:%s}`, typ, id, prop, b)
}

// seedC02x6Deliver federates a Create addressed as given from the sender's
// outbox through a real sideEffectActor wired to the fake world.
func seedC02x6Deliver(t *testing.T, w *seedC02x6World, to, cc []string) error {
	ctl := gomock.NewController(t)
	defer ctl.Finish()
	ctx := context.Background()
	c := NewMockCommonBehavior(ctl)
	fp := NewMockFederatingProtocol(ctl)
	db := NewMockDatabase(ctl)
	tp := NewMockTransport(ctl)
	a := &sideEffectActor{common: c, s2s: fp, c2s: NewMockSocialProtocol(ctl), db: db, clock: NewMockClock(ctl)}

	c.EXPECT().NewTransport(gomock.Any(), gomock.Any(), gomock.Any()).Return(tp, nil).AnyTimes()
	fp.EXPECT().MaxDeliveryRecursionDepth(gomock.Any()).Return(w.depth).AnyTimes()
	db.EXPECT().Lock(gomock.Any(), gomock.Any()).Return(nil).AnyTimes()
	db.EXPECT().Unlock(gomock.Any(), gomock.Any()).Return(nil).AnyTimes()
	db.EXPECT().ActorForOutbox(gomock.Any(), gomock.Any()).Return(mustParse(seedC02x6Me), nil).AnyTimes()
	db.EXPECT().Get(gomock.Any(), gomock.Any()).DoAndReturn(func(_ context.Context, id *url.URL) (vocab.Type, error) {
		var m map[string]interface{}
		if err := json.Unmarshal([]byte(seedC02x6Person(id.String(), seedC02x6MeInbox)), &m); err != nil {
			return nil, err
		}
		return streams.ToType(ctx, m)
	}).AnyTimes()
	db.EXPECT().InboxForActor(gomock.Any(), gomock.Any()).DoAndReturn(func(_ context.Context, actor *url.URL) (*url.URL, error) {
		if s, ok := w.stored[actor.String()]; ok {
			return mustParse(s), nil
		}
		return nil, nil
	}).AnyTimes()
	tp.EXPECT().Dereference(gomock.Any(), gomock.Any()).DoAndReturn(func(_ context.Context, iri *url.URL) ([]byte, error) {
		w.derefs = append(w.derefs, iri.String())
		if d := w.docs[iri.String()]; d != "" {
			return []byte(d), nil
		}
		return nil, fmt.Errorf("unreachable: %s", iri)
	}).AnyTimes()
	tp.EXPECT().BatchDeliver(gomock.Any(), gomock.Any(), gomock.Any()).DoAndReturn(func(_ context.Context, _ []byte, rcpt []*url.URL) error {
		var s []string
		for _, u := range rcpt {
			s = append(s, u.String())
		}
		sort.Strings(s)
		w.delivered = append(w.delivered, s)
		return nil
	}).AnyTimes()

	act := streams.NewActivityStreamsCreate()
	id := streams.NewJSONLDIdProperty()
	id.Set(mustParse("https://me.example/activities/1"))
	act.SetJSONLDId(id)
	if len(to) > 0 {
		p := streams.NewActivityStreamsToProperty()
		for _, s := range to {
			p.AppendIRI(mustParse(s))
		}
		act.SetActivityStreamsTo(p)
	}
	if len(cc) > 0 {
		p := streams.NewActivityStreamsCcProperty()
		for _, s := range cc {
			p.AppendIRI(mustParse(s))
		}
		act.SetActivityStreamsCc(p)
	}
	return a.Deliver(ctx, mustParse(seedC02x6MeOutbox), act)
}

func seedC02x6Check(t *testing.T, w *seedC02x6World, err error, want []string) {
	t.Helper()
	if err != nil {
		t.Errorf("Deliver failed: %v", err)
		return
	}
	if len(w.delivered) != 1 {
		t.Errorf("BatchDeliver called %d times, want exactly once", len(w.delivered))
		return
	}
	sort.Strings(want)
	if got := w.delivered[0]; strings.Join(got, " ") != strings.Join(want, " ") {
		t.Errorf("delivered to\n  %v\nwant\n  %v", got, want)
	}
}

// A collection named directly in an addressing property is expanded to the
// configured depth counted from where it is addressed - also when the same
// collection was already met deeper down, as a member of another collection,
// at the edge of the depth limit where its members were not looked at.
func TestSeedC02_6(t *testing.T) {
	const (
		team    = "https://r.example/groups/team/members"    // addressed in to
		proj    = "https://r.example/groups/project/members" // addressed in cc, and a member of team
		x, y, z = "https://r.example/x", "https://r.example/y", "https://r.example/z"
	)
	newWorld := func(depth int) *seedC02x6World {
		return &seedC02x6World{
			depth: depth,
			docs: map[string]string{
				x: seedC02x6Person(x, x+"/inbox"),
				y: seedC02x6Person(y, y+"/inbox"),
				z: seedC02x6Person(z, z+"/inbox"),
				// team = {x, everyone in project}; project = {y, z, everyone in team} (a cycle)
				team: seedC02x6Collection("Collection", team, x, proj),
				proj: seedC02x6Collection("OrderedCollection", proj, y, team, z),
			},
			stored: map[string]string{},
		}
	}
	all := []string{x + "/inbox", y + "/inbox", z + "/inbox"}

	// Generous depth: the cycle is cut by the limit, everybody is reached.
	w := newWorld(4)
	err := seedC02x6Deliver(t, w, []string{team}, []string{proj})
	seedC02x6Check(t, w, err, all)

	// Depth 2: via team, project is fetched at depth 1 but its members (depth
	// 2) are beyond the limit. It is ALSO addressed directly in cc, where its
	// members are at depth 1 and must be delivered to.
	w = newWorld(2)
	err = seedC02x6Deliver(t, w, []string{team}, []string{proj})
	seedC02x6Check(t, w, err, all)

	// Depth 2, only team addressed: project's members really are out of reach
	// and nothing beyond depth 1 may be fetched.
	w = newWorld(2)
	err = seedC02x6Deliver(t, w, []string{team}, nil)
	seedC02x6Check(t, w, err, []string{x + "/inbox"})
	for _, s := range w.derefs {
		if s == y || s == z {
			t.Errorf("%s dereferenced beyond the configured depth", s)
		}
	}
}
