package pub

import (
	"context"
	"encoding/json"
	"errors"
	"net/url"
	"testing"

	"github.com/go-fed/activity/streams"
	"github.com/go-fed/activity/streams/vocab"
	"github.com/golang/mock/gomock"
)

const (
	seedC17x5ActivityIRI = "https://peer.example.org/activity/seed5"
	seedC17x5ColIRI      = "https://example.com/addison/followers"
	seedC17x5PeerNote1   = "https://peer.example.org/note/1"
	seedC17x5PeerNote2   = "https://other.example.net/note/2"
	seedC17x5LocalNote   = "https://example.com/note/seed5"
	seedC17x5Member1     = "https://third.example.net/users/kim"
	seedC17x5Member2     = "https://third.example.net/users/lee"
	seedC17x5Inbox       = "https://example.com/addison/inbox"
)

// seedC17x5Note returns a Note with the given id that is 'inReplyTo' the
// given IRI (by reference only).
func seedC17x5Note(id, inReplyTo string) vocab.ActivityStreamsNote {
	n := streams.NewActivityStreamsNote()
	idp := streams.NewJSONLDIdProperty()
	idp.Set(mustParse(id))
	n.SetJSONLDId(idp)
	irt := streams.NewActivityStreamsInReplyToProperty()
	irt.AppendIRI(mustParse(inReplyTo))
	n.SetActivityStreamsInReplyTo(irt)
	return n
}

// seedC17x5Bytes serializes a value the way a peer would serve it.
func seedC17x5Bytes(v vocab.Type) []byte {
	m, err := streams.Serialize(v)
	if err != nil {
		panic(err)
	}
	b, err := json.Marshal(m)
	if err != nil {
		panic(err)
	}
	return b
}

// seedC17x5Run delivers, once, an Announce whose 'object' is only a
// reference to a peer's note. That note (fetched) replies, by reference, to a
// second peer note, which (fetched) replies by reference to a note owned by
// this server:
//
//	activity --object--> peer note 1 --inReplyTo--> peer note 2 --inReplyTo--> local note
//
// It returns the recipients of every BatchDeliver and the fetched IRIs.
func seedC17x5Run(t *testing.T, maxDepth int) (forwards [][]*url.URL, payloads [][]byte, fetched []string, input Activity) {
	ctx := context.Background()
	ctl := gomock.NewController(t)
	defer ctl.Finish()

	cm := NewMockCommonBehavior(ctl)
	fp := NewMockFederatingProtocol(ctl)
	sp := NewMockSocialProtocol(ctl)
	db := NewMockDatabase(ctl)
	cl := NewMockClock(ctl)
	tp := NewMockTransport(ctl)
	a := &sideEffectActor{common: cm, s2s: fp, c2s: sp, db: db, clock: cl}

	// The received activity.
	ann := streams.NewActivityStreamsAnnounce()
	id := streams.NewJSONLDIdProperty()
	id.Set(mustParse(seedC17x5ActivityIRI))
	ann.SetJSONLDId(id)
	cc := streams.NewActivityStreamsCcProperty()
	cc.AppendIRI(mustParse(seedC17x5ColIRI))
	ann.SetActivityStreamsCc(cc)
	op := streams.NewActivityStreamsObjectProperty()
	op.AppendIRI(mustParse(seedC17x5PeerNote1))
	ann.SetActivityStreamsObject(op)
	input = ann

	// What the peers serve.
	remote := map[string][]byte{
		seedC17x5PeerNote1: seedC17x5Bytes(seedC17x5Note(seedC17x5PeerNote1, seedC17x5PeerNote2)),
		seedC17x5PeerNote2: seedC17x5Bytes(seedC17x5Note(seedC17x5PeerNote2, seedC17x5LocalNote)),
	}

	// The followers collection owned by this server.
	followers := streams.NewActivityStreamsOrderedCollection()
	items := streams.NewActivityStreamsOrderedItemsProperty()
	items.AppendIRI(mustParse(seedC17x5Member1))
	items.AppendIRI(mustParse(seedC17x5Member2))
	followers.SetActivityStreamsOrderedItems(items)

	seen := map[string]bool{}
	db.EXPECT().Lock(gomock.Any(), gomock.Any()).Return(nil).AnyTimes()
	db.EXPECT().Unlock(gomock.Any(), gomock.Any()).Return(nil).AnyTimes()
	db.EXPECT().Exists(gomock.Any(), gomock.Any()).DoAndReturn(
		func(c context.Context, id *url.URL) (bool, error) {
			return seen[id.String()], nil
		}).AnyTimes()
	db.EXPECT().Create(gomock.Any(), gomock.Any()).DoAndReturn(
		func(c context.Context, v vocab.Type) error {
			seen[v.GetJSONLDId().Get().String()] = true
			return nil
		}).AnyTimes()
	db.EXPECT().Owns(gomock.Any(), gomock.Any()).DoAndReturn(
		func(c context.Context, id *url.URL) (bool, error) {
			return id.Host == "example.com", nil
		}).AnyTimes()
	db.EXPECT().Get(gomock.Any(), mustParse(seedC17x5ColIRI)).Return(followers, nil).AnyTimes()

	fp.EXPECT().MaxInboxForwardingRecursionDepth(gomock.Any()).Return(maxDepth).AnyTimes()
	fp.EXPECT().FilterForwarding(gomock.Any(), gomock.Any(), gomock.Any()).DoAndReturn(
		func(c context.Context, r []*url.URL, act Activity) ([]*url.URL, error) {
			return r, nil
		}).AnyTimes()

	cm.EXPECT().NewTransport(gomock.Any(), gomock.Any(), gomock.Any()).Return(tp, nil).AnyTimes()
	tp.EXPECT().Dereference(gomock.Any(), gomock.Any()).DoAndReturn(
		func(c context.Context, iri *url.URL) ([]byte, error) {
			fetched = append(fetched, iri.String())
			if b, ok := remote[iri.String()]; ok {
				return b, nil
			}
			return nil, errors.New("seedC17x5: not found")
		}).AnyTimes()
	tp.EXPECT().BatchDeliver(gomock.Any(), gomock.Any(), gomock.Any()).DoAndReturn(
		func(c context.Context, b []byte, r []*url.URL) error {
			forwards = append(forwards, r)
			payloads = append(payloads, b)
			return nil
		}).AnyTimes()

	if err := a.InboxForwarding(ctx, mustParse(seedC17x5Inbox), input); err != nil {
		t.Fatalf("maxDepth=%d: unexpected error: %v", maxDepth, err)
	}
	if !seen[seedC17x5ActivityIRI] {
		t.Errorf("maxDepth=%d: activity was not recorded as seen", maxDepth)
	}
	return
}

// TestSeedC17_5: ownership that is only reachable by following bare IRI
// references (no embedded values at those levels) must still trigger
// forwarding when it lies within the configured depth, and must not when it
// lies beyond it.
func TestSeedC17_5(t *testing.T) {
	// The owned note is checked at depth index 2: reachable when the limit is
	// 3 (or unlimited), not reachable when the limit is 2.
	for _, depth := range []int{3, 0} {
		forwards, payloads, fetched, input := seedC17x5Run(t, depth)
		if len(forwards) != 1 {
			t.Errorf("maxDepth=%d: forwarded %d times, want 1 (fetched %v)", depth, len(forwards), fetched)
			continue
		}
		got := forwards[0]
		if len(got) != 2 || got[0].String() != seedC17x5Member1 || got[1].String() != seedC17x5Member2 {
			t.Errorf("maxDepth=%d: forwarded to %v, want the two collection members", depth, got)
		}
		if string(payloads[0]) != string(seedC17x5Bytes(input)) {
			t.Errorf("maxDepth=%d: forwarded payload differs from the received activity", depth)
		}
	}
	forwards, _, fetched, _ := seedC17x5Run(t, 2)
	if len(forwards) != 0 {
		t.Errorf("maxDepth=2: forwarded %d times, want 0 (fetched %v)", len(forwards), fetched)
	}
}
