package pub

import (
	"context"
	"encoding/json"
	"fmt"
	"net/http"
	"net/http/httptest"
	"testing"
	"time"

	"github.com/go-fed/activity/streams"
	"github.com/go-fed/activity/streams/vocab"
)

// seedC11x4Delegate is a DelegateActor that only knows how to serve GET inbox:
// it authenticates everybody and hands out a fixed, previously stored page.
// Every other method is left to the embedded nil interface on purpose.
type seedC11x4Delegate struct {
	DelegateActor
	page vocab.ActivityStreamsOrderedCollectionPage
}

func (d *seedC11x4Delegate) AuthenticateGetInbox(c context.Context, w http.ResponseWriter, r *http.Request) (context.Context, bool, error) {
	return c, true, nil
}

func (d *seedC11x4Delegate) GetInbox(c context.Context, r *http.Request) (vocab.ActivityStreamsOrderedCollectionPage, error) {
	return d.page, nil
}

type seedC11x4Clock struct{}

func (seedC11x4Clock) Now() time.Time { return time.Unix(1500000000, 0) }

type seedC11x4Result struct {
	handled  bool
	err      error
	panicked interface{}
}

// TestSeedC11_4: GET inbox must return (data, an error, anything) for a stored
// inbox page whose 'orderedItems' holds a member that is neither an object nor
// an IRI. It must neither panic nor spin.
func TestSeedC11_4(t *testing.T) {
	const stored = `{
  "@context": "https://www.w3.org/ns/activitystreams",
  "type": "OrderedCollectionPage",
  "id": "https://example.com/alice/inbox?page=1",
  "orderedItems": [
    "https://remote.example/activity/1",
    7,
    "https://remote.example/activity/1"
  ]
}`
	var m map[string]interface{}
	if err := json.Unmarshal([]byte(stored), &m); err != nil {
		t.Fatal(err)
	}
	v, err := streams.ToType(context.Background(), m)
	if err != nil {
		t.Fatalf("stored page does not decode: %v", err)
	}
	page, ok := v.(vocab.ActivityStreamsOrderedCollectionPage)
	if !ok {
		t.Fatalf("stored page decoded to %T", v)
	}
	a := NewCustomActor(&seedC11x4Delegate{page: page}, true, true, seedC11x4Clock{})

	req := httptest.NewRequest("GET", "https://example.com/alice/inbox?page=1", nil)
	req.Header.Set("Accept", "application/activity+json")
	resp := httptest.NewRecorder()

	done := make(chan seedC11x4Result, 1)
	go func() {
		var r seedC11x4Result
		defer func() {
			r.panicked = recover()
			done <- r
		}()
		r.handled, r.err = a.GetInbox(context.Background(), resp, req)
	}()
	select {
	case r := <-done:
		if r.panicked != nil {
			t.Fatalf("GetInbox panicked: %v", r.panicked)
		}
		if !r.handled {
			t.Fatalf("GetInbox did not treat the request as an ActivityPub request")
		}
		if r.err == nil && resp.Code != http.StatusOK {
			t.Fatalf("GetInbox returned neither an error nor a 200 response: %d", resp.Code)
		}
		t.Logf("GetInbox returned: err=%v code=%s", r.err, fmt.Sprint(resp.Code))
	case <-time.After(5 * time.Second):
		t.Fatalf("GetInbox did not return within 5s for a stored page with an unidentifiable orderedItems member")
	}
}
