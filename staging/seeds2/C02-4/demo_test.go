package pub

import (
	"context"
	"encoding/json"
	"fmt"
	"net/url"
	"sort"
	"strings"
	"testing"

	"github.com/go-fed/activity/streams"
	"github.com/go-fed/activity/streams/vocab"
	"github.com/golang/mock/gomock"
)

const (
	seedC02x4Me       = "https://me.example/users/me"
	seedC02x4MeInbox  = "https://me.example/users/me/inbox"
	seedC02x4MeOutbox = "https://me.example/users/me/outbox"
)

// seedC02x4World is a tiny fake federation: remote documents by IRI, inboxes
// the application has stored by actor IRI, and a log of what the transport
// was asked to do.
type seedC02x4World struct {
	docs      map[string]string // IRI -> JSON document ("" => fetch error)
	stored    map[string]string // actor IRI -> application-stored inbox
	depth     int
	derefs    []string
	delivered [][]string
}

func seedC02x4Person(id, inbox string) string {
	return fmt.Sprintf(`{"@context":"https://www.w3.org/ns/activitystreams","type":"Person","id":%q,"inbox":%q}`, id, inbox)
}

func seedC02x4Collection(typ, id string, items ...string) string {
	prop := "items"
	if strings.HasPrefix(typ, "Ordered") {
		prop = "orderedItems"
	}
	b, _ := json.Marshal(items)
	return fmt.Sprintf(`{"@context":"https://www.w3.org/ns/activitystreams","type":%q,"id":%q,%q:%s}`, typ, id, prop, b)
}

// seedC02x4Deliver federates a Create addressed as given from the sender's
// outbox through a real sideEffectActor wired to the fake world.
func seedC02x4Deliver(t *testing.T, w *seedC02x4World, to, cc []string) error {
	ctl := gomock.NewController(t)
	defer ctl.Finish()
	ctx := context.Background()
	c := NewMockCommonBehavior(ctl)
	fp := NewMockFederatingProtocol(ctl)
	db := NewMockDatabase(ctl)
	tp := NewMockTransport(ctl)
	a := &sideEffectActor{common: c, s2s: fp, c2s: NewMockSocialProtocol(ctl), db: db, clock: NewMockClock(ctl)}

	c.EXPECT().NewTransport(gomock.Any(), gomock.Any(), gomock.Any()).Return(tp, nil).AnyTimes()
	fp.EXPECT().MaxDeliveryRecursionDepth(gomock.Any()).Return(w.depth).AnyTimes()
	db.EXPECT().Lock(gomock.Any(), gomock.Any()).Return(nil).AnyTimes()
	db.EXPECT().Unlock(gomock.Any(), gomock.Any()).Return(nil).AnyTimes()
	db.EXPECT().ActorForOutbox(gomock.Any(), gomock.Any()).Return(mustParse(seedC02x4Me), nil).AnyTimes()
	db.EXPECT().Get(gomock.Any(), gomock.Any()).DoAndReturn(func(_ context.Context, id *url.URL) (vocab.Type, error) {
		var m map[string]interface{}
		if err := json.Unmarshal([]byte(seedC02x4Person(id.String(), seedC02x4MeInbox)), &m); err != nil {
			return nil, err
		}
		return streams.ToType(ctx, m)
	}).AnyTimes()
	db.EXPECT().InboxForActor(gomock.Any(), gomock.Any()).DoAndReturn(func(_ context.Context, actor *url.URL) (*url.URL, error) {
		if s, ok := w.stored[actor.String()]; ok {
			return mustParse(s), nil
		}
		return nil, nil
	}).AnyTimes()
	tp.EXPECT().Dereference(gomock.Any(), gomock.Any()).DoAndReturn(func(_ context.Context, iri *url.URL) ([]byte, error) {
		w.derefs = append(w.derefs, iri.String())
		if d := w.docs[iri.String()]; d != "" {
			return []byte(d), nil
		}
		return nil, fmt.Errorf("unreachable: %s", iri)
	}).AnyTimes()
	tp.EXPECT().BatchDeliver(gomock.Any(), gomock.Any(), gomock.Any()).DoAndReturn(func(_ context.Context, _ []byte, rcpt []*url.URL) error {
		var s []string
		for _, u := range rcpt {
			s = append(s, u.String())
		}
		sort.Strings(s)
		w.delivered = append(w.delivered, s)
		return nil
	}).AnyTimes()

	act := streams.NewActivityStreamsCreate()
	id := streams.NewJSONLDIdProperty()
	id.Set(mustParse("https://me.example/activities/1"))
	act.SetJSONLDId(id)
	if len(to) > 0 {
		p := streams.NewActivityStreamsToProperty()
		for _, s := range to {
			p.AppendIRI(mustParse(s))
		}
		act.SetActivityStreamsTo(p)
	}
	if len(cc) > 0 {
		p := streams.NewActivityStreamsCcProperty()
		for _, s := range cc {
			p.AppendIRI(mustParse(s))
		}
		act.SetActivityStreamsCc(p)
	}
	return a.Deliver(ctx, mustParse(seedC02x4MeOutbox), act)
}

func seedC02x4Check(t *testing.T, w *seedC02x4World, err error, want []string) {
	t.Helper()
	if err != nil {
		t.Fatalf("Deliver failed: %v", err)
	}
	if len(w.delivered) != 1 {
		t.Fatalf("BatchDeliver called %d times, want exactly once", len(w.delivered))
	}
	sort.Strings(want)
	if got := w.delivered[0]; strings.Join(got, " ") != strings.Join(want, " ") {
		t.Errorf("delivered to\n  %v\nwant\n  %v", got, want)
	}
}

// Every addressed actor for which the application has a stored inbox is
// delivered to at that stored inbox and is never dereferenced - also when
// several such actors directly follow one another in the recipient list.
func TestSeedC02_4(t *testing.T) {
	const (
		a, b, cIRI, d = "https://r.example/a", "https://r.example/b", "https://r.example/c", "https://r.example/d"
	)
	w := &seedC02x4World{
		depth: 2,
		docs: map[string]string{
			// What the remote servers would say; a, b and d must not be asked.
			a:    seedC02x4Person(a, a+"/remote-inbox"),
			b:    seedC02x4Person(b, b+"/remote-inbox"),
			cIRI: seedC02x4Person(cIRI, cIRI+"/remote-inbox"),
			d:    "", // d is not even reachable; only the stored inbox is known
		},
		stored: map[string]string{
			a: "https://r.example/stored/a",
			b: "https://r.example/stored/b",
			d: "https://r.example/stored/d",
		},
	}
	err := seedC02x4Deliver(t, w, []string{a, b, cIRI}, []string{d})
	seedC02x4Check(t, w, err, []string{
		"https://r.example/stored/a",
		"https://r.example/stored/b",
		cIRI + "/remote-inbox",
		"https://r.example/stored/d",
	})
	for _, s := range w.derefs {
		if _, ok := w.stored[s]; ok {
			t.Errorf("actor %s has a stored inbox but was dereferenced", s)
		}
	}
}
