package pub

import (
	"context"
	"net/url"
	"sync"
	"testing"
	"time"

	"github.com/go-fed/activity/streams"
	"github.com/go-fed/activity/streams/vocab"
)

// Demonstration for seed C08/6.
//
// Two different peers send a Follow to the same local actor, which accepts
// follows automatically. Request R1 is parked while it delivers its Accept
// (the 'deliver' side channel, i.e. the network); R2 is handled from start to
// end in the meantime; then R1 is let go. Afterwards the actor's followers
// collection must hold both peers, exactly as if the two Follows had been
// handled one after the other.

type seedC08x6ctxKey struct{}

func seedC08x6Req(c context.Context) string {
	s, _ := c.Value(seedC08x6ctxKey{}).(string)
	return s
}

const (
	seedC08x6Inbox  = "https://example.com/seedC08x6/me/inbox"
	seedC08x6Outbox = "https://example.com/seedC08x6/me/outbox"
	seedC08x6Me     = "https://example.com/seedC08x6/me"
)

type seedC08x6DB struct {
	Database // any method not overridden below panics

	mu        sync.Mutex
	locks     map[string]chan struct{}
	followers []string // stored 'items' of the followers collection of Me
}

func (d *seedC08x6DB) lockFor(id *url.URL) chan struct{} {
	d.mu.Lock()
	defer d.mu.Unlock()
	ch, ok := d.locks[id.String()]
	if !ok {
		ch = make(chan struct{}, 1)
		d.locks[id.String()] = ch
	}
	return ch
}

func (d *seedC08x6DB) Lock(c context.Context, id *url.URL) error {
	d.lockFor(id) <- struct{}{}
	return nil
}

func (d *seedC08x6DB) Unlock(c context.Context, id *url.URL) error {
	select {
	case <-d.lockFor(id):
	default:
		panic("seedC08x6: Unlock of a lock that is not held: " + id.String())
	}
	return nil
}

func (d *seedC08x6DB) ActorForInbox(c context.Context, inboxIRI *url.URL) (*url.URL, error) {
	return url.Parse(seedC08x6Me)
}

func (d *seedC08x6DB) OutboxForInbox(c context.Context, inboxIRI *url.URL) (*url.URL, error) {
	return url.Parse(seedC08x6Outbox)
}

// Followers hands out a freshly built copy of the stored collection, as a
// database that deserialises a row would.
func (d *seedC08x6DB) Followers(c context.Context, actorIRI *url.URL) (vocab.ActivityStreamsCollection, error) {
	col := streams.NewActivityStreamsCollection()
	idp := streams.NewJSONLDIdProperty()
	idp.Set(mustParse(seedC08x6Me + "/followers"))
	col.SetJSONLDId(idp)
	d.mu.Lock()
	defer d.mu.Unlock()
	if len(d.followers) > 0 {
		items := streams.NewActivityStreamsItemsProperty()
		for _, s := range d.followers {
			u, err := url.Parse(s)
			if err != nil {
				return nil, err
			}
			items.AppendIRI(u)
		}
		col.SetActivityStreamsItems(items)
	}
	return col, nil
}

func (d *seedC08x6DB) Update(c context.Context, t vocab.Type) error {
	col, ok := t.(vocab.ActivityStreamsCollection)
	if !ok {
		panic("seedC08x6: unexpected Update")
	}
	var out []string
	if items := col.GetActivityStreamsItems(); items != nil {
		for iter := items.Begin(); iter != items.End(); iter = iter.Next() {
			u, err := ToId(iter)
			if err != nil {
				return err
			}
			out = append(out, u.String())
		}
	}
	d.mu.Lock()
	d.followers = out
	d.mu.Unlock()
	return nil
}

func seedC08x6Follow(id, from string) vocab.ActivityStreamsFollow {
	f := streams.NewActivityStreamsFollow()
	idp := streams.NewJSONLDIdProperty()
	idp.Set(mustParse(id))
	f.SetJSONLDId(idp)
	actor := streams.NewActivityStreamsActorProperty()
	actor.AppendIRI(mustParse(from))
	f.SetActivityStreamsActor(actor)
	op := streams.NewActivityStreamsObjectProperty()
	op.AppendIRI(mustParse(seedC08x6Me))
	f.SetActivityStreamsObject(op)
	return f
}

func TestSeedC08_6(t *testing.T) {
	const (
		peer1 = "https://one.example/seedC08x6/actor"
		peer2 = "https://two.example/seedC08x6/actor"
	)
	db := &seedC08x6DB{locks: make(map[string]chan struct{})}
	atDeliver := make(chan struct{}, 1)
	release := make(chan struct{})
	delivered := make(map[string]int)
	var dmu sync.Mutex

	var w FederatingWrappedCallbacks
	w.OnFollow = OnFollowAutomaticallyAccept
	w.db = db
	w.inboxIRI = mustParse(seedC08x6Inbox)
	n := 0
	w.addNewIds = func(c context.Context, activity Activity) error {
		dmu.Lock()
		defer dmu.Unlock()
		n++
		idp := streams.NewJSONLDIdProperty()
		idp.Set(mustParse(seedC08x6Me + "/accepts/" + string(rune('0'+n))))
		activity.SetJSONLDId(idp)
		return nil
	}
	w.deliver = func(c context.Context, outboxIRI *url.URL, activity Activity) error {
		// R1's Accept is slow to go out.
		if seedC08x6Req(c) == "R1" {
			atDeliver <- struct{}{}
			<-release
		}
		dmu.Lock()
		delivered[seedC08x6Req(c)]++
		dmu.Unlock()
		return nil
	}
	run := func(name string, f vocab.ActivityStreamsFollow) <-chan error {
		done := make(chan error, 1)
		c := context.WithValue(context.Background(), seedC08x6ctxKey{}, name)
		go func() { done <- w.follow(c, f) }()
		return done
	}
	wait := func(what string, ch <-chan error) {
		select {
		case err := <-ch:
			if err != nil {
				t.Fatalf("%s: %v", what, err)
			}
		case <-time.After(10 * time.Second):
			t.Fatalf("%s did not complete", what)
		}
	}

	done1 := run("R1", seedC08x6Follow("https://one.example/seedC08x6/follow/1", peer1))
	select {
	case <-atDeliver:
	case err := <-done1:
		t.Fatalf("R1 ended before delivering its Accept: %v", err)
	case <-time.After(10 * time.Second):
		t.Fatalf("R1 did not reach deliver")
	}
	// R2 runs from start to end while R1 is still delivering.
	wait("R2", run("R2", seedC08x6Follow("https://two.example/seedC08x6/follow/1", peer2)))
	close(release)
	wait("R1", done1)

	got := make(map[string]int)
	for _, s := range db.followers {
		got[s]++
	}
	if got[peer1] != 1 || got[peer2] != 1 || len(got) != 2 {
		t.Errorf("followers = %v, want exactly %s and %s once each", db.followers, peer1, peer2)
	}
	if delivered["R1"] != 1 || delivered["R2"] != 1 {
		t.Errorf("Accepts delivered: %v, want one per request", delivered)
	}
}
