package streams

import (
	"context"
	"errors"
	"testing"

	"github.com/go-fed/activity/streams/vocab"
)

// TestSeedC14_6: when several registered callbacks are written for the value's
// own type, a resolver picks the FIRST of them in registration order, invokes
// nothing else and returns that callback's error unchanged. This must hold
// for typed values (TypeResolver), also when the TypeResolver is the delegate
// of a predicated resolver, exactly as it does for JSON input.
func TestSeedC14_6(t *testing.T) {
	seedC14x6errFirst := errors.New("seedC14x6: first Note callback")
	var seedC14x6log []string
	seedC14x6cbs := []interface{}{
		func(c context.Context, x vocab.ActivityStreamsPerson) error {
			seedC14x6log = append(seedC14x6log, "Person#0")
			return nil
		},
		func(c context.Context, x vocab.ActivityStreamsNote) error {
			seedC14x6log = append(seedC14x6log, "Note#1")
			return seedC14x6errFirst
		},
		func(c context.Context, x vocab.ActivityStreamsArticle) error {
			seedC14x6log = append(seedC14x6log, "Article#2")
			return nil
		},
		func(c context.Context, x vocab.ActivityStreamsNote) error {
			seedC14x6log = append(seedC14x6log, "Note#3")
			return nil
		},
	}
	seedC14x6check := func(which string, err error) {
		t.Helper()
		if err != seedC14x6errFirst {
			t.Errorf("%s: error = %v, want the first Note callback's error %v", which, err, seedC14x6errFirst)
		}
		if len(seedC14x6log) != 1 || seedC14x6log[0] != "Note#1" {
			t.Errorf("%s: invoked %v, want exactly [Note#1]", which, seedC14x6log)
		}
	}
	note := NewActivityStreamsNote()

	// Typed value.
	tr, err := NewTypeResolver(seedC14x6cbs...)
	if err != nil {
		t.Fatalf("NewTypeResolver: %v", err)
	}
	seedC14x6log = nil
	seedC14x6check("TypeResolver", tr.Resolve(context.Background(), note))

	// Predicated resolution delegating to the TypeResolver.
	pr, err := NewTypePredicatedResolver(tr, func(c context.Context, x vocab.ActivityStreamsNote) (bool, error) {
		return true, nil
	})
	if err != nil {
		t.Fatalf("NewTypePredicatedResolver: %v", err)
	}
	seedC14x6log = nil
	ok, err := pr.Apply(context.Background(), note)
	if !ok {
		t.Errorf("TypePredicatedResolver: Apply bool = false, want true")
	}
	seedC14x6check("TypePredicatedResolver", err)

	// JSON input, same callback list.
	jr, err := NewJSONResolver(seedC14x6cbs...)
	if err != nil {
		t.Fatalf("NewJSONResolver: %v", err)
	}
	seedC14x6log = nil
	seedC14x6check("JSONResolver", jr.Resolve(context.Background(), map[string]interface{}{
		"@context": "https://www.w3.org/ns/activitystreams",
		"type":     "Note",
		"content":  "hello",
	}))

	// Without duplicates nothing changes: the Article callback is the one for an Article.
	seedC14x6log = nil
	if err := tr.Resolve(context.Background(), NewActivityStreamsArticle()); err != nil {
		t.Errorf("TypeResolver(Article): error = %v, want nil", err)
	}
	if len(seedC14x6log) != 1 || seedC14x6log[0] != "Article#2" {
		t.Errorf("TypeResolver(Article): invoked %v, want exactly [Article#2]", seedC14x6log)
	}
}
