package pub

import (
	"bytes"
	"context"
	"net/http"
	"net/http/httptest"
	"testing"

	"github.com/golang/mock/gomock"
)

// seedC07x6Post runs one POST against the actor, converting a panic into a test
// error so that every case is reported.
func seedC07x6Post(t *testing.T, fn func(context.Context, http.ResponseWriter, *http.Request) (bool, error), w http.ResponseWriter, r *http.Request) (handled bool, err error) {
	defer func() {
		if p := recover(); p != nil {
			t.Errorf("POST to a disabled protocol's endpoint panicked instead of answering 405: %v", p)
		}
	}()
	return fn(context.Background(), w, r)
}

// TestSeedC07_6 checks the single-protocol constructors: an Actor built with
// NewFederatingActor has the Social API disabled, and one built with
// NewSocialActor has the Federated Protocol disabled. An ActivityPub POST to
// the endpoint of the disabled protocol must be answered with 405 Method Not
// Allowed without consulting the application at all.
func TestSeedC07_6(t *testing.T) {
	setupData()
	type seedC07x6Body struct {
		name string
		body func() []byte
	}
	bodies := []seedC07x6Body{
		{"Create", func() []byte { return mustSerializeToBytes(testCreateNoId) }},
		{"CreateId", func() []byte { return mustSerializeToBytes(testCreate) }},
		{"BareNote", func() []byte { return mustSerializeToBytes(testMyNoteNoId) }},
		{"Follow", func() []byte { return mustSerializeToBytes(testFollow) }},
		{"NotJSON", func() []byte { return []byte("not json") }},
		{"EmptyBody", func() []byte { return nil }},
		{"UnknownType", func() []byte {
			return []byte(`{"type":"http://www.types.example/ProductOffer","id":"http://www.example.com/spam"}`)
		}},
	}
	for _, ct := range []string{
		"application/activity+json",
		"application/ld+json; profile=\"https://www.w3.org/ns/activitystreams\"",
	} {
		for _, b := range bodies {
			ct, bname, body := ct, b.name, b.body
			t.Run("FederatingOnly/PostOutbox/"+bname+"/"+ct, func(t *testing.T) {
				ctl := gomock.NewController(t)
				defer ctl.Finish()
				// No expectations: any application call fails.
				common := NewMockCommonBehavior(ctl)
				fp := NewMockFederatingProtocol(ctl)
				db := NewMockDatabase(ctl)
				clock := NewMockClock(ctl)
				a := NewFederatingActor(common, fp, db, clock)
				req := httptest.NewRequest("POST", testMyOutboxIRI, bytes.NewBuffer(body()))
				req.Header.Set(contentTypeHeader, ct)
				resp := httptest.NewRecorder()
				handled, err := seedC07x6Post(t, a.PostOutbox, resp, req)
				if err != nil {
					t.Errorf("expected no error, got %v", err)
				}
				if !handled {
					t.Errorf("ActivityPub POST reported as not handled")
				}
				if resp.Code != http.StatusMethodNotAllowed {
					t.Errorf("outbox POST to a federating-only actor: got status %d, want 405", resp.Code)
				}
			})
			t.Run("SocialOnly/PostInbox/"+bname+"/"+ct, func(t *testing.T) {
				ctl := gomock.NewController(t)
				defer ctl.Finish()
				common := NewMockCommonBehavior(ctl)
				sp := NewMockSocialProtocol(ctl)
				db := NewMockDatabase(ctl)
				clock := NewMockClock(ctl)
				a := NewSocialActor(common, sp, db, clock)
				req := httptest.NewRequest("POST", testMyInboxIRI, bytes.NewBuffer(body()))
				req.Header.Set(contentTypeHeader, ct)
				resp := httptest.NewRecorder()
				handled, err := seedC07x6Post(t, a.PostInbox, resp, req)
				if err != nil {
					t.Errorf("expected no error, got %v", err)
				}
				if !handled {
					t.Errorf("ActivityPub POST reported as not handled")
				}
				if resp.Code != http.StatusMethodNotAllowed {
					t.Errorf("inbox POST to a social-only actor: got status %d, want 405", resp.Code)
				}
			})
		}
	}
}
