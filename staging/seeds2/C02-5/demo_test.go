package pub

import (
	"context"
	"encoding/json"
	"fmt"
	"net/url"
	"sort"
	"strings"
	"testing"

	"github.com/go-fed/activity/streams"
	"github.com/go-fed/activity/streams/vocab"
	"github.com/golang/mock/gomock"
)

const (
	seedC02x5Me       = "https://me.example/users/me"
	seedC02x5MeInbox  = "https://me.example/users/me/inbox"
	seedC02x5MeOutbox = "https://me.example/users/me/outbox"
)

// seedC02x5World is a tiny fake federation: remote documents by IRI, inboxes
// the application has stored by actor IRI, and a log of what the transport
// was asked to do.
type seedC02x5World struct {
	docs      map[string]string // IRI -> JSON document ("" => fetch error)
	stored    map[string]string // actor IRI -> application-stored inbox
	depth     int
	derefs    []string
	delivered [][]string
}

func seedC02x5Person(id, inbox string) string {
	return fmt.Sprintf(`{"@context":"https://www.w3.org/ns/activitystreams","type":"Person","id":%q,"inbox":%q}`, id, inbox)
}

func seedC02x5Collection(typ, id string, items ...string) string {
	prop := "items"
	if strings.HasPrefix(typ, "Ordered") {
		prop = "orderedItems"
	}
	b, _ := json.Marshal(items)
	return fmt.Sprintf(`{"@context":"https://www.w3.org/ns/activitystreams","type":%q,"id":%q,%q:%s}`, typ, id, prop, b)
}

// seedC02x5Deliver federates a Create addressed as given from the sender's
// outbox through a real sideEffectActor wired to the fake world.
func seedC02x5Deliver(t *testing.T, w *seedC02x5World, to, cc []string) error {
	ctl := gomock.NewController(t)
	defer ctl.Finish()
	ctx := context.Background()
	c := NewMockCommonBehavior(ctl)
	fp := NewMockFederatingProtocol(ctl)
	db := NewMockDatabase(ctl)
	tp := NewMockTransport(ctl)
	a := &sideEffectActor{common: c, s2s: fp, c2s: NewMockSocialProtocol(ctl), db: db, clock: NewMockClock(ctl)}

	c.EXPECT().NewTransport(gomock.Any(), gomock.Any(), gomock.Any()).Return(tp, nil).AnyTimes()
	fp.EXPECT().MaxDeliveryRecursionDepth(gomock.Any()).Return(w.depth).AnyTimes()
	db.EXPECT().Lock(gomock.Any(), gomock.Any()).Return(nil).AnyTimes()
	db.EXPECT().Unlock(gomock.Any(), gomock.Any()).Return(nil).AnyTimes()
	db.EXPECT().ActorForOutbox(gomock.Any(), gomock.Any()).Return(mustParse(seedC02x5Me), nil).AnyTimes()
	db.EXPECT().Get(gomock.Any(), gomock.Any()).DoAndReturn(func(_ context.Context, id *url.URL) (vocab.Type, error) {
		var m map[string]interface{}
		if err := json.Unmarshal([]byte(seedC02x5Person(id.String(), seedC02x5MeInbox)), &m); err != nil {
			return nil, err
		}
		return streams.ToType(ctx, m)
	}).AnyTimes()
	db.EXPECT().InboxForActor(gomock.Any(), gomock.Any()).DoAndReturn(func(_ context.Context, actor *url.URL) (*url.URL, error) {
		if s, ok := w.stored[actor.String()]; ok {
			return mustParse(s), nil
		}
		return nil, nil
	}).AnyTimes()
	tp.EXPECT().Dereference(gomock.Any(), gomock.Any()).DoAndReturn(func(_ context.Context, iri *url.URL) ([]byte, error) {
		w.derefs = append(w.derefs, iri.String())
		if d := w.docs[iri.String()]; d != "" {
			return []byte(d), nil
		}
		return nil, fmt.Errorf("unreachable: %s", iri)
	}).AnyTimes()
	tp.EXPECT().BatchDeliver(gomock.Any(), gomock.Any(), gomock.Any()).DoAndReturn(func(_ context.Context, _ []byte, rcpt []*url.URL) error {
		var s []string
		for _, u := range rcpt {
			s = append(s, u.String())
		}
		sort.Strings(s)
		w.delivered = append(w.delivered, s)
		return nil
	}).AnyTimes()

	act := streams.NewActivityStreamsCreate()
	id := streams.NewJSONLDIdProperty()
	id.Set(mustParse("https://me.example/activities/1"))
	act.SetJSONLDId(id)
	if len(to) > 0 {
		p := streams.NewActivityStreamsToProperty()
		for _, s := range to {
			p.AppendIRI(mustParse(s))
		}
		act.SetActivityStreamsTo(p)
	}
	if len(cc) > 0 {
		p := streams.NewActivityStreamsCcProperty()
		for _, s := range cc {
			p.AppendIRI(mustParse(s))
		}
		act.SetActivityStreamsCc(p)
	}
	return a.Deliver(ctx, mustParse(seedC02x5MeOutbox), act)
}

func seedC02x5Check(t *testing.T, w *seedC02x5World, err error, want []string) {
	t.Helper()
	if err != nil {
		t.Errorf("Deliver failed: %v", err)
		return
	}
	if len(w.delivered) != 1 {
		t.Errorf("BatchDeliver called %d times, want exactly once", len(w.delivered))
		return
	}
	sort.Strings(want)
	if got := w.delivered[0]; strings.Join(got, " ") != strings.Join(want, " ") {
		t.Errorf("delivered to\n  %v\nwant\n  %v", got, want)
	}
}

// Recipients that cannot be fetched or parsed are skipped and the remaining
// inboxes are still delivered to - wherever in a recipient list or collection
// the bad recipient happens to stand, including at its very end.
func TestSeedC02_5(t *testing.T) {
	const (
		a, b     = "https://r.example/a", "https://r.example/b"
		dead     = "https://gone.example/dead"
		garbled  = "https://r.example/garbled"
		unknown  = "https://r.example/unknown"
		coll     = "https://r.example/a/followers"
		deadLast = "https://gone.example/dead-last"
	)
	newWorld := func() *seedC02x5World {
		return &seedC02x5World{
			depth: 3,
			docs: map[string]string{
				a:       seedC02x5Person(a, a+"/inbox"),
				b:       seedC02x5Person(b, b+"/inbox"),
				garbled: "<html>502 bad gateway</html>",
				unknown: `{"@context":"https://www.w3.org/ns/activitystreams","type":"NoSuchType","id":"` + unknown + `"}`,
				coll:    seedC02x5Collection("Collection", coll, b, garbled),
			},
			stored: map[string]string{},
		}
	}
	want := []string{a + "/inbox", b + "/inbox"}

	// Bad recipients first / in the middle of the top-level list.
	w := newWorld()
	err := seedC02x5Deliver(t, w, []string{dead, a, unknown, b}, nil)
	seedC02x5Check(t, w, err, want)

	// Bad recipient as the last member of a collection.
	w = newWorld()
	err = seedC02x5Deliver(t, w, []string{coll, a}, nil)
	seedC02x5Check(t, w, err, want)

	// Bad recipient as the very last addressee.
	w = newWorld()
	err = seedC02x5Deliver(t, w, []string{a, b}, []string{deadLast})
	seedC02x5Check(t, w, err, want)
}
