package pub

import (
	"context"
	"crypto/sha256"
	"encoding/base64"
	"encoding/json"
	"io/ioutil"
	"net/http"
	"net/http/httptest"
	"testing"

	"github.com/go-fed/activity/streams"
	"github.com/go-fed/activity/streams/vocab"
	"github.com/golang/mock/gomock"
)

const (
	seedC20x6AnnounceId = "https://example.com/seedC20x6/announce/1"
	seedC20x6CreateId   = "https://example.com/seedC20x6/create/1"
	seedC20x6NoteId     = "https://example.com/seedC20x6/note/1"
	seedC20x6Public     = "https://example.com/seedC20x6/followers"
	seedC20x6Hidden1    = "https://secret.example.com/seedC20x6/hidden/1"
	seedC20x6Hidden2    = "https://secret.example.com/seedC20x6/hidden/2"
	seedC20x6Hidden3    = "https://secret.example.com/seedC20x6/hidden/3"
)

// seedC20x6Build builds Announce{ object: Create{ object: Note } }. When hidden
// is true every level additionally carries 'bto' and/or 'bcc' recipients.
func seedC20x6Build(hidden bool) vocab.ActivityStreamsAnnounce {
	id := func(s string) vocab.JSONLDIdProperty {
		p := streams.NewJSONLDIdProperty()
		p.Set(mustParse(s))
		return p
	}
	to := func() vocab.ActivityStreamsToProperty {
		p := streams.NewActivityStreamsToProperty()
		p.AppendIRI(mustParse(seedC20x6Public))
		return p
	}
	bto := func(s string) vocab.ActivityStreamsBtoProperty {
		p := streams.NewActivityStreamsBtoProperty()
		p.AppendIRI(mustParse(s))
		return p
	}
	bcc := func(s string) vocab.ActivityStreamsBccProperty {
		p := streams.NewActivityStreamsBccProperty()
		p.AppendIRI(mustParse(s))
		return p
	}
	note := streams.NewActivityStreamsNote()
	note.SetJSONLDId(id(seedC20x6NoteId))
	note.SetActivityStreamsTo(to())
	content := streams.NewActivityStreamsContentProperty()
	content.AppendXMLSchemaString("seedC20x6 note")
	note.SetActivityStreamsContent(content)
	if hidden {
		note.SetActivityStreamsBto(bto(seedC20x6Hidden3))
		note.SetActivityStreamsBcc(bcc(seedC20x6Hidden1))
	}

	create := streams.NewActivityStreamsCreate()
	create.SetJSONLDId(id(seedC20x6CreateId))
	create.SetActivityStreamsTo(to())
	cop := streams.NewActivityStreamsObjectProperty()
	cop.AppendActivityStreamsNote(note)
	create.SetActivityStreamsObject(cop)
	if hidden {
		create.SetActivityStreamsBcc(bcc(seedC20x6Hidden2))
	}

	announce := streams.NewActivityStreamsAnnounce()
	announce.SetJSONLDId(id(seedC20x6AnnounceId))
	announce.SetActivityStreamsTo(to())
	aop := streams.NewActivityStreamsObjectProperty()
	aop.AppendActivityStreamsCreate(create)
	announce.SetActivityStreamsObject(aop)
	if hidden {
		announce.SetActivityStreamsBto(bto(seedC20x6Hidden1))
		announce.SetActivityStreamsBcc(bcc(seedC20x6Hidden2))
	}
	return announce
}

// seedC20x6FindHidden walks decoded JSON and reports the path of every 'bto' or
// 'bcc' member.
func seedC20x6FindHidden(v interface{}, path string, out *[]string) {
	switch t := v.(type) {
	case map[string]interface{}:
		for k, e := range t {
			if k == "bto" || k == "bcc" {
				*out = append(*out, path+"."+k)
			}
			seedC20x6FindHidden(e, path+"."+k, out)
		}
	case []interface{}:
		for _, e := range t {
			seedC20x6FindHidden(e, path+"[]", out)
		}
	}
}

// TestSeedC20_6 fetches, through the ActivityStreams handler, an Announce that
// embeds a Create that embeds a Note, with hidden recipients at all three
// levels. The served body must be the value with 'bto'/'bcc' removed at every
// level of 'object' nesting, and the Digest must cover the served bytes.
func TestSeedC20_6(t *testing.T) {
	ctx := context.Background()
	ctl := gomock.NewController(t)
	defer ctl.Finish()
	db := NewMockDatabase(ctl)
	clock := NewMockClock(ctl)
	hf := NewActivityStreamsHandler(db, clock)

	stored := seedC20x6Build(true)
	wantBody := mustSerializeToBytes(seedC20x6Build(false))

	resp := httptest.NewRecorder()
	req := toAPRequest(httptest.NewRequest("GET", seedC20x6AnnounceId, nil))
	db.EXPECT().Lock(ctx, mustParse(seedC20x6AnnounceId))
	db.EXPECT().Get(ctx, mustParse(seedC20x6AnnounceId)).Return(stored, nil)
	db.EXPECT().Unlock(ctx, mustParse(seedC20x6AnnounceId))
	clock.EXPECT().Now().Return(now())

	isAS, err := hf(ctx, resp, req)
	if err != nil || !isAS {
		t.Fatalf("handler: isAS=%v err=%v", isAS, err)
	}
	if resp.Code != http.StatusOK {
		t.Errorf("status = %d, want 200", resp.Code)
	}
	res := resp.Result()
	body, err := ioutil.ReadAll(res.Body)
	if err != nil {
		t.Fatal(err)
	}
	sum := sha256.Sum256(body)
	if got, want := res.Header.Get(digestHeader), "SHA-256="+base64.StdEncoding.EncodeToString(sum[:]); got != want {
		t.Errorf("Digest = %q, want %q", got, want)
	}
	if got := res.Header.Get(contentTypeHeader); got != contentTypeHeaderValue {
		t.Errorf("Content-Type = %q", got)
	}
	var decoded interface{}
	if err := json.Unmarshal(body, &decoded); err != nil {
		t.Fatalf("served body is not JSON: %v", err)
	}
	var leaks []string
	seedC20x6FindHidden(decoded, "$", &leaks)
	if len(leaks) != 0 {
		t.Errorf("served body still contains hidden recipients at %v:\n%s", leaks, body)
	}
	if string(body) != string(wantBody) {
		t.Errorf("served body is not the stored value minus bto/bcc:\n got %s\nwant %s", body, wantBody)
	}
}
