package pub

import (
	"context"
	"crypto"
	"fmt"
	"net/http"
	"net/http/httptest"
	"net/url"
	"strings"
	"sync"
	"testing"
	"time"
)

type seedC19x6Clock struct{}

func (seedC19x6Clock) Now() time.Time { return time.Date(2021, 3, 4, 5, 6, 7, 0, time.UTC) }

type seedC19x6Signer struct{}

func (seedC19x6Signer) SignRequest(pKey crypto.PrivateKey, pubKeyId string, r *http.Request, body []byte) error {
	r.Header.Set("Signature", "seedC19x6")
	return nil
}

func (seedC19x6Signer) SignResponse(pKey crypto.PrivateKey, pubKeyId string, r http.ResponseWriter, body []byte) error {
	return nil
}

// seedC19x6Client answers per recipient host: plan[host] is an HTTP status, or
// 0 for a transport-level error. It counts attempts per URL.
type seedC19x6Client struct {
	mu       sync.Mutex
	plan     map[string]int
	attempts map[string]int
}

func (c *seedC19x6Client) Do(req *http.Request) (*http.Response, error) {
	c.mu.Lock()
	c.attempts[req.URL.String()]++
	code := c.plan[req.URL.Host]
	c.mu.Unlock()
	if code == 0 {
		return nil, fmt.Errorf("dial %s: connection refused", req.URL.Host)
	}
	rec := httptest.NewRecorder()
	rec.WriteHeader(code)
	return rec.Result(), nil
}

func TestSeedC19_6(t *testing.T) {
	cases := [][]int{
		{},
		{200},
		{500},
		{200, 202, 201},
		{200, 0},
		{404, 201},
		{404, 500},
		{0, 0},
		{200, 410, 0, 202, 503},
		{0, 401, 403, 500, 502, 0, 429},
		{201, 500, 200, 0, 202, 404, 200, 302},
	}
	for ci, codes := range cases {
		cl := &seedC19x6Client{plan: map[string]int{}, attempts: map[string]int{}}
		var rcpts []*url.URL
		var failing []string
		for i, code := range codes {
			host := fmt.Sprintf("peer%d-%d.example", ci, i)
			cl.plan[host] = code
			u, err := url.Parse("https://" + host + "/inbox")
			if err != nil {
				t.Fatal(err)
			}
			rcpts = append(rcpts, u)
			if !(code == 200 || code == 201 || code == 202) {
				failing = append(failing, host)
			}
		}
		tp := NewHttpSigTransport(cl, "seedApp", seedC19x6Clock{}, seedC19x6Signer{}, seedC19x6Signer{}, "key#1", []byte("k"))
		err := tp.BatchDeliver(context.Background(), []byte(`{"type":"Note"}`), rcpts)
		// every recipient attempted exactly once
		for _, u := range rcpts {
			if n := cl.attempts[u.String()]; n != 1 {
				t.Fatalf("case %v: %s attempted %d times, want 1", codes, u, n)
			}
		}
		// error iff at least one failure
		if (err != nil) != (len(failing) > 0) {
			t.Fatalf("case %v: %d failing recipients but BatchDeliver returned %v", codes, len(failing), err)
		}
		// every failure is named
		for _, host := range failing {
			if !strings.Contains(err.Error(), host) {
				t.Fatalf("case %v: failure of %s is not named in the batch error: %v", codes, host, err)
			}
		}
	}
}
