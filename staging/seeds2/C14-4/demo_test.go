package streams

import (
	"context"
	"testing"

	"github.com/go-fed/activity/streams/vocab"
)

// TestSeedC14_4: a multi-valued "type" whose first entry is a type the
// vocabularies do not define and whose second entry is a defined type must
// resolve to the defined type: the callback written for that type is invoked
// exactly once, nothing else is invoked, and its result is returned. When no
// entry is a defined type, the error must be recognised by IsUnmatchedErr.
func TestSeedC14_4(t *testing.T) {
	var seedC14x4log []string
	r, err := NewJSONResolver(
		func(c context.Context, x vocab.ActivityStreamsPerson) error {
			seedC14x4log = append(seedC14x4log, "Person")
			return nil
		},
		func(c context.Context, x vocab.ActivityStreamsNote) error {
			seedC14x4log = append(seedC14x4log, "Note:"+x.GetTypeName())
			return nil
		},
	)
	if err != nil {
		t.Fatalf("NewJSONResolver: %v", err)
	}
	seedC14x4mk := func(types ...interface{}) map[string]interface{} {
		return map[string]interface{}{
			"@context": "https://www.w3.org/ns/activitystreams",
			"type":     types,
			"id":       "https://example.com/n/1",
			"content":  "hello",
		}
	}

	// Unknown type first, defined type second.
	seedC14x4log = nil
	err = r.Resolve(context.Background(), seedC14x4mk("http://schema.org/CreativeWork", "Note"))
	if err != nil {
		t.Errorf("type [unknown, Note]: Resolve returned %v, want nil from the Note callback", err)
	}
	if len(seedC14x4log) != 1 || seedC14x4log[0] != "Note:Note" {
		t.Errorf("type [unknown, Note]: callbacks invoked = %v, want exactly [Note:Note]", seedC14x4log)
	}

	// Same through ToType.
	v, err := ToType(context.Background(), seedC14x4mk("http://schema.org/CreativeWork", "Note"))
	if err != nil {
		t.Errorf("ToType with type [unknown, Note]: error %v, want nil", err)
	} else if v == nil || v.GetTypeName() != "Note" {
		t.Errorf("ToType with type [unknown, Note]: got %v, want a Note", v)
	}

	// Only unknown types: nothing invoked, unmatched error.
	seedC14x4log = nil
	err = r.Resolve(context.Background(), seedC14x4mk("http://schema.org/CreativeWork", "http://schema.org/Thing"))
	if !IsUnmatchedErr(err) {
		t.Errorf("type [unknown, unknown]: error %v is not recognised by IsUnmatchedErr", err)
	}
	if len(seedC14x4log) != 0 {
		t.Errorf("type [unknown, unknown]: callbacks invoked = %v, want none", seedC14x4log)
	}

	// Single unknown type string: unmatched error.
	m := seedC14x4mk()
	m["type"] = "http://schema.org/Thing"
	if err = r.Resolve(context.Background(), m); !IsUnmatchedErr(err) {
		t.Errorf("type unknown: error %v is not recognised by IsUnmatchedErr", err)
	}
}
