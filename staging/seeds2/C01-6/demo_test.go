package streams

import (
	"context"
	"encoding/json"
	"testing"
)

// seedC01x6RoundTrip decodes a JSON document into native values with ToType,
// encodes it again with Serialize and returns the re-parsed JSON result.
func seedC01x6RoundTrip(t *testing.T, in []byte) map[string]interface{} {
	t.Helper()
	var m map[string]interface{}
	if err := json.Unmarshal(in, &m); err != nil {
		t.Fatalf("bad test input: %v", err)
	}
	ty, err := ToType(context.Background(), m)
	if err != nil {
		t.Fatalf("ToType rejected the document: %v", err)
	}
	out, err := Serialize(ty)
	if err != nil {
		t.Fatalf("Serialize: %v", err)
	}
	b, err := json.Marshal(out)
	if err != nil {
		t.Fatalf("json.Marshal: %v", err)
	}
	var r map[string]interface{}
	if err := json.Unmarshal(b, &r); err != nil {
		t.Fatalf("json.Unmarshal of output: %v", err)
	}
	return r
}

// Whole-second xsd:duration values in canonical form (each field below the
// carry of the next larger one) must come back unchanged from
// decode -> encode, at the top level and inside a nested object.
func TestSeedC01_6(t *testing.T) {
	durations := []string{
		"PT2H30M",
		"PT45S",
		"P29DT23H59M59S",
		"P1M",
		"P6M",
		"P11M29D",
		"P1Y2M3DT4H5M6S",
		"-P2M10D",
	}
	for _, d := range durations {
		d := d
		t.Run(d, func(t *testing.T) {
			doc := map[string]interface{}{
				"@context": "https://www.w3.org/ns/activitystreams",
				"type":     "Video",
				"id":       "https://example.com/v/1",
				"duration": d,
				"attachment": map[string]interface{}{
					"type":     "Audio",
					"id":       "https://example.com/a/1",
					"duration": d,
				},
			}
			in, err := json.Marshal(doc)
			if err != nil {
				t.Fatal(err)
			}
			out := seedC01x6RoundTrip(t, in)
			if got := out["duration"]; got != interface{}(d) {
				t.Errorf("top-level duration %q came back as %#v", d, got)
			}
			att, ok := out["attachment"].(map[string]interface{})
			if !ok {
				t.Fatalf("attachment lost or changed shape: %#v", out["attachment"])
			}
			if got := att["duration"]; got != interface{}(d) {
				t.Errorf("nested duration %q came back as %#v", d, got)
			}
			// A second round trip must not change anything either.
			again, err := json.Marshal(out)
			if err != nil {
				t.Fatal(err)
			}
			out2 := seedC01x6RoundTrip(t, again)
			if got := out2["duration"]; got != out["duration"] {
				t.Errorf("second round trip changed duration %#v into %#v", out["duration"], got)
			}
		})
	}
}
