package pub

import (
	"context"
	"encoding/json"
	"net/url"
	"reflect"
	"sort"
	"testing"

	"github.com/go-fed/activity/streams"
	"github.com/go-fed/activity/streams/vocab"
	"github.com/golang/mock/gomock"
)

const (
	seedC17x6ActivityIRI  = "https://peer.example.org/activity/seed6"
	seedC17x6PeerNoteIRI  = "https://peer.example.org/note/seed6"
	seedC17x6LocalNoteIRI = "https://example.com/note/seed6"
	seedC17x6ColA         = "https://example.com/addison/followers"
	seedC17x6ColB         = "https://example.com/groups/gophers/members"
	seedC17x6ForeignCol   = "https://peer.example.org/users/dakota/followers"
	seedC17x6HiddenActor  = "https://third.example.net/users/hidden"
	seedC17x6HiddenActor2 = "https://third.example.net/users/hidden2"
	seedC17x6MemberA1     = "https://third.example.net/users/kim"
	seedC17x6MemberA2     = "https://third.example.net/users/lee"
	seedC17x6MemberB1     = "https://fourth.example.net/users/max"
	seedC17x6Inbox        = "https://example.com/addison/inbox"
)

// seedC17x6Members lists the top-level member names of a JSON object.
func seedC17x6Members(m map[string]interface{}) []string {
	var k []string
	for name := range m {
		k = append(k, name)
	}
	sort.Strings(k)
	return k
}

// TestSeedC17_6: a peer sends a Create that still carries 'bcc' on the
// activity and 'bto' on the embedded note (the peer did not strip them, which
// the federation protocol does not oblige it to). The activity qualifies for
// inbox forwarding; what is forwarded must have exactly the members of what
// was received, and go to exactly the collections the filter kept.
func TestSeedC17_6(t *testing.T) {
	ctx := context.Background()
	ctl := gomock.NewController(t)
	defer ctl.Finish()

	cm := NewMockCommonBehavior(ctl)
	fp := NewMockFederatingProtocol(ctl)
	sp := NewMockSocialProtocol(ctl)
	db := NewMockDatabase(ctl)
	cl := NewMockClock(ctl)
	tp := NewMockTransport(ctl)
	a := &sideEffectActor{common: cm, s2s: fp, c2s: sp, db: db, clock: cl}

	// The received activity.
	note := streams.NewActivityStreamsNote()
	nid := streams.NewJSONLDIdProperty()
	nid.Set(mustParse(seedC17x6PeerNoteIRI))
	note.SetJSONLDId(nid)
	irt := streams.NewActivityStreamsInReplyToProperty()
	irt.AppendIRI(mustParse(seedC17x6LocalNoteIRI))
	note.SetActivityStreamsInReplyTo(irt)
	nbto := streams.NewActivityStreamsBtoProperty()
	nbto.AppendIRI(mustParse(seedC17x6HiddenActor2))
	note.SetActivityStreamsBto(nbto)

	create := streams.NewActivityStreamsCreate()
	id := streams.NewJSONLDIdProperty()
	id.Set(mustParse(seedC17x6ActivityIRI))
	create.SetJSONLDId(id)
	to := streams.NewActivityStreamsToProperty()
	to.AppendIRI(mustParse(seedC17x6ColA))
	to.AppendIRI(mustParse(seedC17x6ForeignCol))
	create.SetActivityStreamsTo(to)
	cc := streams.NewActivityStreamsCcProperty()
	cc.AppendIRI(mustParse(seedC17x6ColB))
	create.SetActivityStreamsCc(cc)
	bcc := streams.NewActivityStreamsBccProperty()
	bcc.AppendIRI(mustParse(seedC17x6HiddenActor))
	create.SetActivityStreamsBcc(bcc)
	op := streams.NewActivityStreamsObjectProperty()
	op.AppendActivityStreamsNote(note)
	create.SetActivityStreamsObject(op)

	// What was received, captured before processing.
	received, err := streams.Serialize(create)
	if err != nil {
		t.Fatal(err)
	}
	receivedBytes, err := json.Marshal(received)
	if err != nil {
		t.Fatal(err)
	}

	// Collections owned by this server: A is a plain Collection, B is an
	// OrderedCollection.
	colA := streams.NewActivityStreamsCollection()
	ai := streams.NewActivityStreamsItemsProperty()
	ai.AppendIRI(mustParse(seedC17x6MemberA1))
	ai.AppendIRI(mustParse(seedC17x6MemberA2))
	colA.SetActivityStreamsItems(ai)
	colB := streams.NewActivityStreamsOrderedCollection()
	bi := streams.NewActivityStreamsOrderedItemsProperty()
	bi.AppendIRI(mustParse(seedC17x6MemberB1))
	colB.SetActivityStreamsOrderedItems(bi)

	seen := map[string]int{}
	db.EXPECT().Lock(gomock.Any(), gomock.Any()).Return(nil).AnyTimes()
	db.EXPECT().Unlock(gomock.Any(), gomock.Any()).Return(nil).AnyTimes()
	db.EXPECT().Exists(gomock.Any(), gomock.Any()).DoAndReturn(
		func(c context.Context, id *url.URL) (bool, error) {
			return seen[id.String()] > 0, nil
		}).AnyTimes()
	db.EXPECT().Create(gomock.Any(), gomock.Any()).DoAndReturn(
		func(c context.Context, v vocab.Type) error {
			seen[v.GetJSONLDId().Get().String()]++
			return nil
		}).AnyTimes()
	db.EXPECT().Owns(gomock.Any(), gomock.Any()).DoAndReturn(
		func(c context.Context, id *url.URL) (bool, error) {
			return id.Host == "example.com", nil
		}).AnyTimes()
	db.EXPECT().Get(gomock.Any(), mustParse(seedC17x6ColA)).Return(colA, nil).AnyTimes()
	db.EXPECT().Get(gomock.Any(), mustParse(seedC17x6ColB)).Return(colB, nil).AnyTimes()

	fp.EXPECT().MaxInboxForwardingRecursionDepth(gomock.Any()).Return(3).AnyTimes()
	var offered []string
	fp.EXPECT().FilterForwarding(gomock.Any(), gomock.Any(), gomock.Any()).DoAndReturn(
		func(c context.Context, r []*url.URL, act Activity) ([]*url.URL, error) {
			for _, u := range r {
				offered = append(offered, u.String())
			}
			// The application keeps only collection A.
			return []*url.URL{mustParse(seedC17x6ColA)}, nil
		}).AnyTimes()

	var payloads [][]byte
	var recipients [][]*url.URL
	cm.EXPECT().NewTransport(gomock.Any(), gomock.Any(), gomock.Any()).Return(tp, nil).AnyTimes()
	tp.EXPECT().BatchDeliver(gomock.Any(), gomock.Any(), gomock.Any()).DoAndReturn(
		func(c context.Context, b []byte, r []*url.URL) error {
			payloads = append(payloads, b)
			recipients = append(recipients, r)
			return nil
		}).AnyTimes()

	if err := a.InboxForwarding(ctx, mustParse(seedC17x6Inbox), create); err != nil {
		t.Fatalf("unexpected error: %v", err)
	}
	// A repeat must not forward again.
	if err := a.InboxForwarding(ctx, mustParse(seedC17x6Inbox), create); err != nil {
		t.Fatalf("unexpected error on repeat: %v", err)
	}

	if n := seen[seedC17x6ActivityIRI]; n != 1 {
		t.Errorf("activity recorded as seen %d times, want 1", n)
	}
	if !reflect.DeepEqual(offered, []string{seedC17x6ColA, seedC17x6ColB}) {
		t.Errorf("filter was offered %v, want the two owned collections", offered)
	}
	if len(payloads) != 1 {
		t.Fatalf("forwarded %d times, want 1", len(payloads))
	}
	r := recipients[0]
	if len(r) != 2 || r[0].String() != seedC17x6MemberA1 || r[1].String() != seedC17x6MemberA2 {
		t.Errorf("forwarded to %v, want exactly the members of the collection the filter kept", r)
	}
	var forwarded map[string]interface{}
	if err := json.Unmarshal(payloads[0], &forwarded); err != nil {
		t.Fatalf("forwarded payload is not JSON: %v", err)
	}
	var want map[string]interface{}
	if err := json.Unmarshal(receivedBytes, &want); err != nil {
		t.Fatal(err)
	}
	if !reflect.DeepEqual(forwarded, want) {
		t.Errorf("forwarded payload differs from the received activity:\n received members: %v\nforwarded members: %v\n received: %s\nforwarded: %s",
			seedC17x6Members(want), seedC17x6Members(forwarded), receivedBytes, payloads[0])
	}
}
