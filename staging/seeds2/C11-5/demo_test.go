package streams

import (
	"context"
	"encoding/json"
	"fmt"
	"testing"
)

// seedC11x5Decode decodes one JSON document with ToType and converts a panic
// of the decoder into an error string so that the caller can report it.
func seedC11x5Decode(doc string) (typeName string, err error, panicked interface{}) {
	var m map[string]interface{}
	if uerr := json.Unmarshal([]byte(doc), &m); uerr != nil {
		return "", uerr, nil
	}
	defer func() {
		panicked = recover()
	}()
	v, terr := ToType(context.Background(), m)
	if v != nil {
		typeName = v.GetTypeName()
	}
	return typeName, terr, nil
}

// TestSeedC11_5: a 'duration' member that starts like an xsd:duration but is
// not one the codec understands (fractional seconds, weeks, trailing garbage)
// must be decoded, kept as an unknown value or rejected with an error; the
// decoder must not panic, neither at the top level nor inside a nested object
// of a request body.
func TestSeedC11_5(t *testing.T) {
	durations := []string{
		"PT1.5S",  // valid xsd:duration, fractional seconds
		"P2W",     // ISO 8601 weeks
		"PT5M30",  // unit missing
		"P1Y2M3X", // trailing garbage
		"P-1D",    // sign in the wrong place
		"PT2H ",   // trailing blank
	}
	for _, d := range durations {
		top := fmt.Sprintf(`{"@context":"https://www.w3.org/ns/activitystreams","type":"Video","id":"https://example.com/v/1","duration":%q}`, d)
		if name, err, p := seedC11x5Decode(top); p != nil {
			t.Errorf("ToType panicked on duration %q: %v", d, p)
		} else {
			t.Logf("duration %q: type=%q err=%v", d, name, err)
		}
		nested := fmt.Sprintf(`{"@context":"https://www.w3.org/ns/activitystreams","type":"Create","id":"https://example.com/c/1","actor":"https://example.com/u/1","object":{"type":"Audio","id":"https://example.com/a/1","duration":%q}}`, d)
		if name, err, p := seedC11x5Decode(nested); p != nil {
			t.Errorf("ToType panicked on nested duration %q: %v", d, p)
		} else {
			t.Logf("nested duration %q: type=%q err=%v", d, name, err)
		}
	}
	// Well-formed values keep working either way.
	for _, d := range []string{"PT2H", "PT2H30M", "P1Y2M3DT4H5M6S", "-P1D", "P"} {
		doc := fmt.Sprintf(`{"@context":"https://www.w3.org/ns/activitystreams","type":"Video","duration":%q}`, d)
		if name, err, p := seedC11x5Decode(doc); p != nil || err != nil || name != "Video" {
			t.Errorf("well-formed duration %q: type=%q err=%v panic=%v", d, name, err, p)
		}
	}
}
