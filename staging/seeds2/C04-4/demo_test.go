package pub

import (
	"context"
	"net/url"
	"reflect"
	"testing"

	"github.com/go-fed/activity/streams"
	"github.com/go-fed/activity/streams/vocab"
	"github.com/golang/mock/gomock"
)

// seedC04x4Activity gives every activity under test an id, an actor and one
// IRI object so that a default handler, were it (wrongly) reached, would try to
// touch the database / transport and be caught by the strict mocks.
func seedC04x4Activity(a Activity) Activity {
	id := streams.NewJSONLDIdProperty()
	id.Set(mustParse("https://other.example.com/activity/seedC04x4"))
	a.SetJSONLDId(id)
	actor := streams.NewActivityStreamsActorProperty()
	actor.AppendIRI(mustParse(testFederatedActorIRI))
	a.SetActivityStreamsActor(actor)
	op := streams.NewActivityStreamsObjectProperty()
	op.AppendIRI(mustParse("https://other.example.com/object/seedC04x4"))
	a.SetActivityStreamsObject(op)
	return a
}

// TestSeedC04_4: for every activity type that has a default (wrapped) handler,
// an application function of the same signature supplied via 'other' must
// replace the default entirely: only the 'other' function runs, neither the
// default side effect nor the wrapped application callback does.
//
// The callbacks are dispatched exactly the way sideEffectActor.PostInbox does
// it: streams.NewTypeResolver(wrapped.callbacks(other)...).Resolve(...).
func TestSeedC04_4(t *testing.T) {
	ctx := context.Background()
	var log []string
	note := func(s string) { log = append(log, s) }

	wrappedApp := func() FederatingWrappedCallbacks {
		return FederatingWrappedCallbacks{
			Create:   func(context.Context, vocab.ActivityStreamsCreate) error { note("wrapped:Create"); return nil },
			Update:   func(context.Context, vocab.ActivityStreamsUpdate) error { note("wrapped:Update"); return nil },
			Delete:   func(context.Context, vocab.ActivityStreamsDelete) error { note("wrapped:Delete"); return nil },
			Follow:   func(context.Context, vocab.ActivityStreamsFollow) error { note("wrapped:Follow"); return nil },
			OnFollow: OnFollowAutomaticallyAccept,
			Accept:   func(context.Context, vocab.ActivityStreamsAccept) error { note("wrapped:Accept"); return nil },
			Reject:   func(context.Context, vocab.ActivityStreamsReject) error { note("wrapped:Reject"); return nil },
			Add:      func(context.Context, vocab.ActivityStreamsAdd) error { note("wrapped:Add"); return nil },
			Remove:   func(context.Context, vocab.ActivityStreamsRemove) error { note("wrapped:Remove"); return nil },
			Like:     func(context.Context, vocab.ActivityStreamsLike) error { note("wrapped:Like"); return nil },
			Announce: func(context.Context, vocab.ActivityStreamsAnnounce) error { note("wrapped:Announce"); return nil },
			Undo:     func(context.Context, vocab.ActivityStreamsUndo) error { note("wrapped:Undo"); return nil },
			Block:    func(context.Context, vocab.ActivityStreamsBlock) error { note("wrapped:Block"); return nil },
		}
	}

	cases := []struct {
		name     string
		activity Activity
		other    interface{}
	}{
		{"Create", streams.NewActivityStreamsCreate(), func(context.Context, vocab.ActivityStreamsCreate) error { note("other:Create"); return nil }},
		{"Update", streams.NewActivityStreamsUpdate(), func(context.Context, vocab.ActivityStreamsUpdate) error { note("other:Update"); return nil }},
		{"Delete", streams.NewActivityStreamsDelete(), func(context.Context, vocab.ActivityStreamsDelete) error { note("other:Delete"); return nil }},
		{"Follow", streams.NewActivityStreamsFollow(), func(context.Context, vocab.ActivityStreamsFollow) error { note("other:Follow"); return nil }},
		{"Accept", streams.NewActivityStreamsAccept(), func(context.Context, vocab.ActivityStreamsAccept) error { note("other:Accept"); return nil }},
		{"Reject", streams.NewActivityStreamsReject(), func(context.Context, vocab.ActivityStreamsReject) error { note("other:Reject"); return nil }},
		{"Add", streams.NewActivityStreamsAdd(), func(context.Context, vocab.ActivityStreamsAdd) error { note("other:Add"); return nil }},
		{"Remove", streams.NewActivityStreamsRemove(), func(context.Context, vocab.ActivityStreamsRemove) error { note("other:Remove"); return nil }},
		{"Like", streams.NewActivityStreamsLike(), func(context.Context, vocab.ActivityStreamsLike) error { note("other:Like"); return nil }},
		{"Announce", streams.NewActivityStreamsAnnounce(), func(context.Context, vocab.ActivityStreamsAnnounce) error { note("other:Announce"); return nil }},
		{"Undo", streams.NewActivityStreamsUndo(), func(context.Context, vocab.ActivityStreamsUndo) error { note("other:Undo"); return nil }},
		{"Block", streams.NewActivityStreamsBlock(), func(context.Context, vocab.ActivityStreamsBlock) error { note("other:Block"); return nil }},
	}
	for _, tc := range cases {
		tc := tc
		t.Run(tc.name, func(t *testing.T) {
			ctl := gomock.NewController(t)
			defer ctl.Finish()
			log = nil
			// Strict mocks without expectations: any database or
			// transport use by a default handler fails the test.
			mockDB := NewMockDatabase(ctl)
			mockTp := NewMockTransport(ctl)
			w := wrappedApp()
			w.db = mockDB
			w.inboxIRI = mustParse(testMyInboxIRI)
			w.newTransport = func(context.Context, *url.URL, string) (Transport, error) {
				return mockTp, nil
			}
			w.addNewIds = func(context.Context, Activity) error {
				t.Errorf("default handler identified a response although %s was overridden", tc.name)
				return nil
			}
			w.deliver = func(context.Context, *url.URL, Activity) error {
				t.Errorf("default handler delivered a response although %s was overridden", tc.name)
				return nil
			}
			// The application's slice, with spare capacity and an
			// unrelated handler as well.
			other := make([]interface{}, 0, 8)
			other = append(other,
				func(context.Context, vocab.ActivityStreamsListen) error { note("other:Listen"); return nil },
				tc.other)
			res, err := streams.NewTypeResolver(w.callbacks(other)...)
			if err != nil {
				t.Fatalf("NewTypeResolver: %v", err)
			}
			if err := res.Resolve(ctx, seedC04x4Activity(tc.activity)); err != nil {
				t.Fatalf("Resolve(%s): %v", tc.name, err)
			}
			want := []string{"other:" + tc.name}
			if !reflect.DeepEqual(log, want) {
				t.Fatalf("%s overridden through 'other': callbacks run = %v, want %v", tc.name, log, want)
			}
		})
	}
}
