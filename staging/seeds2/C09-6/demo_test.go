package pub

import (
	"context"
	"encoding/json"
	"errors"
	"fmt"
	"net/url"
	"sort"
	"testing"

	"github.com/go-fed/activity/streams"
	"github.com/go-fed/activity/streams/vocab"
	"github.com/golang/mock/gomock"
)

// seedC09x6DB is a Database fake that keeps track of the ids the request
// currently holds a lock on and that can be told to fail one particular call.
type seedC09x6DB struct {
	held     map[string]int
	problems []string
	calls    map[string]int
	// failAt maps "Method id" to the 1-based occurrence that must fail.
	failAt  map[string]int
	owned   map[string]bool
	objects map[string]vocab.Type
	// outboxActor maps an outbox to its actor; actorInbox is what
	// InboxForActor knows (a missing entry makes it return nil, nil, which
	// the Database documentation explicitly allows).
	outboxActor map[string]string
	actorInbox  map[string]string
}

var _ Database = &seedC09x6DB{}

var seedC09x6Err = errors.New("seedC09x6: injected failure")

func seedC09x6NewDB() *seedC09x6DB {
	return &seedC09x6DB{
		held:    make(map[string]int),
		calls:   make(map[string]int),
		failAt:  make(map[string]int),
		owned:   make(map[string]bool),
		objects: make(map[string]vocab.Type),

		outboxActor: make(map[string]string),
		actorInbox:  make(map[string]string),
	}
}

func (d *seedC09x6DB) fails(method string, id *url.URL) bool {
	k := method + " " + id.String()
	d.calls[k]++
	return d.failAt[k] == d.calls[k]
}

func (d *seedC09x6DB) access(method string) {
	n := 0
	for _, v := range d.held {
		n += v
	}
	if n == 0 {
		d.problems = append(d.problems, method+" called while no lock is held")
	}
}

func (d *seedC09x6DB) stillHeld() []string {
	var out []string
	for k, v := range d.held {
		if v > 0 {
			out = append(out, k)
		}
	}
	sort.Strings(out)
	return out
}

func (d *seedC09x6DB) Lock(c context.Context, id *url.URL) error {
	if d.fails("Lock", id) {
		return seedC09x6Err
	}
	if d.held[id.String()] > 0 {
		d.problems = append(d.problems, "Lock of "+id.String()+" while already held")
	}
	d.held[id.String()]++
	return nil
}

func (d *seedC09x6DB) Unlock(c context.Context, id *url.URL) error {
	if d.held[id.String()] == 0 {
		d.problems = append(d.problems, "Unlock of "+id.String()+" which is not held")
		return nil
	}
	d.held[id.String()]--
	return nil
}

func (d *seedC09x6DB) Owns(c context.Context, id *url.URL) (bool, error) {
	d.access("Owns")
	if d.fails("Owns", id) {
		return false, seedC09x6Err
	}
	return d.owned[id.String()], nil
}

func (d *seedC09x6DB) Exists(c context.Context, id *url.URL) (bool, error) {
	d.access("Exists")
	if d.fails("Exists", id) {
		return false, seedC09x6Err
	}
	_, ok := d.objects[id.String()]
	return ok, nil
}

func (d *seedC09x6DB) Get(c context.Context, id *url.URL) (vocab.Type, error) {
	d.access("Get")
	if d.fails("Get", id) {
		return nil, seedC09x6Err
	}
	v, ok := d.objects[id.String()]
	if !ok {
		return nil, fmt.Errorf("seedC09x6: no such object %s", id)
	}
	return v, nil
}

func (d *seedC09x6DB) Create(c context.Context, t vocab.Type) error {
	d.access("Create")
	id, err := GetId(t)
	if err != nil {
		return err
	}
	if d.fails("Create", id) {
		return seedC09x6Err
	}
	d.objects[id.String()] = t
	return nil
}

func (d *seedC09x6DB) Update(c context.Context, t vocab.Type) error {
	d.access("Update")
	return nil
}

func (d *seedC09x6DB) Delete(c context.Context, id *url.URL) error {
	d.access("Delete")
	return nil
}

func (d *seedC09x6DB) InboxContains(c context.Context, inbox, id *url.URL) (bool, error) {
	d.access("InboxContains")
	return false, nil
}

func (d *seedC09x6DB) GetInbox(c context.Context, inboxIRI *url.URL) (vocab.ActivityStreamsOrderedCollectionPage, error) {
	d.access("GetInbox")
	return streams.NewActivityStreamsOrderedCollectionPage(), nil
}

func (d *seedC09x6DB) SetInbox(c context.Context, inbox vocab.ActivityStreamsOrderedCollectionPage) error {
	d.access("SetInbox")
	return nil
}

func (d *seedC09x6DB) GetOutbox(c context.Context, outboxIRI *url.URL) (vocab.ActivityStreamsOrderedCollectionPage, error) {
	d.access("GetOutbox")
	return streams.NewActivityStreamsOrderedCollectionPage(), nil
}

func (d *seedC09x6DB) SetOutbox(c context.Context, outbox vocab.ActivityStreamsOrderedCollectionPage) error {
	d.access("SetOutbox")
	return nil
}

func (d *seedC09x6DB) ActorForOutbox(c context.Context, outboxIRI *url.URL) (*url.URL, error) {
	d.access("ActorForOutbox")
	if d.fails("ActorForOutbox", outboxIRI) {
		return nil, seedC09x6Err
	}
	return seedC09x6URL(d.outboxActor[outboxIRI.String()]), nil
}

func (d *seedC09x6DB) ActorForInbox(c context.Context, inboxIRI *url.URL) (*url.URL, error) {
	d.access("ActorForInbox")
	return nil, seedC09x6Err
}

func (d *seedC09x6DB) OutboxForInbox(c context.Context, inboxIRI *url.URL) (*url.URL, error) {
	d.access("OutboxForInbox")
	return nil, seedC09x6Err
}

func (d *seedC09x6DB) InboxForActor(c context.Context, actorIRI *url.URL) (*url.URL, error) {
	d.access("InboxForActor")
	if d.fails("InboxForActor", actorIRI) {
		return nil, seedC09x6Err
	}
	if in, ok := d.actorInbox[actorIRI.String()]; ok {
		return seedC09x6URL(in), nil
	}
	return nil, nil
}

func (d *seedC09x6DB) NewID(c context.Context, t vocab.Type) (*url.URL, error) {
	return nil, seedC09x6Err
}

func (d *seedC09x6DB) Followers(c context.Context, actorIRI *url.URL) (vocab.ActivityStreamsCollection, error) {
	d.access("Followers")
	return streams.NewActivityStreamsCollection(), nil
}

func (d *seedC09x6DB) Following(c context.Context, actorIRI *url.URL) (vocab.ActivityStreamsCollection, error) {
	d.access("Following")
	return streams.NewActivityStreamsCollection(), nil
}

func (d *seedC09x6DB) Liked(c context.Context, actorIRI *url.URL) (vocab.ActivityStreamsCollection, error) {
	d.access("Liked")
	return streams.NewActivityStreamsCollection(), nil
}

func seedC09x6URL(s string) *url.URL {
	u, err := url.Parse(s)
	if err != nil {
		panic(err)
	}
	return u
}

// TestSeedC09_6 delivers a Create from a local actor to one remote actor whose
// inbox the database has cached. It does so once with a database that can map
// the sending actor to its inbox (InboxForActor), and once with a database
// that returns nil for it, which the Database documentation allows. In both
// cases every database read must happen while the request holds a lock, and no
// lock may be left behind.
func TestSeedC09_6(t *testing.T) {
	const (
		outboxIRI  = "https://example.com/seedC09x6/addison/outbox"
		meIRI      = "https://example.com/seedC09x6/addison"
		myInboxIRI = "https://example.com/seedC09x6/addison/inbox"
		peerIRI    = "https://other.example.com/seedC09x6/dakota"
		peerInbox  = "https://other.example.com/seedC09x6/dakota/inbox"
	)
	ctx := context.Background()
	newCreate := func() vocab.ActivityStreamsCreate {
		act := streams.NewActivityStreamsCreate()
		id := streams.NewJSONLDIdProperty()
		id.Set(seedC09x6URL("https://example.com/seedC09x6/activity/1"))
		act.SetJSONLDId(id)
		actor := streams.NewActivityStreamsActorProperty()
		actor.AppendIRI(seedC09x6URL(meIRI))
		act.SetActivityStreamsActor(actor)
		note := streams.NewActivityStreamsNote()
		nid := streams.NewJSONLDIdProperty()
		nid.Set(seedC09x6URL("https://example.com/seedC09x6/note/1"))
		note.SetJSONLDId(nid)
		op := streams.NewActivityStreamsObjectProperty()
		op.AppendActivityStreamsNote(note)
		act.SetActivityStreamsObject(op)
		to := streams.NewActivityStreamsToProperty()
		to.AppendIRI(seedC09x6URL(peerIRI))
		// The sender addresses itself as well; it must be dropped again.
		to.AppendIRI(seedC09x6URL(meIRI))
		act.SetActivityStreamsTo(to)
		return act
	}
	newDB := func(senderInboxKnown bool) *seedC09x6DB {
		db := seedC09x6NewDB()
		db.outboxActor[outboxIRI] = meIRI
		db.actorInbox[peerIRI] = peerInbox
		if senderInboxKnown {
			db.actorInbox[meIRI] = myInboxIRI
		}
		me := streams.NewActivityStreamsPerson()
		id := streams.NewJSONLDIdProperty()
		id.Set(seedC09x6URL(meIRI))
		me.SetJSONLDId(id)
		inbox := streams.NewActivityStreamsInboxProperty()
		inbox.SetIRI(seedC09x6URL(myInboxIRI))
		me.SetActivityStreamsInbox(inbox)
		db.objects[meIRI] = me
		return db
	}
	for _, known := range []bool{true, false} {
		known := known
		t.Run(fmt.Sprintf("SenderInboxKnownToInboxForActor=%v", known), func(t *testing.T) {
			ctl := gomock.NewController(t)
			defer ctl.Finish()
			db := newDB(known)
			tp := NewMockTransport(ctl)
			cb := NewMockCommonBehavior(ctl)
			fp := NewMockFederatingProtocol(ctl)
			cb.EXPECT().NewTransport(gomock.Any(), gomock.Any(), gomock.Any()).Return(tp, nil).AnyTimes()
			fp.EXPECT().MaxDeliveryRecursionDepth(gomock.Any()).Return(1).AnyTimes()
			var got []*url.URL
			if !known {
				// The sender is in 'to' and InboxForActor does not
				// know it, so it is dereferenced like any peer.
				meBytes, err := seedC09x6Bytes(db.objects[meIRI])
				if err != nil {
					t.Fatal(err)
				}
				tp.EXPECT().Dereference(gomock.Any(), seedC09x6URL(meIRI)).Return(meBytes, nil).AnyTimes()
			}
			tp.EXPECT().BatchDeliver(gomock.Any(), gomock.Any(), gomock.Any()).DoAndReturn(
				func(c context.Context, b []byte, r []*url.URL) error {
					got = r
					if h := db.stillHeld(); len(h) != 0 {
						t.Errorf("delivering while locks are still held: %v", h)
					}
					return nil
				})
			a := &sideEffectActor{common: cb, s2s: fp, db: db}
			if err := a.Deliver(ctx, seedC09x6URL(outboxIRI), newCreate()); err != nil {
				t.Fatalf("unexpected error %v", err)
			}
			if len(got) != 1 || got[0].String() != peerInbox {
				t.Errorf("expected delivery to exactly [%s], got %v", peerInbox, got)
			}
			for _, p := range db.problems {
				t.Errorf("lock discipline: %s", p)
			}
			if h := db.stillHeld(); len(h) != 0 {
				t.Errorf("locks still held when Deliver returned: %v", h)
			}
		})
	}
}

func seedC09x6Bytes(t vocab.Type) ([]byte, error) {
	m, err := streams.Serialize(t)
	if err != nil {
		return nil, err
	}
	return json.Marshal(m)
}
