package pub

import (
	"context"
	"crypto/sha256"
	"encoding/base64"
	"io/ioutil"
	"net/http"
	"net/http/httptest"
	"testing"
	"time"

	"github.com/golang/mock/gomock"
)

// seedC20x5CheckHeaders verifies the three integrity headers of a served
// ActivityStreams response against the bytes that were actually written.
func seedC20x5CheckHeaders(t *testing.T, where string, resp *httptest.ResponseRecorder, at time.Time, wantBody []byte) {
	res := resp.Result()
	body, err := ioutil.ReadAll(res.Body)
	if err != nil {
		t.Fatalf("%s: %v", where, err)
	}
	if string(body) != string(wantBody) {
		t.Errorf("%s: body = %s\nwant %s", where, body, wantBody)
	}
	if got := res.Header[contentTypeHeader]; len(got) != 1 || got[0] != contentTypeHeaderValue {
		t.Errorf("%s: Content-Type = %q, want exactly [%q]", where, got, contentTypeHeaderValue)
	}
	if got, want := res.Header.Get(dateHeader), at.UTC().Format("Mon, 02 Jan 2006 15:04:05")+" GMT"; got != want {
		t.Errorf("%s: Date = %q, want %q", where, got, want)
	}
	sum := sha256.Sum256(body)
	if got, want := res.Header.Get(digestHeader), "SHA-256="+base64.StdEncoding.EncodeToString(sum[:]); got != want {
		t.Errorf("%s: Digest = %q, want %q", where, got, want)
	}
}

// TestSeedC20_5 serves the outbox and a stored value through writers on which
// something upstream of go-fed (an outer middleware, or the application's own
// Authenticate hook, which is handed the ResponseWriter) has already put a
// default Content-Type. The ActivityStreams body must still be labelled with the
// ActivityStreams Content-Type.
func TestSeedC20_5(t *testing.T) {
	setupData()
	ctx := context.Background()
	at := time.Date(2021, 12, 31, 23, 59, 58, 600000000, time.FixedZone("seedC20x5", 5*3600+1800))

	t.Run("GetOutbox/HookSetsDefaultContentType", func(t *testing.T) {
		ctl := gomock.NewController(t)
		defer ctl.Finish()
		delegate := NewMockDelegateActor(ctl)
		clock := NewMockClock(ctl)
		a := NewCustomActor(delegate, true, true, clock)
		resp := httptest.NewRecorder()
		req := toAPRequest(toGetOutboxRequest())
		delegate.EXPECT().AuthenticateGetOutbox(ctx, resp, req).DoAndReturn(
			func(c context.Context, w http.ResponseWriter, r *http.Request) (context.Context, bool, error) {
				// Typical application code: prepare the writer for the
				// error page it would render on a failed login.
				w.Header().Set("Content-Type", "text/html; charset=utf-8")
				return c, true, nil
			})
		delegate.EXPECT().GetOutbox(ctx, req).Return(testOrderedCollectionUniqueElems, nil)
		clock.EXPECT().Now().Return(at)
		handled, err := a.GetOutbox(ctx, resp, req)
		if err != nil || !handled {
			t.Fatalf("GetOutbox: handled=%v err=%v", handled, err)
		}
		if resp.Code != http.StatusOK {
			t.Errorf("status = %d, want 200", resp.Code)
		}
		seedC20x5CheckHeaders(t, "GetOutbox", resp, at, []byte(testOrderedCollectionUniqueElemsString))
	})

	t.Run("Handler/MiddlewareSetsDefaultContentType", func(t *testing.T) {
		ctl := gomock.NewController(t)
		defer ctl.Finish()
		db := NewMockDatabase(ctl)
		clock := NewMockClock(ctl)
		hf := NewActivityStreamsHandler(db, clock)
		resp := httptest.NewRecorder()
		// An outer JSON-API middleware has already stamped its default.
		resp.Header().Set("Content-Type", "application/json")
		req := toAPRequest(httptest.NewRequest("GET", testNoteId1, nil))
		db.EXPECT().Lock(ctx, mustParse(testNoteId1))
		db.EXPECT().Get(ctx, mustParse(testNoteId1)).Return(testTombstone, nil)
		db.EXPECT().Unlock(ctx, mustParse(testNoteId1))
		clock.EXPECT().Now().Return(at)
		isAS, err := hf(ctx, resp, req)
		if err != nil || !isAS {
			t.Fatalf("handler: isAS=%v err=%v", isAS, err)
		}
		if resp.Code != http.StatusGone {
			t.Errorf("status = %d, want 410", resp.Code)
		}
		seedC20x5CheckHeaders(t, "handler", resp, at, mustSerializeToBytes(testTombstone))
	})
}
