package streams

import (
	"context"
	"encoding/json"
	"sort"
	"strings"
	"testing"
)

// seedC01x5Contexts decodes a JSON document with ToType, encodes it again with
// Serialize and returns the vocabularies named by the produced @context,
// scheme-normalised (http:// and https:// are the same vocabulary) and sorted.
func seedC01x5Contexts(t *testing.T, in string) []string {
	t.Helper()
	var m map[string]interface{}
	if err := json.Unmarshal([]byte(in), &m); err != nil {
		t.Fatalf("bad test input: %v", err)
	}
	ty, err := ToType(context.Background(), m)
	if err != nil {
		t.Fatalf("ToType rejected the document: %v", err)
	}
	out, err := Serialize(ty)
	if err != nil {
		t.Fatalf("Serialize: %v", err)
	}
	b, err := json.Marshal(out)
	if err != nil {
		t.Fatalf("json.Marshal: %v", err)
	}
	var r map[string]interface{}
	if err := json.Unmarshal(b, &r); err != nil {
		t.Fatalf("json.Unmarshal of output: %v", err)
	}
	var raw []interface{}
	switch c := r["@context"].(type) {
	case string:
		raw = []interface{}{c}
	case []interface{}:
		raw = c
	default:
		t.Fatalf("unexpected @context %#v", r["@context"])
	}
	var res []string
	for _, e := range raw {
		s, ok := e.(string)
		if !ok {
			t.Fatalf("unexpected non-string @context entry %#v", e)
		}
		s = strings.TrimPrefix(strings.TrimPrefix(s, "https://"), "http://")
		res = append(res, s)
	}
	sort.Strings(res)
	return res
}

// The re-encoded @context must name exactly the vocabularies the document
// uses - no more, no fewer - also when the ActivityStreams core vocabulary is
// not among them.
func TestSeedC01_5(t *testing.T) {
	const (
		as       = "www.w3.org/ns/activitystreams"
		toot     = "joinmastodon.org/ns"
		forgefed = "forgefed.peers.community/ns"
		security = "w3id.org/security/v1"
	)
	cases := []struct {
		name string
		doc  string
		want []string
	}{
		{
			name: "toot type with only a forgefed property",
			doc:  `{"@context":["https://joinmastodon.org/ns","https://forgefed.peers.community/ns"],"type":"Emoji","id":"https://example.com/emoji/1","ticketsTrackedBy":"https://example.com/tracker"}`,
			want: []string{forgefed, toot},
		},
		{
			name: "toot type with toot and forgefed properties",
			doc:  `{"@context":["https://joinmastodon.org/ns","https://forgefed.peers.community/ns"],"type":"IdentityProof","id":"https://example.com/proof/1","signatureAlgorithm":"keybase","signatureValue":"abc","team":"https://example.com/team"}`,
			want: []string{forgefed, toot},
		},
		{
			name: "single non-core vocabulary",
			doc:  `{"@context":"https://joinmastodon.org/ns","type":"Emoji","id":"https://example.com/emoji/2"}`,
			want: []string{toot},
		},
		{
			name: "core plus security",
			doc:  `{"@context":["https://www.w3.org/ns/activitystreams","https://w3id.org/security/v1"],"type":"Person","id":"https://example.com/p","publicKey":{"id":"https://example.com/p#k","owner":"https://example.com/p","publicKeyPem":"PEM"}}`,
			want: []string{security, as},
		},
		{
			name: "core plus toot plus forgefed",
			doc:  `{"@context":["https://www.w3.org/ns/activitystreams","https://joinmastodon.org/ns","https://forgefed.peers.community/ns"],"type":"Emoji","id":"https://example.com/emoji/3","name":":x:","team":"https://example.com/team"}`,
			want: []string{forgefed, toot, as},
		},
	}
	for _, c := range cases {
		c := c
		t.Run(c.name, func(t *testing.T) {
			got := seedC01x5Contexts(t, c.doc)
			want := append([]string(nil), c.want...)
			sort.Strings(want)
			if strings.Join(got, " ") != strings.Join(want, " ") {
				t.Errorf("@context names %v, but the document uses exactly %v", got, want)
			}
		})
	}
}
