package propertyname

import (
	"fmt"
	"net/url"
	"reflect"
	"testing"

	vocab "github.com/go-fed/activity/streams/vocab"
)

// seedC18x5Desc renders the kind and value one element reports.
func seedC18x5Desc(it vocab.ActivityStreamsNamePropertyIterator) string {
	var kinds []string
	if it.IsXMLSchemaString() {
		kinds = append(kinds, "string:"+it.GetXMLSchemaString())
	}
	if it.IsRDFLangString() {
		kinds = append(kinds, fmt.Sprintf("lang:%v", it.GetRDFLangString()))
	}
	if it.IsIRI() {
		kinds = append(kinds, "iri:"+it.GetIRI().String())
	}
	return fmt.Sprint(kinds)
}

func seedC18x5Forward(p vocab.ActivityStreamsNameProperty, limit int) []string {
	var got []string
	for it := p.Begin(); it != p.End(); it = it.Next() {
		got = append(got, seedC18x5Desc(it))
		if len(got) > limit {
			break
		}
	}
	return got
}

func seedC18x5Backward(p vocab.ActivityStreamsNameProperty, limit int) []string {
	var got []string
	if p.Len() == 0 {
		return got
	}
	for it := p.At(p.Len() - 1); it != nil; it = it.Prev() {
		got = append(got, seedC18x5Desc(it))
		if len(got) > limit {
			break
		}
	}
	return got
}

// Swapping two elements must leave a container whose indexed access, forward
// and backward iteration and serialised form equal those of a plain list on
// which the same two slots were exchanged.
func TestSeedC18_5(t *testing.T) {
	iri, err := url.Parse("https://example.com/seedC18x5/iri")
	if err != nil {
		t.Fatal(err)
	}
	build := func() (*ActivityStreamsNameProperty, []string, []interface{}) {
		p := NewActivityStreamsNameProperty()
		p.AppendXMLSchemaString("a")
		p.AppendIRI(iri)
		p.AppendRDFLangString(map[string]string{"en": "c"})
		p.AppendXMLSchemaString("d")
		desc := []string{
			"[string:a]",
			"[iri:" + iri.String() + "]",
			"[lang:map[en:c]]",
			"[string:d]",
		}
		ser := []interface{}{"a", iri.String(), map[string]string{"en": "c"}, "d"}
		return p, desc, ser
	}
	for i := 0; i < 4; i++ {
		for j := 0; j < 4; j++ {
			p, desc, ser := build()
			p.Swap(i, j)
			desc[i], desc[j] = desc[j], desc[i]
			ser[i], ser[j] = ser[j], ser[i]
			name := fmt.Sprintf("Swap(%d,%d)", i, j)

			if p.Len() != len(desc) {
				t.Fatalf("%s: Len()=%d, want %d", name, p.Len(), len(desc))
			}
			var indexed []string
			for k := 0; k < p.Len(); k++ {
				indexed = append(indexed, seedC18x5Desc(p.At(k)))
			}
			if !reflect.DeepEqual(indexed, desc) {
				t.Errorf("%s: At() sequence = %v, want %v", name, indexed, desc)
			}
			if got := seedC18x5Forward(p, 8); !reflect.DeepEqual(got, desc) {
				t.Errorf("%s: Begin/Next sequence = %v, want %v", name, got, desc)
			}
			var rev []string
			for k := len(desc) - 1; k >= 0; k-- {
				rev = append(rev, desc[k])
			}
			if got := seedC18x5Backward(p, 8); !reflect.DeepEqual(got, rev) {
				t.Errorf("%s: Prev sequence = %v, want %v", name, got, rev)
			}
			got, err := p.Serialize()
			if err != nil {
				t.Fatalf("%s: Serialize: %v", name, err)
			}
			if !reflect.DeepEqual(got, interface{}(ser)) {
				t.Errorf("%s: Serialize() = %v, want %v", name, got, ser)
			}
		}
	}
}
