package pub

import (
	"bytes"
	"context"
	"net/http"
	"net/http/httptest"
	"testing"

	"github.com/go-fed/activity/streams"
	"github.com/go-fed/activity/streams/vocab"
	"github.com/golang/mock/gomock"
)

// seedC10x4Writer is a ResponseWriter that counts what the library does to it,
// so "nothing written" can be told apart from an implicit 200.
type seedC10x4Writer struct {
	header       http.Header
	headerCalls  int
	statusCalls  []int
	writeCalls   int
	bytesWritten int
}

func (w *seedC10x4Writer) Header() http.Header {
	w.headerCalls++
	if w.header == nil {
		w.header = make(http.Header)
	}
	return w.header
}

func (w *seedC10x4Writer) WriteHeader(code int) {
	w.statusCalls = append(w.statusCalls, code)
}

func (w *seedC10x4Writer) Write(b []byte) (int, error) {
	w.writeCalls++
	w.bytesWritten += len(b)
	return len(b), nil
}

// seedC10x4Body builds an Add/Remove body with the requested properties.
func seedC10x4Body(typ string, withId, withObject, withTarget bool) string {
	var b bytes.Buffer
	b.WriteString(`{"@context":"https://www.w3.org/ns/activitystreams","type":"` + typ + `"`)
	if withId {
		b.WriteString(`,"id":"` + testFederatedActivityIRI + `"`)
	}
	b.WriteString(`,"actor":"` + testFederatedActorIRI + `"`)
	if withObject {
		b.WriteString(`,"object":"` + testNoteId1 + `"`)
	}
	if withTarget {
		b.WriteString(`,"target":"` + testAudienceIRI + `"`)
	}
	b.WriteString(`}`)
	return b.String()
}

// TestSeedC10_4 posts Add and Remove activities that lack their required
// 'object' and/or 'target' to the inbox of a federating actor and to the outbox
// of a social actor, both built with the library's own constructors (so the
// real side effect actor and the real wrapped callbacks run). Each such request
// must end handled, with a nil error and exactly one 400 written.
func TestSeedC10_4(t *testing.T) {
	ctx := context.Background()
	type seedC10x4Case struct {
		name               string
		typ                string
		withObject, target bool
	}
	cases := []seedC10x4Case{
		{"AddNoObject", "Add", false, true},
		{"AddNoTarget", "Add", true, false},
		{"AddNeither", "Add", false, false},
		{"RemoveNoObject", "Remove", false, true},
		{"RemoveNoTarget", "Remove", true, false},
		{"RemoveNeither", "Remove", false, false},
	}
	for _, tc := range cases {
		tc := tc
		t.Run("Inbox"+tc.name, func(t *testing.T) {
			ctl := gomock.NewController(t)
			defer ctl.Finish()
			common := NewMockCommonBehavior(ctl)
			fp := NewMockFederatingProtocol(ctl)
			db := NewMockDatabase(ctl)
			clock := NewMockClock(ctl)
			a := NewFederatingActor(common, fp, db, clock)

			fp.EXPECT().AuthenticatePostInbox(gomock.Any(), gomock.Any(), gomock.Any()).DoAndReturn(
				func(c context.Context, w http.ResponseWriter, r *http.Request) (context.Context, bool, error) {
					return c, true, nil
				})
			fp.EXPECT().PostInboxRequestBodyHook(gomock.Any(), gomock.Any(), gomock.Any()).DoAndReturn(
				func(c context.Context, r *http.Request, activity Activity) (context.Context, error) {
					return c, nil
				})
			fp.EXPECT().Blocked(gomock.Any(), gomock.Any()).Return(false, nil)
			db.EXPECT().Lock(gomock.Any(), gomock.Any()).Return(nil).AnyTimes()
			db.EXPECT().Unlock(gomock.Any(), gomock.Any()).Return(nil).AnyTimes()
			db.EXPECT().InboxContains(gomock.Any(), gomock.Any(), gomock.Any()).Return(false, nil)
			db.EXPECT().GetInbox(gomock.Any(), gomock.Any()).Return(streams.NewActivityStreamsOrderedCollectionPage(), nil)
			db.EXPECT().SetInbox(gomock.Any(), gomock.Any()).Return(nil)
			fp.EXPECT().FederatingCallbacks(gomock.Any()).Return(FederatingWrappedCallbacks{}, nil, nil)

			w := &seedC10x4Writer{}
			req := toAPRequest(httptest.NewRequest("POST", testMyInboxIRI,
				bytes.NewBufferString(seedC10x4Body(tc.typ, true, tc.withObject, tc.target))))
			handled, err := a.PostInbox(ctx, w, req)
			if !handled {
				t.Errorf("handled = false, want true")
			}
			if err != nil {
				t.Errorf("err = %v, want nil (a missing object/target is a 400, not a server error)", err)
			}
			if len(w.statusCalls) != 1 || w.statusCalls[0] != http.StatusBadRequest {
				t.Errorf("WriteHeader calls = %v, want exactly [400]", w.statusCalls)
			}
			if w.writeCalls != 0 {
				t.Errorf("Write calls = %d, want 0", w.writeCalls)
			}
		})
		t.Run("Outbox"+tc.name, func(t *testing.T) {
			ctl := gomock.NewController(t)
			defer ctl.Finish()
			common := NewMockCommonBehavior(ctl)
			sp := NewMockSocialProtocol(ctl)
			db := NewMockDatabase(ctl)
			clock := NewMockClock(ctl)
			a := NewSocialActor(common, sp, db, clock)

			sp.EXPECT().AuthenticatePostOutbox(gomock.Any(), gomock.Any(), gomock.Any()).DoAndReturn(
				func(c context.Context, w http.ResponseWriter, r *http.Request) (context.Context, bool, error) {
					return c, true, nil
				})
			sp.EXPECT().PostOutboxRequestBodyHook(gomock.Any(), gomock.Any(), gomock.Any()).DoAndReturn(
				func(c context.Context, r *http.Request, data vocab.Type) (context.Context, error) {
					return c, nil
				})
			db.EXPECT().NewID(gomock.Any(), gomock.Any()).Return(mustParse(testNewActivityIRI), nil)
			sp.EXPECT().SocialCallbacks(gomock.Any()).Return(SocialWrappedCallbacks{}, nil, nil)

			w := &seedC10x4Writer{}
			req := toAPRequest(httptest.NewRequest("POST", testMyOutboxIRI,
				bytes.NewBufferString(seedC10x4Body(tc.typ, false, tc.withObject, tc.target))))
			handled, err := a.PostOutbox(ctx, w, req)
			if !handled {
				t.Errorf("handled = false, want true")
			}
			if err != nil {
				t.Errorf("err = %v, want nil (a missing object/target is a 400, not a server error)", err)
			}
			if len(w.statusCalls) != 1 || w.statusCalls[0] != http.StatusBadRequest {
				t.Errorf("WriteHeader calls = %v, want exactly [400]", w.statusCalls)
			}
			if w.writeCalls != 0 {
				t.Errorf("Write calls = %d, want 0", w.writeCalls)
			}
			if loc := w.header.Get(locationHeader); loc != "" {
				t.Errorf("Location = %q on a rejected outbox POST, want none", loc)
			}
		})
	}
}
