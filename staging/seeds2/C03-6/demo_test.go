package pub

import (
	"bytes"
	"context"
	"encoding/json"
	"fmt"
	"net/http"
	"net/http/httptest"
	"net/url"
	"testing"

	"github.com/go-fed/activity/streams"
	"github.com/go-fed/activity/streams/vocab"
	"github.com/golang/mock/gomock"
)

// seedC03x6Delivery is one payload handed to the transport.
type seedC03x6Delivery struct {
	payload []byte
	to      []*url.URL
}

// seedC03x6World is a permissive mocked application with both the Social and
// the Federating protocol enabled. Every actor's inbox is known to the database
// as <actor>/inbox, ids are minted sequentially, and everything given to the
// transport is recorded.
type seedC03x6World struct {
	actor      FederatingActor
	deliveries []seedC03x6Delivery
}

func seedC03x6NewWorld(ctl *gomock.Controller) *seedC03x6World {
	w := &seedC03x6World{}
	common := NewMockCommonBehavior(ctl)
	fp := NewMockFederatingProtocol(ctl)
	sp := NewMockSocialProtocol(ctl)
	db := NewMockDatabase(ctl)
	clock := NewMockClock(ctl)
	any := gomock.Any()
	tp := NewMockTransport(ctl)
	tp.EXPECT().BatchDeliver(any, any, any).DoAndReturn(func(c context.Context, b []byte, r []*url.URL) error {
		w.deliveries = append(w.deliveries, seedC03x6Delivery{payload: append([]byte{}, b...), to: r})
		return nil
	}).AnyTimes()
	tp.EXPECT().Dereference(any, any).DoAndReturn(func(c context.Context, u *url.URL) ([]byte, error) {
		return nil, fmt.Errorf("seedC03x6: unexpected dereference of %s", u)
	}).AnyTimes()
	common.EXPECT().NewTransport(any, any, any).Return(tp, nil).AnyTimes()
	fp.EXPECT().MaxDeliveryRecursionDepth(any).Return(1).AnyTimes()
	sp.EXPECT().AuthenticatePostOutbox(any, any, any).DoAndReturn(func(c context.Context, rw http.ResponseWriter, r *http.Request) (context.Context, bool, error) {
		return c, true, nil
	}).AnyTimes()
	sp.EXPECT().PostOutboxRequestBodyHook(any, any, any).DoAndReturn(func(c context.Context, r *http.Request, data vocab.Type) (context.Context, error) {
		return c, nil
	}).AnyTimes()
	sp.EXPECT().SocialCallbacks(any).Return(SocialWrappedCallbacks{}, nil, nil).AnyTimes()
	sp.EXPECT().DefaultCallback(any, any).Return(nil).AnyTimes()
	db.EXPECT().Lock(any, any).Return(nil).AnyTimes()
	db.EXPECT().Unlock(any, any).Return(nil).AnyTimes()
	n := 0
	db.EXPECT().NewID(any, any).DoAndReturn(func(c context.Context, t vocab.Type) (*url.URL, error) {
		n++
		return mustParse(fmt.Sprintf("https://example.com/minted/%d", n)), nil
	}).AnyTimes()
	db.EXPECT().Create(any, any).Return(nil).AnyTimes()
	db.EXPECT().GetOutbox(any, any).DoAndReturn(func(c context.Context, u *url.URL) (vocab.ActivityStreamsOrderedCollectionPage, error) {
		return streams.NewActivityStreamsOrderedCollectionPage(), nil
	}).AnyTimes()
	db.EXPECT().SetOutbox(any, any).Return(nil).AnyTimes()
	db.EXPECT().ActorForOutbox(any, any).Return(mustParse(testPersonIRI), nil).AnyTimes()
	db.EXPECT().InboxForActor(any, any).DoAndReturn(func(c context.Context, u *url.URL) (*url.URL, error) {
		return mustParse(u.String() + "/inbox"), nil
	}).AnyTimes()
	db.EXPECT().Get(any, any).DoAndReturn(func(c context.Context, u *url.URL) (vocab.Type, error) {
		if u.String() == testPersonIRI {
			return testMyPerson, nil
		}
		return nil, fmt.Errorf("seedC03x6: no such value %s", u)
	}).AnyTimes()
	w.actor = NewActor(common, sp, fp, db, clock)
	return w
}

// seedC03x6Hidden reports the JSON paths of 'bto'/'bcc' members on the payload
// itself and on every value embedded in its 'object' property.
func seedC03x6Hidden(t *testing.T, payload []byte) (found []string) {
	var m map[string]interface{}
	if err := json.Unmarshal(payload, &m); err != nil {
		t.Fatalf("payload is not JSON: %v", err)
	}
	check := func(path string, v map[string]interface{}) {
		for _, k := range []string{"bto", "bcc"} {
			if _, ok := v[k]; ok {
				found = append(found, path+k)
			}
		}
	}
	check("/", m)
	switch o := m["object"].(type) {
	case map[string]interface{}:
		check("/object/", o)
	case []interface{}:
		for i, e := range o {
			if em, ok := e.(map[string]interface{}); ok {
				check(fmt.Sprintf("/object[%d]/", i), em)
			}
		}
	}
	return
}

// seedC03x6Check verifies one recorded delivery: no hidden recipients in the
// payload, and all of 'want' (actor IRIs) got it at their inbox.
func seedC03x6Check(t *testing.T, w *seedC03x6World, want ...string) {
	if len(w.deliveries) != 1 {
		t.Fatalf("expected exactly one delivery, got %d", len(w.deliveries))
	}
	d := w.deliveries[0]
	got := make(map[string]bool)
	for _, u := range d.to {
		got[u.String()] = true
	}
	for _, a := range want {
		if !got[a+"/inbox"] {
			t.Errorf("recipient %s did not get the delivery: %v", a, d.to)
		}
	}
	if found := seedC03x6Hidden(t, d.payload); len(found) != 0 {
		t.Errorf("payload handed to the transport contains hidden recipients at %v:\n%s", found, d.payload)
	}
}

// TestSeedC03_6 posts, as a client would (JSON over HTTP to the outbox), a bare
// Note and a Create-with-Note that address hidden recipients on the Note, and
// checks what reaches the transport. The same Note built programmatically and
// passed to Send is the control.
func TestSeedC03_6(t *testing.T) {
	ctx := context.Background()

	post := func(t *testing.T, w *seedC03x6World, body string) {
		req := toAPRequest(httptest.NewRequest("POST", testMyOutboxIRI, bytes.NewBufferString(body)))
		resp := httptest.NewRecorder()
		handled, err := w.actor.PostOutbox(ctx, resp, req)
		if !handled || err != nil {
			t.Fatalf("PostOutbox: handled=%v err=%v", handled, err)
		}
		if resp.Code != http.StatusCreated {
			t.Fatalf("PostOutbox: status %d", resp.Code)
		}
	}

	t.Run("ClientPostsBareNote", func(t *testing.T) {
		ctl := gomock.NewController(t)
		defer ctl.Finish()
		setupData()
		w := seedC03x6NewWorld(ctl)
		post(t, w, `{
			"@context": "https://www.w3.org/ns/activitystreams",
			"type": "Note",
			"content": "surprise party on friday",
			"to": ["`+testFederatedActorIRI+`"],
			"bto": ["`+testFederatedActorIRI3+`"],
			"bcc": "`+testFederatedActorIRI4+`"
		}`)
		seedC03x6Check(t, w, testFederatedActorIRI, testFederatedActorIRI3, testFederatedActorIRI4)
	})

	t.Run("ClientPostsCreateWithNote", func(t *testing.T) {
		ctl := gomock.NewController(t)
		defer ctl.Finish()
		setupData()
		w := seedC03x6NewWorld(ctl)
		post(t, w, `{
			"@context": "https://www.w3.org/ns/activitystreams",
			"type": "Create",
			"actor": "`+testPersonIRI+`",
			"to": "`+testFederatedActorIRI+`",
			"bcc": "`+testFederatedActorIRI4+`",
			"object": {
				"type": "Note",
				"content": "surprise party on friday",
				"bto": "`+testFederatedActorIRI3+`"
			}
		}`)
		seedC03x6Check(t, w, testFederatedActorIRI, testFederatedActorIRI3, testFederatedActorIRI4)
	})

	t.Run("ControlProgrammaticSendOfSameNote", func(t *testing.T) {
		ctl := gomock.NewController(t)
		defer ctl.Finish()
		setupData()
		w := seedC03x6NewWorld(ctl)
		note := streams.NewActivityStreamsNote()
		content := streams.NewActivityStreamsContentProperty()
		content.AppendXMLSchemaString("surprise party on friday")
		note.SetActivityStreamsContent(content)
		to := streams.NewActivityStreamsToProperty()
		to.AppendIRI(mustParse(testFederatedActorIRI))
		note.SetActivityStreamsTo(to)
		bto := streams.NewActivityStreamsBtoProperty()
		bto.AppendIRI(mustParse(testFederatedActorIRI3))
		note.SetActivityStreamsBto(bto)
		bcc := streams.NewActivityStreamsBccProperty()
		bcc.AppendIRI(mustParse(testFederatedActorIRI4))
		note.SetActivityStreamsBcc(bcc)
		if _, err := w.actor.Send(ctx, mustParse(testMyOutboxIRI), note); err != nil {
			t.Fatalf("Send: %v", err)
		}
		seedC03x6Check(t, w, testFederatedActorIRI, testFederatedActorIRI3, testFederatedActorIRI4)
	})
}
