package pub

import (
	"context"
	"crypto/sha256"
	"encoding/base64"
	"encoding/json"
	"io/ioutil"
	"net/http"
	"net/http/httptest"
	"reflect"
	"testing"

	"github.com/go-fed/activity/streams"
	"github.com/golang/mock/gomock"
)

// seedC20x4ItemIds extracts, in order, the ids of the 'orderedItems' of a
// served OrderedCollectionPage body. Items may be plain IRIs (strings) or
// embedded values (objects carrying an "id").
func seedC20x4ItemIds(t *testing.T, body []byte) []string {
	var m map[string]interface{}
	if err := json.Unmarshal(body, &m); err != nil {
		t.Fatalf("served body is not JSON: %v\n%s", err, body)
	}
	var raw []interface{}
	switch v := m["orderedItems"].(type) {
	case nil:
	case []interface{}:
		raw = v
	default:
		raw = []interface{}{v}
	}
	var ids []string
	for _, e := range raw {
		switch v := e.(type) {
		case string:
			ids = append(ids, "iri:"+v)
		case map[string]interface{}:
			id, _ := v["id"].(string)
			ids = append(ids, "embedded:"+id)
		default:
			t.Fatalf("unexpected orderedItems element %#v", e)
		}
	}
	return ids
}

// TestSeedC20_4 serves an inbox page whose duplicates are NOT adjacent and
// checks that the first occurrence of every id survives, in the original
// relative order, and that the Digest covers exactly the served bytes.
func TestSeedC20_4(t *testing.T) {
	const (
		n1 = "https://example.com/seedC20x4/note/1"
		n2 = "https://example.com/seedC20x4/note/2"
		n3 = "https://example.com/seedC20x4/note/3"
	)
	ctx := context.Background()
	ctl := gomock.NewController(t)
	defer ctl.Finish()
	delegate := NewMockDelegateActor(ctl)
	clock := NewMockClock(ctl)
	a := NewCustomActor(delegate, true, true, clock)

	// Page: n1 (IRI), n2 (embedded Note), n1 (IRI), n3 (IRI), n2 (IRI).
	page := streams.NewActivityStreamsOrderedCollectionPage()
	oi := streams.NewActivityStreamsOrderedItemsProperty()
	oi.AppendIRI(mustParse(n1))
	note := streams.NewActivityStreamsNote()
	noteId := streams.NewJSONLDIdProperty()
	noteId.Set(mustParse(n2))
	note.SetJSONLDId(noteId)
	oi.AppendActivityStreamsNote(note)
	oi.AppendIRI(mustParse(n1))
	oi.AppendIRI(mustParse(n3))
	oi.AppendIRI(mustParse(n2))
	page.SetActivityStreamsOrderedItems(oi)

	resp := httptest.NewRecorder()
	req := toAPRequest(toGetInboxRequest())
	delegate.EXPECT().AuthenticateGetInbox(ctx, resp, req).Return(ctx, true, nil)
	delegate.EXPECT().GetInbox(ctx, req).Return(page, nil)
	clock.EXPECT().Now().Return(now())

	handled, err := a.GetInbox(ctx, resp, req)
	if err != nil || !handled {
		t.Fatalf("GetInbox: handled=%v err=%v", handled, err)
	}
	if resp.Code != http.StatusOK {
		t.Fatalf("status = %d, want 200", resp.Code)
	}
	res := resp.Result()
	body, err := ioutil.ReadAll(res.Body)
	if err != nil {
		t.Fatal(err)
	}
	sum := sha256.Sum256(body)
	if got, want := res.Header.Get(digestHeader), "SHA-256="+base64.StdEncoding.EncodeToString(sum[:]); got != want {
		t.Errorf("Digest = %q, want %q", got, want)
	}
	got := seedC20x4ItemIds(t, body)
	want := []string{"iri:" + n1, "embedded:" + n2, "iri:" + n3}
	if !reflect.DeepEqual(got, want) {
		t.Errorf("served orderedItems = %v\nwant first occurrences in original order = %v", got, want)
	}
}
