package pub

import (
	"context"
	"encoding/json"
	"fmt"
	"net/url"
	"testing"

	"github.com/go-fed/activity/streams"
	"github.com/go-fed/activity/streams/vocab"
	"github.com/golang/mock/gomock"
)

// seedC03x4Delivery is one payload handed to the transport.
type seedC03x4Delivery struct {
	payload []byte
	to      []*url.URL
}

// seedC03x4World is a permissive mocked application around the library: every
// actor's inbox is known to the database (<actor>/inbox), ids are minted
// sequentially, and everything given to the transport is recorded.
type seedC03x4World struct {
	common     *MockCommonBehavior
	fp         *MockFederatingProtocol
	db         *MockDatabase
	clock      *MockClock
	deliveries []seedC03x4Delivery
}

func seedC03x4NewWorld(ctl *gomock.Controller, onFollow OnFollowBehavior) *seedC03x4World {
	w := &seedC03x4World{
		common: NewMockCommonBehavior(ctl),
		fp:     NewMockFederatingProtocol(ctl),
		db:     NewMockDatabase(ctl),
		clock:  NewMockClock(ctl),
	}
	any := gomock.Any()
	tp := NewMockTransport(ctl)
	tp.EXPECT().BatchDeliver(any, any, any).DoAndReturn(func(c context.Context, b []byte, r []*url.URL) error {
		w.deliveries = append(w.deliveries, seedC03x4Delivery{payload: append([]byte{}, b...), to: r})
		return nil
	}).AnyTimes()
	tp.EXPECT().Dereference(any, any).DoAndReturn(func(c context.Context, u *url.URL) ([]byte, error) {
		return nil, fmt.Errorf("seedC03x4: unexpected dereference of %s", u)
	}).AnyTimes()
	w.common.EXPECT().NewTransport(any, any, any).Return(tp, nil).AnyTimes()
	w.fp.EXPECT().MaxDeliveryRecursionDepth(any).Return(1).AnyTimes()
	w.fp.EXPECT().MaxInboxForwardingRecursionDepth(any).Return(1).AnyTimes()
	w.fp.EXPECT().FederatingCallbacks(any).Return(FederatingWrappedCallbacks{OnFollow: onFollow}, nil, nil).AnyTimes()
	w.fp.EXPECT().DefaultCallback(any, any).Return(nil).AnyTimes()
	// Database.
	w.db.EXPECT().Lock(any, any).Return(nil).AnyTimes()
	w.db.EXPECT().Unlock(any, any).Return(nil).AnyTimes()
	n := 0
	w.db.EXPECT().NewID(any, any).DoAndReturn(func(c context.Context, t vocab.Type) (*url.URL, error) {
		n++
		return mustParse(fmt.Sprintf("https://example.com/minted/%d", n)), nil
	}).AnyTimes()
	w.db.EXPECT().Create(any, any).Return(nil).AnyTimes()
	w.db.EXPECT().Update(any, any).Return(nil).AnyTimes()
	w.db.EXPECT().GetOutbox(any, any).DoAndReturn(func(c context.Context, u *url.URL) (vocab.ActivityStreamsOrderedCollectionPage, error) {
		return streams.NewActivityStreamsOrderedCollectionPage(), nil
	}).AnyTimes()
	w.db.EXPECT().SetOutbox(any, any).Return(nil).AnyTimes()
	w.db.EXPECT().InboxContains(any, any, any).Return(false, nil).AnyTimes()
	w.db.EXPECT().GetInbox(any, any).DoAndReturn(func(c context.Context, u *url.URL) (vocab.ActivityStreamsOrderedCollectionPage, error) {
		return streams.NewActivityStreamsOrderedCollectionPage(), nil
	}).AnyTimes()
	w.db.EXPECT().SetInbox(any, any).Return(nil).AnyTimes()
	w.db.EXPECT().ActorForOutbox(any, any).Return(mustParse(testPersonIRI), nil).AnyTimes()
	w.db.EXPECT().ActorForInbox(any, any).Return(mustParse(testPersonIRI), nil).AnyTimes()
	w.db.EXPECT().OutboxForInbox(any, any).Return(mustParse(testMyOutboxIRI), nil).AnyTimes()
	w.db.EXPECT().Followers(any, any).DoAndReturn(func(c context.Context, u *url.URL) (vocab.ActivityStreamsCollection, error) {
		return streams.NewActivityStreamsCollection(), nil
	}).AnyTimes()
	w.db.EXPECT().InboxForActor(any, any).DoAndReturn(func(c context.Context, u *url.URL) (*url.URL, error) {
		return mustParse(u.String() + "/inbox"), nil
	}).AnyTimes()
	w.db.EXPECT().Get(any, any).DoAndReturn(func(c context.Context, u *url.URL) (vocab.Type, error) {
		if u.String() == testPersonIRI {
			return testMyPerson, nil
		}
		return nil, fmt.Errorf("seedC03x4: no such value %s", u)
	}).AnyTimes()
	return w
}

// seedC03x4Hidden reports the JSON paths of 'bto'/'bcc' members on the payload
// itself and on every value embedded in its 'object' property.
func seedC03x4Hidden(t *testing.T, payload []byte) (found []string) {
	var m map[string]interface{}
	if err := json.Unmarshal(payload, &m); err != nil {
		t.Fatalf("payload is not JSON: %v", err)
	}
	check := func(path string, v map[string]interface{}) {
		for _, k := range []string{"bto", "bcc"} {
			if _, ok := v[k]; ok {
				found = append(found, path+k)
			}
		}
	}
	check("/", m)
	switch o := m["object"].(type) {
	case map[string]interface{}:
		check("/object/", o)
	case []interface{}:
		for i, e := range o {
			if em, ok := e.(map[string]interface{}); ok {
				check(fmt.Sprintf("/object[%d]/", i), em)
			}
		}
	}
	return
}

func seedC03x4IRIs(us []*url.URL) map[string]bool {
	m := make(map[string]bool)
	for _, u := range us {
		m[u.String()] = true
	}
	return m
}

// TestSeedC03_4 delivers activities that carry no hidden recipients of their
// own but embed an object that does, on the two outbox paths where the
// activity's and the object's recipients are NOT normalised first: a
// programmatic Send on a Federating-only actor, and the automatic Accept of a
// received Follow. Neither payload may carry 'bto'/'bcc' on the embedded
// object.
func TestSeedC03_4(t *testing.T) {
	ctx := context.Background()

	t.Run("FederatingOnlySendCreateWithObjectOnlyHiddenRecipients", func(t *testing.T) {
		ctl := gomock.NewController(t)
		defer ctl.Finish()
		setupData()
		w := seedC03x4NewWorld(ctl, OnFollowDoNothing)
		actor := NewFederatingActor(w.common, w.fp, w.db, w.clock)

		note := streams.NewActivityStreamsNote()
		content := streams.NewActivityStreamsContentProperty()
		content.AppendXMLSchemaString("for your eyes only")
		note.SetActivityStreamsContent(content)
		nto := streams.NewActivityStreamsToProperty()
		nto.AppendIRI(mustParse(testFederatedActorIRI))
		note.SetActivityStreamsTo(nto)
		nbto := streams.NewActivityStreamsBtoProperty()
		nbto.AppendIRI(mustParse(testFederatedActorIRI3))
		note.SetActivityStreamsBto(nbto)
		nbcc := streams.NewActivityStreamsBccProperty()
		nbcc.AppendIRI(mustParse(testFederatedActorIRI4))
		note.SetActivityStreamsBcc(nbcc)

		create := streams.NewActivityStreamsCreate()
		me := streams.NewActivityStreamsActorProperty()
		me.AppendIRI(mustParse(testPersonIRI))
		create.SetActivityStreamsActor(me)
		op := streams.NewActivityStreamsObjectProperty()
		op.AppendActivityStreamsNote(note)
		create.SetActivityStreamsObject(op)
		to := streams.NewActivityStreamsToProperty()
		to.AppendIRI(mustParse(testFederatedActorIRI))
		create.SetActivityStreamsTo(to)

		if _, err := actor.Send(ctx, mustParse(testMyOutboxIRI), create); err != nil {
			t.Fatalf("Send: %v", err)
		}
		if len(w.deliveries) != 1 {
			t.Fatalf("expected exactly one delivery, got %d", len(w.deliveries))
		}
		d := w.deliveries[0]
		if !seedC03x4IRIs(d.to)[testFederatedActorIRI+"/inbox"] {
			t.Errorf("addressed recipient did not get the delivery: %v", d.to)
		}
		if found := seedC03x4Hidden(t, d.payload); len(found) != 0 {
			t.Errorf("payload handed to the transport contains hidden recipients at %v:\n%s", found, d.payload)
		}
	})

	t.Run("AutomaticAcceptEmbedsFollowWithBcc", func(t *testing.T) {
		ctl := gomock.NewController(t)
		defer ctl.Finish()
		setupData()
		w := seedC03x4NewWorld(ctl, OnFollowAutomaticallyAccept)
		delegate := &sideEffectActor{
			common: w.common,
			s2s:    w.fp,
			db:     w.db,
			clock:  w.clock,
		}

		follow := streams.NewActivityStreamsFollow()
		id := streams.NewJSONLDIdProperty()
		id.Set(mustParse(testFederatedActivityIRI))
		follow.SetJSONLDId(id)
		who := streams.NewActivityStreamsActorProperty()
		who.AppendIRI(mustParse(testFederatedActorIRI))
		follow.SetActivityStreamsActor(who)
		op := streams.NewActivityStreamsObjectProperty()
		op.AppendIRI(mustParse(testPersonIRI))
		follow.SetActivityStreamsObject(op)
		to := streams.NewActivityStreamsToProperty()
		to.AppendIRI(mustParse(testPersonIRI))
		follow.SetActivityStreamsTo(to)
		// The peer did not strip its own hidden recipients.
		bcc := streams.NewActivityStreamsBccProperty()
		bcc.AppendIRI(mustParse(testFederatedActorIRI4))
		follow.SetActivityStreamsBcc(bcc)
		bto := streams.NewActivityStreamsBtoProperty()
		bto.AppendIRI(mustParse(testFederatedActorIRI3))
		follow.SetActivityStreamsBto(bto)

		if err := delegate.PostInbox(ctx, mustParse(testMyInboxIRI), follow); err != nil {
			t.Fatalf("PostInbox: %v", err)
		}
		if len(w.deliveries) != 1 {
			t.Fatalf("expected exactly one delivery (the Accept), got %d", len(w.deliveries))
		}
		d := w.deliveries[0]
		var m map[string]interface{}
		if err := json.Unmarshal(d.payload, &m); err != nil {
			t.Fatal(err)
		}
		if m["type"] != "Accept" {
			t.Fatalf("expected an Accept to be delivered, got %v", m["type"])
		}
		if !seedC03x4IRIs(d.to)[testFederatedActorIRI+"/inbox"] {
			t.Errorf("follower did not get the Accept: %v", d.to)
		}
		if found := seedC03x4Hidden(t, d.payload); len(found) != 0 {
			t.Errorf("Accept handed to the transport contains hidden recipients at %v:\n%s", found, d.payload)
		}
	})

	// Control: the ordinary path (activity-level hidden recipients) keeps
	// working, and hidden recipients still receive the delivery.
	t.Run("ControlActivityLevelHiddenRecipients", func(t *testing.T) {
		ctl := gomock.NewController(t)
		defer ctl.Finish()
		setupData()
		w := seedC03x4NewWorld(ctl, OnFollowDoNothing)
		actor := NewFederatingActor(w.common, w.fp, w.db, w.clock)

		note := streams.NewActivityStreamsNote()
		nbcc := streams.NewActivityStreamsBccProperty()
		nbcc.AppendIRI(mustParse(testFederatedActorIRI4))
		note.SetActivityStreamsBcc(nbcc)
		create := streams.NewActivityStreamsCreate()
		op := streams.NewActivityStreamsObjectProperty()
		op.AppendActivityStreamsNote(note)
		create.SetActivityStreamsObject(op)
		bcc := streams.NewActivityStreamsBccProperty()
		bcc.AppendIRI(mustParse(testFederatedActorIRI4))
		create.SetActivityStreamsBcc(bcc)

		if _, err := actor.Send(ctx, mustParse(testMyOutboxIRI), create); err != nil {
			t.Fatalf("Send: %v", err)
		}
		if len(w.deliveries) != 1 {
			t.Fatalf("expected exactly one delivery, got %d", len(w.deliveries))
		}
		d := w.deliveries[0]
		if !seedC03x4IRIs(d.to)[testFederatedActorIRI4+"/inbox"] {
			t.Errorf("hidden recipient did not get the delivery: %v", d.to)
		}
		if found := seedC03x4Hidden(t, d.payload); len(found) != 0 {
			t.Errorf("payload handed to the transport contains hidden recipients at %v:\n%s", found, d.payload)
		}
	})
}
