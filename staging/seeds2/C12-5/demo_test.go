package streams

import (
	"context"
	"encoding/json"
	"testing"

	"github.com/go-fed/activity/streams/vocab"
)

const seedC12x5Doc = `{
  "@context": [
    "https://www.w3.org/ns/activitystreams",
    "https://w3id.org/security/v1"
  ],
  "type": "Person",
  "id": "https://example.com/users/alice",
  "inbox": "https://example.com/users/alice/inbox",
  "publicKey": {
    "id": "https://example.com/users/alice#main-key",
    "type": "Key",
    "owner": "https://example.com/users/alice",
    "publicKeyPem": "-----BEGIN PUBLIC KEY-----\nAAAA\n-----END PUBLIC KEY-----\n",
    "created": "2020-01-01T00:00:00Z"
  }
}`

// TestSeedC12_5: PublicKey is the one typeless type. Its property set is
// exactly {id, owner, publicKeyPem}; "type" is NOT one of its properties, so a
// "type" member met inside a publicKey value has to be kept as an unknown
// member (like any other member outside the set), not silently discarded.
func TestSeedC12_5(t *testing.T) {
	var m map[string]interface{}
	if err := json.Unmarshal([]byte(seedC12x5Doc), &m); err != nil {
		t.Fatal(err)
	}
	ty, err := ToType(context.Background(), m)
	if err != nil {
		t.Fatalf("ToType: %v", err)
	}
	person, ok := ty.(vocab.ActivityStreamsPerson)
	if !ok {
		t.Fatalf("decoded %T, want Person", ty)
	}
	pk := person.GetW3IDSecurityV1PublicKey()
	if pk == nil || pk.Len() != 1 || !pk.At(0).IsW3IDSecurityV1PublicKey() {
		t.Fatalf("publicKey not decoded as exactly one PublicKey value: %#v", pk)
	}
	key := pk.At(0).Get()
	// The declared members are interpreted.
	if key.GetJSONLDId() == nil || key.GetW3IDSecurityV1Owner() == nil || key.GetW3IDSecurityV1PublicKeyPem() == nil {
		t.Fatalf("id/owner/publicKeyPem not all interpreted on the PublicKey")
	}
	// Members outside the set are kept as unknown members.
	unk := key.GetUnknownProperties()
	if got, ok := unk["created"]; !ok || got != "2020-01-01T00:00:00Z" {
		t.Errorf("control: unknown member \"created\" = %v (present=%v), want it kept", got, ok)
	}
	if got, ok := unk["type"]; !ok || got != "Key" {
		t.Errorf("member \"type\" of the typeless PublicKey = %v (present=%v); want it kept as the unknown member \"Key\"", got, ok)
	}
	// ... and therefore survives re-encoding.
	out, err := Serialize(person)
	if err != nil {
		t.Fatalf("Serialize: %v", err)
	}
	outKey, _ := out["publicKey"].(map[string]interface{})
	if outKey == nil {
		t.Fatalf("re-encoded publicKey is %T, want an object", out["publicKey"])
	}
	if outKey["type"] != "Key" {
		t.Errorf("re-encoded publicKey lost its \"type\" member: %v", outKey)
	}
}
