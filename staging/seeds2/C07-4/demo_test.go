package pub

import (
	"bytes"
	"context"
	"net/http"
	"net/http/httptest"
	"testing"

	"github.com/golang/mock/gomock"
)

// seedC07x4Case is one request whose method is right for the endpoint but
// whose ActivityStreams media type sits in the header that does NOT classify
// that kind of request (Accept on a POST, Content-Type on a GET).
type seedC07x4Case struct {
	name        string
	method      string
	url         string
	contentType string
	accept      string
	body        string
	call        func(a Actor, hf HandlerFunc, c context.Context, w http.ResponseWriter, r *http.Request) (bool, error)
}

// TestSeedC07_4 checks that a request is only classified as an ActivityPub
// request by the header that belongs to its method: Content-Type for POST,
// Accept for GET. Anything else must be reported as not handled, with no call
// into the application (delegate, database) and nothing written.
func TestSeedC07_4(t *testing.T) {
	setupData()
	ctx := context.Background()
	const as2 = "application/activity+json"
	const as2ld = "application/ld+json; profile=\"https://www.w3.org/ns/activitystreams\""
	cases := []seedC07x4Case{
		{
			name:        "PostInboxFormWithAS2Accept",
			method:      "POST",
			url:         testMyInboxIRI,
			contentType: "application/x-www-form-urlencoded",
			accept:      as2,
			body:        "a=b",
			call: func(a Actor, hf HandlerFunc, c context.Context, w http.ResponseWriter, r *http.Request) (bool, error) {
				return a.PostInbox(c, w, r)
			},
		},
		{
			name:        "PostOutboxFormWithAS2LdAccept",
			method:      "POST",
			url:         testMyOutboxIRI,
			contentType: "multipart/form-data; boundary=x",
			accept:      "text/html, " + as2ld,
			body:        "--x--",
			call: func(a Actor, hf HandlerFunc, c context.Context, w http.ResponseWriter, r *http.Request) (bool, error) {
				return a.PostOutbox(c, w, r)
			},
		},
		{
			name:        "PostOutboxNoContentTypeWithAS2Accept",
			method:      "POST",
			url:         testMyOutboxIRI,
			contentType: "",
			accept:      as2,
			body:        "{}",
			call: func(a Actor, hf HandlerFunc, c context.Context, w http.ResponseWriter, r *http.Request) (bool, error) {
				return a.PostOutbox(c, w, r)
			},
		},
		{
			name:        "GetInboxHtmlAcceptWithAS2ContentType",
			method:      "GET",
			url:         testMyInboxIRI,
			contentType: as2,
			accept:      "text/html",
			call: func(a Actor, hf HandlerFunc, c context.Context, w http.ResponseWriter, r *http.Request) (bool, error) {
				return a.GetInbox(c, w, r)
			},
		},
		{
			name:        "GetOutboxNoAcceptWithAS2LdContentType",
			method:      "GET",
			url:         testMyOutboxIRI,
			contentType: as2ld,
			accept:      "",
			call: func(a Actor, hf HandlerFunc, c context.Context, w http.ResponseWriter, r *http.Request) (bool, error) {
				return a.GetOutbox(c, w, r)
			},
		},
		{
			name:        "HandlerHtmlAcceptWithAS2ContentType",
			method:      "GET",
			url:         testNoteId1,
			contentType: as2,
			accept:      "text/html,application/xhtml+xml",
			call: func(a Actor, hf HandlerFunc, c context.Context, w http.ResponseWriter, r *http.Request) (bool, error) {
				return hf(c, w, r)
			},
		},
	}
	for _, tc := range cases {
		tc := tc
		t.Run(tc.name, func(t *testing.T) {
			ctl := gomock.NewController(t)
			defer ctl.Finish()
			// No expectations at all: every call into the
			// application is a failure.
			delegate := NewMockDelegateActor(ctl)
			db := NewMockDatabase(ctl)
			clock := NewMockClock(ctl)
			a := NewCustomActor(delegate, true, true, clock)
			hf := NewActivityStreamsHandler(db, clock)
			var body *bytes.Buffer
			var req *http.Request
			if tc.method == "POST" {
				body = bytes.NewBufferString(tc.body)
				req = httptest.NewRequest(tc.method, tc.url, body)
			} else {
				req = httptest.NewRequest(tc.method, tc.url, nil)
			}
			if tc.contentType != "" {
				req.Header.Set(contentTypeHeader, tc.contentType)
			}
			if tc.accept != "" {
				req.Header.Set(acceptHeader, tc.accept)
			}
			resp := httptest.NewRecorder()
			handled, err := tc.call(a, hf, ctx, resp, req)
			if err != nil {
				t.Errorf("non-ActivityPub request returned an error: %v", err)
			}
			if handled {
				t.Errorf("non-ActivityPub request (%s, Content-Type=%q, Accept=%q) reported as handled", tc.method, tc.contentType, tc.accept)
			}
			if n := len(resp.Result().Header); n != 0 {
				t.Errorf("non-ActivityPub request had %d response headers written", n)
			}
			if resp.Body.Len() != 0 {
				t.Errorf("non-ActivityPub request had a body written")
			}
			if body != nil && body.Len() != len(tc.body) {
				t.Errorf("non-ActivityPub request had its body consumed")
			}
		})
	}
}
