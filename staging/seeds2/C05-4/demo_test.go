package pub

import (
	"bytes"
	"context"
	"errors"
	"fmt"
	"net/http"
	"net/http/httptest"
	"net/url"
	"strings"
	"sync"
	"testing"
	"time"

	"github.com/go-fed/activity/streams"
	"github.com/go-fed/activity/streams/vocab"
)

// ---------------------------------------------------------------------------
// Self-contained in-memory fakes (no gomock): a Database that snapshots values
// by serialising them at the moment they are stored (like a real database
// would), a Transport that records deliveries, and trivial protocol hooks.
// Every fake appends to one shared event log so orderings can be asserted.
// ---------------------------------------------------------------------------

type seedC05x4World struct {
	mu     sync.Mutex
	events []string
}

func (w *seedC05x4World) log(format string, a ...interface{}) {
	w.mu.Lock()
	defer w.mu.Unlock()
	w.events = append(w.events, fmt.Sprintf(format, a...))
}

func seedC05x4MustURL(s string) *url.URL {
	u, err := url.Parse(s)
	if err != nil {
		panic(err)
	}
	return u
}

type seedC05x4DB struct {
	Database // nil: any method not overridden below panics if the library calls it
	w        *seedC05x4World
	mu       sync.Mutex
	nextID   int
	// stored holds the JSON snapshot taken when Create was called.
	stored map[string]map[string]interface{}
	// outbox maps outbox IRI -> activity ids, newest first.
	outbox map[string][]string
	// owner maps outbox IRI -> actor IRI; inboxOf maps actor IRI -> inbox IRI.
	owner   map[string]string
	inboxOf map[string]string
	// fault injection
	failSetOutbox bool
	failGetOutbox bool
	failCreateFor func(t vocab.Type) bool
}

func seedC05x4NewDB(w *seedC05x4World) *seedC05x4DB {
	return &seedC05x4DB{
		w:       w,
		stored:  map[string]map[string]interface{}{},
		outbox:  map[string][]string{},
		owner:   map[string]string{},
		inboxOf: map[string]string{},
	}
}

func (d *seedC05x4DB) Lock(c context.Context, id *url.URL) error   { return nil }
func (d *seedC05x4DB) Unlock(c context.Context, id *url.URL) error { return nil }

func (d *seedC05x4DB) NewID(c context.Context, t vocab.Type) (*url.URL, error) {
	d.mu.Lock()
	defer d.mu.Unlock()
	d.nextID++
	return seedC05x4MustURL(fmt.Sprintf("https://example.com/fresh/%s/%d", strings.ToLower(t.GetTypeName()), d.nextID)), nil
}

func (d *seedC05x4DB) ActorForOutbox(c context.Context, outboxIRI *url.URL) (*url.URL, error) {
	d.mu.Lock()
	defer d.mu.Unlock()
	a, ok := d.owner[outboxIRI.String()]
	if !ok {
		return nil, fmt.Errorf("no such outbox %s", outboxIRI)
	}
	return seedC05x4MustURL(a), nil
}

func (d *seedC05x4DB) InboxForActor(c context.Context, actorIRI *url.URL) (*url.URL, error) {
	d.mu.Lock()
	defer d.mu.Unlock()
	if in, ok := d.inboxOf[actorIRI.String()]; ok {
		return seedC05x4MustURL(in), nil
	}
	return nil, nil
}

func (d *seedC05x4DB) Get(c context.Context, id *url.URL) (vocab.Type, error) {
	d.mu.Lock()
	defer d.mu.Unlock()
	if in, ok := d.inboxOf[id.String()]; ok {
		p := streams.NewActivityStreamsPerson()
		idp := streams.NewJSONLDIdProperty()
		idp.Set(id)
		p.SetJSONLDId(idp)
		inbox := streams.NewActivityStreamsInboxProperty()
		inbox.SetIRI(seedC05x4MustURL(in))
		p.SetActivityStreamsInbox(inbox)
		return p, nil
	}
	if m, ok := d.stored[id.String()]; ok {
		return streams.ToType(c, m)
	}
	return nil, fmt.Errorf("not found: %s", id)
}

func (d *seedC05x4DB) Create(c context.Context, t vocab.Type) error {
	if d.failCreateFor != nil && d.failCreateFor(t) {
		d.w.log("db.Create FAILED %s", t.GetTypeName())
		return errors.New("injected: Create failed")
	}
	id, err := GetId(t)
	if err != nil {
		return err
	}
	m, err := streams.Serialize(t)
	if err != nil {
		return err
	}
	d.mu.Lock()
	d.stored[id.String()] = m
	d.mu.Unlock()
	d.w.log("db.Create %s %s", t.GetTypeName(), id)
	return nil
}

func (d *seedC05x4DB) GetOutbox(c context.Context, outboxIRI *url.URL) (vocab.ActivityStreamsOrderedCollectionPage, error) {
	if d.failGetOutbox {
		d.w.log("db.GetOutbox FAILED %s", outboxIRI)
		return nil, errors.New("injected: GetOutbox failed")
	}
	d.mu.Lock()
	defer d.mu.Unlock()
	p := streams.NewActivityStreamsOrderedCollectionPage()
	idp := streams.NewJSONLDIdProperty()
	idp.Set(outboxIRI)
	p.SetJSONLDId(idp)
	oi := streams.NewActivityStreamsOrderedItemsProperty()
	for _, s := range d.outbox[outboxIRI.String()] {
		oi.AppendIRI(seedC05x4MustURL(s))
	}
	p.SetActivityStreamsOrderedItems(oi)
	return p, nil
}

func (d *seedC05x4DB) SetOutbox(c context.Context, p vocab.ActivityStreamsOrderedCollectionPage) error {
	id, err := GetId(p)
	if err != nil {
		return err
	}
	if d.failSetOutbox {
		d.w.log("db.SetOutbox FAILED %s", id)
		return errors.New("injected: SetOutbox failed")
	}
	var items []string
	if oi := p.GetActivityStreamsOrderedItems(); oi != nil {
		for it := oi.Begin(); it != oi.End(); it = it.Next() {
			u, err := ToId(it)
			if err != nil {
				return err
			}
			items = append(items, u.String())
		}
	}
	d.mu.Lock()
	d.outbox[id.String()] = items
	d.mu.Unlock()
	d.w.log("db.SetOutbox %s", id)
	return nil
}

type seedC05x4Transport struct {
	Transport
	w *seedC05x4World
}

func (t *seedC05x4Transport) Dereference(c context.Context, iri *url.URL) ([]byte, error) {
	return nil, errors.New("offline")
}

func (t *seedC05x4Transport) BatchDeliver(c context.Context, b []byte, recipients []*url.URL) error {
	var rs []string
	for _, r := range recipients {
		rs = append(rs, r.String())
	}
	t.w.log("transport.BatchDeliver %s", strings.Join(rs, ","))
	return nil
}

type seedC05x4Common struct {
	CommonBehavior
	w *seedC05x4World
}

func (p *seedC05x4Common) NewTransport(c context.Context, actorBoxIRI *url.URL, gofedAgent string) (Transport, error) {
	return &seedC05x4Transport{w: p.w}, nil
}

type seedC05x4Social struct{ SocialProtocol }

func (seedC05x4Social) PostOutboxRequestBodyHook(c context.Context, r *http.Request, data vocab.Type) (context.Context, error) {
	return c, nil
}
func (seedC05x4Social) AuthenticatePostOutbox(c context.Context, w http.ResponseWriter, r *http.Request) (context.Context, bool, error) {
	return c, true, nil
}
func (seedC05x4Social) SocialCallbacks(c context.Context) (SocialWrappedCallbacks, []interface{}, error) {
	return SocialWrappedCallbacks{}, nil, nil
}
func (seedC05x4Social) DefaultCallback(c context.Context, activity Activity) error { return nil }

type seedC05x4Fed struct{ FederatingProtocol }

func (seedC05x4Fed) MaxDeliveryRecursionDepth(c context.Context) int { return 3 }

type seedC05x4Clock struct{}

func (seedC05x4Clock) Now() time.Time { return time.Date(2020, 1, 2, 3, 4, 5, 0, time.UTC) }

// seedC05x4Post performs one client POST to the given outbox URL and returns the
// status code, the Location header and the handler error.
func seedC05x4Post(a Actor, outbox string, body string) (int, string, error) {
	req := httptest.NewRequest("POST", outbox, bytes.NewBufferString(body))
	req.Header.Set("Content-Type", "application/ld+json; profile=\"https://www.w3.org/ns/activitystreams\"")
	rec := httptest.NewRecorder()
	handled, err := a.PostOutbox(context.Background(), rec, req)
	if !handled {
		return 0, "", errors.New("request was not handled as an ActivityPub POST")
	}
	return rec.Code, rec.Header().Get("Location"), err
}

func seedC05x4Count(events []string, prefix string) int {
	n := 0
	for _, e := range events {
		if strings.HasPrefix(e, prefix) {
			n++
		}
	}
	return n
}

// seedC05x4IRIs extracts the IRIs of a serialised property value, which may be
// absent, a single string or a list of strings.
func seedC05x4IRIs(v interface{}) []string {
	switch x := v.(type) {
	case nil:
		return nil
	case string:
		return []string{x}
	case []interface{}:
		var out []string
		for _, e := range x {
			if s, ok := e.(string); ok {
				out = append(out, s)
			} else if m, ok := e.(map[string]interface{}); ok {
				if s, ok := m["id"].(string); ok {
					out = append(out, s)
				}
			}
		}
		return out
	case map[string]interface{}:
		if s, ok := x["id"].(string); ok {
			return []string{s}
		}
	}
	return nil
}

func seedC05x4Has(list []string, s string) bool {
	for _, e := range list {
		if e == s {
			return true
		}
	}
	return false
}

// TestSeedC05_4: once a persistence step of an outbox post fails (here: reading
// or writing the outbox collection while the activity id is being prepended),
// the post must not be acknowledged with 201/Location and NOTHING may be
// delivered to federated peers; the outbox keeps listing exactly the ids that
// were returned to clients.
func TestSeedC05_4(t *testing.T) {
	const outbox = "https://example.com/alice/outbox"
	const alice = "https://example.com/alice"
	const bob = "https://remote.example/users/bob"
	note := `{"@context":"https://www.w3.org/ns/activitystreams","type":"Note","content":"hello","to":["` + bob + `"]}`

	for _, fault := range []string{"SetOutbox", "GetOutbox"} {
		t.Run(fault, func(t *testing.T) {
			w := &seedC05x4World{}
			db := seedC05x4NewDB(w)
			db.owner[outbox] = alice
			db.inboxOf[alice] = alice + "/inbox"
			db.inboxOf[bob] = bob + "/inbox"
			a := NewActor(&seedC05x4Common{w: w}, seedC05x4Social{}, seedC05x4Fed{}, db, seedC05x4Clock{})

			// 1. A fault-free post: 201, Location is the fresh id, the id is in
			// the outbox, and delivery happens only after the outbox was written.
			code, loc1, err := seedC05x4Post(a, outbox, note)
			if err != nil || code != http.StatusCreated {
				t.Fatalf("fault-free post: code=%d err=%v", code, err)
			}
			if got := db.outbox[outbox]; len(got) != 1 || got[0] != loc1 {
				t.Fatalf("fault-free post: outbox=%v, Location=%q", got, loc1)
			}
			if n := seedC05x4Count(w.events, "transport.BatchDeliver"); n != 1 {
				t.Fatalf("fault-free post: %d deliveries, want 1; events=%v", n, w.events)
			}
			if last := w.events[len(w.events)-1]; !strings.HasPrefix(last, "transport.BatchDeliver") {
				t.Fatalf("delivery is not the last step: events=%v", w.events)
			}

			// 2. The same post while the outbox collection cannot be persisted.
			if fault == "SetOutbox" {
				db.failSetOutbox = true
			} else {
				db.failGetOutbox = true
			}
			before := len(w.events)
			code, loc2, err := seedC05x4Post(a, outbox, note)
			after := w.events[before:]
			if n := seedC05x4Count(after, "transport.BatchDeliver"); n != 0 {
				t.Errorf("%s failed but the activity was still delivered to peers; events=%v", fault, after)
			}
			if err == nil {
				t.Errorf("%s failed but PostOutbox reported no error (code=%d)", fault, code)
			}
			if code == http.StatusCreated || loc2 != "" {
				t.Errorf("%s failed but the client got code=%d Location=%q for an id that is not in the outbox %v", fault, code, loc2, db.outbox[outbox])
			}
			if got := db.outbox[outbox]; len(got) != 1 || got[0] != loc1 {
				t.Errorf("outbox must still list exactly the acknowledged ids [%s], got %v", loc1, got)
			}
		})
	}
}
