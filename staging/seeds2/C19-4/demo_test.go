package pub

import (
	"bufio"
	"bytes"
	"context"
	"io/ioutil"
	"net/http"
	"net/http/httptest"
	"net/url"
	"testing"
	"time"

	"github.com/go-fed/httpsig"
)

// seedC19x4Clock is a fixed clock.
type seedC19x4Clock struct{}

func (seedC19x4Clock) Now() time.Time { return time.Date(2021, 3, 4, 5, 6, 7, 0, time.UTC) }

// seedC19x4Wire is an HttpClient that puts the request on the "wire" the way
// net/http does (Request.Write) and parses it back the way a net/http server
// does (http.ReadRequest), then records what the peer server sees.
type seedC19x4Wire struct {
	seen []*http.Request
	body [][]byte
}

func (w *seedC19x4Wire) Do(req *http.Request) (*http.Response, error) {
	var buf bytes.Buffer
	if err := req.Write(&buf); err != nil {
		return nil, err
	}
	srv, err := http.ReadRequest(bufio.NewReader(&buf))
	if err != nil {
		return nil, err
	}
	b, err := ioutil.ReadAll(srv.Body)
	if err != nil {
		return nil, err
	}
	// net/http servers move the Host header into Request.Host; every
	// HTTP-signature verifying server puts it back before verifying.
	srv.Header.Set("Host", srv.Host)
	w.seen = append(w.seen, srv)
	w.body = append(w.body, b)
	rec := httptest.NewRecorder()
	rec.WriteHeader(http.StatusOK)
	rec.Write([]byte("{}"))
	return rec.Result(), nil
}

func seedC19x4Verify(t *testing.T, what string, srv *http.Request, key []byte, wantHost string) {
	t.Helper()
	if got := srv.Host; got != wantHost {
		t.Fatalf("%s: peer sees Host %q, want %q", what, got, wantHost)
	}
	v, err := httpsig.NewVerifier(srv)
	if err != nil {
		t.Fatalf("%s: no verifiable signature on the request the peer received: %v", what, err)
	}
	if v.KeyId() != "https://me.example/actor#main-key" {
		t.Fatalf("%s: key id %q", what, v.KeyId())
	}
	if err := v.Verify(key, httpsig.HMAC_SHA256); err != nil {
		t.Fatalf("%s: signature does not verify on what the peer received (Host %q): %v", what, srv.Host, err)
	}
}

func TestSeedC19_4(t *testing.T) {
	key := []byte("seedC19x4 shared secret")
	newSigner := func(hdrs []string) httpsig.Signer {
		s, _, err := httpsig.NewSigner([]httpsig.Algorithm{httpsig.HMAC_SHA256}, httpsig.DigestSha256, hdrs, httpsig.Signature)
		if err != nil {
			t.Fatal(err)
		}
		return s
	}
	for _, host := range []string{"peer.example", "peer.example:8443", "127.0.0.1:3000", "[::1]:8080"} {
		wire := &seedC19x4Wire{}
		tp := NewHttpSigTransport(wire, "seedApp", seedC19x4Clock{},
			newSigner([]string{httpsig.RequestTarget, "date", "host"}),
			newSigner([]string{httpsig.RequestTarget, "date", "host", "digest"}),
			"https://me.example/actor#main-key", key)
		// GET
		iri, err := url.Parse("https://" + host + "/users/alice?page=1")
		if err != nil {
			t.Fatal(err)
		}
		if _, err := tp.Dereference(context.Background(), iri); err != nil {
			t.Fatalf("Dereference(%s): %v", iri, err)
		}
		if len(wire.seen) != 1 {
			t.Fatalf("expected 1 request, got %d", len(wire.seen))
		}
		seedC19x4Verify(t, "GET "+iri.String(), wire.seen[0], key, host)
		// POST
		inbox, err := url.Parse("https://" + host + "/users/alice/inbox")
		if err != nil {
			t.Fatal(err)
		}
		payload := []byte(`{"type":"Create","id":"https://me.example/act/1"}`)
		if err := tp.Deliver(context.Background(), payload, inbox); err != nil {
			t.Fatalf("Deliver(%s): %v", inbox, err)
		}
		if len(wire.seen) != 2 {
			t.Fatalf("expected 2 requests, got %d", len(wire.seen))
		}
		seedC19x4Verify(t, "POST "+inbox.String(), wire.seen[1], key, host)
		if !bytes.Equal(wire.body[1], payload) {
			t.Fatalf("POST body on the wire differs from payload")
		}
	}
}
