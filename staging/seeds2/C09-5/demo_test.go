package pub

import (
	"context"
	"errors"
	"fmt"
	"net/url"
	"sort"
	"testing"

	"github.com/go-fed/activity/streams"
	"github.com/go-fed/activity/streams/vocab"
)

// seedC09x5DB is a Database fake that keeps track of the ids the request
// currently holds a lock on and that can be told to fail one particular call.
type seedC09x5DB struct {
	held     map[string]int
	problems []string
	calls    map[string]int
	// failAt maps "Method id" to the 1-based occurrence that must fail.
	failAt  map[string]int
	owned   map[string]bool
	objects map[string]vocab.Type
	// actor/outbox of the one local inbox, and the stored followers
	// collection of that actor.
	inboxActor  map[string]string
	inboxOutbox map[string]string
	followers   map[string]vocab.ActivityStreamsCollection
}

var _ Database = &seedC09x5DB{}

var seedC09x5Err = errors.New("seedC09x5: injected failure")

func seedC09x5NewDB() *seedC09x5DB {
	return &seedC09x5DB{
		held:    make(map[string]int),
		calls:   make(map[string]int),
		failAt:  make(map[string]int),
		owned:   make(map[string]bool),
		objects: make(map[string]vocab.Type),

		inboxActor:  make(map[string]string),
		inboxOutbox: make(map[string]string),
		followers:   make(map[string]vocab.ActivityStreamsCollection),
	}
}

func (d *seedC09x5DB) fails(method string, id *url.URL) bool {
	k := method + " " + id.String()
	d.calls[k]++
	return d.failAt[k] == d.calls[k]
}

func (d *seedC09x5DB) access(method string) {
	n := 0
	for _, v := range d.held {
		n += v
	}
	if n == 0 {
		d.problems = append(d.problems, method+" called while no lock is held")
	}
}

func (d *seedC09x5DB) stillHeld() []string {
	var out []string
	for k, v := range d.held {
		if v > 0 {
			out = append(out, k)
		}
	}
	sort.Strings(out)
	return out
}

func (d *seedC09x5DB) Lock(c context.Context, id *url.URL) error {
	if d.fails("Lock", id) {
		return seedC09x5Err
	}
	if d.held[id.String()] > 0 {
		d.problems = append(d.problems, "Lock of "+id.String()+" while already held")
	}
	d.held[id.String()]++
	return nil
}

func (d *seedC09x5DB) Unlock(c context.Context, id *url.URL) error {
	if d.held[id.String()] == 0 {
		d.problems = append(d.problems, "Unlock of "+id.String()+" which is not held")
		return nil
	}
	d.held[id.String()]--
	return nil
}

func (d *seedC09x5DB) Owns(c context.Context, id *url.URL) (bool, error) {
	d.access("Owns")
	if d.fails("Owns", id) {
		return false, seedC09x5Err
	}
	return d.owned[id.String()], nil
}

func (d *seedC09x5DB) Exists(c context.Context, id *url.URL) (bool, error) {
	d.access("Exists")
	if d.fails("Exists", id) {
		return false, seedC09x5Err
	}
	_, ok := d.objects[id.String()]
	return ok, nil
}

func (d *seedC09x5DB) Get(c context.Context, id *url.URL) (vocab.Type, error) {
	d.access("Get")
	if d.fails("Get", id) {
		return nil, seedC09x5Err
	}
	v, ok := d.objects[id.String()]
	if !ok {
		return nil, fmt.Errorf("seedC09x5: no such object %s", id)
	}
	return v, nil
}

func (d *seedC09x5DB) Create(c context.Context, t vocab.Type) error {
	d.access("Create")
	id, err := GetId(t)
	if err != nil {
		return err
	}
	if d.fails("Create", id) {
		return seedC09x5Err
	}
	d.objects[id.String()] = t
	return nil
}

func (d *seedC09x5DB) Update(c context.Context, t vocab.Type) error {
	d.access("Update")
	id, err := GetId(t)
	if err != nil {
		return err
	}
	if d.fails("Update", id) {
		return seedC09x5Err
	}
	if col, ok := t.(vocab.ActivityStreamsCollection); ok {
		for actor, f := range d.followers {
			if fid, err := GetId(f); err == nil && fid.String() == id.String() {
				d.followers[actor] = col
			}
		}
	}
	d.objects[id.String()] = t
	return nil
}

func (d *seedC09x5DB) Delete(c context.Context, id *url.URL) error {
	d.access("Delete")
	return nil
}

func (d *seedC09x5DB) InboxContains(c context.Context, inbox, id *url.URL) (bool, error) {
	d.access("InboxContains")
	return false, nil
}

func (d *seedC09x5DB) GetInbox(c context.Context, inboxIRI *url.URL) (vocab.ActivityStreamsOrderedCollectionPage, error) {
	d.access("GetInbox")
	return streams.NewActivityStreamsOrderedCollectionPage(), nil
}

func (d *seedC09x5DB) SetInbox(c context.Context, inbox vocab.ActivityStreamsOrderedCollectionPage) error {
	d.access("SetInbox")
	return nil
}

func (d *seedC09x5DB) GetOutbox(c context.Context, outboxIRI *url.URL) (vocab.ActivityStreamsOrderedCollectionPage, error) {
	d.access("GetOutbox")
	return streams.NewActivityStreamsOrderedCollectionPage(), nil
}

func (d *seedC09x5DB) SetOutbox(c context.Context, outbox vocab.ActivityStreamsOrderedCollectionPage) error {
	d.access("SetOutbox")
	return nil
}

func (d *seedC09x5DB) ActorForOutbox(c context.Context, outboxIRI *url.URL) (*url.URL, error) {
	d.access("ActorForOutbox")
	return nil, seedC09x5Err
}

func (d *seedC09x5DB) ActorForInbox(c context.Context, inboxIRI *url.URL) (*url.URL, error) {
	d.access("ActorForInbox")
	if d.fails("ActorForInbox", inboxIRI) {
		return nil, seedC09x5Err
	}
	return seedC09x5URL(d.inboxActor[inboxIRI.String()]), nil
}

func (d *seedC09x5DB) OutboxForInbox(c context.Context, inboxIRI *url.URL) (*url.URL, error) {
	d.access("OutboxForInbox")
	if d.fails("OutboxForInbox", inboxIRI) {
		return nil, seedC09x5Err
	}
	return seedC09x5URL(d.inboxOutbox[inboxIRI.String()]), nil
}

func (d *seedC09x5DB) InboxForActor(c context.Context, actorIRI *url.URL) (*url.URL, error) {
	d.access("InboxForActor")
	return nil, nil
}

func (d *seedC09x5DB) NewID(c context.Context, t vocab.Type) (*url.URL, error) {
	return nil, seedC09x5Err
}

func (d *seedC09x5DB) Followers(c context.Context, actorIRI *url.URL) (vocab.ActivityStreamsCollection, error) {
	d.access("Followers")
	if d.fails("Followers", actorIRI) {
		return nil, seedC09x5Err
	}
	f, ok := d.followers[actorIRI.String()]
	if !ok {
		return nil, fmt.Errorf("seedC09x5: no followers collection for %s", actorIRI)
	}
	return f, nil
}

func (d *seedC09x5DB) Following(c context.Context, actorIRI *url.URL) (vocab.ActivityStreamsCollection, error) {
	d.access("Following")
	return streams.NewActivityStreamsCollection(), nil
}

func (d *seedC09x5DB) Liked(c context.Context, actorIRI *url.URL) (vocab.ActivityStreamsCollection, error) {
	d.access("Liked")
	return streams.NewActivityStreamsCollection(), nil
}

func seedC09x5URL(s string) *url.URL {
	u, err := url.Parse(s)
	if err != nil {
		panic(err)
	}
	return u
}

// TestSeedC09_5 lets the same remote actor send two Follow activities (with
// different ids) to a local actor that accepts follows automatically. Both
// requests must leave the database with every lock released; the second one
// finds the remote actor in the stored followers collection already.
func TestSeedC09_5(t *testing.T) {
	const (
		inboxIRI     = "https://example.com/seedC09x5/addison/inbox"
		outboxIRI    = "https://example.com/seedC09x5/addison/outbox"
		meIRI        = "https://example.com/seedC09x5/addison"
		followersIRI = "https://example.com/seedC09x5/addison/followers"
		peerIRI      = "https://other.example.com/seedC09x5/dakota"
	)
	ctx := context.Background()
	db := seedC09x5NewDB()
	db.inboxActor[inboxIRI] = meIRI
	db.inboxOutbox[inboxIRI] = outboxIRI
	fc := streams.NewActivityStreamsCollection()
	fid := streams.NewJSONLDIdProperty()
	fid.Set(seedC09x5URL(followersIRI))
	fc.SetJSONLDId(fid)
	db.followers[meIRI] = fc

	newFollow := func(id string) vocab.ActivityStreamsFollow {
		f := streams.NewActivityStreamsFollow()
		idp := streams.NewJSONLDIdProperty()
		idp.Set(seedC09x5URL(id))
		f.SetJSONLDId(idp)
		actor := streams.NewActivityStreamsActorProperty()
		actor.AppendIRI(seedC09x5URL(peerIRI))
		f.SetActivityStreamsActor(actor)
		op := streams.NewActivityStreamsObjectProperty()
		op.AppendIRI(seedC09x5URL(meIRI))
		f.SetActivityStreamsObject(op)
		return f
	}
	delivered := 0
	w := FederatingWrappedCallbacks{OnFollow: OnFollowAutomaticallyAccept}
	w.db = db
	w.inboxIRI = seedC09x5URL(inboxIRI)
	w.addNewIds = func(c context.Context, activity Activity) error {
		return nil
	}
	w.deliver = func(c context.Context, outbox *url.URL, activity Activity) error {
		if h := db.stillHeld(); len(h) != 0 {
			t.Errorf("Accept is delivered while locks are still held: %v", h)
		}
		delivered++
		return nil
	}
	check := func(step string, err error) {
		if err != nil {
			t.Fatalf("%s: unexpected error %v", step, err)
		}
		for _, p := range db.problems {
			t.Errorf("%s: lock discipline: %s", step, p)
		}
		db.problems = nil
		if h := db.stillHeld(); len(h) != 0 {
			t.Fatalf("%s: locks still held when the Follow handler returned: %v", step, h)
		}
	}
	check("first follow", w.follow(ctx, newFollow("https://other.example.com/seedC09x5/follow/1")))
	stored := db.followers[meIRI].GetActivityStreamsItems()
	if stored == nil || stored.Len() != 1 || stored.At(0).GetIRI().String() != peerIRI {
		t.Fatalf("first follow: the follower was not stored")
	}
	check("repeated follow", w.follow(ctx, newFollow("https://other.example.com/seedC09x5/follow/2")))
	if delivered != 2 {
		t.Fatalf("expected two Accepts to be delivered, got %d", delivered)
	}
}
