package pub

import (
	"context"
	"net/url"
	"testing"

	"github.com/go-fed/activity/streams"
	"github.com/go-fed/activity/streams/vocab"
	"github.com/golang/mock/gomock"
)

// TestSeedC06_5: an Accept only adds to the local actor's 'following' when the
// Follow that is STORED locally under the referenced id has the local actor as
// its actor. What the peer embeds in the Accept is not evidence.
func TestSeedC06_5(t *testing.T) {
	setupData()
	ctx := context.Background()

	const (
		seedC06x5Me       = testFederatedActorIRI2 // owner of testMyInboxIRI in this test
		seedC06x5Peer     = testFederatedActorIRI  // sender of the Accept
		seedC06x5Other    = testFederatedActorIRI3 // somebody else who really follows the peer
		seedC06x5FollowId = testFederatedActivityIRI
	)

	seedC06x5newFollow := func(actor, object string) vocab.ActivityStreamsFollow {
		f := streams.NewActivityStreamsFollow()
		id := streams.NewJSONLDIdProperty()
		id.Set(mustParse(seedC06x5FollowId))
		f.SetJSONLDId(id)
		ap := streams.NewActivityStreamsActorProperty()
		ap.AppendIRI(mustParse(actor))
		f.SetActivityStreamsActor(ap)
		op := streams.NewActivityStreamsObjectProperty()
		op.AppendIRI(mustParse(object))
		f.SetActivityStreamsObject(op)
		return f
	}
	seedC06x5newAccept := func(embedded vocab.ActivityStreamsFollow) vocab.ActivityStreamsAccept {
		a := streams.NewActivityStreamsAccept()
		id := streams.NewJSONLDIdProperty()
		id.Set(mustParse(testFederatedActivityIRI2))
		a.SetJSONLDId(id)
		ap := streams.NewActivityStreamsActorProperty()
		ap.AppendIRI(mustParse(seedC06x5Peer))
		a.SetActivityStreamsActor(ap)
		op := streams.NewActivityStreamsObjectProperty()
		op.AppendActivityStreamsFollow(embedded)
		a.SetActivityStreamsObject(op)
		return a
	}

	// run feeds the Accept to the wrapped callback with 'stored' being what
	// the local database holds under the Follow id. It reports whether the
	// following collection was read and what was written to it.
	run := func(t *testing.T, a vocab.ActivityStreamsAccept, stored vocab.Type) (followingWritten []string, err error) {
		ctl := gomock.NewController(t)
		defer ctl.Finish()
		db := NewMockDatabase(ctl)
		db.EXPECT().Lock(gomock.Any(), gomock.Any()).Return(nil).AnyTimes()
		db.EXPECT().Unlock(gomock.Any(), gomock.Any()).Return(nil).AnyTimes()
		db.EXPECT().ActorForInbox(gomock.Any(), mustParse(testMyInboxIRI)).Return(mustParse(seedC06x5Me), nil).AnyTimes()
		db.EXPECT().Get(gomock.Any(), mustParse(seedC06x5FollowId)).Return(stored, nil).AnyTimes()
		db.EXPECT().Following(gomock.Any(), mustParse(seedC06x5Me)).DoAndReturn(func(c context.Context, u *url.URL) (vocab.ActivityStreamsCollection, error) {
			return streams.NewActivityStreamsCollection(), nil
		}).AnyTimes()
		db.EXPECT().Update(gomock.Any(), gomock.Any()).DoAndReturn(func(c context.Context, v vocab.Type) error {
			col, ok := v.(vocab.ActivityStreamsCollection)
			if !ok {
				t.Errorf("unexpected Update of %T", v)
				return nil
			}
			followingWritten = append(followingWritten, "<update>")
			if items := col.GetActivityStreamsItems(); items != nil {
				for it := items.Begin(); it != items.End(); it = it.Next() {
					followingWritten = append(followingWritten, it.GetIRI().String())
				}
			}
			return nil
		}).AnyTimes()
		var w FederatingWrappedCallbacks
		w.db = db
		w.inboxIRI = mustParse(testMyInboxIRI)
		w.newTransport = func(c context.Context, u *url.URL, s string) (Transport, error) {
			t.Errorf("unexpected transport use")
			return nil, testErr
		}
		err = w.accept(ctx, a)
		return
	}

	// Control: my own stored Follow of the peer, accepted by the peer.
	t.Run("GenuineFollowIsApplied", func(t *testing.T) {
		mine := seedC06x5newFollow(seedC06x5Me, seedC06x5Peer)
		written, err := run(t, seedC06x5newAccept(mine), seedC06x5newFollow(seedC06x5Me, seedC06x5Peer))
		if err != nil {
			t.Fatalf("genuine Accept rejected: %v", err)
		}
		if len(written) != 2 || written[1] != seedC06x5Peer {
			t.Fatalf("expected following to gain %s, got %v", seedC06x5Peer, written)
		}
	})
	// Control: the stored value is not a Follow at all.
	t.Run("StoredNonFollowIsRejected", func(t *testing.T) {
		forged := seedC06x5newFollow(seedC06x5Me, seedC06x5Peer)
		written, err := run(t, seedC06x5newAccept(forged), testListen)
		if err == nil || len(written) != 0 {
			t.Fatalf("Accept for a non-Follow id: err=%v following writes=%v", err, written)
		}
	})
	// Control: my stored Follow was of somebody else than the accepting peer.
	t.Run("StoredFollowOfOtherObjectIsRejected", func(t *testing.T) {
		forged := seedC06x5newFollow(seedC06x5Me, seedC06x5Peer)
		written, err := run(t, seedC06x5newAccept(forged), seedC06x5newFollow(seedC06x5Me, testFederatedActorIRI4))
		if err == nil || len(written) != 0 {
			t.Fatalf("Accept by a non-object of the stored Follow: err=%v following writes=%v", err, written)
		}
	})
	// The peer re-uses the id of a Follow that a DIFFERENT local actor sent
	// to it, but embeds a copy naming me as the actor and posts the Accept
	// to my inbox. The stored Follow does not have me as actor.
	t.Run("StoredFollowByAnotherActorIsRejected", func(t *testing.T) {
		forged := seedC06x5newFollow(seedC06x5Me, seedC06x5Peer)
		stored := seedC06x5newFollow(seedC06x5Other, seedC06x5Peer)
		written, err := run(t, seedC06x5newAccept(forged), stored)
		if err == nil {
			t.Errorf("Accept referring to %s's Follow was accepted at %s's inbox", seedC06x5Other, seedC06x5Me)
		}
		if len(written) != 0 {
			t.Errorf("following collection of %s was changed: %v", seedC06x5Me, written)
		}
	})
}
