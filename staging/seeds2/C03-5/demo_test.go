package pub

import (
	"context"
	"encoding/json"
	"fmt"
	"io/ioutil"
	"net/http"
	"net/http/httptest"
	"testing"

	"github.com/go-fed/activity/streams"
	"github.com/go-fed/activity/streams/vocab"
	"github.com/golang/mock/gomock"
)

// seedC03x5FindHidden walks decoded JSON and reports the paths of every 'bto'
// or 'bcc' member, at any depth.
func seedC03x5FindHidden(v interface{}, path string, found *[]string) {
	switch tv := v.(type) {
	case map[string]interface{}:
		for k, sub := range tv {
			if k == "bto" || k == "bcc" {
				*found = append(*found, path+"/"+k)
			}
			seedC03x5FindHidden(sub, path+"/"+k, found)
		}
	case []interface{}:
		for i, sub := range tv {
			seedC03x5FindHidden(sub, fmt.Sprintf("%s[%d]", path, i), found)
		}
	}
}

// seedC03x5Note builds a Note that carries both kinds of hidden recipients.
func seedC03x5Note(id string) vocab.ActivityStreamsNote {
	n := streams.NewActivityStreamsNote()
	idp := streams.NewJSONLDIdProperty()
	idp.Set(mustParse(id))
	n.SetJSONLDId(idp)
	to := streams.NewActivityStreamsToProperty()
	to.AppendIRI(mustParse(testFederatedActorIRI))
	n.SetActivityStreamsTo(to)
	bto := streams.NewActivityStreamsBtoProperty()
	bto.AppendIRI(mustParse(testFederatedActorIRI3))
	n.SetActivityStreamsBto(bto)
	bcc := streams.NewActivityStreamsBccProperty()
	bcc.AppendIRI(mustParse(testFederatedActorIRI4))
	n.SetActivityStreamsBcc(bcc)
	return n
}

// seedC03x5Relationship builds a Relationship whose 'object' embeds obj.
func seedC03x5Relationship(id string, obj vocab.Type) vocab.ActivityStreamsRelationship {
	r := streams.NewActivityStreamsRelationship()
	idp := streams.NewJSONLDIdProperty()
	idp.Set(mustParse(id))
	r.SetJSONLDId(idp)
	subj := streams.NewActivityStreamsSubjectProperty()
	subj.SetIRI(mustParse(testPersonIRI))
	r.SetActivityStreamsSubject(subj)
	op := streams.NewActivityStreamsObjectProperty()
	if err := op.AppendType(obj); err != nil {
		panic(err)
	}
	r.SetActivityStreamsObject(op)
	bcc := streams.NewActivityStreamsBccProperty()
	bcc.AppendIRI(mustParse(testFederatedActorIRI4))
	r.SetActivityStreamsBcc(bcc)
	return r
}

// TestSeedC03_5 serves, through the ActivityStreams GET handler, stored values
// whose 'object' chain passes through a value that has an 'object' property
// but is not an Activity (a Relationship). No 'bto'/'bcc' may be served at any
// depth of 'object' nesting.
func TestSeedC03_5(t *testing.T) {
	ctx := context.Background()
	setupData()

	cases := []struct {
		name  string
		value func() vocab.Type
	}{
		{
			// Control: plain activity nesting, depth 2.
			name: "AnnounceCreateNote",
			value: func() vocab.Type {
				cr := streams.NewActivityStreamsCreate()
				op := streams.NewActivityStreamsObjectProperty()
				op.AppendActivityStreamsNote(seedC03x5Note(testNoteId2))
				cr.SetActivityStreamsObject(op)
				bto := streams.NewActivityStreamsBtoProperty()
				bto.AppendIRI(mustParse(testFederatedActorIRI3))
				cr.SetActivityStreamsBto(bto)
				an := streams.NewActivityStreamsAnnounce()
				aop := streams.NewActivityStreamsObjectProperty()
				aop.AppendActivityStreamsCreate(cr)
				an.SetActivityStreamsObject(aop)
				return an
			},
		},
		{
			// The served value itself is a Relationship.
			name: "RelationshipNote",
			value: func() vocab.Type {
				return seedC03x5Relationship(testNoteId1, seedC03x5Note(testNoteId2))
			},
		},
		{
			// An activity whose object is a Relationship that in turn
			// embeds a Create with a Note: depth 3.
			name: "AddRelationshipCreateNote",
			value: func() vocab.Type {
				cr := streams.NewActivityStreamsCreate()
				op := streams.NewActivityStreamsObjectProperty()
				op.AppendActivityStreamsNote(seedC03x5Note(testNoteId2))
				cr.SetActivityStreamsObject(op)
				bcc := streams.NewActivityStreamsBccProperty()
				bcc.AppendIRI(mustParse(testFederatedActorIRI4))
				cr.SetActivityStreamsBcc(bcc)
				rel := seedC03x5Relationship("https://example.com/rel/1", cr)
				add := streams.NewActivityStreamsAdd()
				aop := streams.NewActivityStreamsObjectProperty()
				aop.AppendActivityStreamsRelationship(rel)
				add.SetActivityStreamsObject(aop)
				bto := streams.NewActivityStreamsBtoProperty()
				bto.AppendIRI(mustParse(testFederatedActorIRI3))
				add.SetActivityStreamsBto(bto)
				return add
			},
		},
	}
	for _, tc := range cases {
		tc := tc
		t.Run(tc.name, func(t *testing.T) {
			ctl := gomock.NewController(t)
			defer ctl.Finish()
			mockDb := NewMockDatabase(ctl)
			mockClock := NewMockClock(ctl)
			hf := NewActivityStreamsHandler(mockDb, mockClock)
			stored := tc.value()
			// Sanity: the stored value does carry hidden recipients.
			sm, err := streams.Serialize(stored)
			if err != nil {
				t.Fatal(err)
			}
			var pre []string
			seedC03x5FindHidden(sm, "", &pre)
			if len(pre) == 0 {
				t.Fatalf("test value has no hidden recipients to begin with")
			}
			mockDb.EXPECT().Lock(ctx, mustParse(testNoteId1))
			mockDb.EXPECT().Get(ctx, mustParse(testNoteId1)).Return(stored, nil)
			mockDb.EXPECT().Unlock(ctx, mustParse(testNoteId1))
			mockClock.EXPECT().Now().Return(now())
			resp := httptest.NewRecorder()
			req := toAPRequest(httptest.NewRequest("GET", testNoteId1, nil))
			isAPReq, err := hf(ctx, resp, req)
			if !isAPReq || err != nil {
				t.Fatalf("handler: isASRequest=%v err=%v", isAPReq, err)
			}
			if resp.Code != http.StatusOK {
				t.Fatalf("status %d", resp.Code)
			}
			b, err := ioutil.ReadAll(resp.Result().Body)
			if err != nil {
				t.Fatal(err)
			}
			var body map[string]interface{}
			if err := json.Unmarshal(b, &body); err != nil {
				t.Fatal(err)
			}
			var found []string
			seedC03x5FindHidden(body, "", &found)
			if len(found) != 0 {
				t.Errorf("served body still contains hidden recipients at %v:\n%s", found, b)
			}
		})
	}
}
