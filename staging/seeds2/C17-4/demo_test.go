package pub

import (
	"context"
	"errors"
	"net/url"
	"testing"

	"github.com/go-fed/activity/streams"
	"github.com/go-fed/activity/streams/vocab"
	"github.com/golang/mock/gomock"
)

const (
	seedC17x4ActivityIRI = "https://peer.example.org/activity/seed4"
	seedC17x4ColIRI      = "https://example.com/addison/followers"
	seedC17x4NoteIRI     = "https://example.com/note/seed4"
	seedC17x4Member1     = "https://third.example.net/users/kim"
	seedC17x4Member2     = "https://third.example.net/users/lee"
	seedC17x4Inbox1      = "https://example.com/addison/inbox"
	seedC17x4Inbox2      = "https://example.com/blake/inbox"
)

// seedC17x4Activity builds a Listen activity from a peer, addressed to a
// collection this server owns, whose 'object' is an IRI this server owns.
func seedC17x4Activity() vocab.ActivityStreamsListen {
	l := streams.NewActivityStreamsListen()
	id := streams.NewJSONLDIdProperty()
	id.Set(mustParse(seedC17x4ActivityIRI))
	l.SetJSONLDId(id)
	to := streams.NewActivityStreamsToProperty()
	to.AppendIRI(mustParse(seedC17x4ColIRI))
	l.SetActivityStreamsTo(to)
	op := streams.NewActivityStreamsObjectProperty()
	op.AppendIRI(mustParse(seedC17x4NoteIRI))
	l.SetActivityStreamsObject(op)
	return l
}

// TestSeedC17_4: the database fails transiently while recording the activity
// as seen on the first delivery; the peer (or a second local inbox) then
// delivers it again. The activity must be forwarded exactly once overall, and
// never on an attempt that did not manage to record it as seen.
func TestSeedC17_4(t *testing.T) {
	ctx := context.Background()
	ctl := gomock.NewController(t)
	defer ctl.Finish()

	cm := NewMockCommonBehavior(ctl)
	fp := NewMockFederatingProtocol(ctl)
	sp := NewMockSocialProtocol(ctl)
	db := NewMockDatabase(ctl)
	cl := NewMockClock(ctl)
	tp := NewMockTransport(ctl)
	a := &sideEffectActor{common: cm, s2s: fp, c2s: sp, db: db, clock: cl}

	seedC17x4Fault := errors.New("seedC17x4: transient storage failure")

	// The followers collection owned by this server.
	followers := streams.NewActivityStreamsCollection()
	items := streams.NewActivityStreamsItemsProperty()
	items.AppendIRI(mustParse(seedC17x4Member1))
	items.AppendIRI(mustParse(seedC17x4Member2))
	followers.SetActivityStreamsItems(items)

	// Database state.
	seen := map[string]int{} // id -> number of successful Create calls
	createCalls := 0
	db.EXPECT().Lock(gomock.Any(), gomock.Any()).Return(nil).AnyTimes()
	db.EXPECT().Unlock(gomock.Any(), gomock.Any()).Return(nil).AnyTimes()
	db.EXPECT().Exists(gomock.Any(), gomock.Any()).DoAndReturn(
		func(c context.Context, id *url.URL) (bool, error) {
			return seen[id.String()] > 0, nil
		}).AnyTimes()
	db.EXPECT().Create(gomock.Any(), gomock.Any()).DoAndReturn(
		func(c context.Context, v vocab.Type) error {
			createCalls++
			if createCalls == 1 {
				// Fault injected at exactly this point.
				return seedC17x4Fault
			}
			seen[v.GetJSONLDId().Get().String()]++
			return nil
		}).AnyTimes()
	db.EXPECT().Owns(gomock.Any(), gomock.Any()).DoAndReturn(
		func(c context.Context, id *url.URL) (bool, error) {
			return id.Host == "example.com", nil
		}).AnyTimes()
	db.EXPECT().Get(gomock.Any(), mustParse(seedC17x4ColIRI)).Return(followers, nil).AnyTimes()

	fp.EXPECT().MaxInboxForwardingRecursionDepth(gomock.Any()).Return(2).AnyTimes()
	fp.EXPECT().FilterForwarding(gomock.Any(), gomock.Any(), gomock.Any()).DoAndReturn(
		func(c context.Context, r []*url.URL, act Activity) ([]*url.URL, error) {
			return r, nil
		}).AnyTimes()

	forwards := 0
	cm.EXPECT().NewTransport(gomock.Any(), gomock.Any(), gomock.Any()).Return(tp, nil).AnyTimes()
	tp.EXPECT().BatchDeliver(gomock.Any(), gomock.Any(), gomock.Any()).DoAndReturn(
		func(c context.Context, b []byte, r []*url.URL) error {
			forwards++
			return nil
		}).AnyTimes()

	// First delivery: recording the activity fails.
	err := a.InboxForwarding(ctx, mustParse(seedC17x4Inbox1), seedC17x4Activity())
	if err != seedC17x4Fault {
		t.Errorf("delivery 1: the failure to record the activity was not reported: got err=%v", err)
	}
	if forwards != 0 {
		t.Errorf("delivery 1: forwarded %d time(s) although the activity could not be recorded as seen", forwards)
	}
	// Second delivery (retry by the peer, arriving at the second local inbox).
	err = a.InboxForwarding(ctx, mustParse(seedC17x4Inbox2), seedC17x4Activity())
	if err != nil {
		t.Errorf("delivery 2: unexpected error: %v", err)
	}
	// Third delivery: a plain repeat.
	err = a.InboxForwarding(ctx, mustParse(seedC17x4Inbox1), seedC17x4Activity())
	if err != nil {
		t.Errorf("delivery 3: unexpected error: %v", err)
	}
	if forwards != 1 {
		t.Errorf("activity was forwarded %d times over three deliveries, want exactly 1", forwards)
	}
	if n := seen[seedC17x4ActivityIRI]; n != 1 {
		t.Errorf("activity recorded as seen %d times, want exactly 1", n)
	}
}
