package pub

import (
	"context"
	"errors"
	"net/http"
	"net/url"
	"testing"

	"github.com/golang/mock/gomock"
)

// seedC10x6Writer counts what is done to the ResponseWriter, so that "nothing
// written" is distinguishable from an implicit 200.
type seedC10x6Writer struct {
	header      http.Header
	headerCalls int
	statusCalls []int
	writeCalls  int
}

func (w *seedC10x6Writer) Header() http.Header {
	w.headerCalls++
	if w.header == nil {
		w.header = make(http.Header)
	}
	return w.header
}

func (w *seedC10x6Writer) WriteHeader(code int) {
	w.statusCalls = append(w.statusCalls, code)
}

func (w *seedC10x6Writer) Write(b []byte) (int, error) {
	w.writeCalls++
	return len(b), nil
}

// TestSeedC10_6 drives an inbox POST through the library's own delegate
// (NewFederatingActor) while the application's block list lookup fails. The
// application fails closed, i.e. its Blocked() answers (true, err): "treat as
// blocked, and by the way the lookup failed". FederatingProtocol.Blocked's
// contract is that a returned error is passed back to the caller of PostInbox,
// and the Actor contract is that a returned error means the library has written
// nothing (the caller writes the 5xx).
func TestSeedC10_6(t *testing.T) {
	ctx := context.Background()
	seedC10x6Err := errors.New("seed: block list unavailable")
	type seedC10x6Case struct {
		name       string
		blocked    bool
		err        error
		wantErr    error
		wantStatus []int
		proceeds   bool
	}
	cases := []seedC10x6Case{
		// The fault variants: error wins, nothing is written.
		{"LookupFailsClosed", true, seedC10x6Err, seedC10x6Err, nil, false},
		{"LookupFailsOpen", false, seedC10x6Err, seedC10x6Err, nil, false},
		// Controls: the documented 403 and 200.
		{"Blocked", true, nil, nil, []int{http.StatusForbidden}, false},
		{"NotBlocked", false, nil, nil, []int{http.StatusOK}, true},
	}
	for _, tc := range cases {
		tc := tc
		t.Run(tc.name, func(t *testing.T) {
			ctl := gomock.NewController(t)
			defer ctl.Finish()
			setupData()
			common := NewMockCommonBehavior(ctl)
			fp := NewMockFederatingProtocol(ctl)
			db := NewMockDatabase(ctl)
			clock := NewMockClock(ctl)
			a := NewFederatingActor(common, fp, db, clock)

			fp.EXPECT().AuthenticatePostInbox(gomock.Any(), gomock.Any(), gomock.Any()).DoAndReturn(
				func(c context.Context, w http.ResponseWriter, r *http.Request) (context.Context, bool, error) {
					return c, true, nil
				})
			fp.EXPECT().PostInboxRequestBodyHook(gomock.Any(), gomock.Any(), gomock.Any()).DoAndReturn(
				func(c context.Context, r *http.Request, activity Activity) (context.Context, error) {
					return c, nil
				})
			fp.EXPECT().Blocked(gomock.Any(), gomock.Any()).DoAndReturn(
				func(c context.Context, iris []*url.URL) (bool, error) {
					if len(iris) != 1 || iris[0].String() != testFederatedActorIRI {
						t.Errorf("Blocked asked about %v, want [%s]", iris, testFederatedActorIRI)
					}
					return tc.blocked, tc.err
				})
			if tc.proceeds {
				// The activity is a duplicate: already in the inbox and
				// already known, so no further side effects happen.
				db.EXPECT().Lock(gomock.Any(), gomock.Any()).Return(nil).AnyTimes()
				db.EXPECT().Unlock(gomock.Any(), gomock.Any()).Return(nil).AnyTimes()
				db.EXPECT().InboxContains(gomock.Any(), gomock.Any(), gomock.Any()).Return(true, nil)
				db.EXPECT().Exists(gomock.Any(), gomock.Any()).Return(true, nil)
			}

			w := &seedC10x6Writer{}
			handled, err := a.PostInbox(ctx, w, toAPRequest(toPostInboxRequest(testCreate)))
			if !handled {
				t.Errorf("handled = false, want true")
			}
			if err != tc.wantErr {
				t.Errorf("err = %v, want %v", err, tc.wantErr)
			}
			if len(w.statusCalls) != len(tc.wantStatus) || (len(tc.wantStatus) == 1 && w.statusCalls[0] != tc.wantStatus[0]) {
				t.Errorf("WriteHeader calls = %v, want %v", w.statusCalls, tc.wantStatus)
			}
			if err != nil && (len(w.statusCalls) != 0 || w.writeCalls != 0 || w.headerCalls != 0) {
				t.Errorf("library returned an error AND touched the writer: WriteHeader %v, Write calls %d, Header calls %d",
					w.statusCalls, w.writeCalls, w.headerCalls)
			}
		})
	}
}
