package pub

import (
	"context"
	"errors"
	"net/http"
	"net/http/httptest"
	"testing"

	"github.com/go-fed/activity/streams/vocab"
	"github.com/golang/mock/gomock"
)

// TestSeedC07_5 drives a federated inbox POST through the library-provided
// actor (NewActor / NewFederatingActor, i.e. baseActor + sideEffectActor) with
// an application whose block check FAILS (FederatingProtocol.Blocked returns an
// error, e.g. the block list store is unreachable). The block check has then
// not passed, so no Database / Transport call and no activity or default
// callback may happen, and the error must reach the caller.
func TestSeedC07_5(t *testing.T) {
	ctx := context.Background()
	seedC07x5Err := errors.New("seedC07x5: block list unavailable")
	type seedC07x5Case struct {
		name    string
		body    func() vocab.Type
		blocked bool
	}
	cases := []seedC07x5Case{
		{"CreateBlockedErrorNotBlocked", func() vocab.Type { return testCreate }, false},
		{"CreateTwoActorsBlockedErrorNotBlocked", func() vocab.Type { return testCreate2 }, false},
		{"ListenBlockedErrorNotBlocked", func() vocab.Type { return testListen }, false},
		{"FollowBlockedErrorNotBlocked", func() vocab.Type { return testFollow }, false},
		{"CreateBlockedErrorAndBlocked", func() vocab.Type { return testCreate }, true},
	}
	for _, federatingOnly := range []bool{false, true} {
		for _, tc := range cases {
			tc := tc
			federatingOnly := federatingOnly
			name := tc.name
			if federatingOnly {
				name += "/NewFederatingActor"
			} else {
				name += "/NewActor"
			}
			t.Run(name, func(t *testing.T) {
				setupData()
				ctl := gomock.NewController(t)
				defer ctl.Finish()
				// No expectations on Database, CommonBehavior
				// (NewTransport), SocialProtocol or Clock: any
				// call is a failure.
				common := NewMockCommonBehavior(ctl)
				sp := NewMockSocialProtocol(ctl)
				fp := NewMockFederatingProtocol(ctl)
				db := NewMockDatabase(ctl)
				clock := NewMockClock(ctl)
				var a Actor
				if federatingOnly {
					a = NewFederatingActor(common, fp, db, clock)
				} else {
					a = NewActor(common, sp, fp, db, clock)
				}
				// The only application methods allowed:
				// authentication (ok), the body hook, and the
				// block check, which errors.
				fp.EXPECT().AuthenticatePostInbox(gomock.Any(), gomock.Any(), gomock.Any()).DoAndReturn(
					func(c context.Context, w http.ResponseWriter, r *http.Request) (context.Context, bool, error) {
						return c, true, nil
					})
				fp.EXPECT().PostInboxRequestBodyHook(gomock.Any(), gomock.Any(), gomock.Any()).DoAndReturn(
					func(c context.Context, r *http.Request, activity Activity) (context.Context, error) {
						return c, nil
					})
				fp.EXPECT().Blocked(gomock.Any(), gomock.Any()).Return(tc.blocked, seedC07x5Err)

				resp := httptest.NewRecorder()
				req := toAPRequest(toPostInboxRequest(tc.body()))
				handled, err := a.PostInbox(ctx, resp, req)
				if !handled {
					t.Errorf("ActivityPub inbox POST reported as not handled")
				}
				if err != seedC07x5Err {
					t.Errorf("block check error was not returned to the caller: got %v", err)
				}
			})
		}
	}
}
