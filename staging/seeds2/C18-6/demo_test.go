package propertyunits

import (
	"fmt"
	"net/url"
	"reflect"
	"testing"
)

// seedC18x6Slot is the reference model of a functional property: one slot
// holding at most one (kind, value) pair.
type seedC18x6Slot struct {
	kind string // "", "string", "anyURI"
	str  string
	uri  *url.URL
}

func (s seedC18x6Slot) serialized() interface{} {
	switch s.kind {
	case "string":
		return s.str
	case "anyURI":
		return s.uri.String()
	}
	return nil
}

func seedC18x6Check(t *testing.T, hist string, p *ActivityStreamsUnitsProperty, m seedC18x6Slot) {
	t.Helper()
	if got, want := p.IsXMLSchemaString(), m.kind == "string"; got != want {
		t.Errorf("%s: IsXMLSchemaString()=%v, want %v", hist, got, want)
	}
	if got, want := p.IsXMLSchemaAnyURI(), m.kind == "anyURI"; got != want {
		t.Errorf("%s: IsXMLSchemaAnyURI()=%v, want %v", hist, got, want)
	}
	if got, want := p.IsIRI(), m.kind == "anyURI"; got != want {
		t.Errorf("%s: IsIRI()=%v, want %v", hist, got, want)
	}
	if got, want := p.HasAny(), m.kind != ""; got != want {
		t.Errorf("%s: HasAny()=%v, want %v", hist, got, want)
	}
	if m.kind == "string" && p.GetXMLSchemaString() != m.str {
		t.Errorf("%s: GetXMLSchemaString()=%q, want %q", hist, p.GetXMLSchemaString(), m.str)
	}
	if m.kind == "anyURI" && (p.GetXMLSchemaAnyURI() == nil || p.GetXMLSchemaAnyURI().String() != m.uri.String()) {
		t.Errorf("%s: GetXMLSchemaAnyURI()=%v, want %v", hist, p.GetXMLSchemaAnyURI(), m.uri)
	}
	got, err := p.Serialize()
	if err != nil {
		t.Fatalf("%s: Serialize: %v", hist, err)
	}
	if !reflect.DeepEqual(got, m.serialized()) {
		t.Errorf("%s: Serialize()=%#v, want %#v", hist, got, m.serialized())
	}
}

// Every history of up to three set/clear operations on the functional "units"
// property must leave exactly the last-set kind reported, returned and
// serialised.
func TestSeedC18_6(t *testing.T) {
	u1, _ := url.Parse("https://example.com/seedC18x6/one")
	u2, _ := url.Parse("https://example.com/seedC18x6/two")
	type op struct {
		name  string
		apply func(p *ActivityStreamsUnitsProperty, m *seedC18x6Slot)
	}
	ops := []op{
		{"SetXMLSchemaString(cm)", func(p *ActivityStreamsUnitsProperty, m *seedC18x6Slot) {
			p.SetXMLSchemaString("cm")
			*m = seedC18x6Slot{kind: "string", str: "cm"}
		}},
		{"SetXMLSchemaAnyURI(u1)", func(p *ActivityStreamsUnitsProperty, m *seedC18x6Slot) {
			p.SetXMLSchemaAnyURI(u1)
			*m = seedC18x6Slot{kind: "anyURI", uri: u1}
		}},
		{"SetIRI(u2)", func(p *ActivityStreamsUnitsProperty, m *seedC18x6Slot) {
			p.SetIRI(u2)
			*m = seedC18x6Slot{kind: "anyURI", uri: u2}
		}},
		{"Clear()", func(p *ActivityStreamsUnitsProperty, m *seedC18x6Slot) {
			p.Clear()
			*m = seedC18x6Slot{}
		}},
	}
	n := len(ops)
	for a := 0; a < n; a++ {
		for b := 0; b < n; b++ {
			for c := 0; c < n; c++ {
				p := NewActivityStreamsUnitsProperty()
				var m seedC18x6Slot
				hist := ""
				for _, k := range []int{a, b, c} {
					ops[k].apply(p, &m)
					hist += fmt.Sprintf("%s;", ops[k].name)
					seedC18x6Check(t, hist, p, m)
				}
			}
		}
	}
}
