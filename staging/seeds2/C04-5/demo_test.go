package pub

import (
	"context"
	"errors"
	"net/url"
	"reflect"
	"testing"

	"github.com/go-fed/activity/streams"
	"github.com/go-fed/activity/streams/vocab"
)

// seedC04x5DB is a minimal in-memory Database for the Follow handler. Only the
// methods the handler uses are implemented; anything else panics through the
// nil embedded interface.
type seedC04x5DB struct {
	Database
	actor, outbox *url.URL
	// followers is the stored followers collection (as IRIs, front first).
	followers []string
	// updateErr, when set, is returned by Update (a storage fault) and the
	// stored followers stay as they were.
	updateErr error
	log       *[]string
}

func (d *seedC04x5DB) Lock(c context.Context, id *url.URL) error   { return nil }
func (d *seedC04x5DB) Unlock(c context.Context, id *url.URL) error { return nil }
func (d *seedC04x5DB) ActorForInbox(c context.Context, inboxIRI *url.URL) (*url.URL, error) {
	return d.actor, nil
}
func (d *seedC04x5DB) OutboxForInbox(c context.Context, inboxIRI *url.URL) (*url.URL, error) {
	return d.outbox, nil
}
func (d *seedC04x5DB) Followers(c context.Context, actorIRI *url.URL) (vocab.ActivityStreamsCollection, error) {
	col := streams.NewActivityStreamsCollection()
	items := streams.NewActivityStreamsItemsProperty()
	for _, f := range d.followers {
		items.AppendIRI(mustParse(f))
	}
	col.SetActivityStreamsItems(items)
	return col, nil
}
func (d *seedC04x5DB) Update(c context.Context, t vocab.Type) error {
	if d.updateErr != nil {
		*d.log = append(*d.log, "db.Update(followers) FAILED")
		return d.updateErr
	}
	col, ok := t.(vocab.ActivityStreamsCollection)
	if !ok {
		return errors.New("seedC04x5DB: unexpected Update value")
	}
	d.followers = nil
	if items := col.GetActivityStreamsItems(); items != nil {
		for iter := items.Begin(); iter != items.End(); iter = iter.Next() {
			d.followers = append(d.followers, iter.GetIRI().String())
		}
	}
	*d.log = append(*d.log, "db.Update(followers)")
	return nil
}

// TestSeedC04_5: with OnFollowAutomaticallyAccept, a Follow naming this inbox's
// actor adds the following actors to the followers collection and THEN delivers
// an Accept and runs the application's wrapped Follow callback. When storing
// the followers collection fails, the default effect did not succeed: the
// error must surface, no Accept may be sent for a follower that was never
// recorded, and the wrapped application callback must not run.
func TestSeedC04_5(t *testing.T) {
	ctx := context.Background()
	me := "https://example.com/addison"
	follower1 := testFederatedActorIRI  // dakota
	follower2 := testFederatedActorIRI3 // sam
	existing := testFederatedActorIRI4  // jessie already follows

	newFollow := func() vocab.ActivityStreamsFollow {
		f := streams.NewActivityStreamsFollow()
		id := streams.NewJSONLDIdProperty()
		id.Set(mustParse(testFederatedActivityIRI))
		f.SetJSONLDId(id)
		actor := streams.NewActivityStreamsActorProperty()
		actor.AppendIRI(mustParse(follower1))
		actor.AppendIRI(mustParse(follower2))
		f.SetActivityStreamsActor(actor)
		op := streams.NewActivityStreamsObjectProperty()
		op.AppendIRI(mustParse(me))
		f.SetActivityStreamsObject(op)
		return f
	}
	setup := func(updateErr error) (w FederatingWrappedCallbacks, db *seedC04x5DB, log *[]string) {
		log = new([]string)
		db = &seedC04x5DB{
			actor:     mustParse(me),
			outbox:    mustParse(testMyOutboxIRI),
			followers: []string{existing},
			updateErr: updateErr,
			log:       log,
		}
		w.OnFollow = OnFollowAutomaticallyAccept
		w.db = db
		w.inboxIRI = mustParse(testMyInboxIRI)
		w.addNewIds = func(c context.Context, a Activity) error {
			id := streams.NewJSONLDIdProperty()
			id.Set(mustParse(testNewActivityIRI))
			a.SetJSONLDId(id)
			return nil
		}
		w.deliver = func(c context.Context, outboxIRI *url.URL, a Activity) error {
			*log = append(*log, "deliver "+a.GetTypeName())
			return nil
		}
		w.Follow = func(c context.Context, f vocab.ActivityStreamsFollow) error {
			*log = append(*log, "app Follow callback")
			return nil
		}
		return
	}

	t.Run("StorageHealthy", func(t *testing.T) {
		w, db, log := setup(nil)
		if err := w.follow(ctx, newFollow()); err != nil {
			t.Fatalf("follow: unexpected error %v", err)
		}
		wantLog := []string{"db.Update(followers)", "deliver Accept", "app Follow callback"}
		if !reflect.DeepEqual(*log, wantLog) {
			t.Fatalf("effects = %v, want %v", *log, wantLog)
		}
		wantFollowers := []string{follower2, follower1, existing}
		if !reflect.DeepEqual(db.followers, wantFollowers) {
			t.Fatalf("followers = %v, want %v", db.followers, wantFollowers)
		}
	})
	t.Run("FollowersUpdateFails", func(t *testing.T) {
		fault := errors.New("seedC04x5: disk full")
		w, db, log := setup(fault)
		err := w.follow(ctx, newFollow())
		if err != fault {
			t.Errorf("follow returned %v, want the storage error %q", err, fault)
		}
		wantLog := []string{"db.Update(followers) FAILED"}
		if !reflect.DeepEqual(*log, wantLog) {
			t.Errorf("after the followers update failed, effects = %v, want %v (no Accept, no application callback)", *log, wantLog)
		}
		if !reflect.DeepEqual(db.followers, []string{existing}) {
			t.Errorf("followers = %v, want unchanged [%s]", db.followers, existing)
		}
	})
}
