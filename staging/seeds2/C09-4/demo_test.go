package pub

import (
	"context"
	"errors"
	"fmt"
	"net/url"
	"sort"
	"testing"

	"github.com/go-fed/activity/streams"
	"github.com/go-fed/activity/streams/vocab"
)

// seedC09x4DB is a Database fake that keeps track of the ids the request
// currently holds a lock on and that can be told to fail one particular call.
type seedC09x4DB struct {
	held     map[string]int
	problems []string
	calls    map[string]int
	// failAt maps "Method id" to the 1-based occurrence that must fail.
	failAt  map[string]int
	owned   map[string]bool
	objects map[string]vocab.Type
}

var _ Database = &seedC09x4DB{}

var seedC09x4Err = errors.New("seedC09x4: injected failure")

func seedC09x4NewDB() *seedC09x4DB {
	return &seedC09x4DB{
		held:    make(map[string]int),
		calls:   make(map[string]int),
		failAt:  make(map[string]int),
		owned:   make(map[string]bool),
		objects: make(map[string]vocab.Type),
	}
}

func (d *seedC09x4DB) fails(method string, id *url.URL) bool {
	k := method + " " + id.String()
	d.calls[k]++
	return d.failAt[k] == d.calls[k]
}

func (d *seedC09x4DB) access(method string) {
	n := 0
	for _, v := range d.held {
		n += v
	}
	if n == 0 {
		d.problems = append(d.problems, method+" called while no lock is held")
	}
}

func (d *seedC09x4DB) stillHeld() []string {
	var out []string
	for k, v := range d.held {
		if v > 0 {
			out = append(out, k)
		}
	}
	sort.Strings(out)
	return out
}

func (d *seedC09x4DB) Lock(c context.Context, id *url.URL) error {
	if d.fails("Lock", id) {
		return seedC09x4Err
	}
	if d.held[id.String()] > 0 {
		d.problems = append(d.problems, "Lock of "+id.String()+" while already held")
	}
	d.held[id.String()]++
	return nil
}

func (d *seedC09x4DB) Unlock(c context.Context, id *url.URL) error {
	if d.held[id.String()] == 0 {
		d.problems = append(d.problems, "Unlock of "+id.String()+" which is not held")
		return nil
	}
	d.held[id.String()]--
	return nil
}

func (d *seedC09x4DB) Owns(c context.Context, id *url.URL) (bool, error) {
	d.access("Owns")
	if d.fails("Owns", id) {
		return false, seedC09x4Err
	}
	return d.owned[id.String()], nil
}

func (d *seedC09x4DB) Exists(c context.Context, id *url.URL) (bool, error) {
	d.access("Exists")
	if d.fails("Exists", id) {
		return false, seedC09x4Err
	}
	_, ok := d.objects[id.String()]
	return ok, nil
}

func (d *seedC09x4DB) Get(c context.Context, id *url.URL) (vocab.Type, error) {
	d.access("Get")
	if d.fails("Get", id) {
		return nil, seedC09x4Err
	}
	v, ok := d.objects[id.String()]
	if !ok {
		return nil, fmt.Errorf("seedC09x4: no such object %s", id)
	}
	return v, nil
}

func (d *seedC09x4DB) Create(c context.Context, t vocab.Type) error {
	d.access("Create")
	id, err := GetId(t)
	if err != nil {
		return err
	}
	if d.fails("Create", id) {
		return seedC09x4Err
	}
	d.objects[id.String()] = t
	return nil
}

func (d *seedC09x4DB) Update(c context.Context, t vocab.Type) error {
	d.access("Update")
	return nil
}

func (d *seedC09x4DB) Delete(c context.Context, id *url.URL) error {
	d.access("Delete")
	return nil
}

func (d *seedC09x4DB) InboxContains(c context.Context, inbox, id *url.URL) (bool, error) {
	d.access("InboxContains")
	return false, nil
}

func (d *seedC09x4DB) GetInbox(c context.Context, inboxIRI *url.URL) (vocab.ActivityStreamsOrderedCollectionPage, error) {
	d.access("GetInbox")
	return streams.NewActivityStreamsOrderedCollectionPage(), nil
}

func (d *seedC09x4DB) SetInbox(c context.Context, inbox vocab.ActivityStreamsOrderedCollectionPage) error {
	d.access("SetInbox")
	return nil
}

func (d *seedC09x4DB) GetOutbox(c context.Context, outboxIRI *url.URL) (vocab.ActivityStreamsOrderedCollectionPage, error) {
	d.access("GetOutbox")
	return streams.NewActivityStreamsOrderedCollectionPage(), nil
}

func (d *seedC09x4DB) SetOutbox(c context.Context, outbox vocab.ActivityStreamsOrderedCollectionPage) error {
	d.access("SetOutbox")
	return nil
}

func (d *seedC09x4DB) ActorForOutbox(c context.Context, outboxIRI *url.URL) (*url.URL, error) {
	d.access("ActorForOutbox")
	return nil, seedC09x4Err
}

func (d *seedC09x4DB) ActorForInbox(c context.Context, inboxIRI *url.URL) (*url.URL, error) {
	d.access("ActorForInbox")
	return nil, seedC09x4Err
}

func (d *seedC09x4DB) OutboxForInbox(c context.Context, inboxIRI *url.URL) (*url.URL, error) {
	d.access("OutboxForInbox")
	return nil, seedC09x4Err
}

func (d *seedC09x4DB) InboxForActor(c context.Context, actorIRI *url.URL) (*url.URL, error) {
	d.access("InboxForActor")
	return nil, nil
}

func (d *seedC09x4DB) NewID(c context.Context, t vocab.Type) (*url.URL, error) {
	return nil, seedC09x4Err
}

func (d *seedC09x4DB) Followers(c context.Context, actorIRI *url.URL) (vocab.ActivityStreamsCollection, error) {
	d.access("Followers")
	return streams.NewActivityStreamsCollection(), nil
}

func (d *seedC09x4DB) Following(c context.Context, actorIRI *url.URL) (vocab.ActivityStreamsCollection, error) {
	d.access("Following")
	return streams.NewActivityStreamsCollection(), nil
}

func (d *seedC09x4DB) Liked(c context.Context, actorIRI *url.URL) (vocab.ActivityStreamsCollection, error) {
	d.access("Liked")
	return streams.NewActivityStreamsCollection(), nil
}

func seedC09x4URL(s string) *url.URL {
	u, err := url.Parse(s)
	if err != nil {
		panic(err)
	}
	return u
}

// TestSeedC09_4 forwards an activity that is addressed to two collections this
// server owns. The first collection is loaded fine (and therefore stays locked
// for the rest of the forwarding); then the database fails while the second
// one is being locked / loaded. InboxForwarding must return the error with
// every lock it took released exactly once.
func TestSeedC09_4(t *testing.T) {
	const (
		activityIRI = "https://other.example.com/seedC09x4/activity/1"
		inboxIRI    = "https://example.com/seedC09x4/inbox"
		colA        = "https://example.com/seedC09x4/followers"
		colB        = "https://example.com/seedC09x4/team"
		member      = "https://third.example.com/seedC09x4/actor"
	)
	newActivity := func() vocab.ActivityStreamsListen {
		l := streams.NewActivityStreamsListen()
		id := streams.NewJSONLDIdProperty()
		id.Set(seedC09x4URL(activityIRI))
		l.SetJSONLDId(id)
		actor := streams.NewActivityStreamsActorProperty()
		actor.AppendIRI(seedC09x4URL("https://other.example.com/seedC09x4/actor"))
		l.SetActivityStreamsActor(actor)
		to := streams.NewActivityStreamsToProperty()
		to.AppendIRI(seedC09x4URL(colA))
		l.SetActivityStreamsTo(to)
		cc := streams.NewActivityStreamsCcProperty()
		cc.AppendIRI(seedC09x4URL(colB))
		l.SetActivityStreamsCc(cc)
		return l
	}
	newDB := func() *seedC09x4DB {
		db := seedC09x4NewDB()
		db.owned[colA] = true
		db.owned[colB] = true
		a := streams.NewActivityStreamsOrderedCollection()
		aid := streams.NewJSONLDIdProperty()
		aid.Set(seedC09x4URL(colA))
		a.SetJSONLDId(aid)
		oi := streams.NewActivityStreamsOrderedItemsProperty()
		oi.AppendIRI(seedC09x4URL(member))
		a.SetActivityStreamsOrderedItems(oi)
		db.objects[colA] = a
		b := streams.NewActivityStreamsCollection()
		bid := streams.NewJSONLDIdProperty()
		bid.Set(seedC09x4URL(colB))
		b.SetJSONLDId(bid)
		db.objects[colB] = b
		return db
	}
	cases := []struct {
		name   string
		method string
		nth    int
	}{
		// Lock #1 of colB is the ownership check, #2 is the load.
		{"SecondCollectionLockFails", "Lock", 2},
		{"SecondCollectionGetFails", "Get", 1},
	}
	for _, tc := range cases {
		tc := tc
		t.Run(tc.name, func(t *testing.T) {
			db := newDB()
			db.failAt[tc.method+" "+colB] = tc.nth
			a := &sideEffectActor{db: db}
			err := a.InboxForwarding(context.Background(), seedC09x4URL(inboxIRI), newActivity())
			if err != seedC09x4Err {
				t.Fatalf("expected the injected error to be returned, got %v", err)
			}
			if db.calls[tc.method+" "+colB] < tc.nth {
				t.Fatalf("the fault point %s #%d on %s was never reached", tc.method, tc.nth, colB)
			}
			for _, p := range db.problems {
				t.Errorf("lock discipline: %s", p)
			}
			if h := db.stillHeld(); len(h) != 0 {
				t.Errorf("locks still held when InboxForwarding returned: %v", h)
			}
		})
	}
}
