package streams

import (
	"context"
	"errors"
	"testing"

	"github.com/go-fed/activity/streams/vocab"
)

// TestSeedC14_5: predicated resolution invokes the predicate written for the
// value's own type, returns that predicate's error unchanged and invokes
// nothing else when the predicate reports an error - whatever boolean the
// predicate returned alongside the error.
func TestSeedC14_5(t *testing.T) {
	seedC14x5errPred := errors.New("seedC14x5: predicate failed")
	var seedC14x5log []string
	delegate, err := NewTypeResolver(
		func(c context.Context, x vocab.ActivityStreamsNote) error {
			seedC14x5log = append(seedC14x5log, "delegate:Note")
			return nil
		},
	)
	if err != nil {
		t.Fatalf("NewTypeResolver: %v", err)
	}
	note := NewActivityStreamsNote()

	for _, seedC14x5tc := range []struct {
		name    string
		retBool bool
		retErr  error
		wantLog []string
		wantOk  bool
		wantErr error
	}{
		{"false,nil", false, nil, []string{"pred:Note"}, false, nil},
		{"true,nil", true, nil, []string{"pred:Note", "delegate:Note"}, true, nil},
		{"false,err", false, seedC14x5errPred, []string{"pred:Note"}, false, seedC14x5errPred},
		// A predicate that gives up half way: it has already decided
		// "yes" but then hits an error (e.g. a database lookup).
		{"true,err", true, seedC14x5errPred, []string{"pred:Note"}, true, seedC14x5errPred},
	} {
		tc := seedC14x5tc
		seedC14x5log = nil
		p, err := NewTypePredicatedResolver(delegate, func(c context.Context, x vocab.ActivityStreamsNote) (bool, error) {
			seedC14x5log = append(seedC14x5log, "pred:"+x.GetTypeName())
			return tc.retBool, tc.retErr
		})
		if err != nil {
			t.Fatalf("%s: NewTypePredicatedResolver: %v", tc.name, err)
		}
		ok, err := p.Apply(context.Background(), note)
		if err != tc.wantErr {
			t.Errorf("%s: Apply error = %v, want %v (the predicate's error, unchanged)", tc.name, err, tc.wantErr)
		}
		if ok != tc.wantOk {
			t.Errorf("%s: Apply bool = %v, want %v", tc.name, ok, tc.wantOk)
		}
		if len(seedC14x5log) != len(tc.wantLog) {
			t.Errorf("%s: invoked %v, want %v", tc.name, seedC14x5log, tc.wantLog)
			continue
		}
		for i := range tc.wantLog {
			if seedC14x5log[i] != tc.wantLog[i] {
				t.Errorf("%s: invoked %v, want %v", tc.name, seedC14x5log, tc.wantLog)
				break
			}
		}
	}
}
