package pub

import (
	"context"
	"errors"
	"net/url"
	"reflect"
	"testing"

	"github.com/go-fed/activity/streams"
	"github.com/go-fed/activity/streams/vocab"
)

// seedC04x6DB is a minimal in-memory Database for the Accept handler. Only the
// methods the handler uses are implemented; anything else panics through the
// nil embedded interface.
type seedC04x6DB struct {
	Database
	actor *url.URL
	// stored holds the activities this server really sent, by id.
	stored map[string]vocab.Type
	// following is the stored following collection (IRIs, front first).
	following []string
	updates   int
}

func (d *seedC04x6DB) Lock(c context.Context, id *url.URL) error   { return nil }
func (d *seedC04x6DB) Unlock(c context.Context, id *url.URL) error { return nil }
func (d *seedC04x6DB) ActorForInbox(c context.Context, inboxIRI *url.URL) (*url.URL, error) {
	return d.actor, nil
}
func (d *seedC04x6DB) Get(c context.Context, id *url.URL) (vocab.Type, error) {
	if t, ok := d.stored[id.String()]; ok {
		return t, nil
	}
	return nil, errors.New("seedC04x6DB: not found: " + id.String())
}
func (d *seedC04x6DB) Following(c context.Context, actorIRI *url.URL) (vocab.ActivityStreamsCollection, error) {
	col := streams.NewActivityStreamsCollection()
	items := streams.NewActivityStreamsItemsProperty()
	for _, f := range d.following {
		items.AppendIRI(mustParse(f))
	}
	col.SetActivityStreamsItems(items)
	return col, nil
}
func (d *seedC04x6DB) Update(c context.Context, t vocab.Type) error {
	col, ok := t.(vocab.ActivityStreamsCollection)
	if !ok {
		return errors.New("seedC04x6DB: unexpected Update value")
	}
	d.updates++
	d.following = nil
	if items := col.GetActivityStreamsItems(); items != nil {
		for iter := items.Begin(); iter != items.End(); iter = iter.Next() {
			d.following = append(d.following, iter.GetIRI().String())
		}
	}
	return nil
}

func seedC04x6Follow(id, actor string, objects ...string) vocab.ActivityStreamsFollow {
	f := streams.NewActivityStreamsFollow()
	idp := streams.NewJSONLDIdProperty()
	idp.Set(mustParse(id))
	f.SetJSONLDId(idp)
	ap := streams.NewActivityStreamsActorProperty()
	ap.AppendIRI(mustParse(actor))
	f.SetActivityStreamsActor(ap)
	op := streams.NewActivityStreamsObjectProperty()
	for _, o := range objects {
		op.AppendIRI(mustParse(o))
	}
	f.SetActivityStreamsObject(op)
	return f
}

func seedC04x6Accept(id string, follow vocab.ActivityStreamsFollow, actors ...string) vocab.ActivityStreamsAccept {
	a := streams.NewActivityStreamsAccept()
	idp := streams.NewJSONLDIdProperty()
	idp.Set(mustParse(id))
	a.SetJSONLDId(idp)
	ap := streams.NewActivityStreamsActorProperty()
	for _, act := range actors {
		ap.AppendIRI(mustParse(act))
	}
	a.SetActivityStreamsActor(ap)
	op := streams.NewActivityStreamsObjectProperty()
	op.AppendActivityStreamsFollow(follow)
	a.SetActivityStreamsObject(op)
	return a
}

// TestSeedC04_6: an Accept of a Follow this actor really sent is "verified"
// when every actor of the Accept is one of the objects of that stored Follow.
// A verified Accept adds (exactly) its actors to the front of 'following' and
// then runs the wrapped application callback; an Accept carrying an actor we
// never asked to follow is refused and changes nothing.
func TestSeedC04_6(t *testing.T) {
	ctx := context.Background()
	const (
		me        = "https://example.com/addison"
		myFollow  = "https://example.com/addison/follows/1"
		dakota    = testFederatedActorIRI  // we asked to follow
		sam       = testFederatedActorIRI3 // we asked to follow (multi-object Follow only)
		uninvited = testFederatedActorIRI4 // we never asked to follow
		existing  = "https://third.example.com/already-followed"
	)
	run := func(storedFollow vocab.ActivityStreamsFollow, accept vocab.ActivityStreamsAccept) (db *seedC04x6DB, appCalls int, err error) {
		db = &seedC04x6DB{
			actor:     mustParse(me),
			stored:    map[string]vocab.Type{myFollow: storedFollow},
			following: []string{existing},
		}
		var w FederatingWrappedCallbacks
		w.db = db
		w.inboxIRI = mustParse(testMyInboxIRI)
		w.newTransport = func(context.Context, *url.URL, string) (Transport, error) {
			return nil, errors.New("seedC04x6: no dereferencing expected")
		}
		w.Accept = func(context.Context, vocab.ActivityStreamsAccept) error {
			appCalls++
			return nil
		}
		err = w.accept(ctx, accept)
		return
	}

	t.Run("AcceptedByTheOneFollowedActor", func(t *testing.T) {
		db, appCalls, err := run(
			seedC04x6Follow(myFollow, me, dakota),
			seedC04x6Accept(testFederatedActivityIRI, seedC04x6Follow(myFollow, me, dakota), dakota))
		if err != nil {
			t.Fatalf("accept: unexpected error %v", err)
		}
		if want := []string{dakota, existing}; !reflect.DeepEqual(db.following, want) {
			t.Errorf("following = %v, want %v", db.following, want)
		}
		if appCalls != 1 {
			t.Errorf("application Accept callback ran %d times, want 1", appCalls)
		}
	})
	t.Run("AcceptedByOneOfTwoFollowedActors", func(t *testing.T) {
		// We followed dakota and sam with one Follow; only dakota has
		// accepted so far. Every Accept actor is on the Follow: verified.
		db, appCalls, err := run(
			seedC04x6Follow(myFollow, me, dakota, sam),
			seedC04x6Accept(testFederatedActivityIRI, seedC04x6Follow(myFollow, me, dakota, sam), dakota))
		if err != nil {
			t.Fatalf("accept: a verified Accept was refused: %v", err)
		}
		if want := []string{dakota, existing}; !reflect.DeepEqual(db.following, want) {
			t.Errorf("following = %v, want %v", db.following, want)
		}
		if appCalls != 1 {
			t.Errorf("application Accept callback ran %d times, want 1", appCalls)
		}
	})
	t.Run("AcceptCarriesAnActorWeNeverFollowed", func(t *testing.T) {
		// We followed dakota only. The Accept lists dakota AND a second
		// actor that is not an object of our Follow: not verified.
		db, appCalls, err := run(
			seedC04x6Follow(myFollow, me, dakota),
			seedC04x6Accept(testFederatedActivityIRI, seedC04x6Follow(myFollow, me, dakota), dakota, uninvited))
		if err == nil {
			t.Errorf("accept returned nil for an Accept whose actor %s is not on our Follow", uninvited)
		}
		if want := []string{existing}; !reflect.DeepEqual(db.following, want) || db.updates != 0 {
			t.Errorf("following = %v after %d update(s), want untouched %v", db.following, db.updates, want)
		}
		if appCalls != 0 {
			t.Errorf("application Accept callback ran %d times although the default effect did not succeed", appCalls)
		}
	})
}
