package pub

import (
	"context"
	"encoding/json"
	"fmt"
	"net/http"
	"net/http/httptest"
	"net/url"
	"strings"
	"testing"
	"time"

	"github.com/go-fed/activity/streams"
	"github.com/go-fed/activity/streams/vocab"
)

// seedC16x5db is a minimal in-memory pub.Database.
type seedC16x5db struct {
	store   map[string]map[string]interface{}
	owned   map[string]bool
	outbox  vocab.ActivityStreamsOrderedCollectionPage
	liked   vocab.ActivityStreamsCollection
	nextID  int
	updates []string
}

func seedC16x5newDB() *seedC16x5db {
	return &seedC16x5db{
		store:  make(map[string]map[string]interface{}),
		owned:  make(map[string]bool),
		outbox: streams.NewActivityStreamsOrderedCollectionPage(),
		liked:  streams.NewActivityStreamsCollection(),
	}
}

func (d *seedC16x5db) put(t vocab.Type) error {
	m, err := streams.Serialize(t)
	if err != nil {
		return err
	}
	id, err := GetId(t)
	if err != nil {
		return err
	}
	d.store[id.String()] = m
	return nil
}

func (d *seedC16x5db) Lock(c context.Context, id *url.URL) error   { return nil }
func (d *seedC16x5db) Unlock(c context.Context, id *url.URL) error { return nil }
func (d *seedC16x5db) InboxContains(c context.Context, inbox, id *url.URL) (bool, error) {
	return false, nil
}
func (d *seedC16x5db) GetInbox(c context.Context, inboxIRI *url.URL) (vocab.ActivityStreamsOrderedCollectionPage, error) {
	return streams.NewActivityStreamsOrderedCollectionPage(), nil
}
func (d *seedC16x5db) SetInbox(c context.Context, inbox vocab.ActivityStreamsOrderedCollectionPage) error {
	return nil
}
func (d *seedC16x5db) Owns(c context.Context, id *url.URL) (bool, error) {
	return d.owned[id.String()], nil
}
func (d *seedC16x5db) ActorForOutbox(c context.Context, outboxIRI *url.URL) (*url.URL, error) {
	return url.Parse("https://example.com/addison")
}
func (d *seedC16x5db) ActorForInbox(c context.Context, inboxIRI *url.URL) (*url.URL, error) {
	return url.Parse("https://example.com/addison")
}
func (d *seedC16x5db) OutboxForInbox(c context.Context, inboxIRI *url.URL) (*url.URL, error) {
	return url.Parse("https://example.com/addison/outbox")
}
func (d *seedC16x5db) InboxForActor(c context.Context, actorIRI *url.URL) (*url.URL, error) {
	return nil, nil
}
func (d *seedC16x5db) Exists(c context.Context, id *url.URL) (bool, error) {
	_, ok := d.store[id.String()]
	return ok, nil
}
func (d *seedC16x5db) Get(c context.Context, id *url.URL) (vocab.Type, error) {
	m, ok := d.store[id.String()]
	if !ok {
		return nil, fmt.Errorf("seedC16x5db: %s not found", id)
	}
	// Round-trip through JSON so callers never alias the stored map.
	b, err := json.Marshal(m)
	if err != nil {
		return nil, err
	}
	var cp map[string]interface{}
	if err = json.Unmarshal(b, &cp); err != nil {
		return nil, err
	}
	return streams.ToType(c, cp)
}
func (d *seedC16x5db) Create(c context.Context, asType vocab.Type) error { return d.put(asType) }
func (d *seedC16x5db) Update(c context.Context, asType vocab.Type) error {
	if id, err := GetId(asType); err == nil {
		d.updates = append(d.updates, id.String())
	}
	return d.put(asType)
}
func (d *seedC16x5db) Delete(c context.Context, id *url.URL) error {
	delete(d.store, id.String())
	return nil
}
func (d *seedC16x5db) GetOutbox(c context.Context, outboxIRI *url.URL) (vocab.ActivityStreamsOrderedCollectionPage, error) {
	return d.outbox, nil
}
func (d *seedC16x5db) SetOutbox(c context.Context, outbox vocab.ActivityStreamsOrderedCollectionPage) error {
	d.outbox = outbox
	return nil
}
func (d *seedC16x5db) NewID(c context.Context, t vocab.Type) (*url.URL, error) {
	d.nextID++
	return url.Parse(fmt.Sprintf("https://example.com/activity/%d", d.nextID))
}
func (d *seedC16x5db) Followers(c context.Context, actorIRI *url.URL) (vocab.ActivityStreamsCollection, error) {
	return streams.NewActivityStreamsCollection(), nil
}
func (d *seedC16x5db) Following(c context.Context, actorIRI *url.URL) (vocab.ActivityStreamsCollection, error) {
	return streams.NewActivityStreamsCollection(), nil
}
func (d *seedC16x5db) Liked(c context.Context, actorIRI *url.URL) (vocab.ActivityStreamsCollection, error) {
	return d.liked, nil
}

// seedC16x5social is a SocialProtocol that authenticates everybody and supplies
// only the library's default callbacks.
type seedC16x5social struct{}

func (seedC16x5social) PostOutboxRequestBodyHook(c context.Context, r *http.Request, data vocab.Type) (context.Context, error) {
	return c, nil
}
func (seedC16x5social) AuthenticatePostOutbox(c context.Context, w http.ResponseWriter, r *http.Request) (context.Context, bool, error) {
	return c, true, nil
}
func (seedC16x5social) SocialCallbacks(c context.Context) (SocialWrappedCallbacks, []interface{}, error) {
	return SocialWrappedCallbacks{}, nil, nil
}
func (seedC16x5social) DefaultCallback(c context.Context, activity Activity) error { return nil }

// seedC16x5common is a CommonBehavior that is never expected to be exercised.
type seedC16x5common struct{}

func (seedC16x5common) AuthenticateGetInbox(c context.Context, w http.ResponseWriter, r *http.Request) (context.Context, bool, error) {
	return c, true, nil
}
func (seedC16x5common) AuthenticateGetOutbox(c context.Context, w http.ResponseWriter, r *http.Request) (context.Context, bool, error) {
	return c, true, nil
}
func (seedC16x5common) GetOutbox(c context.Context, r *http.Request) (vocab.ActivityStreamsOrderedCollectionPage, error) {
	return streams.NewActivityStreamsOrderedCollectionPage(), nil
}
func (seedC16x5common) NewTransport(c context.Context, actorBoxIRI *url.URL, gofedAgent string) (Transport, error) {
	return nil, fmt.Errorf("seedC16x5common: no transport in a social-only actor")
}

// seedC16x5clock is a fixed Clock.
type seedC16x5clock struct{ t time.Time }

func (c seedC16x5clock) Now() time.Time { return c.t }

// seedC16x5post sends the JSON body to the actor's outbox as a C2S client would.
func seedC16x5post(t *testing.T, a Actor, body string) *httptest.ResponseRecorder {
	t.Helper()
	req := httptest.NewRequest("POST", "https://example.com/addison/outbox", strings.NewReader(body))
	req.Header.Set("Content-Type", "application/activity+json")
	resp := httptest.NewRecorder()
	handled, err := a.PostOutbox(context.Background(), resp, req)
	if err != nil {
		t.Fatalf("PostOutbox returned error: %v", err)
	}
	if !handled {
		t.Fatalf("PostOutbox did not handle the request")
	}
	return resp
}

// seedC16x5mustType decodes a JSON literal into an ActivityStreams value.
func seedC16x5mustType(t *testing.T, s string) vocab.Type {
	t.Helper()
	var m map[string]interface{}
	if err := json.Unmarshal([]byte(s), &m); err != nil {
		t.Fatalf("bad JSON literal: %v", err)
	}
	v, err := streams.ToType(context.Background(), m)
	if err != nil {
		t.Fatalf("cannot decode literal: %v", err)
	}
	return v
}

// seedC16x5ids lists the ids held by the stored collection with the given id,
// whichever of 'items' / 'orderedItems' it uses.
func seedC16x5ids(t *testing.T, db *seedC16x5db, id string) []string {
	t.Helper()
	v, err := db.Get(context.Background(), mustParse(id))
	if err != nil {
		t.Fatalf("cannot load %s: %v", id, err)
	}
	out := []string{}
	if oc, ok := v.(orderedItemser); ok && streams.IsOrExtendsActivityStreamsOrderedCollection(v) {
		if p := oc.GetActivityStreamsOrderedItems(); p != nil {
			for it := p.Begin(); it != p.End(); it = it.Next() {
				u, err := ToId(it)
				if err != nil {
					t.Fatal(err)
				}
				out = append(out, u.String())
			}
		}
		return out
	}
	if col, ok := v.(itemser); ok {
		if p := col.GetActivityStreamsItems(); p != nil {
			for it := p.Begin(); it != p.End(); it = it.Next() {
				u, err := ToId(it)
				if err != nil {
					t.Fatal(err)
				}
				out = append(out, u.String())
			}
		}
	}
	return out
}

// TestSeedC16_5: a client Remove takes every occurrence of every object id
// out of each target collection this server owns (ordered or not, with
// duplicates) and leaves targets it does not own alone.
func TestSeedC16_5(t *testing.T) {
	const (
		n1    = "https://example.com/note/1"
		n2    = "https://example.com/note/2"
		keep1 = "https://example.com/note/k1"
		keep2 = "https://example.com/note/k2"
		colA  = "https://example.com/addison/collections/a"
		colB  = "https://other.example.com/dakota/collections/b"
		colC  = "https://example.com/addison/collections/c"
	)
	db := seedC16x5newDB()
	q := func(ids ...string) string { return `["` + strings.Join(ids, `","`) + `"]` }
	// colA: owned, unordered, n1 appears twice, n2 once at the end.
	if err := db.put(seedC16x5mustType(t, `{"@context":"https://www.w3.org/ns/activitystreams","id":"`+colA+`","type":"Collection","items":`+q(n1, keep1, n1, keep2, n2)+`}`)); err != nil {
		t.Fatal(err)
	}
	// colB: NOT owned by this server.
	if err := db.put(seedC16x5mustType(t, `{"@context":"https://www.w3.org/ns/activitystreams","id":"`+colB+`","type":"Collection","items":`+q(n1, n2)+`}`)); err != nil {
		t.Fatal(err)
	}
	// colC: owned, ordered, n1 appears twice around n2.
	if err := db.put(seedC16x5mustType(t, `{"@context":"https://www.w3.org/ns/activitystreams","id":"`+colC+`","type":"OrderedCollection","orderedItems":`+q(keep1, n1, n2, n1)+`}`)); err != nil {
		t.Fatal(err)
	}
	db.owned[colA] = true
	db.owned[colC] = true
	actor := NewSocialActor(seedC16x5common{}, seedC16x5social{}, db, seedC16x5clock{time.Unix(1000000000, 0).UTC()})

	resp := seedC16x5post(t, actor, `{
		"@context": "https://www.w3.org/ns/activitystreams",
		"type": "Remove",
		"actor": "https://example.com/addison",
		"object": `+q(n1, n2)+`,
		"target": `+q(colA, colB, colC)+`
	}`)
	if resp.Code != http.StatusCreated {
		t.Fatalf("Remove answered %d, want %d", resp.Code, http.StatusCreated)
	}
	if got, want := strings.Join(seedC16x5ids(t, db, colA), " "), keep1+" "+keep2; got != want {
		t.Errorf("owned unordered target after Remove:\n got  %s\n want %s", got, want)
	}
	if got, want := strings.Join(seedC16x5ids(t, db, colC), " "), keep1; got != want {
		t.Errorf("owned ordered target after Remove:\n got  %s\n want %s", got, want)
	}
	if got, want := strings.Join(seedC16x5ids(t, db, colB), " "), n1+" "+n2; got != want {
		t.Errorf("target not owned by this server was modified:\n got  %s\n want %s", got, want)
	}
	for _, u := range db.updates {
		if u == colB {
			t.Errorf("Database.Update called for a target this server does not own")
		}
	}
}
