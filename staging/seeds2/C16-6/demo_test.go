package pub

import (
	"context"
	"encoding/json"
	"fmt"
	"net/http"
	"net/http/httptest"
	"net/url"
	"strings"
	"testing"
	"time"

	"github.com/go-fed/activity/streams"
	"github.com/go-fed/activity/streams/vocab"
)

// seedC16x6db is a minimal in-memory pub.Database.
type seedC16x6db struct {
	store   map[string]map[string]interface{}
	owned   map[string]bool
	outbox  vocab.ActivityStreamsOrderedCollectionPage
	liked   vocab.ActivityStreamsCollection
	nextID  int
	updates []string
}

func seedC16x6newDB() *seedC16x6db {
	return &seedC16x6db{
		store:  make(map[string]map[string]interface{}),
		owned:  make(map[string]bool),
		outbox: streams.NewActivityStreamsOrderedCollectionPage(),
		liked:  streams.NewActivityStreamsCollection(),
	}
}

func (d *seedC16x6db) put(t vocab.Type) error {
	m, err := streams.Serialize(t)
	if err != nil {
		return err
	}
	id, err := GetId(t)
	if err != nil {
		return err
	}
	d.store[id.String()] = m
	return nil
}

func (d *seedC16x6db) Lock(c context.Context, id *url.URL) error   { return nil }
func (d *seedC16x6db) Unlock(c context.Context, id *url.URL) error { return nil }
func (d *seedC16x6db) InboxContains(c context.Context, inbox, id *url.URL) (bool, error) {
	return false, nil
}
func (d *seedC16x6db) GetInbox(c context.Context, inboxIRI *url.URL) (vocab.ActivityStreamsOrderedCollectionPage, error) {
	return streams.NewActivityStreamsOrderedCollectionPage(), nil
}
func (d *seedC16x6db) SetInbox(c context.Context, inbox vocab.ActivityStreamsOrderedCollectionPage) error {
	return nil
}
func (d *seedC16x6db) Owns(c context.Context, id *url.URL) (bool, error) {
	return d.owned[id.String()], nil
}
func (d *seedC16x6db) ActorForOutbox(c context.Context, outboxIRI *url.URL) (*url.URL, error) {
	return url.Parse("https://example.com/addison")
}
func (d *seedC16x6db) ActorForInbox(c context.Context, inboxIRI *url.URL) (*url.URL, error) {
	return url.Parse("https://example.com/addison")
}
func (d *seedC16x6db) OutboxForInbox(c context.Context, inboxIRI *url.URL) (*url.URL, error) {
	return url.Parse("https://example.com/addison/outbox")
}
func (d *seedC16x6db) InboxForActor(c context.Context, actorIRI *url.URL) (*url.URL, error) {
	return nil, nil
}
func (d *seedC16x6db) Exists(c context.Context, id *url.URL) (bool, error) {
	_, ok := d.store[id.String()]
	return ok, nil
}
func (d *seedC16x6db) Get(c context.Context, id *url.URL) (vocab.Type, error) {
	m, ok := d.store[id.String()]
	if !ok {
		return nil, fmt.Errorf("seedC16x6db: %s not found", id)
	}
	// Round-trip through JSON so callers never alias the stored map.
	b, err := json.Marshal(m)
	if err != nil {
		return nil, err
	}
	var cp map[string]interface{}
	if err = json.Unmarshal(b, &cp); err != nil {
		return nil, err
	}
	return streams.ToType(c, cp)
}
func (d *seedC16x6db) Create(c context.Context, asType vocab.Type) error { return d.put(asType) }
func (d *seedC16x6db) Update(c context.Context, asType vocab.Type) error {
	if id, err := GetId(asType); err == nil {
		d.updates = append(d.updates, id.String())
	}
	return d.put(asType)
}
func (d *seedC16x6db) Delete(c context.Context, id *url.URL) error {
	delete(d.store, id.String())
	return nil
}
func (d *seedC16x6db) GetOutbox(c context.Context, outboxIRI *url.URL) (vocab.ActivityStreamsOrderedCollectionPage, error) {
	return d.outbox, nil
}
func (d *seedC16x6db) SetOutbox(c context.Context, outbox vocab.ActivityStreamsOrderedCollectionPage) error {
	d.outbox = outbox
	return nil
}
func (d *seedC16x6db) NewID(c context.Context, t vocab.Type) (*url.URL, error) {
	d.nextID++
	return url.Parse(fmt.Sprintf("https://example.com/activity/%d", d.nextID))
}
func (d *seedC16x6db) Followers(c context.Context, actorIRI *url.URL) (vocab.ActivityStreamsCollection, error) {
	return streams.NewActivityStreamsCollection(), nil
}
func (d *seedC16x6db) Following(c context.Context, actorIRI *url.URL) (vocab.ActivityStreamsCollection, error) {
	return streams.NewActivityStreamsCollection(), nil
}
func (d *seedC16x6db) Liked(c context.Context, actorIRI *url.URL) (vocab.ActivityStreamsCollection, error) {
	return d.liked, nil
}

// seedC16x6social is a SocialProtocol that authenticates everybody and supplies
// only the library's default callbacks.
type seedC16x6social struct{}

func (seedC16x6social) PostOutboxRequestBodyHook(c context.Context, r *http.Request, data vocab.Type) (context.Context, error) {
	return c, nil
}
func (seedC16x6social) AuthenticatePostOutbox(c context.Context, w http.ResponseWriter, r *http.Request) (context.Context, bool, error) {
	return c, true, nil
}
func (seedC16x6social) SocialCallbacks(c context.Context) (SocialWrappedCallbacks, []interface{}, error) {
	return SocialWrappedCallbacks{}, nil, nil
}
func (seedC16x6social) DefaultCallback(c context.Context, activity Activity) error { return nil }

// seedC16x6common is a CommonBehavior that is never expected to be exercised.
type seedC16x6common struct{}

func (seedC16x6common) AuthenticateGetInbox(c context.Context, w http.ResponseWriter, r *http.Request) (context.Context, bool, error) {
	return c, true, nil
}
func (seedC16x6common) AuthenticateGetOutbox(c context.Context, w http.ResponseWriter, r *http.Request) (context.Context, bool, error) {
	return c, true, nil
}
func (seedC16x6common) GetOutbox(c context.Context, r *http.Request) (vocab.ActivityStreamsOrderedCollectionPage, error) {
	return streams.NewActivityStreamsOrderedCollectionPage(), nil
}
func (seedC16x6common) NewTransport(c context.Context, actorBoxIRI *url.URL, gofedAgent string) (Transport, error) {
	return nil, fmt.Errorf("seedC16x6common: no transport in a social-only actor")
}

// seedC16x6clock is a fixed Clock.
type seedC16x6clock struct{ t time.Time }

func (c seedC16x6clock) Now() time.Time { return c.t }

// seedC16x6post sends the JSON body to the actor's outbox as a C2S client would.
func seedC16x6post(t *testing.T, a Actor, body string) *httptest.ResponseRecorder {
	t.Helper()
	req := httptest.NewRequest("POST", "https://example.com/addison/outbox", strings.NewReader(body))
	req.Header.Set("Content-Type", "application/activity+json")
	resp := httptest.NewRecorder()
	handled, err := a.PostOutbox(context.Background(), resp, req)
	if err != nil {
		t.Fatalf("PostOutbox returned error: %v", err)
	}
	if !handled {
		t.Fatalf("PostOutbox did not handle the request")
	}
	return resp
}

// seedC16x6mustType decodes a JSON literal into an ActivityStreams value.
func seedC16x6mustType(t *testing.T, s string) vocab.Type {
	t.Helper()
	var m map[string]interface{}
	if err := json.Unmarshal([]byte(s), &m); err != nil {
		t.Fatalf("bad JSON literal: %v", err)
	}
	v, err := streams.ToType(context.Background(), m)
	if err != nil {
		t.Fatalf("cannot decode literal: %v", err)
	}
	return v
}

// seedC16x6checkTomb verifies that the value stored under id is a Tombstone
// with the given former type and times.
func seedC16x6checkTomb(t *testing.T, db *seedC16x6db, id, formerType string, published, updated, deleted time.Time) {
	t.Helper()
	v, err := db.Get(context.Background(), mustParse(id))
	if err != nil {
		t.Errorf("%s: cannot load: %v", id, err)
		return
	}
	tomb, ok := v.(vocab.ActivityStreamsTombstone)
	if !ok {
		t.Errorf("%s: stored value is a %s, want a Tombstone", id, v.GetTypeName())
		return
	}
	if got, err := GetId(tomb); err != nil || got.String() != id {
		t.Errorf("%s: tombstone id = %v (%v)", id, got, err)
	}
	ft := tomb.GetActivityStreamsFormerType()
	if ft == nil || ft.Len() != 1 || !ft.At(0).IsXMLSchemaString() || ft.At(0).GetXMLSchemaString() != formerType {
		t.Errorf("%s: formerType is not exactly %q", id, formerType)
	}
	if p := tomb.GetActivityStreamsPublished(); p == nil || !p.Get().Equal(published) {
		t.Errorf("%s: tombstone lost the stored object's published time %v (got %v)", id, published, p)
	}
	if u := tomb.GetActivityStreamsUpdated(); u == nil || !u.Get().Equal(updated) {
		t.Errorf("%s: tombstone lost the stored object's updated time %v (got %v)", id, updated, u)
	}
	if d := tomb.GetActivityStreamsDeleted(); d == nil || !d.Get().Equal(deleted) {
		t.Errorf("%s: deleted is not the current time %v (got %v)", id, deleted, d)
	}
}

// TestSeedC16_6: a client Delete replaces each named stored object by a
// Tombstone carrying the same id, the former type, the stored object's
// published/updated times and the current time as deleted -- no matter whether
// the client names the object by IRI or embeds a (partial) copy of it.
func TestSeedC16_6(t *testing.T) {
	const (
		noteID    = "https://example.com/note/1"
		articleID = "https://example.com/article/2"
	)
	pubA := time.Date(2001, 2, 3, 4, 5, 6, 0, time.UTC)
	updA := time.Date(2002, 3, 4, 5, 6, 7, 0, time.UTC)
	pubB := time.Date(2003, 4, 5, 6, 7, 8, 0, time.UTC)
	updB := time.Date(2004, 5, 6, 7, 8, 9, 0, time.UTC)
	nowT := time.Date(2010, 1, 2, 3, 4, 5, 0, time.UTC)
	db := seedC16x6newDB()
	if err := db.put(seedC16x6mustType(t, `{"@context":"https://www.w3.org/ns/activitystreams","id":"`+noteID+`","type":"Note","content":"a note","published":"`+pubA.Format(time.RFC3339)+`","updated":"`+updA.Format(time.RFC3339)+`"}`)); err != nil {
		t.Fatal(err)
	}
	if err := db.put(seedC16x6mustType(t, `{"@context":"https://www.w3.org/ns/activitystreams","id":"`+articleID+`","type":"Article","name":"an article","published":"`+pubB.Format(time.RFC3339)+`","updated":"`+updB.Format(time.RFC3339)+`"}`)); err != nil {
		t.Fatal(err)
	}
	db.owned[noteID] = true
	db.owned[articleID] = true
	actor := NewSocialActor(seedC16x6common{}, seedC16x6social{}, db, seedC16x6clock{nowT})

	// The first object is named by IRI, the second one is embedded the way
	// many clients do it: just enough to identify it.
	resp := seedC16x6post(t, actor, `{
		"@context": "https://www.w3.org/ns/activitystreams",
		"type": "Delete",
		"actor": "https://example.com/addison",
		"object": [
			"`+noteID+`",
			{"id": "`+articleID+`", "type": "Article"}
		]
	}`)
	if resp.Code != http.StatusCreated {
		t.Fatalf("Delete answered %d, want %d", resp.Code, http.StatusCreated)
	}
	seedC16x6checkTomb(t, db, noteID, "Note", pubA, updA, nowT)
	seedC16x6checkTomb(t, db, articleID, "Article", pubB, updB, nowT)
}
