package pub

import (
	"bytes"
	"context"
	"fmt"
	"net/http"
	"net/http/httptest"
	"net/url"
	"sync"
	"testing"
	"time"

	"github.com/go-fed/activity/streams"
	"github.com/go-fed/activity/streams/vocab"
)

const (
	seedC11x6Me     = "https://example.com/alice"
	seedC11x6Inbox  = "https://example.com/alice/inbox"
	seedC11x6Outbox = "https://example.com/alice/outbox"
)

// seedC11x6DB is a small in-memory Database of a server hosting one actor.
type seedC11x6DB struct {
	mu     sync.Mutex
	values map[string]vocab.Type
	n      int
}

func (d *seedC11x6DB) Lock(c context.Context, id *url.URL) error   { return nil }
func (d *seedC11x6DB) Unlock(c context.Context, id *url.URL) error { return nil }
func (d *seedC11x6DB) InboxContains(c context.Context, inbox, id *url.URL) (bool, error) {
	return false, nil
}
func (d *seedC11x6DB) GetInbox(c context.Context, inboxIRI *url.URL) (vocab.ActivityStreamsOrderedCollectionPage, error) {
	return streams.NewActivityStreamsOrderedCollectionPage(), nil
}
func (d *seedC11x6DB) SetInbox(c context.Context, inbox vocab.ActivityStreamsOrderedCollectionPage) error {
	return nil
}
func (d *seedC11x6DB) Owns(c context.Context, id *url.URL) (bool, error) {
	return id != nil && id.Host == "example.com", nil
}
func (d *seedC11x6DB) ActorForOutbox(c context.Context, outboxIRI *url.URL) (*url.URL, error) {
	return url.Parse(seedC11x6Me)
}
func (d *seedC11x6DB) ActorForInbox(c context.Context, inboxIRI *url.URL) (*url.URL, error) {
	return url.Parse(seedC11x6Me)
}
func (d *seedC11x6DB) OutboxForInbox(c context.Context, inboxIRI *url.URL) (*url.URL, error) {
	return url.Parse(seedC11x6Outbox)
}
func (d *seedC11x6DB) InboxForActor(c context.Context, actorIRI *url.URL) (*url.URL, error) {
	return nil, nil
}
func (d *seedC11x6DB) Exists(c context.Context, id *url.URL) (bool, error) {
	d.mu.Lock()
	defer d.mu.Unlock()
	_, ok := d.values[id.String()]
	return ok, nil
}
func (d *seedC11x6DB) Get(c context.Context, id *url.URL) (vocab.Type, error) {
	d.mu.Lock()
	defer d.mu.Unlock()
	if v, ok := d.values[id.String()]; ok {
		return v, nil
	}
	if id.String() == seedC11x6Me {
		p := streams.NewActivityStreamsPerson()
		idp := streams.NewJSONLDIdProperty()
		idp.Set(id)
		p.SetJSONLDId(idp)
		ib := streams.NewActivityStreamsInboxProperty()
		u, _ := url.Parse(seedC11x6Inbox)
		ib.SetIRI(u)
		p.SetActivityStreamsInbox(ib)
		return p, nil
	}
	return nil, fmt.Errorf("seedC11x6DB: %s not found", id)
}
func (d *seedC11x6DB) put(t vocab.Type) error {
	id, err := GetId(t)
	if err != nil {
		return err
	}
	d.mu.Lock()
	defer d.mu.Unlock()
	d.values[id.String()] = t
	return nil
}
func (d *seedC11x6DB) Create(c context.Context, t vocab.Type) error { return d.put(t) }
func (d *seedC11x6DB) Update(c context.Context, t vocab.Type) error { return d.put(t) }
func (d *seedC11x6DB) Delete(c context.Context, id *url.URL) error  { return nil }
func (d *seedC11x6DB) GetOutbox(c context.Context, outboxIRI *url.URL) (vocab.ActivityStreamsOrderedCollectionPage, error) {
	return streams.NewActivityStreamsOrderedCollectionPage(), nil
}
func (d *seedC11x6DB) SetOutbox(c context.Context, outbox vocab.ActivityStreamsOrderedCollectionPage) error {
	return nil
}
func (d *seedC11x6DB) NewID(c context.Context, t vocab.Type) (*url.URL, error) {
	d.mu.Lock()
	defer d.mu.Unlock()
	d.n++
	return url.Parse(fmt.Sprintf("https://example.com/alice/generated/%d", d.n))
}
func (d *seedC11x6DB) seedC11x6Col(actorIRI *url.URL, name string) vocab.ActivityStreamsCollection {
	col := streams.NewActivityStreamsCollection()
	idp := streams.NewJSONLDIdProperty()
	u, _ := url.Parse(actorIRI.String() + "/" + name)
	idp.Set(u)
	col.SetJSONLDId(idp)
	return col
}
func (d *seedC11x6DB) Followers(c context.Context, actorIRI *url.URL) (vocab.ActivityStreamsCollection, error) {
	return d.seedC11x6Col(actorIRI, "followers"), nil
}
func (d *seedC11x6DB) Following(c context.Context, actorIRI *url.URL) (vocab.ActivityStreamsCollection, error) {
	return d.seedC11x6Col(actorIRI, "following"), nil
}
func (d *seedC11x6DB) Liked(c context.Context, actorIRI *url.URL) (vocab.ActivityStreamsCollection, error) {
	return d.seedC11x6Col(actorIRI, "liked"), nil
}

// seedC11x6Transport never reaches anybody: every remote document is missing.
type seedC11x6Transport struct{}

func (seedC11x6Transport) Dereference(c context.Context, iri *url.URL) ([]byte, error) {
	return nil, fmt.Errorf("seedC11x6Transport: %s unreachable", iri)
}
func (seedC11x6Transport) Deliver(c context.Context, b []byte, to *url.URL) error { return nil }
func (seedC11x6Transport) BatchDeliver(c context.Context, b []byte, recipients []*url.URL) error {
	return nil
}

// seedC11x6Common is the CommonBehavior of the fake application.
type seedC11x6Common struct{}

func (seedC11x6Common) AuthenticateGetInbox(c context.Context, w http.ResponseWriter, r *http.Request) (context.Context, bool, error) {
	return c, true, nil
}
func (seedC11x6Common) AuthenticateGetOutbox(c context.Context, w http.ResponseWriter, r *http.Request) (context.Context, bool, error) {
	return c, true, nil
}
func (seedC11x6Common) GetOutbox(c context.Context, r *http.Request) (vocab.ActivityStreamsOrderedCollectionPage, error) {
	return streams.NewActivityStreamsOrderedCollectionPage(), nil
}
func (seedC11x6Common) NewTransport(c context.Context, actorBoxIRI *url.URL, gofedAgent string) (Transport, error) {
	return seedC11x6Transport{}, nil
}

// seedC11x6S2S is a FederatingProtocol that accepts every peer, blocks nobody
// and automatically accepts Follow requests.
type seedC11x6S2S struct{}

func (seedC11x6S2S) PostInboxRequestBodyHook(c context.Context, r *http.Request, activity Activity) (context.Context, error) {
	return c, nil
}
func (seedC11x6S2S) AuthenticatePostInbox(c context.Context, w http.ResponseWriter, r *http.Request) (context.Context, bool, error) {
	return c, true, nil
}
func (seedC11x6S2S) Blocked(c context.Context, actorIRIs []*url.URL) (bool, error) {
	return false, nil
}
func (seedC11x6S2S) FederatingCallbacks(c context.Context) (FederatingWrappedCallbacks, []interface{}, error) {
	return FederatingWrappedCallbacks{OnFollow: OnFollowAutomaticallyAccept}, nil, nil
}
func (seedC11x6S2S) DefaultCallback(c context.Context, activity Activity) error { return nil }
func (seedC11x6S2S) MaxInboxForwardingRecursionDepth(c context.Context) int    { return 3 }
func (seedC11x6S2S) MaxDeliveryRecursionDepth(c context.Context) int           { return 3 }
func (seedC11x6S2S) FilterForwarding(c context.Context, potentialRecipients []*url.URL, a Activity) ([]*url.URL, error) {
	return nil, nil
}
func (seedC11x6S2S) GetInbox(c context.Context, r *http.Request) (vocab.ActivityStreamsOrderedCollectionPage, error) {
	return streams.NewActivityStreamsOrderedCollectionPage(), nil
}

type seedC11x6Clock struct{}

func (seedC11x6Clock) Now() time.Time { return time.Unix(1500000000, 0) }

// seedC11x6Post sends one body to the inbox of a fresh federating actor and
// reports how PostInbox ended.
func seedC11x6Post(body string) (handled bool, err error, code int, panicked interface{}) {
	db := &seedC11x6DB{values: make(map[string]vocab.Type)}
	a := NewFederatingActor(seedC11x6Common{}, seedC11x6S2S{}, db, seedC11x6Clock{})
	req := httptest.NewRequest("POST", seedC11x6Inbox, bytes.NewBufferString(body))
	req.Header.Set("Content-Type", "application/activity+json")
	resp := httptest.NewRecorder()
	defer func() {
		panicked = recover()
		code = resp.Code
	}()
	handled, err = a.PostInbox(context.Background(), resp, req)
	return
}

// TestSeedC11_6: a peer posts a Follow of the inbox owner (who accepts follows
// automatically) from which the 'actor' member was removed. The request must
// end in an error or a 4xx answer; it must not crash the handler.
func TestSeedC11_6(t *testing.T) {
	const ctx = `"@context":"https://www.w3.org/ns/activitystreams"`
	// Control 1: the complete Follow is processed.
	h, err, code, p := seedC11x6Post(`{` + ctx + `,"type":"Follow","id":"https://remote.example/f/1","actor":"https://remote.example/bob","object":"` + seedC11x6Me + `"}`)
	if p != nil || err != nil || !h || code != http.StatusOK {
		t.Fatalf("complete Follow: handled=%v err=%v code=%d panic=%v", h, err, code, p)
	}
	// Control 2: 'actor' present but empty is tolerated by the library.
	h, err, code, p = seedC11x6Post(`{` + ctx + `,"type":"Follow","id":"https://remote.example/f/2","actor":[],"object":"` + seedC11x6Me + `"}`)
	if p != nil || !h {
		t.Fatalf("Follow with empty actor: handled=%v err=%v code=%d panic=%v", h, err, code, p)
	}
	// The case: 'actor' removed.
	h, err, code, p = seedC11x6Post(`{` + ctx + `,"type":"Follow","id":"https://remote.example/f/3","object":"` + seedC11x6Me + `"}`)
	if p != nil {
		t.Fatalf("PostInbox panicked on a Follow without 'actor': %v", p)
	}
	if !h {
		t.Fatalf("PostInbox did not handle the request")
	}
	if err == nil && (code < 400 || code > 499) && code != http.StatusOK {
		t.Fatalf("Follow without 'actor': neither error nor 4xx/200: code=%d", code)
	}
	t.Logf("Follow without 'actor': err=%v code=%d", err, code)
}
