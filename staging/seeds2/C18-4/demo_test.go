package propertyurl

import (
	"fmt"
	"net/url"
	"reflect"
	"testing"

	vocab "github.com/go-fed/activity/streams/vocab"
)

func seedC18x4URL(n int) *url.URL {
	u, err := url.Parse(fmt.Sprintf("https://example.com/seedC18x4/%d", n))
	if err != nil {
		panic(err)
	}
	return u
}

// seedC18x4Forward walks Begin()/Next() and returns the IRIs seen. It gives up
// after limit steps so a cyclic chain cannot hang the test.
func seedC18x4Forward(p vocab.ActivityStreamsUrlProperty, limit int) []string {
	var got []string
	for it := p.Begin(); it != p.End(); it = it.Next() {
		got = append(got, it.GetIRI().String())
		if len(got) > limit {
			break
		}
	}
	return got
}

// seedC18x4Backward walks from the last element using Prev().
func seedC18x4Backward(p vocab.ActivityStreamsUrlProperty, limit int) []string {
	var got []string
	if p.Len() == 0 {
		return got
	}
	for it := p.At(p.Len() - 1); it != nil; it = it.Prev() {
		got = append(got, it.GetIRI().String())
		if len(got) > limit {
			break
		}
	}
	return got
}

func seedC18x4Reverse(s []string) []string {
	r := make([]string, 0, len(s))
	for i := len(s) - 1; i >= 0; i-- {
		r = append(r, s[i])
	}
	return r
}

// After removing an element that is not the last one, forward and backward
// iteration must visit exactly the elements a plain list would hold.
func TestSeedC18_4(t *testing.T) {
	for removeAt := 0; removeAt < 4; removeAt++ {
		p := NewActivityStreamsUrlProperty()
		var model []string
		for i := 0; i < 4; i++ {
			p.AppendIRI(seedC18x4URL(i))
			model = append(model, seedC18x4URL(i).String())
		}
		p.Remove(removeAt)
		model = append(model[:removeAt:removeAt], model[removeAt+1:]...)

		if p.Len() != len(model) {
			t.Fatalf("Remove(%d): Len()=%d, want %d", removeAt, p.Len(), len(model))
		}
		var indexed []string
		for i := 0; i < p.Len(); i++ {
			indexed = append(indexed, p.At(i).GetIRI().String())
		}
		if !reflect.DeepEqual(indexed, model) {
			t.Fatalf("Remove(%d): At() sequence = %v, want %v", removeAt, indexed, model)
		}
		if got := seedC18x4Forward(p, 10); !reflect.DeepEqual(got, model) {
			t.Errorf("Remove(%d): Begin/Next sequence = %v, want %v", removeAt, got, model)
		}
		if got, want := seedC18x4Backward(p, 10), seedC18x4Reverse(model); !reflect.DeepEqual(got, want) {
			t.Errorf("Remove(%d): Prev sequence = %v, want %v", removeAt, got, want)
		}
	}
}
