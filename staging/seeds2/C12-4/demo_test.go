package streams

import (
	"context"
	"encoding/json"
	"testing"
	"time"

	"github.com/go-fed/activity/streams/vocab"
)

// seedC12x4Decode decodes a Video document carrying the given xsd:duration
// lexical form and returns the value seen through the typed accessor.
func seedC12x4Decode(t *testing.T, lexical string) (time.Duration, bool) {
	t.Helper()
	raw := `{"@context":"https://www.w3.org/ns/activitystreams","type":"Video","id":"https://example.com/v/1","duration":` + "\"" + lexical + "\"" + `}`
	var m map[string]interface{}
	if err := json.Unmarshal([]byte(raw), &m); err != nil {
		t.Fatal(err)
	}
	ty, err := ToType(context.Background(), m)
	if err != nil {
		t.Fatalf("ToType(%s): %v", lexical, err)
	}
	vid, ok := ty.(vocab.ActivityStreamsVideo)
	if !ok {
		t.Fatalf("decoded %T, want a Video", ty)
	}
	p := vid.GetActivityStreamsDuration()
	if p == nil {
		t.Fatalf("%s: no duration property on decoded Video", lexical)
	}
	return p.Get(), p.IsXMLSchemaDuration()
}

func TestSeedC12_4(t *testing.T) {
	const day = 24 * time.Hour
	cases := []struct {
		lexical string
		want    time.Duration
	}{
		// Controls: positive, and negative with a time section.
		{"PT2H", 2 * time.Hour},
		{"P1D", day},
		{"P1Y2M3D", 365*day + 2*30*day + 3*day},
		{"-PT90M", -90 * time.Minute},
		{"-P1DT12H", -36 * time.Hour},
		// Negative durations that consist of a date section only.
		{"-P1D", -day},
		{"-P2M", -60 * day},
		{"-P1Y", -365 * day},
		{"-P1Y2M3D", -(365*day + 2*30*day + 3*day)},
	}
	for _, c := range cases {
		got, isDur := seedC12x4Decode(t, c.lexical)
		if !isDur {
			t.Errorf("%s: not decoded as xsd:duration", c.lexical)
			continue
		}
		if got != c.want {
			t.Errorf("%s: typed accessor returned %v, want %v", c.lexical, got, c.want)
		}
	}
}
