package pub

import (
	"context"
	"net/url"
	"testing"

	"github.com/go-fed/activity/streams"
	"github.com/go-fed/activity/streams/vocab"
	"github.com/golang/mock/gomock"
)

// TestSeedC06_4: a federated Update whose activity id lives on the peer's host
// must never reach Database.Update for an object whose JSON-LD 'id' lives on a
// different host -- also when the object is a Link-derived value that carries
// both an 'id' and an 'href'.
func TestSeedC06_4(t *testing.T) {
	setupData()
	ctx := context.Background()

	const (
		seedC06x4PeerActivity = "https://other.example.com/activity/77"
		seedC06x4PeerHref     = "https://other.example.com/somewhere"
		seedC06x4VictimId     = "https://example.com/note/1"
	)

	seedC06x4newUpdate := func(obj func(op vocab.ActivityStreamsObjectProperty)) vocab.ActivityStreamsUpdate {
		u := streams.NewActivityStreamsUpdate()
		id := streams.NewJSONLDIdProperty()
		id.Set(mustParse(seedC06x4PeerActivity))
		u.SetJSONLDId(id)
		actor := streams.NewActivityStreamsActorProperty()
		actor.AppendIRI(mustParse(testFederatedActorIRI))
		u.SetActivityStreamsActor(actor)
		op := streams.NewActivityStreamsObjectProperty()
		obj(op)
		u.SetActivityStreamsObject(op)
		return u
	}
	seedC06x4newMention := func(idStr, hrefStr string) vocab.ActivityStreamsMention {
		m := streams.NewActivityStreamsMention()
		if idStr != "" {
			id := streams.NewJSONLDIdProperty()
			id.Set(mustParse(idStr))
			m.SetJSONLDId(id)
		}
		href := streams.NewActivityStreamsHrefProperty()
		href.Set(mustParse(hrefStr))
		m.SetActivityStreamsHref(href)
		return m
	}

	// run executes the wrapped federating update callback and reports the
	// JSON-LD ids of all values handed to Database.Update.
	run := func(t *testing.T, u vocab.ActivityStreamsUpdate) (updatedIds []string, err error) {
		ctl := gomock.NewController(t)
		defer ctl.Finish()
		db := NewMockDatabase(ctl)
		db.EXPECT().Lock(gomock.Any(), gomock.Any()).Return(nil).AnyTimes()
		db.EXPECT().Unlock(gomock.Any(), gomock.Any()).Return(nil).AnyTimes()
		db.EXPECT().Update(gomock.Any(), gomock.Any()).DoAndReturn(func(c context.Context, v vocab.Type) error {
			s := "<no id>"
			if idp := v.GetJSONLDId(); idp != nil && idp.Get() != nil {
				s = idp.Get().String()
			}
			updatedIds = append(updatedIds, s)
			return nil
		}).AnyTimes()
		var w FederatingWrappedCallbacks
		w.db = db
		w.inboxIRI = mustParse(testMyInboxIRI)
		w.newTransport = func(c context.Context, a *url.URL, s string) (Transport, error) {
			t.Errorf("unexpected transport use")
			return nil, testErr
		}
		err = w.update(ctx, u)
		return
	}

	// Control: a Link-derived object whose id is in the activity's origin
	// is applied.
	t.Run("SameOriginLinkIsApplied", func(t *testing.T) {
		u := seedC06x4newUpdate(func(op vocab.ActivityStreamsObjectProperty) {
			op.AppendActivityStreamsMention(seedC06x4newMention("https://other.example.com/mention/1", seedC06x4PeerHref))
		})
		ids, err := run(t, u)
		if err != nil {
			t.Fatalf("same-origin update rejected: %v", err)
		}
		if len(ids) != 1 || ids[0] != "https://other.example.com/mention/1" {
			t.Fatalf("expected exactly the same-origin object to be updated, got %v", ids)
		}
	})
	// The peer (other.example.com) tries to overwrite example.com/note/1
	// by giving the replacement value an 'href' on its own host.
	t.Run("ForeignIdWithLocalHrefIsRejected", func(t *testing.T) {
		u := seedC06x4newUpdate(func(op vocab.ActivityStreamsObjectProperty) {
			op.AppendActivityStreamsMention(seedC06x4newMention(seedC06x4VictimId, seedC06x4PeerHref))
		})
		ids, err := run(t, u)
		if err == nil {
			t.Errorf("Update %s with object id %s was accepted", seedC06x4PeerActivity, seedC06x4VictimId)
		}
		if len(ids) != 0 {
			t.Errorf("Database.Update was called for %v although the activity origin is other.example.com", ids)
		}
	})
	// Same, with the foreign object hidden behind a legitimate first one.
	t.Run("ForeignIdWithLocalHrefSecondObjectIsRejected", func(t *testing.T) {
		u := seedC06x4newUpdate(func(op vocab.ActivityStreamsObjectProperty) {
			n := streams.NewActivityStreamsNote()
			id := streams.NewJSONLDIdProperty()
			id.Set(mustParse("https://other.example.com/note/5"))
			n.SetJSONLDId(id)
			op.AppendActivityStreamsNote(n)
			op.AppendActivityStreamsMention(seedC06x4newMention(seedC06x4VictimId, seedC06x4PeerHref))
		})
		ids, err := run(t, u)
		if err == nil {
			t.Errorf("Update with a foreign second object was accepted")
		}
		if len(ids) != 0 {
			t.Errorf("Database.Update was called for %v; nothing may change when the origin check fails", ids)
		}
	})
}
