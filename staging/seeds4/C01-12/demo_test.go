package streams

import (
	"context"
	"encoding/json"
	"reflect"
	"testing"
)

// seedC01x12RoundTrip decodes doc into native values, encodes it again and
// returns the re-marshalled JSON as a generic value together with the generic
// value of the input.
func seedC01x12RoundTrip(t *testing.T, doc string) (in, out map[string]interface{}, raw []byte) {
	t.Helper()
	if err := json.Unmarshal([]byte(doc), &in); err != nil {
		t.Fatalf("bad test document: %v", err)
	}
	var dec map[string]interface{}
	if err := json.Unmarshal([]byte(doc), &dec); err != nil {
		t.Fatalf("bad test document: %v", err)
	}
	ty, err := ToType(context.Background(), dec)
	if err != nil {
		t.Fatalf("ToType: %v", err)
	}
	m, err := Serialize(ty)
	if err != nil {
		t.Fatalf("Serialize: %v", err)
	}
	raw, err = json.Marshal(m)
	if err != nil {
		t.Fatalf("json.Marshal: %v", err)
	}
	if err := json.Unmarshal(raw, &out); err != nil {
		t.Fatalf("json.Unmarshal of the encoder's output: %v", err)
	}
	return
}

func TestSeedC01_12(t *testing.T) {
	for _, doc := range []string{
		`{"@context":"https://www.w3.org/ns/activitystreams","type":["Note","Pinned Post"],"id":"https://example.com/notes/2","content":"x"}`,
		`{"@context":"https://www.w3.org/ns/activitystreams","type":"Create","id":"https://example.com/a/1","actor":"https://example.com/users/alice","object":{"type":["Article","Événement"],"id":"https://example.com/notes/3","name":"été"}}`,
	} {
		in, out, raw := seedC01x12RoundTrip(t, doc)
		if !reflect.DeepEqual(in, out) {
			t.Errorf("round trip is not JSON-equal:\n in: %s\nout: %s", doc, raw)
		}
	}
}
