#!/usr/bin/env python3
"""Confirms a seeded change produced by an independent sub-agent and records it under /verif/seeded/.

usage: confirm_seed.py <src-dir> <seed-id> <property> [--pkgdir pub] [--check C09,C08]

<src-dir> holds patch.diff, demo_test.go, README.md. In a scratch copy of /repo (outside /repo and
/verif, removed afterwards) this script checks, itself:
  1. the demonstration passes on the unchanged tree;
  2. the patch applies and the tree still builds;
  3. the demonstration fails with the patch;
  4. the pinned test suite (stable-pass list of BASELINE.json) still passes with the patch;
  5. which of the registered checks report a violation on the patched tree.
It then writes /verif/seeded/<seed-id>/{patch.diff,demo_test.go,README.md,meta.json}.
"""
import json, os, re, shutil, subprocess, sys, tempfile

VERIF = os.path.dirname(os.path.dirname(os.path.abspath(__file__)))
ENV = dict(os.environ, GOFLAGS="-mod=mod -trimpath", GOPROXY="off", GOSUMDB="off", GOTOOLCHAIN="local", GOWORK="off")


def sh(cmd, cwd=None, timeout=1800):
    r = subprocess.run(cmd, cwd=cwd, env=ENV, capture_output=True, text=True, timeout=timeout)
    return r.returncode, r.stdout + r.stderr


def main():
    src, sid, prop = sys.argv[1:4]
    pkgdir = "pub"
    checks = [prop]
    a = sys.argv[4:]
    while a:
        if a[0] == "--pkgdir":
            pkgdir = a[1]; a = a[2:]
        elif a[0] == "--check":
            checks = a[1].split(","); a = a[2:]
        else:
            a = a[1:]
    demo = open(os.path.join(src, "demo_test.go")).read()
    m = re.search(r"func (TestSeed\w+)\(", demo)
    tname = m.group(1)
    d = tempfile.mkdtemp(prefix="verif-seed-", dir="/tmp")
    out = {"seed": sid, "property": prop, "test": tname, "pkgdir": pkgdir}
    try:
        repo = os.path.join(d, "repo")
        subprocess.check_call(["rsync", "-a", "--exclude", ".git", "/repo/", repo + "/"])
        demo_path = os.path.join(repo, pkgdir, "zz_seed_demo_test.go")
        shutil.copy(os.path.join(src, "demo_test.go"), demo_path)
        rc, o = sh(["go", "test", "-vet=off", "-count=1", "-run", "^" + tname + "$", "./" + pkgdir], cwd=repo)
        out["demo_passes_without_patch"] = (rc == 0)
        if rc != 0:
            out["demo_without_output"] = o[-1500:]
        rc, o = sh(["patch", "-p1", "-s", "-i", os.path.abspath(os.path.join(src, "patch.diff"))], cwd=repo)
        out["patch_applies"] = (rc == 0)
        if rc != 0:
            out["patch_output"] = o[-800:]
            return out
        rc, o = sh(["go", "build", "./..."], cwd=repo)
        out["builds_with_patch"] = (rc == 0)
        rc, o = sh(["go", "test", "-vet=off", "-count=1", "-run", "^" + tname + "$", "./" + pkgdir], cwd=repo)
        out["demo_fails_with_patch"] = (rc != 0)
        out["demo_with_output_tail"] = "\n".join([l for l in o.splitlines() if l.strip()][-12:])[-1500:]
        os.remove(demo_path)
        rc, o = sh([os.path.join(VERIF, "tools", "baseline.sh"), repo])
        out["suite_still_passes"] = (rc == 0)
        out["suite_summary"] = o.strip().splitlines()[0] if o.strip() else ""
        vd = os.path.join(d, "verif")
        os.makedirs(os.path.join(vd, "evidence"))
        shutil.copy(os.path.join(VERIF, "known_findings.txt"), vd)
        det = {}
        for c in checks:
            rc, o = sh([os.path.join(VERIF, "bin", "verifchk"), "-prop", c, "-repo", repo, "-verif", vd])
            lines = [l for l in o.splitlines() if l.startswith(("FINDING", "UNDECIDED", "VACUITY"))]
            det[c] = {"exit": rc, "reports": [l[:400] for l in lines[:6]]}
        out["checks"] = det
        return out
    finally:
        shutil.rmtree(d, ignore_errors=True)
        dst = os.path.join(VERIF, "seeded", sid)
        ok = all(out.get(k) for k in ("demo_passes_without_patch", "patch_applies", "builds_with_patch", "demo_fails_with_patch", "suite_still_passes"))
        out["confirmed"] = bool(ok)
        print(json.dumps(out, indent=1))
        if ok:
            os.makedirs(dst, exist_ok=True)
            for f in ("patch.diff", "demo_test.go", "README.md"):
                if os.path.exists(os.path.join(src, f)):
                    shutil.copy(os.path.join(src, f), dst)
            meta_p = os.path.join(dst, "meta.json")
            meta = json.load(open(meta_p)) if os.path.exists(meta_p) else {}
            meta.update({"breaks": prop, "demo_test": tname, "demo_package_dir": pkgdir, "confirmation": out,
                         "what_i_ran": "tools/confirm_seed.py: demo on clean copy (pass), patch -p1, go build ./..., demo (fail), tools/baseline.sh on the patched copy (700 stable tests still pass), verifchk per property on the patched copy"})
            meta.setdefault("detected_by", [c for c, v in out.get("checks", {}).items() if v["exit"] == 1])
            meta["detected_by"] = [c for c, v in out.get("checks", {}).items() if v["exit"] == 1]
            meta["missed_by"] = [c for c, v in out.get("checks", {}).items() if v["exit"] != 1]
            json.dump(meta, open(meta_p, "w"), indent=1)


main()
