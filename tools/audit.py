#!/usr/bin/env python3
"""Sensitivity audit of the checker (thorough tier).

For every mutant of /verif/mutants/mutants.json that targets the given
property (and every seeded change under /verif/seeded/*/ that names it), a
scratch copy of /repo's working tree is made OUTSIDE /repo and /verif, the
edit is applied there, the checker is pointed at the copy (-repo), and the
outcome is compared with the expectation:

  kind "break"    : the edit breaks the property; the check must exit 1 and its
                    output must contain the 'expect' substring (the report has
                    to name the mutated instance);
  kind "refactor" : the edit preserves behaviour; the check must exit 0.

Nothing is ever applied to /repo itself; each scratch copy is removed as soon
as its run is finished. One scratch copy per change, one checker process per
(change, property).

For a single property the refactorings replayed are its own and every one that
touches a file in which the check has been shown to react; `--all` replays every
refactoring under every check (the complete false-alarm replay).

usage: audit.py [-j N] [--json out.json] PROP [PROP...]   |   audit.py --all
"""
import re, json, os, shutil, subprocess, sys, tempfile, concurrent.futures as cf

VERIF = os.path.dirname(os.path.dirname(os.path.abspath(__file__)))
REPO = os.environ.get("VERIF_REPO", "/repo")
CHK = os.environ.get("VERIF_CHK", os.path.join(VERIF, "bin", "verifchk"))
ENV = dict(os.environ, GOFLAGS="-mod=mod -trimpath", GOPROXY="off", GOSUMDB="off", GOTOOLCHAIN="local", GOWORK="off")


def load_mutants():
    ms = json.load(open(os.path.join(VERIF, "mutants", "mutants.json")))
    out = []
    for m in ms:
        m.setdefault("kind", "break")
        out.append(m)
    sd = os.path.join(VERIF, "seeded")
    if os.path.isdir(sd):
        for d in sorted(os.listdir(sd)):
            meta = os.path.join(sd, d, "meta.json")
            patch = os.path.join(sd, d, "patch.diff")
            if os.path.exists(meta) and os.path.exists(patch):
                md = json.load(open(meta))
                for prop in md.get("detected_by", []):
                    out.append({"id": "seeded/" + d, "property": prop, "kind": "break", "patch": patch,
                                "expect": md.get("expect", {}).get(prop, ""), "why": md.get("summary", "")})
    rd = os.path.join(VERIF, "refactors")
    if os.path.isdir(rd):
        for d in sorted(os.listdir(rd)):
            meta = os.path.join(rd, d, "meta.json")
            patch = os.path.join(rd, d, "patch.diff")
            if os.path.exists(meta) and os.path.exists(patch):
                md = json.load(open(meta))
                for prop in md.get("audit_for", []):
                    out.append({"id": "refactors/" + d, "property": prop, "kind": "refactor", "patch": patch,
                                "why": md.get("summary", "behaviour-preserving refactoring by an independent sub-agent")})
    return out


def scratch_copy():
    d = tempfile.mkdtemp(prefix="verif-mut-", dir=os.environ.get("VERIF_SCRATCH", "/tmp"))
    dst = os.path.join(d, "repo")
    subprocess.check_call(["rsync", "-a", "--exclude", ".git", REPO + "/", dst + "/"])
    return d, dst


def apply(m, dst):
    if "patch" in m:
        r = subprocess.run(["patch", "-p1", "-s", "-d", dst, "-i", m["patch"]], capture_output=True, text=True)
        if r.returncode != 0:
            return "patch does not apply: " + (r.stdout + r.stderr)[:300]
        return None
    for e in m["edits"]:
        p = os.path.join(dst, e["file"])
        s = open(p).read()
        n = s.count(e["old"])
        if n != e.get("count", 1):
            return "edit anchor found %d times (expected %d) in %s: %r" % (n, e.get("count", 1), e["file"], e["old"][:60])
        s = s.replace(e["old"], e["new"])
        open(p, "w").write(s)
    return None


def touched_files(m):
    if "patch" in m:
        fs = set()
        for l in open(m["patch"], errors="replace"):
            if l.startswith("+++ "):
                f = l[4:].strip().split("\t")[0]
                if f.startswith("b/"):
                    f = f[2:]
                fs.add(f)
        return fs
    return {e["file"] for e in m.get("edits", [])}


def judge(m, rc, out):
    if m["kind"] == "break":
        if rc == 1 and "VIOLATION property=" + m["property"] in out and (m.get("expect", "") in out):
            lines = [l for l in out.splitlines() if l.startswith(("FINDING", "UNDECIDED", "VACUITY"))]
            return dict(m=m, status="killed", detail=(lines[0] if lines else "")[:300])
        return dict(m=m, status="survived", detail="exit=%d; expected substring %r %s" % (rc, m.get("expect", ""), "present" if m.get("expect", "") in out else "absent") + "; " + " | ".join([l for l in out.splitlines() if l.startswith(("FINDING", "UNDECIDED", "VACUITY", "ERROR"))][:3])[:500])
    if rc == 0:
        return dict(m=m, status="silent", detail="")
    lines = [l for l in out.splitlines() if l.startswith(("FINDING", "UNDECIDED", "VACUITY", "ERROR"))]
    return dict(m=m, status="false-alarm", detail=" | ".join(lines[:3])[:500])


def run_group(ms):
    """All items of one change (same id): one scratch copy, one build, one checker process per
    property named."""
    m0 = ms[0]
    d, dst = scratch_copy()
    try:
        err = apply(m0, dst)
        if err:
            return [dict(m=m, status="stale", detail=err) for m in ms]
        # the change must still compile, otherwise it is not a realistic change
        pkgs = sorted({"./" + os.path.dirname(f) for f in touched_files(m0) if f.endswith(".go")}) or ["./pub"]
        b = subprocess.run(["go", "build"] + pkgs, cwd=dst, env=ENV, capture_output=True, text=True)
        if b.returncode != 0:
            return [dict(m=m, status="stale", detail="change does not compile: " + (b.stdout + b.stderr)[:400]) for m in ms]

        def one(m):
            vd = os.path.join(d, "verif_" + m["property"])
            os.makedirs(os.path.join(vd, "evidence"))
            shutil.copy(os.path.join(VERIF, "known_findings.txt"), vd)
            r = subprocess.run([CHK, "-prop", m["property"], "-tier", "quick", "-repo", dst, "-verif", vd], env=ENV, capture_output=True, text=True)
            return judge(m, r.returncode, r.stdout + r.stderr)
        with cf.ThreadPoolExecutor(max_workers=int(os.environ.get("AUDIT_INNER", "4"))) as ex:
            return list(ex.map(one, ms))
    finally:
        shutil.rmtree(d, ignore_errors=True)


def main():
    args = sys.argv[1:]
    jobs = 6
    outp = None
    props = []
    allp = False
    only = None
    i = 0
    while i < len(args):
        if args[i] == "-j":
            jobs = int(args[i + 1]); i += 2
        elif args[i] == "--json":
            outp = args[i + 1]; i += 2
        elif args[i] == "--all":
            allp = True; i += 1
        elif args[i] == "--only":
            only = args[i + 1]; i += 2
        else:
            props.append(args[i]); i += 1
    allms = load_mutants()
    ms = [m for m in allms if allp or m["property"] in props]
    if not allp:
        # refactorings replayed for one property: its own (id prefix) and every one that touches a
        # file in which this check has been shown to react (files edited by its mutants and by the
        # seeded changes it reports); `--all` replays every refactoring under every check
        keep = []
        for prop in props:
            hot = set()
            for m in ms:
                if m["property"] == prop and m["kind"] == "break":
                    hot |= touched_files(m)
            for m in ms:
                if m["property"] != prop:
                    continue
                if m["kind"] != "refactor" or m["id"].split("/")[-1].startswith(prop + "-") or (touched_files(m) & hot):
                    keep.append(m)
        ms = keep
    if only:
        ms = [m for m in ms if re.search(only, m["id"])]
    if os.environ.get("AUDIT_PROPS"):
        want = set(os.environ["AUDIT_PROPS"].split(","))
        ms = [m for m in ms if m["property"] in want]
    if os.environ.get("AUDIT_SKIP"):
        skip = set(open(os.environ["AUDIT_SKIP"]).read().split())
        ms = [m for m in ms if m["id"] not in skip]
    if not ms:
        print("audit: no mutants registered for", props)
        if outp:
            json.dump({"mutants": 0}, open(outp, "w"))
        return 0
    res = []
    groups = {}
    for m in ms:
        groups.setdefault(m["id"], []).append(m)
    with cf.ThreadPoolExecutor(max_workers=jobs) as ex:
        for rs in ex.map(run_group, list(groups.values())):
            for r in rs:
                res.append(r)
                print("%-11s %-5s %-34s %s" % (r["status"], r["m"]["property"], r["m"]["id"], r["detail"][:160]), flush=True)
    bad = [r for r in res if r["status"] in ("survived", "false-alarm", "stale")]
    summary = {
        "mutants": len(res),
        "killed": sum(r["status"] == "killed" for r in res),
        "refactors_silent": sum(r["status"] == "silent" for r in res),
        "survived": [r["m"]["id"] for r in res if r["status"] == "survived"],
        "false_alarms": [r["m"]["id"] for r in res if r["status"] == "false-alarm"],
        "stale": [r["m"]["id"] for r in res if r["status"] == "stale"],
        "results": [{"id": r["m"]["id"], "property": r["m"]["property"], "kind": r["m"]["kind"], "status": r["status"], "why": r["m"].get("why", ""), "report": r["detail"]} for r in res],
    }
    if outp:
        json.dump(summary, open(outp, "w"), indent=1)
    print("audit: %d mutants, %d killed, %d refactors silent, %d survived, %d false alarms, %d stale" % (
        len(res), summary["killed"], summary["refactors_silent"], len(summary["survived"]), len(summary["false_alarms"]), len(summary["stale"])))
    return 1 if bad else 0


sys.exit(main())
