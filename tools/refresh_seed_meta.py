#!/usr/bin/env python3
"""Recomputes, for every seeded change under /verif/seeded/, which of the 20 checks report it
(on a scratch copy of /repo with the patch applied, outside /repo and /verif, removed afterwards)
and rewrites detected_by / missed_by / expect in its meta.json.

usage: refresh_seed_meta.py [-j N] [seed-id ...]      (default: all seeds)
"""
import json, os, re, shutil, subprocess, sys, tempfile, concurrent.futures as cf

VERIF = os.path.dirname(os.path.dirname(os.path.abspath(__file__)))
CHK = os.environ.get("VERIF_CHK", os.path.join(VERIF, "bin", "verifchk"))
ENV = dict(os.environ, GOFLAGS="-mod=mod -trimpath", GOPROXY="off", GOSUMDB="off", GOTOOLCHAIN="local", GOWORK="off")
ALL = ["C%02d" % i for i in range(1, 21)]


def one(sid):
    sd = os.path.join(VERIF, "seeded", sid)
    d = tempfile.mkdtemp(prefix="verif-meta-", dir="/tmp")
    try:
        repo = os.path.join(d, "repo")
        subprocess.check_call(["rsync", "-a", "--exclude", ".git", "/repo/", repo + "/"])
        r = subprocess.run(["patch", "-p1", "-s", "-i", os.path.join(sd, "patch.diff")], cwd=repo, env=ENV, capture_output=True, text=True)
        if r.returncode != 0:
            return sid, None, "patch does not apply: " + (r.stdout + r.stderr)[-300:]
        r = subprocess.run(["go", "build", "./..."], cwd=repo, env=ENV, capture_output=True, text=True)
        if r.returncode != 0:
            return sid, None, "does not build: " + (r.stdout + r.stderr)[-300:]
        vd = os.path.join(d, "verif")
        os.makedirs(os.path.join(vd, "evidence"))
        shutil.copy(os.path.join(VERIF, "known_findings.txt"), vd)
        det = {}

        def run(c):
            vdc = os.path.join(d, "v_" + c)
            os.makedirs(os.path.join(vdc, "evidence"))
            shutil.copy(os.path.join(VERIF, "known_findings.txt"), vdc)
            rr = subprocess.run([CHK, "-prop", c, "-tier", "quick", "-repo", repo, "-verif", vdc], env=ENV, capture_output=True, text=True)
            lines = [l for l in (rr.stdout + rr.stderr).splitlines() if l.startswith(("FINDING", "UNDECIDED", "VACUITY"))]
            return c, rr.returncode, lines
        with cf.ThreadPoolExecutor(max_workers=5) as ex:
            for c, rc, lines in ex.map(run, ALL):
                det[c] = (rc, lines)
        return sid, det, ""
    finally:
        shutil.rmtree(d, ignore_errors=True)


def main():
    args = sys.argv[1:]
    jobs = 3
    if args[:1] == ["-j"]:
        jobs = int(args[1]); args = args[2:]
    seeds = args or sorted(os.listdir(os.path.join(VERIF, "seeded")))
    with cf.ThreadPoolExecutor(max_workers=jobs) as ex:
        for sid, det, err in ex.map(one, seeds):
            mp = os.path.join(VERIF, "seeded", sid, "meta.json")
            meta = json.load(open(mp)) if os.path.exists(mp) else {}
            if det is None:
                print(sid, "ERROR", err)
                meta["refresh_error"] = err
            else:
                meta.pop("refresh_error", None)
                meta["detected_by"] = sorted(c for c, (rc, _) in det.items() if rc == 1)
                meta["missed_by"] = sorted(c for c, (rc, _) in det.items() if rc != 1)
                exp = {}
                rep = {}
                for c, (rc, lines) in det.items():
                    if rc == 1 and lines:
                        m = re.match(r"^\w+ rule=(\S+) func=(.*?) at ", lines[0])
                        if m:
                            exp[c] = "rule=%s func=%s" % (m.group(1), m.group(2))
                        rep[c] = [l[:300] for l in lines[:3]]
                meta["expect"] = exp
                meta["reports"] = rep
                own = meta.get("breaks", sid.split("-")[0])
                print(sid, "own:%s" % ("Y" if own in meta["detected_by"] else "n"), "by:", ",".join(meta["detected_by"]) or "-")
            json.dump(meta, open(mp, "w"), indent=1)


main()
