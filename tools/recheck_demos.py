#!/usr/bin/env python3
"""Re-validates the demonstrations of all seeded changes against the CURRENT /repo (which has
received fix: commits since the seeds were confirmed): on a scratch copy (outside /repo and /verif,
removed afterwards) the demonstration must pass without the patch, the patch must apply and build,
and the demonstration must fail with it. Does not run the suite or the checks (confirm_seed.py and
refresh_seed_meta.py do). Prints one line per seed; exit 1 if any seed is no longer valid.

usage: recheck_demos.py [-j N] [seed-id ...]
"""
import json, os, re, shutil, subprocess, sys, tempfile, concurrent.futures as cf

VERIF = os.path.dirname(os.path.dirname(os.path.abspath(__file__)))
ENV = dict(os.environ, GOFLAGS="-mod=mod -trimpath", GOPROXY="off", GOSUMDB="off", GOTOOLCHAIN="local", GOWORK="off")


def sh(cmd, cwd, timeout=2400):
    r = subprocess.run(cmd, cwd=cwd, env=ENV, capture_output=True, text=True, timeout=timeout)
    return r.returncode, r.stdout + r.stderr


def one(sid):
    sd = os.path.join(VERIF, "seeded", sid)
    meta = json.load(open(os.path.join(sd, "meta.json")))
    pkgdir = meta.get("pkgdir") or meta.get("demo_package_dir") or "pub"
    readme = os.path.join(sd, "README.md")
    if os.path.exists(readme):
        first = open(readme).readline().strip()
        if first.startswith("pkgdir:"):
            pkgdir = first.split(":", 1)[1].strip()
    demo = open(os.path.join(sd, "demo_test.go")).read()
    m = re.search(r"func (Test\w+)\(", demo)
    tname = m.group(1)
    pm = re.search(r"^package (\w+)", demo, re.M)
    d = tempfile.mkdtemp(prefix="verif-demo-", dir="/tmp")
    try:
        repo = os.path.join(d, "repo")
        subprocess.check_call(["rsync", "-a", "--exclude", ".git", "/repo/", repo + "/"])
        shutil.copy(os.path.join(sd, "demo_test.go"), os.path.join(repo, pkgdir, "zz_seed_demo_test.go"))
        rc, o = sh(["go", "test", "-vet=off", "-count=1", "-run", "^" + tname + "$", "./" + pkgdir], repo)
        if rc != 0:
            return sid, False, "demonstration fails on the unchanged tree: " + o[-400:].replace("\n", " | ")
        rc, o = sh(["patch", "-p1", "-s", "-i", os.path.join(sd, "patch.diff")], repo)
        if rc != 0:
            return sid, False, "patch does not apply: " + o[-300:].replace("\n", " | ")
        rc, o = sh(["go", "build", "./..."], repo)
        if rc != 0:
            return sid, False, "does not build: " + o[-300:].replace("\n", " | ")
        rc, o = sh(["go", "test", "-vet=off", "-count=1", "-run", "^" + tname + "$", "./" + pkgdir], repo)
        if rc == 0:
            return sid, False, "demonstration passes with the patch"
        return sid, True, ""
    finally:
        shutil.rmtree(d, ignore_errors=True)


def main():
    a = sys.argv[1:]
    j = 3
    if a[:1] == ["-j"]:
        j = int(a[1]); a = a[2:]
    ids = a or sorted(os.listdir(os.path.join(VERIF, "seeded")))
    bad = 0
    with cf.ThreadPoolExecutor(max_workers=j) as ex:
        for sid, ok, why in ex.map(one, ids):
            print(sid, "ok" if ok else "INVALID " + why, flush=True)
            bad += not ok
    print("recheck_demos: %d seeds, %d no longer valid" % (len(ids), bad))
    return 1 if bad else 0


sys.exit(main())
