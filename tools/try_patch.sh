#!/bin/bash
# usage: tools/try_patch.sh <patch.diff> PROP [PROP...]   |  ... all
# Applies a patch to a scratch copy of /repo (outside /repo and /verif, removed afterwards) and runs
# the named checks on it; prints their FINDING/UNDECIDED/VACUITY/ERROR and SUMMARY lines.
cd "$(dirname "$0")/.."
export GOFLAGS="-mod=mod -trimpath" GOPROXY=off GOSUMDB=off GOTOOLCHAIN=local GOWORK=off
P=$(readlink -f "$1"); shift
[ "$1" = all ] && set -- C01 C02 C03 C04 C05 C06 C07 C08 C09 C10 C11 C12 C13 C14 C15 C16 C17 C18 C19 C20
D=$(mktemp -d /tmp/verif-try-XXXXXX)
trap 'rm -rf "$D"' EXIT
rsync -a --exclude .git /repo/ "$D/repo/"
(cd "$D/repo" && patch -p1 -s -i "$P") || { echo "PATCH FAILED"; exit 2; }
(cd "$D/repo" && go build ./... ) || { echo "BUILD FAILED"; exit 2; }
mkdir -p "$D/verif/evidence"; cp known_findings.txt "$D/verif/"
for id in "$@"; do
  ( ${VERIF_CHK:-./bin/verifchk} -prop "$id" -tier quick -repo "$D/repo" -verif "$D/verif" 2>&1 | grep -E "^(FINDING|UNDECIDED|VACUITY|ERROR|SUMMARY|NOTE|panic)" | cut -c1-${CUT:-420} | sed "s/^/[$id] /" ) &
done
wait
