#!/usr/bin/env python3
"""Tries a behaviour-preserving refactoring (produced by an independent sub-agent) against the checks.

usage: check_refactor.py <src-dir> <refactor-id> [--check C02,C03,...|all] [--keep]

<src-dir> holds patch.diff and README.md. In a scratch copy of /repo (outside /repo and /verif,
removed afterwards): the patch must apply, the tree must build, the pinned suite must still pass;
then every named check is run on the patched copy. A check that exits non-zero here is either a
false alarm of the machinery (to be corrected there) or the refactoring is not behaviour-preserving
after all (to be decided by reading; such a patch is not kept as a refactoring).
With --keep and all checks silent the patch is stored under /verif/refactors/<refactor-id>/ and is
replayed by tools/audit.py (kind "refactor") in the thorough tier of every check listed.
"""
import json, os, shutil, subprocess, sys, tempfile, concurrent.futures as cf

VERIF = os.path.dirname(os.path.dirname(os.path.abspath(__file__)))
ENV = dict(os.environ, GOFLAGS="-mod=mod -trimpath", GOPROXY="off", GOSUMDB="off", GOTOOLCHAIN="local", GOWORK="off")
ALL = ["C%02d" % i for i in range(1, 21)]


def sh(cmd, cwd=None, timeout=3600):
    r = subprocess.run(cmd, cwd=cwd, env=ENV, capture_output=True, text=True, timeout=timeout)
    return r.returncode, r.stdout + r.stderr


def main():
    src, rid = sys.argv[1:3]
    checks = ALL
    keep = False
    a = sys.argv[3:]
    while a:
        if a[0] == "--check":
            checks = ALL if a[1] == "all" else a[1].split(","); a = a[2:]
        elif a[0] == "--keep":
            keep = True; a = a[1:]
        else:
            a = a[1:]
    d = tempfile.mkdtemp(prefix="verif-ref-", dir="/tmp")
    out = {"refactor": rid}
    try:
        repo = os.path.join(d, "repo")
        subprocess.check_call(["rsync", "-a", "--exclude", ".git", "/repo/", repo + "/"])
        rc, o = sh(["patch", "-p1", "-s", "-i", os.path.abspath(os.path.join(src, "patch.diff"))], cwd=repo)
        out["patch_applies"] = (rc == 0)
        if rc != 0:
            out["patch_output"] = o[-800:]
            return out
        rc, o = sh(["go", "build", "./..."], cwd=repo)
        out["builds"] = (rc == 0)
        if rc != 0:
            out["build_output"] = o[-800:]
            return out
        rc, o = sh([os.path.join(VERIF, "tools", "baseline.sh"), repo])
        out["suite_still_passes"] = (rc == 0)
        out["suite_summary"] = o.strip().splitlines()[0] if o.strip() else ""
        vd = os.path.join(d, "verif")
        os.makedirs(os.path.join(vd, "evidence"))
        shutil.copy(os.path.join(VERIF, "known_findings.txt"), vd)

        def run(c):
            vdc = os.path.join(d, "verif_" + c)
            os.makedirs(os.path.join(vdc, "evidence"))
            shutil.copy(os.path.join(VERIF, "known_findings.txt"), vdc)
            rc, o = sh([os.path.join(VERIF, "bin", "verifchk"), "-prop", c, "-repo", repo, "-verif", vdc])
            lines = [l for l in o.splitlines() if l.startswith(("FINDING", "UNDECIDED", "VACUITY", "ERROR", "panic"))]
            return c, {"exit": rc, "reports": [l[:500] for l in lines[:8]]}
        det = {}
        with cf.ThreadPoolExecutor(max_workers=int(os.environ.get("REF_JOBS", "5"))) as ex:
            for c, v in ex.map(run, checks):
                det[c] = v
        out["checks"] = det
        out["alarms"] = sorted(c for c, v in det.items() if v["exit"] != 0)
        return out
    finally:
        shutil.rmtree(d, ignore_errors=True)
        ok = out.get("patch_applies") and out.get("builds") and out.get("suite_still_passes")
        out["valid_refactor_candidate"] = bool(ok)
        print(json.dumps(out, indent=1))
        if keep and ok and not out.get("alarms"):
            dst = os.path.join(VERIF, "refactors", rid)
            os.makedirs(dst, exist_ok=True)
            for f in ("patch.diff", "README.md"):
                if os.path.exists(os.path.join(src, f)):
                    shutil.copy(os.path.join(src, f), dst)
            readme = os.path.join(src, "README.md")
            summary = ""
            if os.path.exists(readme):
                summary = " ".join(open(readme).read().split())[:300]
            json.dump({"id": rid, "kind": "refactor", "summary": summary, "audit_for": sorted(out["checks"].keys()),
                       "checks_silent": sorted(out["checks"].keys()), "suite": out.get("suite_summary", ""),
                       "what_i_ran": "tools/check_refactor.py: patch -p1 on a scratch copy, go build ./..., tools/baseline.sh (stable tests still pass), verifchk for each listed check (all exit 0)"},
                      open(os.path.join(dst, "meta.json"), "w"), indent=1)


main()
