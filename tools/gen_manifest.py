#!/usr/bin/env python3
"""Generates /verif/MANIFEST.json from the table below (kept here so the manifest stays valid and current)."""
import json, os, sys
HERE = os.path.dirname(os.path.dirname(os.path.abspath(__file__)))

# id -> (category, technique, text, note, design_ref)
CLAIMED = {
 "C08": ("other", "lock typestate dataflow over go/cfg (open-reads component) + SSA must-facts gate rule",
   "Decides, on every CFG path of every pub function that touches the Database, the lock-discipline clauses that are necessary for lost-update and deadlock freedom: check-then-act and read-modify-write pairs sit in one uninterrupted hold, at most one id is held at a time, and callbacks run only when the inbox reported the id as new. Does not explore interleavings or decide the observed outcome of concurrent requests.",
   "Assumes Lock/Unlock give per-id mutual exclusion; key identity = resolved key expression; application callbacks are opaque. Trusted: go/types, go/cfg, go/ssa, the checker's transfer functions.", "DESIGN.md §4 C08"),
 "C09": ("other", "lock typestate dataflow over go/cfg, branch-sensitive on the Lock error",
   "Decides all four clauses (released exactly once on every exit, no Unlock of an unacquired lock, no re-lock while held, every Database access under a lock) on all intra-procedural CFG paths of all 22 units of package pub that touch the Database, including every error exit no mock scripts; callee re-entry is flagged conservatively.",
   "Key identity = resolved key expression (no alias analysis); CFG paths over-approximate feasible ones; panics are not exits; application code is opaque. Trusted: go/types, go/cfg, the checker's transfer function.", "DESIGN.md §4 C09"),
 "C07": ("other", "SSA must-facts dataflow (gate rule) over own transitive effect resolution of package pub",
   "The ordering clause is decided for all SSA paths of the five request entry points: every call whose transitive effect reaches the Database, a Transport, the HttpClient or an application side-effect callback is shown to lie in the region where the request was classified as ActivityPub, the protocol flag is on, authentication returned (true, nil) and — inbox POST — authorization returned (true, nil); the gate pass-throughs are shown effect-free, and effect resolution is shown complete (no unresolved dynamic call, nothing effectful handed out of pub).",
   "Custom DelegateActor implementations and application code are opaque (treated as the effects of their role). CFG paths over-approximate feasible ones. Trusted: go/types, go/ssa, the effect table and fact evaluator of the checker.", "DESIGN.md §4 C07"),
 "C10": ("other", "ResponseWriter typestate (may-analysis of write histories) combined with SSA must-facts; status table with sibling agreement",
   "Decides the path clauses on all SSA paths of the five entry points and AuthorizePostInbox: not-handled returns are silent, error returns have no library write, nil returns have exactly one WriteHeader (or none on the denied edge of a gate that was handed the writer), every WriteHeader carries the documented constant for the condition that governs it and every documented row exists, the 201's Location is the id of the activity deliver returned, and the 400 sentinels are produced before any effect.",
   "What the application's gate writes on denial is outside the library; ResponseWriter faults are outside the fault model; which strings xsd:anyURI accepts as an IRI is the id codec's (C12-R5). Trusted: go/types, go/ssa, checker transfer functions.", "DESIGN.md §4 C10"),
 "C13": ("proof", "abstract evaluation of the generated predicate tables (go/ast + go/types) against an independently computed ontology closure",
   "The whole statement is decided for the shipped vocabularies: the exact denotation of every Extends / IsExtendedBy / IsOrExtends / IsDisjointWith predicate (63 types x 4 families) is computed from source by an evaluator that accepts six statement forms and fails on anything else, and compared for all 63x63 ordered pairs with the transitive closure computed by the checker's own reader from the four JSON-LD ontologies; converse, symmetry and irreflexivity are checked on the extracted relations, and every exported wrapper and IsExtending method is resolved to the predicate it delegates to.",
   "Trusted base: go/parser + go/types, the checker's JSON-LD reader and closure code, the evaluator's accepted forms, and that GetTypeName() returns the literal extracted (checked equal to the ontology name). Only the four shipped vocabularies are covered; the generator is not analysed.", "DESIGN.md §4 C13"),
 "C05": ("other", "SSA dominance/ordering rules + must-facts gates + error-discipline may-analysis over everything reachable from deliver",
   "Decides the ordering and pairing clauses on all SSA paths: wrap (non-activities only) ≺ new ids ≺ store/side effects ≺ delivery (only with the federated flag and deliverable), every later step in the success region of every earlier one and no failure swallowed anywhere below deliver; addToOutbox creates the activity, then prepends exactly its id once to the page it read (fresh items property installed) and saves that page; every object of a Create gets its own fresh id property; social Create normalises before the first store. Does not decide union semantics of the normalisation or 'newest first' over histories.",
   "A custom DelegateActor is outside the library. CFG paths over-approximate feasible ones; value-level set semantics are not decided. Trusted: go/types, go/ssa, checker engines E1/E2/E9.", "DESIGN.md §4 C05"),
 "C06": ("other", "SSA must-facts gates + intra-procedural value-flow (which data feeds which comparison) + total-loop shape + error discipline",
   "Decides that each authority check guards the effects it is meant to guard and is a check of the right data: the origin check (Host field of GetId(activity) vs Host field of ToId(each object), total loop) precedes every effect of Update/Delete; Accept's verification reads the Follow from the local Database and checks actor and objects on that stored value before 'following' is touched; Undo's application callback runs only after every actor of every fetched object was looked up in the set of the Undo's own actors; the block check receives an id derived from each actor element.",
   "Value flow is an over-approximation (absence of a flow is exact). Host-string semantics beyond the choice of the Host field are not decided. Trusted: go/types, go/ssa, checker engines E1/E2/E4/E9.", "DESIGN.md §4 C06"),
 "C02": ("other", "intra-procedural value-flow graph (exists-flow and cut queries) + must-facts depth guard + in-place-filter index discipline + error discipline",
   "Set equality over federation graphs is not decided. Decided on all SSA paths: each of to/bto/cc/bcc/audience flows into the recipient list, and from there only through filterURLs(·, IsPublic) into anything looked up or dereferenced; IsPublic knows both spellings and the in-place filter cannot skip an element; dereference and recursion in resolveActors happen only where the depth limit has not been reached, with depth+1 passed on; a failed dereference is skipped and its error cannot reach the result; every success return of prepare is dedupeIRIs(stored ∪ remote inboxes, sender's inbox); exactly one BatchDeliver per delivery, reachable only through deliverToRecipients.",
   "Value flow over-approximates (absence of a flow is exact; presence is a necessary condition). Trusted: go/types, go/ssa, checker engines E1/E2/E4/E9.", "DESIGN.md §4 C02"),
 "C03": ("other", "SSA dominance (strip ≺ serialise on the same value) + total-loop shape + addressing-kind value flow + who-may-call rule",
   "Decides necessary structural conditions on all paths: prepare strips bto/bcc from the activity on every success return after having read them; Deliver sends that same value; the transport is reachable only through deliverToRecipients; both strip functions clear both kinds on the value and on every element of object in a loop that cannot be left early (the handler's recursively, dominating Serialize of the same value); in wrapInCreate/normalizeRecipients no value of one addressing kind is appended to a property of another kind, membership guards consult the receiver's own set, and fresh properties are installed. The payload bytes are not examined.",
   "Relies on the generated Set…(nil) removing the member (C01/C12). Value flow over-approximates. Trusted: go/types, go/ssa, checker engines E1/E2/E4.", "DESIGN.md §4 C03"),
 "C04": ("other", "SSA must-facts (incl. flag implication through phis) + syntax-level override-table check + value flow + total-loop shape + error discipline",
   "Decides necessary structural conditions on all paths of the federating default callbacks: writes in like/announce/add/remove only where Owns(key) is (true,nil) for the key locked/read/written; the override table maps each func(ctx, vocab.T) to exactly the default for T; the wrapped application callback of the right name runs last, after the default effect succeeded, and its result is returned; Follow stores/delivers nothing unless OnFollow≠DoNothing and an object equals this inbox's actor (monotone search), updates followers only for auto-accept, builds Accept/Reject per setting with actor/object/to from the right sources and new ids before delivery; documented insertion ends; Create fetches IRIs; every object is processed; fresh properties are installed.",
   "Exact stored values are not decided; Database.Owns is the application's. Trusted: go/types, go/ssa, go/ast, checker engines E1/E2/E4/E9.", "DESIGN.md §4 C04"),
 "C16": ("other", "SSA must-facts + value flow + store/dominance rules on the undeliverable side channel + in-place-scan discipline + error discipline",
   "Decides necessary structural conditions on all paths of the social default callbacks: sentinel before any effect; undeliverable is recorded (true only by block) before anything can return and PostOutbox returns its negation while still storing/listing; toTombstone copies id/formerType/deleted always and published/updated independently; deleteFn replaces the stored object by that Tombstone under its lock; Add/Remove write only owned targets with the documented mutator and Remove's scan examines every element without skipping; Like prepends every object id to the outbox actor's liked collection; Update writes ToType(stored ⊕ supplied) back; wrapped callback last.",
   "Exact member sets after Update are value-level and not decided (the provenance of the deleted keys is, C16-R8). Trusted: go/types, go/ssa, go/ast, checker engines E1/E2/E4/E9.", "DESIGN.md §4 C16"),
 "C20": ("other", "SSA value identity (same slice digested and written) + dominance order + def-chain rules for the header derivation + in-place-filter discipline",
   "Decides on all paths of GetInbox/GetOutbox/handler that the bytes written are the very slice passed to addResponseHeaders, built as json.Marshal(streams.Serialize(x)) from the value the application supplied, after dedupe (inbox only) / recursive scrub (handler), with headers ≺ status ≺ body; that addResponseHeaders derives Content-Type, Date (clock.Now().UTC().Format(RFC 7231)+GMT) and Digest (SHA-256= base64.Std(sha256.Sum256(param))) through exactly those callees; that dedupeOrderedItems removes exactly later occurrences and examines every element; missing value ⇒ ErrNotFound with nothing written.",
   "Serialisation fidelity itself is C01's. Trusted: go/types, go/ssa, checker engines E1/E2/E4.", "DESIGN.md §4 C20"),
 "C17": ("other", "SSA must-facts gates + value flow (filter result is the only index source) + depth guard + skip-on-failure loop shape + no-mutator rule",
   "The value-level 'iff' is not decided. Decided on all paths: forwarding only where Exists==(false,nil), an owned collection was found, hasInboxForwardingValues==(true,nil) and FilterForwarding succeeded; the activity is recorded exactly where unseen and a seen one has no further effect; exactly to/cc/audience are scanned, kept only where owned, treated as collections only where the loaded value is one; inReplyTo/tag/object/target are each read on every path; the ownership search is depth-guarded, passes depth+1, reports true only from Owns/recursion true and skips unfetchable values while continuing; members come only from collections indexed by FilterForwarding's result; nothing on the path mutates an ActivityStreams value and the payload is Serialize(activity).",
   "Value flow over-approximates. Trusted: go/types, go/ssa, checker engines E1/E2/E4/E9.", "DESIGN.md §4 C17"),
 "C19": ("other", "SSA dominance and value-identity rules (headers ≺ sign ≺ send on one request value, signed bytes = sent bytes) + mutex typestate (E3 on sync.Mutex) + goroutine capture/write scan",
   "Cryptographic validity and races inside application code are not decided. Decided on all paths: required headers with the documented values dominate SignRequest; SignRequest receives key, key id, that request and exactly the body slice that feeds the request (nil for GET); no use of the request between signing and Do(req); each signer only under its own mutex, released on all paths; body read only for 200, Deliver nil only where isSuccess={200,201,202}; BatchDeliver: total loop, Add before go, deferred Done, channel capacity len(recipients), Wait before a non-blocking drain, error iff a failure was received and naming each; goroutines write no captured state, value receivers, no field stores.",
   "httpsig and net/http are trusted to do what they document. Trusted: go/types, go/ssa, go/cfg, checker engines E2/E3/E4.", "DESIGN.md §4 C19"),
 "C01": ("other", "table extraction from the generated code (go/ast + go/types): reader/writer agreement of member names, representations and codec tables",
   "Round-trip equality is value-level and not decided. Decided for all 63 types and 103 properties — conservation of members: every claimed member name is read unconditionally by exactly one property reader and vice versa (4 natural-language properties violate this: known finding D10); every read property is stored and emitted under its own name, unclaimed members are kept in unknown and re-emitted; every element reader returns exactly one representation (IRI / one member with its flag true / the raw value) and never drops a present value; scalar and one-element list share a reader and a single element is written as a scalar; @context is installed from all fields and nested ones removed; the duration and dateTime codecs' reader and writer tables agree.",
   "Trusted: go/parser, go/types, the checker's JSON-LD reader, the extraction code. Only the shipped vocabularies; the generator is not analysed.", "DESIGN.md §4 C01"),
 "C12": ("other", "exhaustive table extraction from the generated code compared with an independently computed ontology oracle",
   "Decides the table clauses exhaustively: for each of the 63 types, eight tables (fields, getters, setters, reader calls, stored results, claimed names, serialise blocks, @context merges) equal the ontology's property set for the type (domain over ancestors minus withheld, plus id/type); for each of the 101+2 properties, the admitted type kinds equal the range closed under subclassing, literal kinds equal the literal ranges, each reader branch calls the deserialiser of the member it fills, IRI admitted, functional ⇔ single slot, natural-language ⇔ Map spelling handled, names and vocabulary URIs equal the ontology's; the duration/dateTime codec tables agree with the documented units. Numeric codec semantics beyond that are not decided.",
   "Trusted: go/parser, go/types, ontology.go, e5_model.go. Generator templates not analysed.", "DESIGN.md §4 C12"),
 "C14": ("other", "strict syntactic parse of the three generated dispatch chains + go/types resolution through the Manager, against the ontology's type list",
   "Decides the dispatch relation exhaustively: every branch of JSONResolver.Resolve, TypeResolver.Resolve and TypePredicatedResolver.Apply (63 each) is parsed in strict form into (vocabulary, name, callback interface, value interface, deserialiser); each tuple must be self-consistent and name the interface of exactly the generated type with that name and vocabulary; branch set = ontology types, each once; only the first registered callback of exactly that signature is invoked and its result returned unchanged; ErrNoCallbackMatch / ErrUnhandledType / ErrPredicateUnmatched where documented; for a type array only ErrUnhandledType moves on; IsUnmatchedErr = the three sentinels; constructors accept exactly the legal signatures; ToType registers one assigning closure per type.",
   "Trusted: go/parser, go/types, the strict branch parser; GetTypeName/VocabularyURI literals (C13-R6, C12-R4).", "DESIGN.md §4 C14"),
 "C18": ("other", "abstract interpretation of every container method over the element-index invariant + structural single-representation rules, for every generated instance",
   "Operation histories are runtime; decided for every instance are the representation invariants that make a container a plain list and an element a single slot: an interpreter over all 7,496 container-method instances of the 44 non-functional properties shows properties[i].myIdx==i ∧ parent==this restored at every exit (unrecognised writes fail); for all 103 properties clear resets every member/flag/iri/unknown, every typed setter clears first and writes exactly its member and flag, Is/Get read it, and every element literal anywhere fills at most one member with its own flag true; Next/Prev/At/Len have the stepping shape.",
   "Index expressions compared textually (sound for the generated forms; others are reported undecided). Trusted: go/parser, go/types, e5_model.go, the interpreter's statement forms.", "DESIGN.md §4 C18"),
 "C11": ("other", "optional-getter nil-guard analysis (SSA must-facts, bottom-up dereference summaries, witnessed preconditions) + compiler-proved bounds (check_bce) + recursion/loop-progress shape rules",
   "Absence of panics in general is not decided. Decided for all of package pub (and the literal codecs for bounds): every result of an optional vocabulary getter used as a receiver, or passed to a function that dereferences it, is known non-nil at the use or covered by a reviewed precondition whose witness is re-verified each run; GetIRI() only where IsIRI() is known; no un-checked type assertion; every index/slice the Go compiler cannot prove in bounds is in a reviewed table with its reason; every recursion is depth-guarded or structural; every loop without post statement makes progress.",
   "Application interfaces are assumed to return non-nil values with a nil error; panics of other origin and application code are not covered. Trusted: go/types, go/ssa, the gc prove pass, e2_facts.go.", "DESIGN.md §4 C11"),
 "C15": ("other", "map-iteration-order lint over all of astool (go/types-resolved range sites, classes commutative / sorted-before-use / reviewed with re-verified witnesses) + symbolic set-algebra reading of the generator's member-set and closure functions",
   "Regenerating the shipped package and compiling generated extensions need the generator and the compiler to be run and are not decided (regeneration was reproduced once, outside the checks). Decided: the structural necessary condition of run-to-run identical output - each of the 68 ranges over a map in astool/... is commutative, feeds only slices sorted before use, or is in a reviewed table (function + ranged expression, reason, and a witness re-verified on each run: sorting consumer NewInterface, name-keyed NewStruct/NewTypedef emitting sorted, sorted-by-callee, file set written by path, TypeGenerator maps); no jennifer statement is built inside a map range; and the necessary condition of extension member sets - allProperties = (own + all transitive ancestors' properties) minus (all transitive ancestors' and own withheld), removals after all additions; the extends/extended-by/disjoint builders use the transitive-closure helpers.",
   "17 reviewed sites rest on recorded keyed-effects reasons (listed in the evidence as assumptions), not on a mechanical witness. Trusted: go/parser, go/types, sort, jennifer's renderer.", "DESIGN.md §4 C15"),
}
NOT_YET = {}
ALL = ["C%02d" % i for i in range(1, 21)]
NA_REASON = "rule designed (DESIGN.md §4), checker for it not built yet; not claimed on a weaker proxy"

# Additions of the second/third adversarial rounds (DESIGN.md §10): appended to the claimed text / technique.
ADD_TEXT = {
 "C01": " Also decided: the rdf:langString reader and streams.Serialize record every entry of the map they range over; no constant vocabulary flows into @context; the @context object is read in the orientation it is written and aliased members are written under the spelling they are read under; the duration reader applies the sign on every success return and the anyURI reader rejects only non-strings, unparsable strings and strings without a scheme. The store of @context dominates every success return of Serialize; a type claims a member in the spelling (alias prefix included) under which its property reads it; toAliasMap registers both the http and https spelling of a vocabulary.",
 "C02": " Also decided: every way round the loops of resolveActors and of the stored-inbox lookup passes through the dereference / InboxForActor (no recipient is skipped untried), and no slice on the delivery path is written through while it is ranged over. dedupeIRIs never returns its input; the remote resolution in prepare dominates every success return; between a JSON string and an IRI-valued member stands only the anyURI reader's own test.",
 "C03": " Also decided: nothing returns from either strip function before bto, bcc and object were examined, and the type tests guarding them admit every vocabulary type that has the member. Every type that has bto / bcc claims those members, so the raw member does not survive the strip among the unknown members.",
 "C05": " Also decided: attribution is decided per object (the set consulted is selected by the index of the object appended to), and no method of the actor types writes a field of its receiver (nothing is remembered across requests). The wrap decision rests on IsOrExtendsActivity, whose denotation equals Activity and its descendants in the ontology.",
 "C06": " Also decided: GetId yields href only where the id property is nil; every refusal of the verification steps is feasible (no dead check).",
 "C07": " Also decided: the protocol flags each constructor sets are the ones its name promises (followed through delegating constructors).",
 "C08": " Also decided: a request releases only locks it holds, and request handlers keep no state in their receiver.",
 "C10": " Also decided: the delegate receives the inbox activity only where its id property is non-nil and holds an IRI; every other outcome of that test is answered 400. ErrObjectRequired / ErrTargetRequired reach the entry points unchanged (no re-wrapping on the path, comparison against the same sentinel); JSONResolver.Resolve and ToType return a nil error only after a callback has run, so an unknown or typeless body cannot be taken for handled.",
 "C11": " Also decided: every way round an in-place filter loop removes an element or advances the index; the reviewed reason for the duration regexp's submatch indices is re-verified by parsing the pattern. Every decoder of a non-functional property links each element to its container and numbers it (Next/Prev on a decoded iterator cannot dereference a nil parent).",
 "C12": " Also decided (shared with C01): the duration reader's sign step and the anyURI reader's rejection conditions. every decoder of a non-functional property numbers its elements 0..n-1 in document order; the only admission test for an IRI-valued member is the anyURI reader's.",
 "C13": " When a predicate body is not of a listed statement form its denotation is read off the SSA form with the branch facts (set of constants whose comparison with the type name is known true at a `return true`; no other condition may decide the result).",
 "C14": " Also decided: Apply reaches the delegate only where the predicate returned (true, nil); the constructors store their arguments unchanged. When a resolver body is not of the listed statement forms the dispatch relation and the sentinel discipline are read off the SSA form with the branch facts. The @context key tested is exactly the ontology's vocabulary URI; both the http and https spelling are registered.",
 "C16": " Also decided: the keys an Update deletes are keys of the idx'th raw value of the activity's object whose value is null, the raw map being the decoded request body handed on unchanged; the Tombstone is built only from the stored value. The sentinel errors of the wrapped callbacks reach PostOutboxScheme unchanged.",
 "C17": " Also decided: 'nothing owned' is answered only at the depth limit or after every value was fetched and searched; no mutator is reachable from InboxForwarding. values embedded in inReplyTo / object / target / tag are searched with their ids.",
 "C18": " Also decided: whole-element overwrites through the element pointer are tracked; helper methods are interpreted at their call sites.",
 "C19": " Also decided: the failure drain stops only when the channel is known empty.",
 "C20": " Also decided: each of the three headers is set on every path; the recursive scrub's guards admit every vocabulary type.",
 "C04": " Also decided: every refusal of the verification of the stored Follow is feasible (no dead step); on the delivery path of the automatic Accept the remote resolution of recipients is unconditional.",
 "C09": " Also decided: no function on a path between Lock and Unlock writes through the *url.URL used as the key.",
 "C15": " Also decided: no variable carries state from one lap of an emission loop to the next unreset; allExtendsAreIn answers 'all parents converted' only after all parents were looked at; the closure loops of convert are total.",
}
ADD_TECH = {
 "C01": " + SSA lap analysis of range loops + value-flow provenance of @context + reader/writer orientation agreement",
 "C02": " + lap-must-pass-through analysis + slice write/alias summaries",
 "C10": " + gate facts on the id property's IRI predicate",
 "C13": " + SSA/must-facts reading of predicate denotations as fallback",
 "C14": " + SSA/must-facts reading of the dispatch relation and sentinel discipline (fallback for unlisted statement forms)",
 "C16": " + provenance walk of the raw request map across calls",
 "C19": " + loop-exit condition classification on the error channel",
}

def main():
    checks = []
    for pid in ALL:
        if pid not in CLAIMED:
            continue
        cat, tech, text, note, ref = CLAIMED[pid]
        checks.append({
            "property_id": pid,
            "quick_cmd": "./run.sh %s quick" % pid,
            "thorough_cmd": "./run.sh %s thorough" % pid,
            "evidence_file": "/verif/evidence/%s.json" % pid,
            "replay_cmd_template": "./run.sh %s --explain {path}" % pid,
            "engine": "verifchk",
            "level_claimed": {"category": cat, "text": text + ADD_TEXT.get(pid, ""), "design_ref": ref + (" and §10" if pid in ADD_TEXT else "")},
            "level_note": note,
            "technique": "static analysis: " + tech + ADD_TECH.get(pid, ""),
        })
    na = [{"property_id": p, "reason": NOT_YET.get(p, NA_REASON)} for p in ALL if p not in CLAIMED]
    m = {
        "version": 1,
        "setup_cmd": "./setup.sh",
        "hooks": {
            "guard": "verif",
            "enable": "none needed: every check is a static analysis of /repo's source; no instrumentation is compiled into go-fed/activity (the thorough tier additionally loads the tree with -tags verif to show the tag hides nothing)",
            "baseline_off_cmd": "/verif/tools/baseline.sh /repo",
            "source_commits": [],
            "add_only": True,
        },
        "engines": [{
            "name": "verifchk", "path": "/verif/checker",
            "serves_properties": sorted(CLAIMED),
            "kind_free_text": "repository-specific static analyser (go/packages + go/types + go/cfg + go/ssa from x/tools v0.29.0): lock typestate, must-facts gate dataflow, value flow, generated-code table extraction against an ontology oracle, nil-guard, compiler bounds-check proofs, map-order lint",
        }],
        "checks": checks,
        "not_applicable": na,
        "notes": "Technique family: static analysis only. Fix commits in /repo are unguarded 'fix:' commits listed in known_findings.txt; no hook commits exist.",
    }
    json.dump(m, open(os.path.join(HERE, "MANIFEST.json"), "w"), indent=1)
    print("wrote MANIFEST.json: %d checks, %d not_applicable" % (len(checks), len(na)))
    try:
        import jsonschema
        jsonschema.validate(m, json.load(open("/root/.vp/MANIFEST.schema.json")))
        print("manifest validates")
        sch = json.load(open("/root/.vp/EVIDENCE.schema.json"))
        for c in checks:
            p = c["evidence_file"]
            if os.path.exists(p):
                jsonschema.validate(json.load(open(p)), sch)
        print("evidence files validate")
    except ImportError:
        print("(jsonschema not importable; run with python3-vt to validate)")

main()
