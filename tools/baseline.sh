#!/bin/bash
# Runs /repo's pinned test suite (guard off: the verification hooks need none)
# and compares with the stable-pass list of /root/.vp/BASELINE.json.
# usage: tools/baseline.sh [repo-dir]
REPO=${1:-/repo}
export GOFLAGS="-mod=mod -trimpath" GOPROXY=off GOSUMDB=off GOTOOLCHAIN=local GOWORK=off
OUT=$(mktemp)
(cd "$REPO" && go test -json -vet=off -count=1 -timeout 25m ./... > "$OUT" 2>/dev/null)
python3 - "$OUT" <<'PY'
import json,sys
passed=set(); failed=set()
for l in open(sys.argv[1]):
    try: e=json.loads(l)
    except Exception: continue
    if e.get('Test') and e.get('Action') in('pass','fail'):
        (passed if e['Action']=='pass' else failed).add(e['Package']+'::'+e['Test'])
try:
    base=set(json.load(open('/root/.vp/BASELINE.json'))['stable_pass'])
except Exception:
    base=set()
missing=sorted(base-passed)
print(f"passed={len(passed)} failed={len(failed)} baseline={len(base)} baseline_not_passing={len(missing)}")
for m in missing[:20]: print("  NOT PASSING:",m)
sys.exit(1 if missing else 0)
PY
rc=$?
rm -f "$OUT"
exit $rc
