#!/usr/bin/env python3
"""Regenerates the machine-derived tables of DESIGN.md between
<!-- BEGIN:<name> --> and <!-- END:<name> --> markers:
  status   per-property rules / obligations / known findings / wall time (from evidence/*.json)
  seeds    every seeded change with what it needs to manifest and which checks report it (seeded/*/meta.json)
  refs     the refactoring corpus (refactors/*/meta.json)
"""
import json, os, re, glob
V = os.path.dirname(os.path.dirname(os.path.abspath(__file__)))


def status():
    rows = ["| ID | Rules | Obligations | Known findings | Wall (s) |", "|----|-------|-------------|----------------|----------|"]
    for i in range(1, 21):
        p = os.path.join(V, "evidence", "C%02d.json" % i)
        if not os.path.exists(p):
            continue
        e = json.load(open(p))
        c = e["coverage"]
        rules = sorted(c.get("rules", {}).keys(), key=lambda r: [int(x) if x.isdigit() else x for x in re.findall(r"\d+|\D+", r)])
        rows.append("| C%02d | %s | %d | %d | %.0f |" % (i, ", ".join(r.split("-", 1)[1] for r in rules), c.get("obligations", 0), c.get("known_findings", 0), e.get("wall_s", 0)))
    return "\n".join(rows)


def first_para(readme):
    try:
        t = open(readme).read().split("\n")
    except Exception:
        return ""
    t = [l for l in t if l.strip() and not l.startswith(("pkgdir:", "kind:", "#"))]
    s = " ".join(t)[:230]
    return s.replace("|", "/")


def seeds():
    rows = ["| Seed | Change (from the sub-agent's note) | Reported by |", "|------|-----------|-------------|"]
    for d in sorted(os.listdir(os.path.join(V, "seeded")), key=lambda s: (s.split("-")[0], int(s.split("-")[1]))):
        mp = os.path.join(V, "seeded", d, "meta.json")
        if not os.path.exists(mp):
            continue
        m = json.load(open(mp))
        det = m.get("detected_by", [])
        exp = m.get("expect", {})
        own = m.get("breaks", d.split("-")[0])
        parts = []
        for c in ([own] if own in det else []) + [c for c in det if c != own]:
            parts.append(exp.get(c, c).replace("rule=", "").replace(" func=", " ") if exp.get(c) else c)
        rep = "; ".join(parts[:3]) if parts else "**not reported** (see §10.4)"
        rows.append("| %s | %s | %s |" % (d, first_para(os.path.join(V, "seeded", d, "README.md")), rep))
    return "\n".join(rows)


def refs():
    rows = ["| Refactoring | Kind | Silent under |", "|-------------|------|--------------|"]
    for d in sorted(os.listdir(os.path.join(V, "refactors"))):
        mp = os.path.join(V, "refactors", d, "meta.json")
        if not os.path.exists(mp):
            continue
        m = json.load(open(mp))
        kind = ""
        try:
            kind = open(os.path.join(V, "refactors", d, "README.md")).readline().strip().replace("kind:", "").strip()[:110]
        except Exception:
            pass
        rows.append("| %s | %s | %d checks |" % (d, kind.replace("|", "/"), len(m.get("checks_silent", []))))
    return "\n".join(rows)


def main():
    p = os.path.join(V, "DESIGN.md")
    s = open(p).read()
    for name, fn in (("status", status), ("seeds", seeds), ("refs", refs)):
        b, e = "<!-- BEGIN:%s -->" % name, "<!-- END:%s -->" % name
        if b in s and e in s:
            i, j = s.index(b) + len(b), s.index(e)
            s = s[:i] + "\n" + fn() + "\n" + s[j:]
    open(p, "w").write(s)


main()
