// Probe for DESIGN §4 C15-R1: classify every range-over-map in astool.
package main

import (
	"fmt"
	"go/ast"
	"go/token"
	"go/types"
	"os"
	"sort"
	"strings"

	"golang.org/x/tools/go/packages"
)

type site struct {
	pos, fn, expr, class, why string
}

func main() {
	cfg := &packages.Config{Mode: packages.LoadSyntax, Dir: "/repo"}
	pkgs, err := packages.Load(cfg, os.Args[1:]...)
	if err != nil {
		panic(err)
	}
	var out []site
	for _, p := range pkgs {
		info := p.TypesInfo
		for _, f := range p.Syntax {
			for _, d := range f.Decls {
				fd, ok := d.(*ast.FuncDecl)
				if !ok || fd.Body == nil {
					continue
				}
				// collect slices sorted in this function: objects passed (possibly via conversion) to sort.*
				sorted := map[types.Object]bool{}
				ast.Inspect(fd.Body, func(n ast.Node) bool {
					c, ok := n.(*ast.CallExpr)
					if !ok {
						return true
					}
					sel, ok := c.Fun.(*ast.SelectorExpr)
					if !ok {
						return true
					}
					if id, ok := sel.X.(*ast.Ident); ok {
						if pn, ok := info.Uses[id].(*types.PkgName); ok && pn.Imported().Path() == "sort" && len(c.Args) > 0 {
							a := c.Args[0]
							for {
								if cc, ok := a.(*ast.CallExpr); ok && len(cc.Args) == 1 {
									a = cc.Args[0] // conversion wrapper
									continue
								}
								break
							}
							if id, ok := a.(*ast.Ident); ok {
								sorted[info.ObjectOf(id)] = true
							}
						}
					}
					return true
				})
				ast.Inspect(fd.Body, func(n ast.Node) bool {
					rs, ok := n.(*ast.RangeStmt)
					if !ok {
						return true
					}
					t := info.TypeOf(rs.X)
					if t == nil {
						return true
					}
					if _, ok := t.Underlying().(*types.Map); !ok {
						return true
					}
					pos := p.Fset.Position(rs.Pos())
					s := site{pos: fmt.Sprintf("%s:%d", strings.TrimPrefix(pos.Filename, "/repo/"), pos.Line), fn: fd.Name.Name, expr: types.ExprString(rs.X)}
					// classify body
					commutative := true
					var appended []types.Object
					var why []string
					var visit func(st ast.Stmt)
					visit = func(st ast.Stmt) {
						switch x := st.(type) {
						case *ast.AssignStmt:
							for i, l := range x.Lhs {
								switch lx := l.(type) {
								case *ast.IndexExpr:
									if _, ok := info.TypeOf(lx.X).Underlying().(*types.Map); ok {
										continue // map insert
									}
									commutative = false
									why = append(why, "index-assign non-map")
								case *ast.Ident:
									// append to slice?
									if i < len(x.Rhs) {
										if c, ok := x.Rhs[i].(*ast.CallExpr); ok {
											if fid, ok := c.Fun.(*ast.Ident); ok && fid.Name == "append" {
												appended = append(appended, info.ObjectOf(lx))
												continue
											}
										}
									}
									if x.Tok == token.DEFINE {
										continue // local temp
									}
									commutative = false
									why = append(why, "assign "+lx.Name)
								default:
									commutative = false
									why = append(why, fmt.Sprintf("assign %T", l))
								}
							}
						case *ast.ExprStmt:
							if c, ok := x.X.(*ast.CallExpr); ok {
								if fid, ok := c.Fun.(*ast.Ident); ok && fid.Name == "delete" {
									return
								}
							}
							commutative = false
							why = append(why, "call "+types.ExprString(x.X))
						case *ast.IfStmt:
							if x.Init != nil {
								visit(x.Init)
							}
							for _, s := range x.Body.List {
								visit(s)
							}
							if x.Else != nil {
								visit(x.Else)
							}
						case *ast.BlockStmt:
							for _, s := range x.List {
								visit(s)
							}
						case *ast.ForStmt:
							for _, s := range x.Body.List {
								visit(s)
							}
						case *ast.RangeStmt:
							for _, s := range x.Body.List {
								visit(s)
							}
						case *ast.BranchStmt, *ast.IncDecStmt, *ast.DeclStmt:
						case *ast.ReturnStmt:
							why = append(why, "return-in-loop")
						default:
							commutative = false
							why = append(why, fmt.Sprintf("%T", st))
						}
					}
					for _, st := range rs.Body.List {
						visit(st)
					}
					allSorted := len(appended) > 0
					for _, o := range appended {
						if !sorted[o] {
							allSorted = false
						}
					}
					switch {
					case commutative && len(appended) == 0:
						s.class = "a-commutative"
					case commutative && allSorted:
						s.class = "b-sorted-after"
					default:
						s.class = "c-needs-review"
						var names []string
						for _, o := range appended {
							if !sorted[o] {
								names = append(names, "unsorted:"+o.Name())
							}
						}
						s.why = strings.Join(append(names, why...), "; ")
					}
					out = append(out, s)
					return true
				})
			}
		}
	}
	sort.Slice(out, func(i, j int) bool { return out[i].class+out[i].pos < out[j].class+out[j].pos })
	cnt := map[string]int{}
	for _, s := range out {
		cnt[s.class]++
		if s.class == "c-needs-review" {
			fmt.Printf("%-16s %-34s %-28s %-24s %s\n", s.class, s.pos, s.fn, s.expr, s.why)
		}
	}
	fmt.Println(len(pkgs), "packages", len(out), "map ranges", cnt)
}
