package main

import (
	"fmt"
	"go/ast"
	"go/types"
	"os"
	"sort"

	"golang.org/x/tools/go/packages"
)

func main() {
	cfg := &packages.Config{Mode: packages.LoadSyntax, Dir: "/repo"}
	pkgs, err := packages.Load(cfg, os.Args[1:]...)
	if err != nil {
		panic(err)
	}
	var out []string
	for _, p := range pkgs {
		for _, f := range p.Syntax {
			ast.Inspect(f, func(n ast.Node) bool {
				rs, ok := n.(*ast.RangeStmt)
				if !ok {
					return true
				}
				t := p.TypesInfo.TypeOf(rs.X)
				if t == nil {
					return true
				}
				if _, ok := t.Underlying().(*types.Map); ok {
					pos := p.Fset.Position(rs.Pos())
					out = append(out, fmt.Sprintf("%s:%d %s", pos.Filename, pos.Line, types.ExprString(rs.X)))
				}
				return true
			})
		}
	}
	sort.Strings(out)
	for _, o := range out {
		fmt.Println(o)
	}
	fmt.Println(len(pkgs), "packages", len(out), "map ranges")
}
