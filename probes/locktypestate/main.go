package main

import (
	"fmt"
	"go/ast"
	"go/token"
	"go/types"
	"os"
	"sort"
	"strings"

	"golang.org/x/tools/go/cfg"
	"golang.org/x/tools/go/packages"
)

type state struct {
	pending  map[string]types.Object // key -> err var (nil obj = discarded)
	must     map[string]bool
	may      map[string]bool
	oblig    map[string]bool
	deferred map[string]bool
}

func newState() *state {
	return &state{map[string]types.Object{}, map[string]bool{}, map[string]bool{}, map[string]bool{}, map[string]bool{}}
}
func (s *state) clone() *state {
	n := newState()
	for k, v := range s.pending {
		n.pending[k] = v
	}
	for k := range s.must {
		n.must[k] = true
	}
	for k := range s.may {
		n.may[k] = true
	}
	for k := range s.oblig {
		n.oblig[k] = true
	}
	for k := range s.deferred {
		n.deferred[k] = true
	}
	return n
}
func keys(m map[string]bool) string {
	var ks []string
	for k := range m {
		ks = append(ks, k)
	}
	sort.Strings(ks)
	return strings.Join(ks, ",")
}
func (s *state) String() string {
	var pk []string
	for k := range s.pending {
		pk = append(pk, k)
	}
	sort.Strings(pk)
	return fmt.Sprintf("P[%s] must[%s] may[%s] ob[%s] df[%s]", strings.Join(pk, ","), keys(s.must), keys(s.may), keys(s.oblig), keys(s.deferred))
}
func join(a, b *state) *state {
	if a == nil {
		return b.clone()
	}
	n := newState()
	for k, v := range a.pending {
		if w, ok := b.pending[k]; ok && w == v {
			n.pending[k] = v
		} else {
			n.may[k] = true
			n.oblig[k] = true
		}
	}
	for k := range b.pending {
		if _, ok := a.pending[k]; !ok {
			n.may[k] = true
			n.oblig[k] = true
		}
	}
	for k := range a.must {
		if b.must[k] {
			n.must[k] = true
		}
	}
	for _, s := range []*state{a, b} {
		for k := range s.may {
			n.may[k] = true
		}
		for k := range s.oblig {
			n.oblig[k] = true
		}
		for k := range s.deferred {
			n.deferred[k] = true
		}
	}
	return n
}

var info *types.Info
var fset *token.FileSet
var dbIface *types.Named

type report struct{ rule, unit, key, pos string }

var reports = map[report]bool{}
var nLock, nUnlock, nDB, nUnits int

func dbMethod(call *ast.CallExpr) string {
	sel, ok := call.Fun.(*ast.SelectorExpr)
	if !ok {
		return ""
	}
	s := info.Selections[sel]
	if s == nil {
		return ""
	}
	recv := s.Recv()
	if n, ok := recv.(*types.Named); ok && n == dbIface {
		return sel.Sel.Name
	}
	return ""
}

func canon(e ast.Expr) string {
	switch x := e.(type) {
	case *ast.Ident:
		if o := info.ObjectOf(x); o != nil {
			return fmt.Sprintf("%s@%d", x.Name, o.Pos())
		}
		return x.Name
	case *ast.SelectorExpr:
		return canon(x.X) + "." + x.Sel.Name
	case *ast.CallExpr:
		var as []string
		for _, a := range x.Args {
			as = append(as, canon(a))
		}
		return canon(x.Fun) + "(" + strings.Join(as, ",") + ")"
	case *ast.ParenExpr:
		return canon(x.X)
	case *ast.StarExpr:
		return "*" + canon(x.X)
	case *ast.IndexExpr:
		return canon(x.X) + "[" + canon(x.Index) + "]"
	}
	return fmt.Sprintf("?%T", e)
}

func pretty(k string) string {
	// strip @pos
	var b strings.Builder
	skip := false
	for _, r := range k {
		if r == '@' {
			skip = true
			continue
		}
		if skip && r >= '0' && r <= '9' {
			continue
		}
		skip = false
		b.WriteRune(r)
	}
	return b.String()
}

type unit struct {
	name string
	body *ast.BlockStmt
}

func analyse(u unit) {
	g := cfg.New(u.body, func(*ast.CallExpr) bool { return true })
	has := false
	ast.Inspect(u.body, func(n ast.Node) bool {
		if _, ok := n.(*ast.FuncLit); ok {
			return false
		}
		if c, ok := n.(*ast.CallExpr); ok && dbMethod(c) != "" {
			has = true
		}
		return true
	})
	if !has {
		return
	}
	nUnits++
	in := make([]*state, len(g.Blocks))
	in[0] = newState()
	work := []*cfg.Block{g.Blocks[0]}
	rep := func(rule, key string, pos token.Pos) {
		reports[report{rule, u.name, pretty(key), fset.Position(pos).String()}] = true
	}
	count := map[token.Pos]bool{}
	for len(work) > 0 {
		b := work[0]
		work = work[1:]
		s := in[b.Index].clone()
		var condFacts func(succ int, st *state)
		for ni, n := range b.Nodes {
			isLast := ni == len(b.Nodes)-1
			// process calls within node
			var lhsErr types.Object
			discard := false
			switch st := n.(type) {
			case *ast.AssignStmt:
				if len(st.Rhs) == 1 {
					if c, ok := st.Rhs[0].(*ast.CallExpr); ok && dbMethod(c) == "Lock" && len(st.Lhs) == 1 {
						if id, ok := st.Lhs[0].(*ast.Ident); ok {
							lhsErr = info.ObjectOf(id)
						}
					}
				}
			case *ast.ExprStmt:
				if c, ok := st.X.(*ast.CallExpr); ok && dbMethod(c) == "Lock" {
					discard = true
				}
			}
			isDefer := false
			if _, ok := n.(*ast.DeferStmt); ok {
				isDefer = true
			}
			ast.Inspect(n, func(m ast.Node) bool {
				if _, ok := m.(*ast.FuncLit); ok {
					return false
				}
				c, ok := m.(*ast.CallExpr)
				if !ok {
					return true
				}
				name := dbMethod(c)
				if name == "" {
					return true
				}
				switch name {
				case "Lock":
					if !count[c.Pos()] {
						count[c.Pos()] = true
						nLock++
					}
					k := canon(c.Args[1])
					if s.may[k] || s.pending[k] != nil {
						rep("R2-reacquire", k, c.Pos())
					} else if len(s.may) > 0 {
						rep("C08-R3-nested", k+" while "+keys(s.may), c.Pos())
					}
					if discard {
						rep("R1-lock-error-ignored", k, c.Pos())
						s.must[k], s.may[k], s.oblig[k] = true, true, true
					} else if lhsErr != nil {
						s.pending[k] = lhsErr
					} else {
						rep("R1-lock-result-untracked", k, c.Pos())
						s.must[k], s.may[k], s.oblig[k] = true, true, true
					}
				case "Unlock":
					if !count[c.Pos()] {
						count[c.Pos()] = true
						nUnlock++
					}
					k := canon(c.Args[1])
					if isDefer {
						if !s.may[k] {
							rep("R3-defer-unlock-not-held", k, c.Pos())
						}
						delete(s.oblig, k)
						s.deferred[k] = true
					} else {
						if _, p := s.pending[k]; p {
							rep("R1-unlock-while-lock-error-untested", k, c.Pos())
							delete(s.pending, k)
						} else if !s.may[k] {
							rep("R3-unlock-not-held", k, c.Pos())
						}
						delete(s.must, k)
						delete(s.may, k)
						delete(s.oblig, k)
						delete(s.deferred, k)
					}
				case "NewID":
				default:
					if !count[c.Pos()] {
						count[c.Pos()] = true
						nDB++
					}
					if len(s.must) == 0 {
						rep("R5-db-without-lock", name, c.Pos())
					}
				}
				return true
			})
			if r, ok := n.(*ast.ReturnStmt); ok {
				if len(s.oblig) > 0 {
					rep("R4-leak-at-return", keys(s.oblig), r.Pos())
				}
				if len(s.pending) > 0 {
					rep("R1-return-with-untested-lock", "", r.Pos())
				}
			}
			// condition refinement
			if isLast && len(b.Succs) == 2 {
				if be, ok := n.(*ast.BinaryExpr); ok && (be.Op == token.NEQ || be.Op == token.EQL) {
					if id, ok := be.X.(*ast.Ident); ok {
						if y, ok := be.Y.(*ast.Ident); ok && y.Name == "nil" {
							obj := info.ObjectOf(id)
							op := be.Op
							condFacts = func(succ int, st *state) {
								for k, eo := range st.pending {
									if eo == obj {
										failed := (op == token.NEQ && succ == 0) || (op == token.EQL && succ == 1)
										delete(st.pending, k)
										if !failed {
											st.must[k], st.may[k], st.oblig[k] = true, true, true
										}
									}
								}
							}
						}
					}
				}
			}
		}
		if len(b.Succs) == 0 {
			// fallthrough end of function without return stmt
			if len(b.Nodes) == 0 || func() bool { _, ok := b.Nodes[len(b.Nodes)-1].(*ast.ReturnStmt); return !ok }() {
				if len(s.oblig) > 0 && b.Live {
					rep("R4-leak-at-end", keys(s.oblig), u.body.End())
				}
			}
		}
		for si, succ := range b.Succs {
			out := s.clone()
			if condFacts != nil {
				condFacts(si, out)
			}
			// any pending whose errvar untested stays pending
			nj := join(in[succ.Index], out)
			if in[succ.Index] == nil || nj.String() != in[succ.Index].String() {
				in[succ.Index] = nj
				work = append(work, succ)
			}
		}
	}
}

func main() {
	cfgp := &packages.Config{Mode: packages.LoadSyntax, Dir: os.Getenv("REPO")}
	if cfgp.Dir == "" {
		cfgp.Dir = "/repo"
	}
	pkgs, err := packages.Load(cfgp, "github.com/go-fed/activity/pub")
	if err != nil || len(pkgs) != 1 || len(pkgs[0].Errors) > 0 {
		panic(fmt.Sprint(err, pkgs[0].Errors))
	}
	p := pkgs[0]
	info = p.TypesInfo
	fset = p.Fset
	dbIface = p.Types.Scope().Lookup("Database").Type().(*types.Named)
	for _, f := range p.Syntax {
		if strings.HasSuffix(fset.Position(f.Pos()).Filename, "_test.go") {
			continue
		}
		for _, d := range f.Decls {
			fd, ok := d.(*ast.FuncDecl)
			if !ok || fd.Body == nil {
				continue
			}
			name := fd.Name.Name
			if fd.Recv != nil {
				name = types.ExprString(fd.Recv.List[0].Type) + "." + name
			}
			analyse(unit{name, fd.Body})
			i := 0
			ast.Inspect(fd.Body, func(n ast.Node) bool {
				if fl, ok := n.(*ast.FuncLit); ok {
					i++
					analyse(unit{fmt.Sprintf("%s$%d", name, i), fl.Body})
				}
				return true
			})
		}
	}
	var rs []string
	for r := range reports {
		rs = append(rs, fmt.Sprintf("%-36s %-45s %-30s %s", r.rule, r.unit, r.key, strings.TrimPrefix(r.pos, "/repo/pub/")))
	}
	sort.Strings(rs)
	for _, r := range rs {
		fmt.Println(r)
	}
	fmt.Printf("units=%d lock=%d unlock=%d db=%d reports=%d\n", nUnits, nLock, nUnlock, nDB, len(rs))
}
