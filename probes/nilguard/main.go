package main

import (
	"fmt"
	"go/token"
	"go/types"
	"sort"
	"strings"

	"golang.org/x/tools/go/packages"
	"golang.org/x/tools/go/ssa"
	"golang.org/x/tools/go/ssa/ssautil"
)

var prog *ssa.Program

func isVocabIface(t types.Type) bool {
	n, ok := t.(*types.Named)
	if !ok || n.Obj().Pkg() == nil {
		return false
	}
	if _, ok := n.Underlying().(*types.Interface); !ok {
		return false
	}
	return strings.HasSuffix(n.Obj().Pkg().Path(), "streams/vocab")
}

// nilable source: call to method/func named Get* returning vocab interface
func nilableCall(v ssa.Value) (string, bool) {
	c, ok := v.(*ssa.Call)
	if !ok {
		return "", false
	}
	cc := c.Common()
	var name string
	if cc.IsInvoke() {
		name = cc.Method.Name()
	} else if f := cc.StaticCallee(); f != nil {
		name = f.Name()
	} else {
		return "", false
	}
	if !strings.HasPrefix(name, "Get") {
		return "", false
	}
	if !isVocabIface(c.Type()) {
		return "", false
	}
	return name, true
}

// blocks where v is known non-nil
func nonNilBlocks(fn *ssa.Function, v ssa.Value) map[*ssa.BasicBlock]bool {
	res := map[*ssa.BasicBlock]bool{}
	for _, b := range fn.Blocks {
		if len(b.Instrs) == 0 {
			continue
		}
		ifi, ok := b.Instrs[len(b.Instrs)-1].(*ssa.If)
		if !ok {
			continue
		}
		bo, ok := ifi.Cond.(*ssa.BinOp)
		if !ok || (bo.Op != token.EQL && bo.Op != token.NEQ) {
			continue
		}
		var other ssa.Value
		if bo.X == v {
			other = bo.Y
		} else if bo.Y == v {
			other = bo.X
		} else {
			continue
		}
		isNil := false
		if c, ok := other.(*ssa.Const); ok && c.IsNil() {
			isNil = true
		}
		// comparing against End() result: call to method End -> always nil by generated code
		if c, ok := other.(*ssa.Call); ok && c.Common().IsInvoke() && c.Common().Method.Name() == "End" {
			isNil = true
		}
		if !isNil {
			continue
		}
		succ := b.Succs[0] // true
		if bo.Op == token.EQL {
			succ = b.Succs[1]
		}
		if len(succ.Preds) == 1 {
			res[succ] = true
		}
	}
	return res
}

func edgeGuarded(pred, b *ssa.BasicBlock, v ssa.Value) bool {
	if len(pred.Instrs) == 0 {
		return false
	}
	ifi, ok := pred.Instrs[len(pred.Instrs)-1].(*ssa.If)
	if !ok {
		return false
	}
	bo, ok := ifi.Cond.(*ssa.BinOp)
	if !ok || (bo.Op != token.EQL && bo.Op != token.NEQ) {
		return false
	}
	var other ssa.Value
	if bo.X == v {
		other = bo.Y
	} else if bo.Y == v {
		other = bo.X
	} else {
		return false
	}
	c, ok := other.(*ssa.Const)
	if !ok || !c.IsNil() {
		return false
	}
	succ := pred.Succs[0]
	if bo.Op == token.EQL {
		succ = pred.Succs[1]
	}
	return succ == b
}

func guarded(fn *ssa.Function, v ssa.Value, useBlock *ssa.BasicBlock) bool {
	for s := range nonNilBlocks(fn, v) {
		if s.Dominates(useBlock) {
			return true
		}
	}
	return false
}

// derefParams: for pub functions, which params are used as invoke receiver unguarded
var derefMemo = map[*ssa.Function]map[int]bool{}

func derefParams(fn *ssa.Function) map[int]bool {
	if m, ok := derefMemo[fn]; ok {
		return m
	}
	m := map[int]bool{}
	derefMemo[fn] = m
	if fn.Blocks == nil {
		return m
	}
	for i, p := range fn.Params {
		if _, ok := p.Type().Underlying().(*types.Interface); !ok {
			continue
		}
		for _, ref := range *p.Referrers() {
			if c, ok := ref.(ssa.CallInstruction); ok {
				cc := c.Common()
				if cc.IsInvoke() && cc.Value == p && !guarded(fn, p, ref.Block()) {
					m[i] = true
				}
				if !cc.IsInvoke() {
					if cal := cc.StaticCallee(); cal != nil && cal.Pkg != nil && cal.Pkg.Pkg.Path() == "github.com/go-fed/activity/pub" {
						for ai, a := range cc.Args {
							if a == p && derefParams(cal)[ai] && !guarded(fn, p, ref.Block()) {
								m[i] = true
							}
						}
					}
				}
			}
			// conversion to another interface then used
			if ci, ok := ref.(*ssa.ChangeInterface); ok {
				for _, r2 := range *ci.Referrers() {
					if c, ok := r2.(ssa.CallInstruction); ok && c.Common().IsInvoke() && c.Common().Value == ci && !guarded(fn, p, r2.Block()) {
						m[i] = true
					}
				}
			}
		}
	}
	return m
}

type finding struct{ fn, src, use, pos string }

func main() {
	cfg := &packages.Config{Mode: packages.LoadAllSyntax, Dir: "/repo"}
	pkgs, err := packages.Load(cfg, "github.com/go-fed/activity/pub")
	if err != nil {
		panic(err)
	}
	var spkgs []*ssa.Package
	prog, spkgs = ssautil.AllPackages(pkgs, 0)
	prog.Build()
	pub := spkgs[0]
	var fns []*ssa.Function
	for fn := range ssautil.AllFunctions(prog) {
		if fn.Pkg == pub && fn.Blocks != nil && !strings.HasSuffix(prog.Fset.Position(fn.Pos()).Filename, "_test.go") && fn.Synthetic == "" {
			fns = append(fns, fn)
		}
	}
	var out []string
	nsrc := 0
	for _, fn := range fns {
		// candidate values: nilable calls and phis over them
		cand := map[ssa.Value]string{}
		for _, b := range fn.Blocks {
			for _, ins := range b.Instrs {
				if v, ok := ins.(ssa.Value); ok {
					if name, ok := nilableCall(v); ok {
						cand[v] = name
						nsrc++
					}
				}
			}
		}
		// phis
		changed := true
		for changed {
			changed = false
			for _, b := range fn.Blocks {
				for _, ins := range b.Instrs {
					phi, ok := ins.(*ssa.Phi)
					if !ok {
						break
					}
					if _, done := cand[phi]; done {
						continue
					}
					for i, e := range phi.Edges {
						if src, ok := cand[e]; ok {
							pred := b.Preds[i]
							if !guarded(fn, e, pred) && !edgeGuarded(pred, b, e) {
								cand[phi] = "phi(" + src + ")"
								changed = true
								break
							}
						}
					}
				}
			}
		}
		for v, src := range cand {
			refs := v.Referrers()
			if refs == nil {
				continue
			}
			var walk func(val ssa.Value, refs []ssa.Instruction)
			walk = func(val ssa.Value, refs []ssa.Instruction) {
				for _, ref := range refs {
					switch r := ref.(type) {
					case ssa.CallInstruction:
						cc := r.Common()
						if cc.IsInvoke() && cc.Value == val {
							if !guarded(fn, v, ref.Block()) {
								out = append(out, fmt.Sprintf("%-60s %-40s .%s()  %s", fn.String(), src, cc.Method.Name(), strings.TrimPrefix(prog.Fset.Position(ref.Pos()).String(), "/repo/pub/")))
							}
						} else if cal := cc.StaticCallee(); cal != nil && cal.Pkg == pub {
							for ai, a := range cc.Args {
								if a == val && derefParams(cal)[ai] && !guarded(fn, v, ref.Block()) {
									out = append(out, fmt.Sprintf("%-60s %-40s arg->%s  %s", fn.String(), src, cal.Name(), strings.TrimPrefix(prog.Fset.Position(ref.Pos()).String(), "/repo/pub/")))
								}
							}
						}
					case *ssa.ChangeInterface:
						walk(r, *r.Referrers())
					case *ssa.MakeInterface:
						walk(r, *r.Referrers())
					}
				}
			}
			walk(v, *refs)
		}
	}
	sort.Strings(out)
	for _, o := range out {
		fmt.Println(o)
	}
	fmt.Println("functions", len(fns), "nilable sources", nsrc, "findings", len(out))
}
