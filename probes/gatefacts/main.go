// Probe for DESIGN §3 "Facts" / §4 C07: forward must-facts over SSA blocks and
// the gate rule on the five entry points.
package main

import (
	"fmt"
	"go/token"
	"go/types"
	"sort"
	"strings"

	"golang.org/x/tools/go/packages"
	"golang.org/x/tools/go/ssa"
	"golang.org/x/tools/go/ssa/ssautil"
)

type fk int

const (
	TRUE fk = iota
	FALSE
	NIL
	NONNIL
)

type facts map[ssa.Value]fk

func (f facts) clone() facts {
	n := facts{}
	for k, v := range f {
		n[k] = v
	}
	return n
}
func meet(a, b facts) facts {
	n := facts{}
	for k, v := range a {
		if w, ok := b[k]; ok && w == v {
			n[k] = v
		}
	}
	return n
}
func eq(a, b facts) bool {
	if len(a) != len(b) {
		return false
	}
	for k, v := range a {
		if w, ok := b[k]; !ok || w != v {
			return false
		}
	}
	return true
}

func assume(f facts, c ssa.Value, b bool) {
	switch x := c.(type) {
	case *ssa.UnOp:
		if x.Op == token.NOT {
			assume(f, x.X, !b)
			return
		}
	case *ssa.BinOp:
		if x.Op == token.EQL || x.Op == token.NEQ {
			var other ssa.Value
			if k, ok := x.Y.(*ssa.Const); ok && k.IsNil() {
				other = x.X
			} else if k, ok := x.X.(*ssa.Const); ok && k.IsNil() {
				other = x.Y
			}
			if other != nil {
				isNil := (x.Op == token.EQL) == b
				if isNil {
					f[other] = NIL
				} else {
					f[other] = NONNIL
				}
				return
			}
		}
	}
	if b {
		f[c] = TRUE
	} else {
		f[c] = FALSE
	}
}

func compute(fn *ssa.Function) map[*ssa.BasicBlock]facts {
	in := map[*ssa.BasicBlock]facts{fn.Blocks[0]: {}}
	work := []*ssa.BasicBlock{fn.Blocks[0]}
	for len(work) > 0 {
		b := work[0]
		work = work[1:]
		for si, s := range b.Succs {
			out := in[b].clone()
			if ifi, ok := b.Instrs[len(b.Instrs)-1].(*ssa.If); ok {
				assume(out, ifi.Cond, si == 0)
			}
			if old, ok := in[s]; ok {
				m := meet(old, out)
				if !eq(m, old) {
					in[s] = m
					work = append(work, s)
				}
			} else {
				in[s] = out
				work = append(work, s)
			}
		}
	}
	return in
}

func main() {
	cfg := &packages.Config{Mode: packages.LoadAllSyntax, Dir: "/repo"}
	pkgs, err := packages.Load(cfg, "github.com/go-fed/activity/pub")
	if err != nil {
		panic(err)
	}
	prog, spkgs := ssautil.AllPackages(pkgs, 0)
	prog.Build()
	pub := spkgs[0]
	T := pub.Type("baseActor")
	var fns []*ssa.Function
	for _, m := range []string{"PostInboxScheme", "PostOutboxScheme", "GetInbox", "GetOutbox"} {
		fns = append(fns, prog.LookupMethod(types.NewPointer(T.Type()), pub.Pkg, m))
	}
	for _, af := range pub.Func("NewActivityStreamsHandlerScheme").AnonFuncs {
		fns = append(fns, af)
	}
	for _, fn := range fns {
		fmt.Println("==", fn.Name(), "blocks", len(fn.Blocks))
		in := compute(fn)
		// gates
		type gate struct {
			name    string
			ok, err ssa.Value
			class   ssa.Value // classifier call value
		}
		var gates []gate
		var classifier ssa.Value
		var flag ssa.Value
		for _, b := range fn.Blocks {
			for _, ins := range b.Instrs {
				switch x := ins.(type) {
				case *ssa.Call:
					cc := x.Common()
					if cc.IsInvoke() && (strings.HasPrefix(cc.Method.Name(), "Authenticate") || cc.Method.Name() == "AuthorizePostInbox") {
						g := gate{name: cc.Method.Name()}
						for _, r := range *x.Referrers() {
							if e, ok := r.(*ssa.Extract); ok {
								switch e.Type().String() {
								case "bool":
									g.ok = e
								case "error":
									g.err = e
								}
							}
						}
						gates = append(gates, g)
					}
					if f := cc.StaticCallee(); f != nil && strings.HasPrefix(f.Name(), "isActivityPub") {
						classifier = x
					}
				case *ssa.UnOp:
					if fa, ok := x.X.(*ssa.FieldAddr); ok && x.Op == token.MUL {
						name := fa.X.Type().Underlying().(*types.Pointer).Elem().Underlying().(*types.Struct).Field(fa.Field).Name()
						if strings.HasPrefix(name, "enable") {
							flag = x
						}
					}
				}
			}
		}
		var lines []string
		for _, b := range fn.Blocks {
			f := in[b]
			for _, ins := range b.Instrs {
				c, ok := ins.(ssa.CallInstruction)
				if !ok {
					continue
				}
				cc := c.Common()
				if !cc.IsInvoke() {
					continue
				}
				recv := cc.Value.Type().String()
				if !strings.Contains(recv, "pub.") && !strings.Contains(recv, "ResponseWriter") {
					continue
				}
				var st []string
				if classifier != nil {
					st = append(st, fmt.Sprintf("AP=%v", f[classifier] == TRUE && has(f, classifier)))
				}
				if flag != nil {
					st = append(st, fmt.Sprintf("flag=%v", has(f, flag) && f[flag] == TRUE))
				}
				for _, g := range gates {
					okv := g.ok != nil && has(f, g.ok) && f[g.ok] == TRUE
					errv := g.err != nil && has(f, g.err) && f[g.err] == NIL
					st = append(st, fmt.Sprintf("%s=%v", g.name, okv && errv))
				}
				lines = append(lines, fmt.Sprintf("  L%-4d %-40s %s", prog.Fset.Position(ins.Pos()).Line, shortT(recv)+"."+cc.Method.Name(), strings.Join(st, " ")))
			}
		}
		sort.Strings(lines)
		for _, l := range lines {
			fmt.Println(l)
		}
	}
}

func has(f facts, v ssa.Value) bool { _, ok := f[v]; return ok }
func shortT(s string) string {
	if i := strings.LastIndex(s, "."); i >= 0 {
		return s[i+1:]
	}
	return s
}
