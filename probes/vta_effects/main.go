package main

import (
	"fmt"
	"go/types"
	"os"
	"sort"
	"strings"
	"time"

	"golang.org/x/tools/go/callgraph"
	"golang.org/x/tools/go/callgraph/cha"
	"golang.org/x/tools/go/callgraph/vta"
	"golang.org/x/tools/go/packages"
	"golang.org/x/tools/go/ssa"
	"golang.org/x/tools/go/ssa/ssautil"
)

var sinkIfaces = map[string]bool{"Database": true, "Transport": true, "CommonBehavior": true, "SocialProtocol": true, "FederatingProtocol": true, "HttpClient": true}

func main() {
	t0 := time.Now()
	cfg := &packages.Config{Mode: packages.LoadAllSyntax, Dir: "/repo"}
	pkgs, err := packages.Load(cfg, "github.com/go-fed/activity/pub")
	if err != nil {
		panic(err)
	}
	prog, spkgs := ssautil.AllPackages(pkgs, ssa.InstantiateGenerics)
	prog.Build()
	fmt.Println("load+ssa", time.Since(t0))
	t0 = time.Now()
	cg := vta.CallGraph(ssautil.AllFunctions(prog), cha.CallGraph(prog))
	fmt.Println("vta", time.Since(t0), len(cg.Nodes))
	pub := spkgs[0]
	// direct sink: function contains invoke on sink iface
	direct := map[*ssa.Function]bool{}
	for fn := range ssautil.AllFunctions(prog) {
		for _, b := range fn.Blocks {
			for _, ins := range b.Instrs {
				if c, ok := ins.(ssa.CallInstruction); ok {
					cc := c.Common()
					if cc.IsInvoke() {
						if n, ok := cc.Value.Type().(*types.Named); ok && n.Obj().Pkg() != nil && n.Obj().Pkg().Path() == "github.com/go-fed/activity/pub" && sinkIfaces[n.Obj().Name()] {
							direct[fn] = true
						}
					}
				}
			}
		}
	}
	// reach
	memo := map[*ssa.Function]int{}
	var reach func(fn *ssa.Function) bool
	reach = func(fn *ssa.Function) bool {
		if v, ok := memo[fn]; ok {
			return v == 1
		}
		memo[fn] = 0
		if direct[fn] {
			memo[fn] = 1
			return true
		}
		n := cg.Nodes[fn]
		if n != nil {
			for _, e := range n.Out {
				if reach(e.Callee.Func) {
					memo[fn] = 1
					return true
				}
			}
		}
		return false
	}
	for _, name := range os.Args[1:] {
		var fn *ssa.Function
		parts := strings.Split(name, ".")
		if len(parts) == 2 {
			T := pub.Type(parts[0])
			fn = prog.LookupMethod(types.NewPointer(T.Type()), pub.Pkg, parts[1])
		} else {
			fn = pub.Func(name)
		}
		fmt.Println("==", fn)
		var lines []string
		for _, b := range fn.Blocks {
			for _, ins := range b.Instrs {
				if c, ok := ins.(ssa.CallInstruction); ok {
					var callees []string
					eff := false
					if n := cg.Nodes[fn]; n != nil {
						for _, e := range n.Out {
							if e.Site == c {
								callees = append(callees, e.Callee.Func.String())
								if reach(e.Callee.Func) {
									eff = true
								}
							}
						}
					}
					if len(callees) > 4 {
						callees = append(callees[:4], fmt.Sprintf("...+%d", len(callees)-4))
					}
					lines = append(lines, fmt.Sprintf("  L%d blk%d %v eff=%v callees=%v", prog.Fset.Position(c.Pos()).Line, b.Index, c.Common().Description(), eff, callees))
				}
			}
		}
		sort.Strings(lines)
		for _, l := range lines {
			fmt.Println(l)
		}
	}
	_ = callgraph.Node{}
}
