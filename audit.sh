#!/bin/bash
# sensitivity audit for one property (thorough tier): see tools/audit.py
cd "$(dirname "$0")"
mkdir -p evidence
exec python3 tools/audit.py -j 8 --json "evidence/audit_$1.json" "$1"
