#!/bin/bash
# thorough tier: the quick rules (static rules are exhaustive already) on the
# default build configuration, then again under alternative build
# configurations (GOARCH=386, a different GOOS, the 'verif' tag) to show no
# build-tagged file hides code from the analysis, then the checker's own
# fixtures and the sensitivity audit for this property.
cd "$(dirname "$0")"
ID=$1
export GOFLAGS=-mod=mod GOPROXY=off GOSUMDB=off GOTOOLCHAIN=local GOWORK=off
rc=0
for cfg in "linux/386" "windows/amd64"; do
  echo "== $ID under GOOS/GOARCH=$cfg"
  VERIF_GOOS_GOARCH=$cfg ./bin/verifchk -prop "$ID" -tier thorough -repo "${VERIF_REPO:-/repo}" -verif "$(pwd)" | grep -E "^(VIOLATION|FINDING|UNDECIDED|VACUITY|ERROR|SUMMARY)" ; [ ${PIPESTATUS[0]} -ne 0 ] && rc=1
done
echo "== $ID with -tags verif"
VERIF_TAGS=verif ./bin/verifchk -prop "$ID" -tier thorough -repo "${VERIF_REPO:-/repo}" -verif "$(pwd)" | grep -E "^(VIOLATION|FINDING|UNDECIDED|VACUITY|ERROR|SUMMARY)"; [ ${PIPESTATUS[0]} -ne 0 ] && rc=1
if [ -x ./audit.sh ]; then
  echo "== sensitivity audit for $ID"
  ./audit.sh "$ID" || rc=1
fi
echo "== $ID default configuration (writes the evidence file)"
VERIF_AUDIT_SUMMARY=evidence/audit_$ID.json ./bin/verifchk -prop "$ID" -tier thorough -repo "${VERIF_REPO:-/repo}" -verif "$(pwd)" || rc=1
exit $rc
