package main

// C04 — default inbox side effects do exactly what is documented, only to owned data.

import (
	"fmt"
	"go/ast"
	"go/types"
	"sort"
	"strings"

	"golang.org/x/tools/go/ssa"
)

// checkOverrideTable analyses the `callbacks` method of a WrappedCallbacks
// struct at the syntax level: each `case func(context.Context, vocab.T) error`
// of the type switch must clear exactly the flag that guards the registration
// of the default method whose parameter type is vocab.T; every default method
// is registered exactly once.
func checkOverrideTable(res *Result, p *Pub, rule, structName string, wantMethods int) {
	info := p.Info
	var fd *ast.FuncDecl
	for _, f := range p.Pkg.Syntax {
		if isTestFile(p.Fset, f.Pos()) {
			continue
		}
		for _, d := range f.Decls {
			if x, ok := d.(*ast.FuncDecl); ok && x.Name.Name == "callbacks" && x.Recv != nil {
				if types.ExprString(x.Recv.List[0].Type) == structName {
					fd = x
				}
			}
		}
	}
	fn := structName + ".callbacks"
	if fd == nil {
		res.undecided(rule, fn, "-", "override table found", "method callbacks not found")
		return
	}
	// case type -> flag cleared
	caseFlag := map[string]types.Object{} // vocab type name -> flag object
	ast.Inspect(fd.Body, func(n ast.Node) bool {
		ts, ok := n.(*ast.TypeSwitchStmt)
		if !ok {
			return true
		}
		for _, cl := range ts.Body.List {
			cc := cl.(*ast.CaseClause)
			for _, te := range cc.List {
				ft, ok := te.(*ast.FuncType)
				if !ok || ft.Params == nil || len(ft.Params.List) != 2 {
					res.undecided(rule, fn, relPos(p.Fset, te.Pos()), "override case is a func(context.Context, vocab.T) error type", "unrecognised case type "+types.ExprString(te))
					continue
				}
				tn := types.ExprString(ft.Params.List[1].Type)
				var flag types.Object
				nAssign := 0
				for _, st := range cc.Body {
					as, ok := st.(*ast.AssignStmt)
					if !ok || len(as.Lhs) != 1 || len(as.Rhs) != 1 {
						continue
					}
					if id, ok := as.Lhs[0].(*ast.Ident); ok {
						if rv, ok := as.Rhs[0].(*ast.Ident); ok && rv.Name == "false" {
							flag = info.ObjectOf(id)
							nAssign++
						}
					}
				}
				if nAssign != 1 {
					res.bad(rule, fn, relPos(p.Fset, cc.Pos()), "an application callback for "+tn+" disables exactly one default", fmt.Sprintf("%d flags cleared", nAssign))
					continue
				}
				caseFlag[tn] = flag
			}
		}
		return true
	})
	// flag -> method registered under it
	regs := map[string]types.Object{} // vocab type name of the method's parameter -> guarding flag
	regCount := map[string]int{}
	for _, st := range fd.Body.List {
		ifs, ok := st.(*ast.IfStmt)
		if !ok {
			continue
		}
		cid, ok := ifs.Cond.(*ast.Ident)
		if !ok {
			continue
		}
		flag := info.ObjectOf(cid)
		ast.Inspect(ifs.Body, func(n ast.Node) bool {
			c, ok := n.(*ast.CallExpr)
			if !ok {
				return true
			}
			if id, ok := c.Fun.(*ast.Ident); !ok || id.Name != "append" {
				return true
			}
			for _, a := range c.Args[1:] {
				sel, ok := a.(*ast.SelectorExpr)
				if !ok {
					continue
				}
				if s := info.Selections[sel]; s != nil && s.Kind() == types.MethodVal {
					sig := s.Obj().(*types.Func).Type().(*types.Signature)
					if sig.Params().Len() == 2 {
						tn := types.TypeString(sig.Params().At(1).Type(), func(pk *types.Package) string { return pk.Name() })
						regs[tn] = flag
						regCount[sel.Sel.Name]++
					}
				}
			}
			return true
		})
	}
	var tns []string
	for tn := range regs {
		tns = append(tns, tn)
	}
	sort.Strings(tns)
	for _, tn := range tns {
		cf, ok := caseFlag[tn]
		res.check(ok && cf == regs[tn], rule, fn, relPos(p.Fset, fd.Pos()), "an application function taking "+tn+" disables the default for "+tn+" (and nothing else)",
			func() string {
				if !ok {
					return "no override case for this type: the default effect cannot be replaced"
				}
				return "the case clears flag " + cf.Name() + " but the default is registered under " + regs[tn].Name()
			}())
	}
	for tn := range caseFlag {
		if _, ok := regs[tn]; !ok {
			res.bad(rule, fn, relPos(p.Fset, fd.Pos()), "override case for "+tn+" corresponds to a registered default", "no default method takes this type")
		}
	}
	for m, n := range regCount {
		res.check(n == 1, rule, fn, relPos(p.Fset, fd.Pos()), "default method "+m+" registered exactly once", fmt.Sprintf("%d times", n))
	}
	res.check(len(regs) >= wantMethods, rule, fn, relPos(p.Fset, fd.Pos()), fmt.Sprintf("all %d defaults are registered", wantMethods), fmt.Sprintf("found %d", len(regs)))
}

// checkCallbackLast: in every default callback the application's wrapped
// function (the like-named exported field) is called only after every default
// effect, its result is what the callback returns, and nothing effectful follows.
func checkCallbackLast(res *Result, p *Pub, E *Effects, rule string, structName string) {
	for _, fn := range E.wrapped {
		name := fname(fn)
		if !strings.HasPrefix(name, structName+".") {
			continue
		}
		method := strings.TrimPrefix(name, structName+".")
		wantField := strings.ToUpper(method[:1]) + strings.TrimSuffix(method[1:], "Fn")
		var cb []*CallInfo
		for _, ci := range E.byFn[fn] {
			if strings.HasPrefix(ci.Label, "application callback field ") {
				cb = append(cb, ci)
			}
		}
		res.check(len(cb) == 1, rule, name, p.pos(fn), "the wrapped application callback is called at one site", fmt.Sprintf("%d sites", len(cb)))
		for _, ci := range cb {
			res.check(ci.Label == "application callback field "+wantField, rule, name, p.pos(ci.Instr), "the callback invoked is "+wantField+" (the one for this activity type)", "invokes "+ci.Label)
			// result returned directly
			retOK := false
			if c, ok := ci.Instr.(*ssa.Call); ok {
				ffc := computeFacts(fn)
				for _, rt := range returnsIn(fn) {
					if ffc.resolve(rt, rt.Results[0]) == ssa.Value(c) {
						retOK = true
					}
				}
			}
			res.check(retOK, rule, name, p.pos(ci.Instr), "the callback's result is the default callback's result", "the application's error is not returned")
			// nothing effectful after it, and every effectful call precedes it
			for _, other := range E.byFn[fn] {
				if other == ci || other.Trans&(eDBW|eDBR|eTP|eCB) == 0 {
					continue
				}
				if _, isDefer := other.Instr.(*ssa.Defer); isDefer {
					continue
				}
				res.check(!reachesInstr(ci.Instr, other.Instr), rule, name, p.pos(other.Instr), other.Label+" cannot run after the application callback", "a default effect is reachable after the wrapped callback")
			}
		}
	}
}

// checkOwnership: in the per-object / per-target closures, every write happens
// where Owns(key) returned true for the very key that is locked, read and written.
func checkOwnership(res *Result, p *Pub, E *Effects, rule string, fns []string) {
	for _, name := range fns {
		fn := p.MustFunc(res, rule, name)
		if fn == nil {
			continue
		}
		ff := computeFacts(fn)
		owns := findCalls(E, fn, "Database.Owns")
		if len(owns) != 1 {
			res.bad(rule, name, p.pos(fn), "ownership is asked once per item", fmt.Sprintf("%d Owns calls", len(owns)))
			continue
		}
		oc := owns[0].(*ssa.Call)
		ov, oe := extractOf(oc, 0), extractOf(oc, 1)
		key := oc.Call.Args[1]
		n := 0
		for _, ci := range E.byFn[fn] {
			if ci.Trans&eDBW == 0 {
				continue
			}
			n++
			ok := ov != nil && oe != nil && ff.has(ci.Instr, ov, fTRUE, "") && ff.has(ci.Instr, oe, fNIL, "")
			res.check(ok, rule, name, p.pos(ci.Instr), ci.Label+" only where Owns returned (true, nil)", "facts: "+ff.describe(ci.Instr))
		}
		res.check(n >= 1, rule, name, p.pos(fn), "the closure writes", "no write found")
		for _, pat := range []string{"Database.Lock", "Database.Get"} {
			for _, c := range findCalls(E, fn, pat) {
				res.check(c.Common().Args[1] == key, rule, name, p.pos(c), pat+" uses the key whose ownership is asked", "different key: ownership of one id, modification of another")
			}
		}
		// what is written derives from what was read under that key
		g := flowOf(fn)
		for _, c := range findCalls(E, fn, "Database.Update") {
			res.check(anyBackward(g, c.Common().Args[1], func(x ssa.Value) bool { return isCallNamed(x, "Database.Get") }), rule, name, p.pos(c), "the value written is the owned value that was read", "Update's argument does not derive from Database.Get")
		}
	}
}

func checkC04(res *Result) {
	p := loadPub()
	E := computeEffects(p)
	res.Packages = []string{p.Pkg.PkgPath}
	res.Explanation = "Decides structural necessary conditions on all SSA paths of the federating default callbacks: (R1) every write in like/announce/add/remove happens where Owns(key)==(true,nil) for the very key locked, read and written; (R2) the override table: an application function of type func(ctx, vocab.T) disables exactly the default whose parameter is vocab.T; (R3) the wrapped application callback of the right name is called last, after all default effects succeeded (error discipline), and its result returned; (R4) Follow: nothing is stored or delivered unless OnFollow≠DoNothing and some object equals ActorForInbox(inbox) (monotone search flag), followers are updated only for auto-accept, an Accept (Reject) is built for accept (reject), given new ids before it is delivered from OutboxForInbox(inbox), with actor=this actor, object=the Follow, to=the Follow's actors; (R5) the documented insertion end for every collection; (R6) Create fetches objects given by IRI; every object of Create/Update/Delete/Like/Announce is processed (total loops); fresh properties are installed. Exact stored values are not decided."
	res.Rule("C04-R1", "ownership before modification: in like/announce/add/remove every Database write lies where Owns(key) returned (true, nil), for the key that is locked, read and updated")
	res.Rule("C04-R2", "override table: in callbacks(), `case func(ctx, vocab.T) error` clears exactly the flag guarding the registration of the default method for vocab.T; every default registered once")
	res.Rule("C04-R3", "application callback last: the like-named wrapped field is called at one site, after every default effect, and its result is returned")
	res.Rule("C04-R4", "Follow: effects only with OnFollow≠DoNothing and a matching object; followers updated only for auto-accept; response type per setting; new ids before delivery; response actor/object/to from the right sources")
	res.Rule("C04-R5", "insertion end: only the documented mutator is applied to each collection")
	res.Rule("C04-R6", "Create stores every object, fetching those given by IRI; Update/Delete/Like/Announce/Accept process every element (loops left early only by failing); fresh properties installed")
	res.Rule("C04-R7", "error discipline over everything reachable from sideEffectActor.PostInbox")

	checkOwnership(res, p, E, "C04-R1", []string{"FederatingWrappedCallbacks.like$1", "FederatingWrappedCallbacks.announce$1", "add$1", "remove$1"})
	checkOverrideTable(res, p, "C04-R2", "FederatingWrappedCallbacks", 12)
	checkCallbackLast(res, p, E, "C04-R3", "FederatingWrappedCallbacks")
	checkRequiredFirst(res, p, E, "C04-R3")

	// R4 Follow
	if fn := p.MustFunc(res, "C04-R4", "FederatingWrappedCallbacks.follow"); fn != nil {
		ff := computeFacts(fn)
		g := flowOf(fn)
		checkSearchFlags(res, p, "C04-R4", fn)
		actorFor := findCalls(E, fn, "Database.ActorForInbox")
		res.check(len(actorFor) == 1, "C04-R4", fname(fn), p.pos(fn), "the inbox's actor is looked up once", fmt.Sprintf("%d calls", len(actorFor)))
		onFollowNot0 := func(ins ssa.Instruction) bool { return ff.hasName(ins, "param:w.OnFollow", fNEQ, "const:0") }
		// the "is me" comparison: String() of an object id == String() of ActorForInbox's result
		isMeKnown := func(ins ssa.Instruction) bool {
			s := ff.at[ins]
			if s == nil {
				return false
			}
			for f := range s.facts {
				if f.k != fTRUE {
					continue
				}
				for v, n := range ff.ids {
					if fmt.Sprintf("v%d", n) != f.v {
						continue
					}
					bo, ok := v.(*ssa.BinOp)
					if !ok || bo.Op.String() != "==" {
						continue
					}
					a := anyBackward(g, bo.X, func(x ssa.Value) bool { return isCallNamed(x, "Database.ActorForInbox") })
					b := anyBackward(g, bo.Y, func(x ssa.Value) bool { return isCallNamed(x, "Database.ActorForInbox") })
					o1 := anyBackward(g, bo.X, func(x ssa.Value) bool { return isCallNamed(x, "pub.ToId") })
					o2 := anyBackward(g, bo.Y, func(x ssa.Value) bool { return isCallNamed(x, "pub.ToId") })
					if (a && o2 && !b) || (b && o1 && !a) {
						return true
					}
				}
			}
			return false
		}
		nEff := 0
		for _, ci := range E.byFn[fn] {
			lbl := ci.Label
			guarded := lbl == "Database.Followers" || lbl == "Database.Update" || lbl == "Database.OutboxForInbox" || strings.HasPrefix(lbl, "field addNewIds") || strings.HasPrefix(lbl, "field deliver")
			if !guarded {
				continue
			}
			nEff++
			res.check(onFollowNot0(ci.Instr) && isMeKnown(ci.Instr), "C04-R4", fname(fn), p.pos(ci.Instr), lbl+" only with OnFollow≠DoNothing and an object equal to this inbox's actor", "facts: "+ff.describe(ci.Instr))
			if lbl == "Database.Followers" || lbl == "Database.Update" {
				res.check(ff.hasName(ci.Instr, "param:w.OnFollow", fEQ, "const:1"), "C04-R4", fname(fn), p.pos(ci.Instr), lbl+" only for OnFollowAutomaticallyAccept", "facts: "+ff.describe(ci.Instr))
			}
		}
		res.check(nEff >= 5, "C04-R4", fname(fn), p.pos(fn), "the Follow effects (followers read/update, outbox lookup, new ids, deliver) exist", fmt.Sprintf("found %d", nEff))
		for _, ci := range callsIn(fn) {
			switch staticName(ci) {
			case "streams.NewActivityStreamsAccept":
				res.check(ff.hasName(ci, "param:w.OnFollow", fEQ, "const:1"), "C04-R4", fname(fn), p.pos(ci), "an Accept is built only for OnFollowAutomaticallyAccept", "facts: "+ff.describe(ci))
			case "streams.NewActivityStreamsReject":
				res.check(ff.hasName(ci, "param:w.OnFollow", fEQ, "const:2"), "C04-R4", fname(fn), p.pos(ci), "a Reject is built only for OnFollowAutomaticallyReject", "facts: "+ff.describe(ci))
			}
		}
		an := findCalls(E, fn, "field addNewIds*")
		dl := findCalls(E, fn, "field deliver*")
		if len(an) == 1 && len(dl) == 1 {
			res.check(dominates(an[0], dl[0]) && ff.has(dl[0], an[0].(ssa.Value), fNIL, ""), "C04-R4", fname(fn), p.pos(dl[0]), "the response gets fresh ids before it is delivered", "facts: "+ff.describe(dl[0]))
			res.check(an[0].Common().Args[1] == dl[0].Common().Args[2], "C04-R4", fname(fn), p.pos(dl[0]), "the value given ids is the value delivered", "different values")
			res.check(anyBackward(g, dl[0].Common().Args[1], func(x ssa.Value) bool { return isCallNamed(x, "Database.OutboxForInbox") }), "C04-R4", fname(fn), p.pos(dl[0]), "delivery is from the outbox belonging to this inbox", "outbox argument does not derive from OutboxForInbox")
			resp := dl[0].Common().Args[2]
			// what was put on the response
			type want struct {
				setter, adder string
				src           func(ssa.Value) bool
				what          string
			}
			for _, w := range []want{
				{"SetActivityStreamsActor", "AppendIRI", func(x ssa.Value) bool { return isCallNamed(x, "Database.ActorForInbox") }, "actor = this inbox's actor"},
				{"SetActivityStreamsObject", "AppendActivityStreamsFollow", func(x ssa.Value) bool { return isParamNamed(x, "a") }, "object = the received Follow"},
				{"SetActivityStreamsTo", "AppendIRI", func(x ssa.Value) bool { return isCallNamed(x, "GetActivityStreamsActor") }, "to = the Follow's actors"},
			} {
				found := false
				for _, ci := range callsIn(fn) {
					cc := ci.Common()
					if !cc.IsInvoke() || cc.Method.Name() != w.setter || unwrap(cc.Value) != unwrap(resp) {
						continue
					}
					prop := cc.Args[0]
					for _, c2 := range callsIn(fn) {
						c2c := c2.Common()
						if c2c.IsInvoke() && c2c.Method.Name() == w.adder && c2c.Value == prop && anyBackward(g, c2c.Args[0], w.src) {
							found = true
						}
					}
				}
				res.check(found, "C04-R4", fname(fn), p.pos(fn), "response "+w.what, "no "+w.setter+" on the response with a property filled from that source")
			}
			// followers get the following actors
			for _, ci := range callsIn(fn) {
				cc := ci.Common()
				if cc.IsInvoke() && cc.Method.Name() == "PrependIRI" {
					res.check(anyBackward(g, cc.Args[0], func(x ssa.Value) bool { return isCallNamed(x, "GetActivityStreamsActor") }), "C04-R4", fname(fn), p.pos(ci), "the actors of the Follow are what is added to followers", "prepended value does not derive from the Follow's actors")
				}
			}
		} else {
			res.bad("C04-R4", fname(fn), p.pos(fn), "one addNewIds and one deliver call", fmt.Sprintf("%d and %d", len(an), len(dl)))
		}
	}
	// side channels really are the library's AddNewIDs / Deliver
	if fn := p.MustFunc(res, "C04-R4", "sideEffectActor.PostInbox"); fn != nil {
		want := map[string]string{"deliver": "sideEffectActor.Deliver", "addNewIds": "sideEffectActor.AddNewIDs"}
		for f, target := range want {
			ok := false
			for fv, fns := range E.fieldFns {
				if fv.Name() == f {
					ok = len(fns) == 1 && fns[0] != nil && fname(fns[0]) == target
				}
			}
			res.check(ok, "C04-R4", fname(fn), p.pos(fn), "side channel "+f+" is "+target, "field is set to something else")
		}
	}

	// R5
	checkCollectionMutators(res, p, "C04-R5", map[string]bool{"sideEffectActor.addToInboxIfNew": true, "FederatingWrappedCallbacks.follow": true, "FederatingWrappedCallbacks.accept": true, "FederatingWrappedCallbacks.like$1": true, "FederatingWrappedCallbacks.announce$1": true, "add$1": true, "remove$1": true})

	// R6
	checkFreshInstalled(res, p, "C04-R6", []string{"FederatingWrappedCallbacks.follow", "FederatingWrappedCallbacks.accept", "FederatingWrappedCallbacks.like$1", "FederatingWrappedCallbacks.announce$1", "add$1", "sideEffectActor.addToInboxIfNew"}, 12)
	for _, name := range []string{"FederatingWrappedCallbacks.create", "FederatingWrappedCallbacks.update", "FederatingWrappedCallbacks.deleteFn", "FederatingWrappedCallbacks.like", "FederatingWrappedCallbacks.announce"} {
		fn := p.MustFunc(res, "C04-R6", name)
		if fn == nil {
			continue
		}
		ff := computeFacts(fn)
		cs := findCalls(E, fn, name+"$1")
		if !p.HasFunc(name + "$1") {
			// the per-object body stands in the loop itself: its Database/Transport calls represent it
			cs = perElementSites(E, fn)
			res.check(len(cs) >= 1, "C04-R6", name, p.pos(fn), "the per-object body (written into the loop) has effects", "no Database/Transport call inside a loop")
			g := flowOf(fn)
			seenLoop := map[*ssa.BasicBlock]bool{}
			for _, c := range cs {
				hdr := loopHeader(loopBlocks(c.Block()))
				if hdr == nil || seenLoop[hdr] {
					continue
				}
				seenLoop[hdr] = true
				tot, why := totalLoopFF(ff, loopBlocks(c.Block()))
				res.check(tot, "C04-R6", name, p.pos(c), "every object of the activity is processed (loop left early only by failing)", why)
				okObj := false
				for _, a := range c.Common().Args {
					if anyBackward(g, a, func(x ssa.Value) bool { return isCallNamed(x, "GetActivityStreamsObject") }) {
						okObj = true
					}
				}
				res.check(okObj, "C04-R6", name, p.pos(c), "the elements processed are those of the 'object' property", "no argument of the effect derives from GetActivityStreamsObject()")
			}
			continue
		}
		res.check(len(cs) == 1, "C04-R6", name, p.pos(fn), "the per-object closure is applied at one site", fmt.Sprintf("%d sites", len(cs)))
		for _, c := range cs {
			tot, why := totalLoopFF(ff, loopBlocks(c.Block()))
			res.check(inLoop(c) && tot, "C04-R6", name, p.pos(c), "every object of the activity is processed (loop left early only by failing)", why)
			g := flowOf(fn)
			okObj := false
			for _, a := range c.Common().Args {
				if anyBackward(g, a, func(x ssa.Value) bool { return isCallNamed(x, "GetActivityStreamsObject") }) {
					okObj = true
				}
			}
			res.check(okObj, "C04-R6", name, p.pos(c), "the elements processed are those of the 'object' property", "no argument derives from GetActivityStreamsObject()")
		}
	}
	if fn := p.MustFunc(res, "C04-R6", "FederatingWrappedCallbacks.create$1"); fn != nil {
		g := flowOf(fn)
		for _, c := range findCalls(E, fn, "Database.Create") {
			v := unwrap(c.Common().Args[1])
			fromEmbedded := anyBackward(g, v, func(x ssa.Value) bool { return isCallNamed(x, "GetType") })
			fromFetched := anyBackward(g, v, func(x ssa.Value) bool { return isCallNamed(x, "streams.ToType") })
			res.check(fromEmbedded && fromFetched, "C04-R6", fname(fn), p.pos(c), "what is stored is the embedded object or, for an IRI, the fetched one", fmt.Sprintf("embedded: %v, fetched: %v", fromEmbedded, fromFetched))
		}
		for _, c := range findCalls(E, fn, "Transport.Dereference") {
			res.check(anyBackward(g, c.Common().Args[1], func(x ssa.Value) bool { return isCallNamed(x, "GetIRI") }), "C04-R6", fname(fn), p.pos(c), "an object given by IRI is fetched from that IRI", "Dereference argument is not the element's IRI")
		}
	}
	if fn := p.MustFunc(res, "C04-R6", "FederatingWrappedCallbacks.update$1"); fn != nil {
		g := flowOf(fn)
		for _, c := range findCalls(E, fn, "Database.Update") {
			res.check(anyBackward(g, c.Common().Args[1], func(x ssa.Value) bool { return isCallNamed(x, "GetType") }), "C04-R6", fname(fn), p.pos(c), "Update stores the object named by the activity", "argument does not derive from the element's value")
		}
	}
	if fn := p.MustFunc(res, "C04-R6", "FederatingWrappedCallbacks.deleteFn$1"); fn != nil {
		g := flowOf(fn)
		for _, c := range findCalls(E, fn, "Database.Delete") {
			res.check(anyBackward(g, c.Common().Args[1], func(x ssa.Value) bool { return isCallNamed(x, "pub.ToId") }), "C04-R6", fname(fn), p.pos(c), "Delete removes the object named by the activity", "argument does not derive from the element's id")
		}
	}
	// Accept: following gets the accepting actors, all of them
	if fn := p.MustFunc(res, "C04-R6", "FederatingWrappedCallbacks.accept"); fn != nil {
		ff := computeFacts(fn)
		g := flowOf(fn)
		for _, ci := range callsIn(fn) {
			cc := ci.Common()
			if cc.IsInvoke() && cc.Method.Name() == "PrependIRI" {
				res.check(anyBackward(g, cc.Args[0], func(x ssa.Value) bool {
					c, ok := x.(*ssa.Call)
					return ok && c.Common().IsInvoke() && c.Common().Method.Name() == "GetActivityStreamsActor" && isParamNamed(c.Common().Value, "a")
				}), "C04-R6", fname(fn), p.pos(ci), "the actors of the Accept are what is added to following", "prepended value does not derive from the Accept's actors")
				tot, why := totalLoopFF(ff, loopBlocks(ci.Block()))
				res.check(tot, "C04-R6", fname(fn), p.pos(ci), "every accepting actor is added", why)
			}
		}
	}

	// R7
	fns := reachFrom(p, E, "sideEffectActor.PostInbox")
	addErrFlowObligations(res, p, E, "C04-R7", fns, true)
	res.Functions = len(fns)
	// shared mechanisms
	res.Rule("C04-R8", "Accept: no step of the verification of the stored Follow is dead — every refusal in the verification closure is feasible (shared with C06-R8)")
	if fn := p.MustFunc(res, "C04-R8", "FederatingWrappedCallbacks.accept$1"); fn != nil {
		ffv := computeFacts(fn)
		for _, r := range returnsIn(fn) {
			res.check(ffv.reachable(r), "C04-R8", fname(fn), p.pos(r), "this return of the Follow verification can be reached", "under the facts established by the preceding tests this return is unreachable: the refusal it implements can never happen (e.g. a flag not reset before the search)")
		}
	}
	res.Rule("C04-R10", "'a verified Accept adds its actors to following': the verification is the one C06-R3 describes — stored Follow fetched from the Database, of type Follow, this actor among its actors, every accepting actor among its objects (a missing one fails) — and Following/Update happen only after it succeeded")
	checkAcceptVerification(res, p, E, "C04-R10")
	res.Rule("C04-R11", "the default callbacks see every embedded object / target / actor: GetType of those properties returns the value for each of their type-valued kinds (shared with C18-R4)")
	checkTypeAccessorTables(res, "C04-R11", map[string]bool{"object": true, "target": true, "actor": true})
	res.Rule("C04-R12", "Remove matches collection elements by ToId in both the items and the orderedItems branch (shared with C16-R4)")
	checkRemoveMembership(res, p, "C04-R12")
	res.Rule("C04-R9", "the automatic Accept / Reject reaches every actor of the Follow: on the delivery path every addressed actor whose inbox the Database does not know is resolved remotely (shared with C02-R5)")
	if fn := p.Func("sideEffectActor.prepare"); fn != nil {
		ffp := computeFacts(fn)
		for _, c := range findCalls(E, fn, "sideEffectActor.resolveActors") {
			okAll := true
			for _, r := range returnsIn(fn) {
				mn, _ := ffp.errStatus(r, 1)
				if mn && ffp.reachable(r) && !dominates(c, r) {
					okAll = false
				}
			}
			res.check(okAll, "C04-R9", fname(fn), p.pos(c), "every success return of prepare has gone through the remote resolution of recipients", "resolveActors is conditional: some addressed actors are never resolved, the Accept does not reach them")
		}
	}
	res.Rule("C04-R13", "Create stores the object it fetched, not a blend of the documents fetched so far: every json.Unmarshal in pub decodes into a variable fresh for that decode (local to the activation, declared inside the loop)")
	checkFreshDecodeTargets(res, p, "C04-R13")
	res.Assumptions = append(res.Assumptions, "value flow is an over-approximation", "CFG paths over-approximate feasible paths", "what Database.Owns answers is the application's")
	res.Undecided = []string{"that exactly the named objects are stored (value equality)", "contents of the delivered Accept beyond the sources of actor/object/to"}
	res.Trusted = []string{"go/types, go/ssa, go/ast (x/tools v0.29.0)", "e1_effects.go, e2_facts.go, e4_flow.go, e9_errflow.go"}
}

// perElementSites: the Database/Transport call sites of fn that lie inside a loop
// (the per-element body when it is written into the loop rather than kept in a
// closure).
func perElementSites(E *Effects, fn *ssa.Function) []ssa.CallInstruction {
	var out []ssa.CallInstruction
	for _, ci := range E.byFn[fn] {
		if ci.Direct&(eDBW|eDBR|eTP) != 0 && inLoop(ci.Instr) {
			out = append(out, ci.Instr)
		}
	}
	return out
}
