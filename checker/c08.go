package main

import (
	"fmt"

	"golang.org/x/tools/go/ssa"
)

// C08-R4 — the duplicate gate. "The same activity id delivered any number of
// times has its side effects attempted at most once": every side effect of
// sideEffectActor.PostInbox lies where addToInboxIfNew reported (true, nil),
// and addToInboxIfNew can report true only on a path through
// InboxContains == (false, nil), inside the lock hold that also covers the
// SetInbox (C08-R1).
func checkC08Dup(res *Result, p *Pub) {
	res.Rule("C08-R4", "duplicate gate: side effects of sideEffectActor.PostInbox only where addToInboxIfNew returned (true,nil); addToInboxIfNew's result can be true only through InboxContains == (false,nil), and the inbox is written only there")
	E := computeEffects(p)
	fn := p.MustFunc(res, "C08-R4", "sideEffectActor.PostInbox")
	if fn != nil {
		ff := computeFacts(fn)
		gs := findCalls(E, fn, "sideEffectActor.addToInboxIfNew")
		if len(gs) != 1 {
			res.bad("C08-R4", fname(fn), p.pos(fn), "addToInboxIfNew is called exactly once", fmt.Sprintf("%d calls", len(gs)))
		} else {
			gate := gs[0].(*ssa.Call)
			isNew, gerr := extractOf(gate, 0), extractOf(gate, 1)
			n := 0
			for _, ci := range E.byFn[fn] {
				if ci.Instr == ssa.CallInstruction(gate) || ci.Trans&(eCB|eDBW|eTP|eAPPREAD|eDBR) == 0 {
					continue
				}
				n++
				ok := isNew != nil && gerr != nil && ff.has(ci.Instr, isNew, fTRUE, "") && ff.has(ci.Instr, gerr, fNIL, "")
				res.check(ok, "C08-R4", fname(fn), p.pos(ci.Instr), ci.Label+" runs only for an id that was new to the inbox (isNew == true, err == nil)", "facts: "+ff.describe(ci.Instr))
			}
			res.Count("side-effect call sites behind the duplicate gate", n, 2)
		}
	}
	g := p.MustFunc(res, "C08-R4", "sideEffectActor.addToInboxIfNew")
	if g == nil {
		return
	}
	ff := computeFacts(g)
	cs := findCalls(E, g, "Database.InboxContains")
	if len(cs) != 1 {
		res.bad("C08-R4", fname(g), p.pos(g), "InboxContains is called exactly once", fmt.Sprintf("%d calls", len(cs)))
		return
	}
	ic := cs[0].(*ssa.Call)
	cv, ce := extractOf(ic, 0), extractOf(ic, 1)
	inRegion := func(ins ssa.Instruction) bool {
		return cv != nil && ce != nil && ff.has(ins, cv, fFALSE, "") && ff.has(ins, ce, fNIL, "")
	}
	// where can result 0 become true?
	nSrc := 0
	seenAlloc := map[*ssa.Alloc]bool{}
	var judge func(at ssa.Instruction, v ssa.Value, depth int)
	judge = func(at ssa.Instruction, v ssa.Value, depth int) {
		if b, ok := boolConst(v); ok {
			if b {
				nSrc++
				res.check(inRegion(at), "C08-R4", fname(g), p.pos(at), "isNew becomes true only where InboxContains returned (false, nil)", "facts: "+ff.describe(at))
			}
			return
		}
		switch x := v.(type) {
		case *ssa.UnOp:
			if a, ok := x.X.(*ssa.Alloc); ok {
				if seenAlloc[a] {
					return
				}
				seenAlloc[a] = true
				for _, r := range *a.Referrers() {
					switch y := r.(type) {
					case *ssa.Store:
						if y.Addr == ssa.Value(a) {
							judge(y, y.Val, depth+1)
						} else {
							res.undecided("C08-R4", fname(g), p.pos(y), "the result variable does not escape", "its address is stored")
						}
					case *ssa.UnOp, *ssa.DebugRef:
					default:
						res.undecided("C08-R4", fname(g), p.pos(r), "the result variable is only loaded and stored", fmt.Sprintf("used by %T", r))
					}
				}
				return
			}
		case *ssa.Phi:
			if depth < 6 {
				for i, e := range x.Edges {
					pred := x.Block().Preds[i]
					judge(pred.Instrs[len(pred.Instrs)-1], e, depth+1)
				}
				return
			}
		}
		nSrc++
		res.check(inRegion(at), "C08-R4", fname(g), p.pos(at), "a computed isNew value is produced only where InboxContains returned (false, nil)", "value "+valueLabel(v)+"; facts: "+ff.describe(at))
	}
	for _, r := range returnsIn(g) {
		if len(r.Results) >= 1 {
			judge(r, r.Results[0], 0)
		}
	}
	res.check(nSrc >= 1, "C08-R4", fname(g), p.pos(g), "some path reports the id as new", "isNew can never be true")
	for _, ci := range E.byFn[g] {
		if ci.Trans&eDBW != 0 {
			res.check(inRegion(ci.Instr), "C08-R4", fname(g), p.pos(ci.Instr), ci.Label+" (the inbox is rewritten) only for an id it does not contain yet", "facts: "+ff.describe(ci.Instr))
		}
	}
}
