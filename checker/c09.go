package main

// C09 (every lock released exactly once; none retaken or leaked; every
// Database access under a lock) and C08 (lock-discipline preconditions of
// lost-update freedom and deadlock freedom). Both instantiate E3 on the
// Database interface of package pub.

import (
	"fmt"
	"go/ast"
	"go/types"
	"sort"
	"strings"
)

var dbWrites = map[string]bool{"Create": true, "Update": true, "Delete": true, "SetInbox": true, "SetOutbox": true}
var dbBoolReads = map[string]bool{"InboxContains": true, "Exists": true, "Owns": true}

// appInterfaces are the interfaces implemented by the application.
var appInterfaces = map[string]bool{"CommonBehavior": true, "SocialProtocol": true, "FederatingProtocol": true, "Transport": true, "Clock": true, "HttpClient": true, "Database": true, "DelegateActor": true}

func pubLockEngine(p *Pub) *lockEngine {
	info := p.Info
	db := p.Named("Database")
	units := unitsOf(p.Fset, p.Pkg.Syntax, info)
	spec := lockSpec{
		lockHasError: true,
		write:        func(m string) bool { return dbWrites[m] },
		boolRead:     func(m string) bool { return dbBoolReads[m] },
		classify: func(c *ast.CallExpr) (string, ast.Expr, string) {
			n, m := ifaceMethod(info, c)
			if n == nil || n.Obj() != db.Obj() {
				return "", nil, ""
			}
			switch m {
			case "Lock":
				return "lock", c.Args[1], m
			case "Unlock":
				return "unlock", c.Args[1], m
			case "NewID":
				return "exempt", nil, m
			}
			return "access", nil, m
		},
	}
	e := newLockEngine(p.Fset, info, units, spec)
	// func-typed struct fields assigned inside pub: field object -> units
	fieldTargets := map[*types.Var][]*Unit{}
	for _, u := range units {
		inspectShallow(u.Body, func(n ast.Node) bool {
			as, ok := n.(*ast.AssignStmt)
			if !ok {
				return true
			}
			for i, l := range as.Lhs {
				sel, ok := l.(*ast.SelectorExpr)
				if !ok || i >= len(as.Rhs) {
					continue
				}
				s := info.Selections[sel]
				if s == nil || s.Kind() != types.FieldVal {
					continue
				}
				fv, _ := s.Obj().(*types.Var)
				if fv == nil {
					continue
				}
				if _, isFunc := fv.Type().Underlying().(*types.Signature); !isFunc {
					continue
				}
				// RHS: method value x.M or function name
				var fn *types.Func
				switch r := as.Rhs[i].(type) {
				case *ast.SelectorExpr:
					fn, _ = info.Uses[r.Sel].(*types.Func)
				case *ast.Ident:
					fn, _ = info.Uses[r].(*types.Func)
				}
				if fn != nil && e.byObj[fn] != nil {
					fieldTargets[fv] = append(fieldTargets[fv], e.byObj[fn])
				} else {
					fieldTargets[fv] = append(fieldTargets[fv], nil) // assigned from something opaque
				}
			}
			return true
		})
	}
	sea := p.Named("sideEffectActor")
	delegate := p.Named("DelegateActor")
	e.resolveDyn = func(u *Unit, call *ast.CallExpr) ([]*Unit, bool) {
		sel, ok := call.Fun.(*ast.SelectorExpr)
		if !ok {
			return nil, false
		}
		s := info.Selections[sel]
		if s == nil {
			return nil, false
		}
		if s.Kind() == types.FieldVal {
			fv, _ := s.Obj().(*types.Var)
			if _, isFunc := fv.Type().Underlying().(*types.Signature); !isFunc {
				return nil, false
			}
			ts, assigned := fieldTargets[fv]
			if !assigned {
				return nil, true // set by the application (exported callback fields)
			}
			var out []*Unit
			opaque := false
			for _, t := range ts {
				if t == nil {
					opaque = true
				} else {
					out = append(out, t)
				}
			}
			return out, opaque
		}
		if n, m := ifaceMethod(info, call); n != nil {
			if n.Obj() == delegate.Obj() {
				ms := types.NewMethodSet(types.NewPointer(sea))
				if msel := ms.Lookup(p.Pkg.Types, m); msel != nil {
					if t := e.byObj[msel.Obj().(*types.Func)]; t != nil {
						return []*Unit{t}, true // also possibly a custom delegate
					}
				}
				return nil, true
			}
			if n.Obj().Pkg() == p.Pkg.Types && appInterfaces[n.Obj().Name()] {
				return nil, true
			}
		}
		return nil, false
	}
	e.computeMayLock()
	return e
}

type lockRun struct {
	reports  []*lockUnitReport
	nUnits   int
	nLock    int
	nUnlock  int
	nAccess  int
	appCalls []string
	mayLock  []string
}

var lockRunCache *lockRun

func runPubLocks(p *Pub) *lockRun {
	if lockRunCache != nil {
		return lockRunCache
	}
	e := pubLockEngine(p)
	lr := &lockRun{}
	e.computeInline()
	for _, u := range e.units {
		if e.inlined[u] {
			continue // analysed in the context of its call sites
		}
		if !e.hasLockOps(u) {
			// a parent without lock operations of its own still hosts its in-context closures
			host := false
			for _, t := range e.units {
				if e.inlined[t] && t.Parent == u && e.hasLockOps(t) {
					host = true
				}
			}
			if !host {
				continue
			}
		}
		for _, rep := range e.analyse(u) {
			if e.hasLockOps(rep.unit) {
				lr.nUnits++
			}
			lr.nLock += rep.nLock
			lr.nUnlock += rep.nUnlock
			lr.nAccess += rep.nAccess
			lr.reports = append(lr.reports, rep)
			lr.appCalls = append(lr.appCalls, rep.appCallsUnderLock...)
		}
	}
	for _, u := range e.units {
		if e.mayLock[u] {
			lr.mayLock = append(lr.mayLock, u.Name)
		}
	}
	sort.Strings(lr.mayLock)
	lockRunCache = lr
	return lr
}

func addLockFindings(res *Result, p *Pub, lr *lockRun, ruleMap map[string]string) {
	for _, rep := range lr.reports {
		fs := rep.findings
		sort.SliceStable(fs, func(i, j int) bool { return fs[i].pos < fs[j].pos })
		for _, f := range fs {
			rule, ok := ruleMap[f.rule]
			if !ok {
				continue
			}
			res.Add(Oblig{Rule: rule, Func: rep.unit.Name, Pos: relPos(p.Fset, f.pos), Desc: f.desc, Verdict: f.verdict, Detail: f.detail,
				Key: rule + "|" + rep.unit.Name + "|" + f.desc})
		}
	}
}

func checkC09(res *Result) {
	p := loadPub()
	res.Packages = []string{p.Pkg.PkgPath}
	res.Explanation = "Lock typestate (pending / must-held / may-held / release obligations / deferred) as a forward dataflow to a fixpoint over the go/cfg control-flow graph of every function and function literal of package pub that touches the Database interface; branch-sensitive on the tested Lock error; lock identity = key expression with identifiers resolved to their types.Object. All CFG paths of all such units are covered (exhaustive over paths, intra-procedural; closures are units of their own and must be self-balanced; a call of a function that itself locks while a lock is held is reported)."
	res.Rule("C09-R1", "the error result of every Database.Lock is bound and tested before the lock is relied on (a discarded or overwritten error means a later Unlock may release a lock never acquired)")
	res.Rule("C09-R2", "no Lock of a key that the same request may already hold, directly or through a callee that locks")
	res.Rule("C09-R3", "every Unlock (or defer Unlock) is of a key held on every path reaching it, and is not doubled by a deferred one")
	res.Rule("C09-R4", "at every return / function end no lock remains that is not covered by a registered defer Unlock")
	res.Rule("C09-R5", "every Database call other than Lock/Unlock/NewID is made with a lock held on every path")
	res.Rule("C09-KEY", "lock identity is tracked by key expression; a key variable must not be reassigned while held, and the *url.URL a key points to is not written through (directly or by a function of pub it is handed to) in the function that locks it")
	lr := runPubLocks(p)
	res.Functions = lr.nUnits
	addLockFindings(res, p, lr, map[string]string{"R1": "C09-R1", "R2": "C09-R2", "R3": "C09-R3", "R4": "C09-R4", "R5": "C09-R5", "KEY": "C09-KEY", "ENGINE": "C09-ENGINE"})
	checkLockKeysNotMutated(res, p, computeEffects(p), "C09-KEY")
	// interprocedural re-entry: a callee that locks, called while a lock is held
	for _, rep := range lr.reports {
		for _, f := range rep.findings {
			if f.rule == "NEST" && strings.HasPrefix(f.desc, "call of ") {
				res.Add(Oblig{Rule: "C09-R2", Func: rep.unit.Name, Pos: relPos(p.Fset, f.pos), Desc: f.desc, Verdict: f.verdict,
					Detail: "the callee's lock keys cannot be shown distinct from the held ones: " + f.detail, Key: "C09-R2|" + rep.unit.Name + "|" + f.desc})
			}
		}
	}
	res.Count("units touching Database", lr.nUnits, 15)
	res.Count("Lock call sites", lr.nLock, 20)
	res.Count("Unlock call sites", lr.nUnlock, 30)
	res.Count("other Database call sites (excluding NewID)", lr.nAccess, 32)
	res.Extra["functions_that_may_lock"] = lr.mayLock
	res.Extra["application_calls_under_lock"] = lr.appCalls
	res.Assumptions = append(res.Assumptions,
		"equal key expressions over unassigned variables denote the same id (aliasing between different expressions is not tracked)",
		"CFG paths over-approximate feasible paths",
		"application code (callbacks, Database implementation) is opaque: only the library's own Lock/Unlock calls are paired",
		"panics are not modelled as exits")
	res.Undecided = []string{"locks taken by application callbacks", "paths that exist only through panics"}
	res.Trusted = []string{"go/types, go/cfg (x/tools v0.29.0)", "the checker's transfer function (e3_lock.go)"}
}

func checkC08(res *Result) {
	p := loadPub()
	res.Packages = []string{p.Pkg.PkgPath}
	res.Explanation = "Interleavings are not explored. Decided: the lock-discipline clauses that are necessary for lost-update freedom and deadlock freedom given that Lock/Unlock provide per-id mutual exclusion — (R1) every boolean check (InboxContains/Exists/Owns) and the write it guards sit in one uninterrupted lock hold; (R2) every read whose result flows into a write sits with that write in one hold; (R3) at most one id is locked at any time by a request (no wait-for cycle can form); (R4) the duplicate gate: callbacks and the default callback run only in the region where addToInboxIfNew reported the id as new. Same E3 dataflow as C09 with an additional 'open reads' component; all CFG paths of all units."
	res.Rule("C08-R1", "check-then-act: a boolean Database check and every Database write reachable from it in the same function happen inside one lock hold")
	res.Rule("C08-R2", "read-modify-write: a Database read whose result flows into the argument of a Database write happens inside the same lock hold as the write")
	res.Rule("C08-R3", "one lock at a time: no Lock, and no call of a function that locks, while another id is held")
	lr := runPubLocks(p)
	res.Functions = lr.nUnits
	addLockFindings(res, p, lr, map[string]string{"CTA": "C08-R1", "RMW": "C08-R2", "NEST": "C08-R3", "R1": "C08-R6", "R3": "C08-R6"})
	res.Rule("C08-R6", "a request releases only locks it holds (shared with C09-R1/R3): an Unlock — plain or deferred — of a key whose Lock failed, was not tested, or was never taken releases the lock of whichever request does hold it, and that request's check-then-act is no longer exclusive; and request handlers keep no state in their receiver (unsynchronised between concurrent requests)")
	checkStatelessHandlers(res, p, "C08-R6")
	n1, n2 := 0, 0
	for _, o := range res.Obligs {
		switch o.Rule {
		case "C08-R1":
			n1++
		case "C08-R2":
			n2++
		}
	}
	res.Count("check-then-act pairs", n1, 4)
	res.Count("read-modify-write pairs", n2, 8)
	res.Count("Lock call sites", lr.nLock, 20)
	checkC08Dup(res, p)
	res.Rule("C08-R5", "error discipline on the duplicate gate (addToInboxIfNew, sideEffectActor.PostInbox, InboxForwarding): a Database failure while recording the id is propagated, never swallowed into 'new, no error' (else side effects run although the id was not recorded, and run again on redelivery)")
	addErrFlowObligations(res, p, computeEffects(p), "C08-R5", []string{"sideEffectActor.addToInboxIfNew", "sideEffectActor.PostInbox", "sideEffectActor.InboxForwarding"}, true)
	res.Extra["application_calls_under_lock"] = lr.appCalls
	res.Assumptions = append(res.Assumptions,
		"Database.Lock/Unlock give mutual exclusion per id (stated in the property)",
		"application callbacks invoked while the library holds a lock (listed under application_calls_under_lock) do not themselves lock",
		"flow from a read to a write is approximated by a flow-insensitive def-use closure (over-approximate: extra pairs, never fewer)")
	res.Undecided = []string{"actual schedules and linearizability of outcomes", "'side effects attempted at most once' as an observed count", "relative order of concurrent entries"}
	res.Trusted = []string{"go/types, go/cfg (x/tools v0.29.0)", "the checker's transfer function (e3_lock.go)"}
	_ = fmt.Sprint
}
