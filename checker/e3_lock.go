package main

// E3 — lock typestate over go/cfg.
//
// Per program point: pending (Lock issued, error not yet tested), must-held,
// may-held, obligations (held and not covered by a registered defer Unlock),
// deferred. Branch-sensitive on the Lock error. Also tracks, for C08, which
// database reads are still "open" (made under a lock that has not been
// released since) so that read-modify-write and check-then-act pairs can be
// required to sit inside one hold.

import (
	"fmt"
	"go/ast"
	"go/token"
	"go/types"
	"sort"
	"strings"

	"golang.org/x/tools/go/cfg"
)

type lockState struct {
	pending  map[string]types.Object // key -> error variable of the Lock call
	must     map[string]bool
	may      map[string]bool
	oblig    map[string]bool
	deferred map[string]bool
	reads    map[token.Pos]map[string]bool // open reads: read call site -> keys held since
}

func newLockState() *lockState {
	return &lockState{map[string]types.Object{}, map[string]bool{}, map[string]bool{}, map[string]bool{}, map[string]bool{}, map[token.Pos]map[string]bool{}}
}

func copySet(m map[string]bool) map[string]bool {
	n := make(map[string]bool, len(m))
	for k := range m {
		n[k] = true
	}
	return n
}

func (s *lockState) clone() *lockState {
	n := newLockState()
	for k, v := range s.pending {
		n.pending[k] = v
	}
	n.must, n.may, n.oblig, n.deferred = copySet(s.must), copySet(s.may), copySet(s.oblig), copySet(s.deferred)
	for p, ks := range s.reads {
		n.reads[p] = copySet(ks)
	}
	return n
}

func setKeys(m map[string]bool) string {
	var ks []string
	for k := range m {
		ks = append(ks, pretty(k))
	}
	sort.Strings(ks)
	return strings.Join(ks, ",")
}

func (s *lockState) String() string {
	var pk []string
	for k, o := range s.pending {
		pk = append(pk, fmt.Sprintf("%s/%p", k, o))
	}
	sort.Strings(pk)
	var rk []string
	for p, ks := range s.reads {
		rk = append(rk, fmt.Sprintf("%d:%s", p, rawKeys(ks)))
	}
	sort.Strings(rk)
	return fmt.Sprintf("P[%s] must[%s] may[%s] ob[%s] df[%s] rd[%s]", strings.Join(pk, ","), rawKeys(s.must), rawKeys(s.may), rawKeys(s.oblig), rawKeys(s.deferred), strings.Join(rk, ";"))
}

const stale = "~prev"

// rebindRange is applied on entry to a range-loop body: the loop variables get
// new values, so a lock still held under a key that mentions them is held for
// the *previous* iteration's value. Such keys are renamed (once) so that the
// new iteration's key is a different, possibly-equal id.
func rebindRange(info *types.Info, stmt ast.Stmt, s *lockState, keyIdents map[string][]types.Object) {
	rs, ok := stmt.(*ast.RangeStmt)
	if !ok {
		return
	}
	var objs []types.Object
	for _, e := range []ast.Expr{rs.Key, rs.Value} {
		if id, ok := e.(*ast.Ident); ok {
			if o := info.ObjectOf(id); o != nil {
				objs = append(objs, o)
			}
		}
	}
	mentions := func(k string) bool {
		if strings.HasSuffix(k, stale) {
			return false
		}
		for _, ko := range keyIdents[k] {
			for _, o := range objs {
				if ko == o {
					return true
				}
			}
		}
		return false
	}
	ren := func(m map[string]bool) {
		for k := range m {
			if mentions(k) {
				delete(m, k)
				m[k+stale] = true
			}
		}
	}
	ren(s.must)
	ren(s.may)
	ren(s.oblig)
	ren(s.deferred)
	for k, v := range s.pending {
		if mentions(k) {
			delete(s.pending, k)
			s.pending[k+stale] = v
		}
	}
	for _, ks := range s.reads {
		ren(ks)
	}
}

func rawKeys(m map[string]bool) string {
	var ks []string
	for k := range m {
		ks = append(ks, k)
	}
	sort.Strings(ks)
	return strings.Join(ks, ",")
}

func joinLock(a, b *lockState) *lockState {
	if a == nil {
		return b.clone()
	}
	n := newLockState()
	for k, v := range a.pending {
		if w, ok := b.pending[k]; ok && w == v {
			n.pending[k] = v
		} else {
			// acquired-or-not differs between the paths: keep it as a
			// possible hold that still needs releasing.
			n.may[k] = true
			n.oblig[k] = true
		}
	}
	for k := range b.pending {
		if _, ok := a.pending[k]; !ok {
			n.may[k] = true
			n.oblig[k] = true
		}
	}
	for k := range a.must {
		if b.must[k] {
			n.must[k] = true
		}
	}
	for _, s := range []*lockState{a, b} {
		for k := range s.may {
			n.may[k] = true
		}
		for k := range s.oblig {
			n.oblig[k] = true
		}
		for k := range s.deferred {
			n.deferred[k] = true
		}
	}
	for p, ka := range a.reads {
		if kb, ok := b.reads[p]; ok {
			m := map[string]bool{}
			for k := range ka {
				if kb[k] {
					m[k] = true
				}
			}
			n.reads[p] = m
		} else {
			n.reads[p] = copySet(ka)
		}
	}
	for p, kb := range b.reads {
		if _, ok := a.reads[p]; !ok {
			n.reads[p] = copySet(kb)
		}
	}
	return n
}

// lockSpec tells the engine which calls are lock operations.
type lockSpec struct {
	// classify returns kind "lock" | "unlock" | "access" | "exempt" | "" and the key expression.
	classify func(call *ast.CallExpr) (kind string, key ast.Expr, method string)
	// lockHasError: Lock returns an error that must be tested.
	lockHasError bool
	// write reports whether an access method modifies stored data.
	write func(method string) bool
	// boolRead reports whether an access method is a boolean check (check-then-act source).
	boolRead func(method string) bool
}

type lockFinding struct {
	rule, key, desc, detail string
	pos                     token.Pos
	verdict                 string
}

type lockUnitReport struct {
	unit                    *Unit
	nLock, nUnlock, nAccess int
	findings                []lockFinding
	appCallsUnderLock       []string
	hasLockOps              bool
}

type lockEngine struct {
	fset    *token.FileSet
	info    *types.Info
	spec    lockSpec
	units   []*Unit
	byObj   map[*types.Func]*Unit
	byLit   map[*ast.FuncLit]*Unit
	mayLock map[*Unit]bool
	// resolveDyn resolves a non-static call to units (delegate methods, func fields, local closures).
	resolveDyn func(u *Unit, call *ast.CallExpr) (targets []*Unit, opaqueApp bool)
	inlineAt   map[*ast.CallExpr]*Unit
	inlined    map[*Unit]bool
	cfgs       map[*Unit]*cfg.CFG
	dcache     map[*Unit]map[token.Pos]map[types.Object]bool
}

func newLockEngine(fset *token.FileSet, info *types.Info, units []*Unit, spec lockSpec) *lockEngine {
	e := &lockEngine{fset: fset, info: info, spec: spec, units: units, byObj: map[*types.Func]*Unit{}, byLit: map[*ast.FuncLit]*Unit{}, mayLock: map[*Unit]bool{}}
	for _, u := range units {
		if u.Obj != nil {
			e.byObj[u.Obj] = u
		}
		if u.Lit != nil {
			e.byLit[u.Lit] = u
		}
	}
	return e
}

// localClosure resolves an identifier used as a callee to the function literal
// it was (only) assigned from.
func (e *lockEngine) localClosure(u *Unit, id *ast.Ident) *Unit {
	obj := e.info.ObjectOf(id)
	if obj == nil {
		return nil
	}
	var found *ast.FuncLit
	n := 0
	root := u
	for root.Parent != nil {
		root = root.Parent
	}
	ast.Inspect(root.Body, func(m ast.Node) bool {
		as, ok := m.(*ast.AssignStmt)
		if !ok {
			return true
		}
		for i, l := range as.Lhs {
			if li, ok := l.(*ast.Ident); ok && e.info.ObjectOf(li) == obj && i < len(as.Rhs) {
				n++
				if fl, ok := as.Rhs[i].(*ast.FuncLit); ok {
					found = fl
				}
			}
		}
		return true
	})
	if n == 1 && found != nil {
		return e.byLit[found]
	}
	return nil
}

// callees resolves a call inside unit u.
func (e *lockEngine) callees(u *Unit, call *ast.CallExpr) (targets []*Unit, opaqueApp bool) {
	if fn := staticCallee(e.info, call); fn != nil {
		if t := e.byObj[fn]; t != nil {
			return []*Unit{t}, false
		}
		return nil, false // outside the analysed package: cannot name its lock interface
	}
	if fl, ok := call.Fun.(*ast.FuncLit); ok {
		if t := e.byLit[fl]; t != nil {
			return []*Unit{t}, false
		}
	}
	if id, ok := call.Fun.(*ast.Ident); ok {
		if _, isVar := e.info.ObjectOf(id).(*types.Var); isVar {
			if t := e.localClosure(u, id); t != nil {
				return []*Unit{t}, false
			}
			return nil, true
		}
		return nil, false // builtin or conversion
	}
	if e.resolveDyn != nil {
		return e.resolveDyn(u, call)
	}
	return nil, false
}

func (e *lockEngine) computeMayLock() {
	direct := map[*Unit]bool{}
	calls := map[*Unit][]*Unit{}
	for _, u := range e.units {
		inspectShallow(u.Body, func(n ast.Node) bool {
			c, ok := n.(*ast.CallExpr)
			if !ok {
				return true
			}
			if k, _, _ := e.spec.classify(c); k == "lock" {
				direct[u] = true
			}
			ts, _ := e.callees(u, c)
			calls[u] = append(calls[u], ts...)
			return true
		})
	}
	for u := range direct {
		e.mayLock[u] = true
	}
	for changed := true; changed; {
		changed = false
		for _, u := range e.units {
			if e.mayLock[u] {
				continue
			}
			for _, t := range calls[u] {
				if e.mayLock[t] {
					e.mayLock[u] = true
					changed = true
					break
				}
			}
		}
	}
}

// derives computes, for each read call site of the unit, the set of variables
// whose value may derive from that read's result (flow-insensitive def-use
// closure over assignments; a read's result derives from that read only).
func (e *lockEngine) derives(u *Unit) map[token.Pos]map[types.Object]bool {
	D := map[token.Pos]map[types.Object]bool{}
	isErr := func(o types.Object) bool {
		return o == nil || o.Type() == nil || o.Type().String() == "error"
	}
	readOf := func(x ast.Expr) (token.Pos, bool) {
		c, ok := x.(*ast.CallExpr)
		if !ok {
			return 0, false
		}
		k, _, m := e.spec.classify(c)
		if k == "access" && !e.spec.write(m) {
			return c.Pos(), true
		}
		return 0, false
	}
	type asg struct {
		lhs []types.Object
		rhs ast.Expr
	}
	var asgs []asg
	addAsg := func(lhs []ast.Expr, rhs []ast.Expr) {
		objs := func(es []ast.Expr) []types.Object {
			var out []types.Object
			for _, l := range es {
				// root identifier of the assigned location
				for {
					switch x := l.(type) {
					case *ast.IndexExpr:
						l = x.X
						continue
					case *ast.SelectorExpr:
						l = x.X
						continue
					case *ast.StarExpr:
						l = x.X
						continue
					case *ast.ParenExpr:
						l = x.X
						continue
					}
					break
				}
				if id, ok := l.(*ast.Ident); ok {
					if o := e.info.ObjectOf(id); !isErr(o) {
						out = append(out, o)
					}
				}
			}
			return out
		}
		if len(rhs) == 1 {
			asgs = append(asgs, asg{objs(lhs), rhs[0]})
			return
		}
		for i := range lhs {
			if i < len(rhs) {
				asgs = append(asgs, asg{objs(lhs[i : i+1]), rhs[i]})
			}
		}
	}
	inspectShallow(u.Body, func(n ast.Node) bool {
		switch x := n.(type) {
		case *ast.AssignStmt:
			addAsg(x.Lhs, x.Rhs)
		case *ast.ValueSpec:
			var l []ast.Expr
			for _, nm := range x.Names {
				l = append(l, nm)
			}
			if len(x.Values) > 0 {
				addAsg(l, x.Values)
			}
		case *ast.RangeStmt:
			var l []ast.Expr
			if x.Key != nil {
				l = append(l, x.Key)
			}
			if x.Value != nil {
				l = append(l, x.Value)
			}
			addAsg(l, []ast.Expr{x.X})
		case *ast.ExprStmt:
			// receiver mutation: x.Set...(y): x derives from y
			if c, ok := x.X.(*ast.CallExpr); ok {
				if sel, ok := c.Fun.(*ast.SelectorExpr); ok {
					for _, a := range c.Args {
						addAsg([]ast.Expr{sel.X}, []ast.Expr{a})
					}
				}
			}
		}
		return true
	})
	for _, a := range asgs {
		if p, ok := readOf(a.rhs); ok {
			if D[p] == nil {
				D[p] = map[types.Object]bool{}
			}
			for _, o := range a.lhs {
				D[p][o] = true
			}
		}
	}
	for changed := true; changed; {
		changed = false
		for _, a := range asgs {
			if _, ok := readOf(a.rhs); ok {
				continue
			}
			used := identsIn(e.info, a.rhs)
			for p, set := range D {
				hit := false
				for _, o := range used {
					if set[o] {
						hit = true
						break
					}
				}
				if !hit {
					continue
				}
				for _, o := range a.lhs {
					if !D[p][o] {
						D[p][o] = true
						changed = true
					}
				}
			}
		}
	}
	return D
}

// lockCtx is the state shared by one top-level analysis and the closures it
// analyses in context (inlined at their call sites).
type lockCtx struct {
	reports    map[*Unit]*lockUnitReport
	order      []*Unit
	emit       bool
	seen       map[string]bool
	counted    map[token.Pos]bool
	readMethod map[token.Pos]string
	keyIdents  map[string][]types.Object
	lockSite   map[string]token.Pos
	depth      int
}

func (cx *lockCtx) rep(u *Unit) *lockUnitReport {
	r := cx.reports[u]
	if r == nil {
		r = &lockUnitReport{unit: u, hasLockOps: true}
		cx.reports[u] = r
		cx.order = append(cx.order, u)
	}
	return r
}

// computeInline finds the function literals that are only ever called from
// their enclosing function (immediately invoked, or bound once to a local
// variable whose every use is a call). They are analysed in the context of each
// call site instead of as free-standing units, so a closure may release or
// acquire a lock on behalf of its parent.
func (e *lockEngine) computeInline() {
	e.inlineAt = map[*ast.CallExpr]*Unit{}
	e.inlined = map[*Unit]bool{}
	for _, u := range e.units {
		if u.Lit != nil || u.Decl == nil {
			continue
		}
		// variable -> literal, when assigned exactly once
		asg := map[types.Object]*ast.FuncLit{}
		nasg := map[types.Object]int{}
		ast.Inspect(u.Body, func(n ast.Node) bool {
			switch x := n.(type) {
			case *ast.AssignStmt:
				for i, l := range x.Lhs {
					if id, ok := l.(*ast.Ident); ok && i < len(x.Rhs) {
						if o := e.info.ObjectOf(id); o != nil {
							nasg[o]++
							if fl, ok := x.Rhs[i].(*ast.FuncLit); ok {
								asg[o] = fl
							}
						}
					}
				}
			case *ast.ValueSpec:
				for i, id := range x.Names {
					if o := e.info.ObjectOf(id); o != nil && i < len(x.Values) {
						nasg[o]++
						if fl, ok := x.Values[i].(*ast.FuncLit); ok {
							asg[o] = fl
						}
					}
				}
			}
			return true
		})
		// uses of each such variable other than as a callee
		callee := map[*ast.Ident]bool{}
		calls := map[types.Object][]*ast.CallExpr{}
		ast.Inspect(u.Body, func(n ast.Node) bool {
			if c, ok := n.(*ast.CallExpr); ok {
				switch f := c.Fun.(type) {
				case *ast.Ident:
					callee[f] = true
					if o := e.info.ObjectOf(f); o != nil {
						calls[o] = append(calls[o], c)
					}
				case *ast.FuncLit:
					if t := e.byLit[f]; t != nil {
						e.inlineAt[c] = t
						e.inlined[t] = true
					}
				}
			}
			return true
		})
		otherUse := map[types.Object]bool{}
		ast.Inspect(u.Body, func(n ast.Node) bool {
			if id, ok := n.(*ast.Ident); ok && !callee[id] {
				if o := e.info.Uses[id]; o != nil {
					otherUse[o] = true
				}
			}
			return true
		})
		for o, fl := range asg {
			if nasg[o] == 1 && !otherUse[o] && len(calls[o]) > 0 {
				if t := e.byLit[fl]; t != nil {
					for _, c := range calls[o] {
						e.inlineAt[c] = t
					}
					e.inlined[t] = true
				}
			}
		}
	}
	// go/defer of a literal is not a call in context
	for _, u := range e.units {
		ast.Inspect(u.Body, func(n ast.Node) bool {
			var c *ast.CallExpr
			switch x := n.(type) {
			case *ast.GoStmt:
				c = x.Call
			case *ast.DeferStmt:
				c = x.Call
			}
			if c != nil {
				if t := e.inlineAt[c]; t != nil {
					delete(e.inlineAt, c)
					delete(e.inlined, t)
				}
			}
			return true
		})
	}
}

func (e *lockEngine) hasLockOps(u *Unit) bool {
	has := false
	inspectShallow(u.Body, func(n ast.Node) bool {
		if c, ok := n.(*ast.CallExpr); ok {
			if k, _, _ := e.spec.classify(c); k != "" {
				has = true
			}
		}
		return true
	})
	return has
}

// analyse runs the typestate on a free-standing unit (entry state empty) and
// returns one report per unit touched (the unit itself and closures analysed
// in its context).
func (e *lockEngine) analyse(u *Unit) []*lockUnitReport {
	if e.inlineAt == nil {
		e.computeInline()
	}
	cx := &lockCtx{reports: map[*Unit]*lockUnitReport{}, seen: map[string]bool{}, counted: map[token.Pos]bool{}, readMethod: map[token.Pos]string{}, keyIdents: map[string][]types.Object{}, lockSite: map[string]token.Pos{}}
	e.flow(cx, u, newLockState(), false)
	var out []*lockUnitReport
	for _, x := range cx.order {
		out = append(out, cx.reports[x])
	}
	return out
}

// flow analyses unit u starting from the given entry state and returns the
// join of its exit states.
func (e *lockEngine) flow(cx *lockCtx, u *Unit, entry *lockState, inline bool) *lockState {
	cx.depth++
	defer func() { cx.depth-- }()
	rep := cx.rep(u)
	if cx.depth > 6 {
		if cx.emit {
			rep.findings = append(rep.findings, lockFinding{rule: "ENGINE", desc: "closure nesting too deep to analyse in context", pos: u.Body.Pos(), verdict: UNDECIDED})
		}
		return entry.clone()
	}
	g := e.cfgOf(u)
	D := e.derivesOf(u)
	readMethod, keyIdents, lockSite, counted := cx.readMethod, cx.keyIdents, cx.lockSite, cx.counted
	var parentDeferred map[string]bool
	entry = entry.clone()
	if inline {
		parentDeferred = entry.deferred
		entry.deferred = map[string]bool{}
	}
	outerEmit := cx.emit
	add := func(verdict, rule, key, desc, detail string, pos token.Pos) {
		if !cx.emit {
			return
		}
		id := fmt.Sprintf("%s|%s|%s|%d", rule, key, desc, pos)
		if cx.seen[id] {
			return
		}
		cx.seen[id] = true
		rep.findings = append(rep.findings, lockFinding{rule: rule, key: key, desc: desc, detail: detail, pos: pos, verdict: verdict})
	}
	emitNow := func() bool { return cx.emit }
	// transfer applies one CFG node to s. Returns an optional refinement to
	// apply on the successors when the node is the block's branch condition.
	type refine func(succ int, st *lockState)
	transfer := func(s *lockState, n ast.Node, isCond bool) refine {
		var lhsErr types.Object
		discard := false
		switch st := n.(type) {
		case *ast.AssignStmt:
			if len(st.Rhs) == 1 && len(st.Lhs) == 1 {
				if c, ok := st.Rhs[0].(*ast.CallExpr); ok {
					if k, _, _ := e.spec.classify(c); k == "lock" {
						if id, ok := st.Lhs[0].(*ast.Ident); ok && id.Name != "_" {
							lhsErr = e.info.ObjectOf(id)
						} else {
							discard = true
						}
					}
				}
			}
			// a variable that is part of a held key must not change
			for _, l := range st.Lhs {
				if id, ok := l.(*ast.Ident); ok {
					o := e.info.ObjectOf(id)
					for k := range s.may {
						for _, ko := range keyIdents[k] {
							if ko == o && o != nil {
								add(UNDECIDED, "KEY", pretty(k), "key variable "+id.Name+" assigned while the lock is held", "the engine identifies a lock by its key expression; reassignment makes Lock/Unlock pairing unknowable", st.Pos())
							}
						}
					}
				}
			}
		case *ast.ExprStmt:
			if c, ok := st.X.(*ast.CallExpr); ok {
				if k, _, _ := e.spec.classify(c); k == "lock" {
					discard = true
				}
			}
		}
		_, isDefer := n.(*ast.DeferStmt)
		if _, isGo := n.(*ast.GoStmt); isGo {
			return nil
		}
		inspectShallow(n, func(m ast.Node) bool {
			c, ok := m.(*ast.CallExpr)
			if !ok {
				return true
			}
			kind, keyExpr, method := e.spec.classify(c)
			switch kind {
			case "lock":
				if !counted[c.Pos()] {
					counted[c.Pos()] = true
					rep.nLock++
				}
				k := canon(e.info, keyExpr)
				keyIdents[k] = identsIn(e.info, keyExpr)
				_, isPending := s.pending[k]
				if s.may[k] || isPending {
					add(VIOLATION, "R2", pretty(k), "Lock("+pretty(k)+") while the same request may still hold it", "may-held at this Lock: {"+setKeys(s.may)+"}", c.Pos())
				} else if s.may[k+stale] {
					add(VIOLATION, "R2", pretty(k), "Lock("+pretty(k)+") while a lock taken on "+pretty(k)+" in an earlier loop iteration is still held", "the two iterations' ids cannot be shown distinct (the same id listed twice is locked again while held); may-held: {"+setKeys(s.may)+"}", c.Pos())
				} else {
					add(OK, "R2", pretty(k), "Lock("+pretty(k)+") not already held", "", c.Pos())
				}
				others := copySet(s.may)
				for pk := range s.pending {
					others[pk] = true
				}
				delete(others, k)
				if len(others) > 0 {
					add(VIOLATION, "NEST", pretty(k), "Lock("+pretty(k)+") taken while holding {"+setKeys(others)+"}", "two ids held at once: requests locking them in opposite order can deadlock", c.Pos())
				} else {
					add(OK, "NEST", pretty(k), "Lock("+pretty(k)+") taken with no other lock held", "", c.Pos())
				}
				for _, ks := range s.reads {
					delete(ks, k)
				}
				lockSite[k] = c.Pos()
				if !e.spec.lockHasError {
					s.must[k], s.may[k], s.oblig[k] = true, true, true
				} else if discard || lhsErr == nil {
					add(VIOLATION, "R1", pretty(k), "error result of Lock("+pretty(k)+") is discarded", "a failed Lock is treated as acquired: the following Unlock releases a lock that was never taken", c.Pos())
					s.must[k], s.may[k], s.oblig[k] = true, true, true
				} else {
					add(OK, "R1", pretty(k), "error result of Lock("+pretty(k)+") is bound to a variable", "", c.Pos())
					s.pending[k] = lhsErr
				}
			case "unlock":
				if !counted[c.Pos()] {
					counted[c.Pos()] = true
					rep.nUnlock++
				}
				k := canon(e.info, keyExpr)
				if isDefer {
					if !s.may[k] {
						add(VIOLATION, "R3", pretty(k), "defer Unlock("+pretty(k)+") registered for a lock that is not held", "may-held: {"+setKeys(s.may)+"}", c.Pos())
					} else {
						add(OK, "R3", pretty(k), "defer Unlock("+pretty(k)+") registered while held", "", c.Pos())
					}
					if s.deferred[k] {
						add(VIOLATION, "R3", pretty(k), "second defer Unlock("+pretty(k)+") registered", "the lock would be released twice at exit", c.Pos())
					}
					delete(s.oblig, k)
					s.deferred[k] = true
				} else {
					if _, p := s.pending[k]; p {
						add(VIOLATION, "R1", pretty(k), "Unlock("+pretty(k)+") before the Lock error was tested", "", c.Pos())
						delete(s.pending, k)
					} else if !s.may[k] {
						add(VIOLATION, "R3", pretty(k), "Unlock("+pretty(k)+") of a lock that is not held on this path", "may-held: {"+setKeys(s.may)+"}", c.Pos())
					} else if s.deferred[k] {
						add(VIOLATION, "R3", pretty(k), "Unlock("+pretty(k)+") although a deferred Unlock is registered", "the lock would be released twice", c.Pos())
					} else if !s.must[k] {
						add(VIOLATION, "R3", pretty(k), "Unlock("+pretty(k)+") of a lock held on only some paths reaching here", "must-held: {"+setKeys(s.must)+"}", c.Pos())
					} else {
						add(OK, "R3", pretty(k), "Unlock("+pretty(k)+") of a held lock", "", c.Pos())
					}
					delete(s.must, k)
					delete(s.may, k)
					delete(s.oblig, k)
					delete(s.deferred, k)
					for _, ks := range s.reads {
						delete(ks, k)
					}
				}
			case "exempt":
			case "access":
				if !counted[c.Pos()] {
					counted[c.Pos()] = true
					rep.nAccess++
				}
				if len(s.must) == 0 {
					add(VIOLATION, "R5", method, method+" called without a lock held on every path", "must-held is empty; may-held {"+setKeys(s.may)+"}", c.Pos())
				} else {
					add(OK, "R5", method, method+" called under lock {"+setKeys(s.must)+"}", "", c.Pos())
				}
				if e.spec.write(method) {
					// pairs
					used := map[types.Object]bool{}
					for i, a := range c.Args {
						if i == 0 {
							continue
						}
						for _, o := range identsIn(e.info, a) {
							used[o] = true
						}
					}
					var sites []token.Pos
					for p := range s.reads {
						sites = append(sites, p)
					}
					sort.Slice(sites, func(i, j int) bool { return sites[i] < sites[j] })
					for _, p := range sites {
						flow := false
						for o := range D[p] {
							if used[o] {
								flow = true
							}
						}
						rm := readMethod[p]
						isBool := e.spec.boolRead(rm)
						if !flow && !isBool {
							continue
						}
						rule := "RMW"
						what := fmt.Sprintf("%s result flows into %s", rm, method)
						if !flow {
							rule = "CTA"
							what = fmt.Sprintf("%s check then %s", rm, method)
						}
						if len(s.reads[p]) == 0 {
							add(VIOLATION, rule, rm+"->"+method, what+": not inside one lock hold", fmt.Sprintf("the lock held at %s (line %d) was released before %s", rm, e.fset.Position(p).Line, method), c.Pos())
						} else {
							add(OK, rule, rm+"->"+method, what+": one hold of {"+setKeys(s.reads[p])+"}", "", c.Pos())
						}
					}
				} else {
					readMethod[c.Pos()] = method
					s.reads[c.Pos()] = copySet(s.must)
				}
			default:
				// other calls: nested locking and application code under lock
				if t := e.inlineAt[c]; t != nil {
					// a closure called only from here: analyse it in this context
					ex := e.flow(cx, t, s, true)
					*s = *ex
					return true
				}
				ts, opaque := e.callees(u, c)
				held := copySet(s.may)
				for pk := range s.pending {
					held[pk] = true
				}
				for _, t := range ts {
					if e.mayLock[t] {
						if len(held) > 0 {
							add(VIOLATION, "NEST", t.Name, "call of "+t.Name+" (which locks) while holding {"+setKeys(held)+"}", "nested acquisition through a callee", c.Pos())
						} else {
							add(OK, "NEST", t.Name, "call of "+t.Name+" (which locks) with no lock held", "", c.Pos())
						}
					}
				}
				if opaque && len(held) > 0 && emitNow() {
					rep.appCallsUnderLock = append(rep.appCallsUnderLock, fmt.Sprintf("%s: %s called while holding {%s}", relPos(e.fset, c.Pos()), types.ExprString(c.Fun), setKeys(held)))
				}
			}
			return true
		})
		if r, ok := n.(*ast.ReturnStmt); ok && inline {
			if len(s.pending) > 0 {
				add(VIOLATION, "R1", "", "return while a Lock error is still untested", "", r.Pos())
			}
		} else if ok {
			if len(s.oblig) > 0 {
				var sites []string
				for k := range s.oblig {
					sites = append(sites, fmt.Sprintf("%s locked at line %d", pretty(k), e.fset.Position(lockSite[k]).Line))
				}
				sort.Strings(sites)
				add(VIOLATION, "R4", setKeys(s.oblig), "return with {"+setKeys(s.oblig)+"} still locked and no deferred Unlock", strings.Join(sites, "; ")+fmt.Sprintf("; offending exit: return at line %d", e.fset.Position(r.Pos()).Line), r.Pos())
			} else {
				add(OK, "R4", "", "return releases every lock", "", r.Pos())
			}
			if len(s.pending) > 0 {
				add(VIOLATION, "R1", "", "return while a Lock error is still untested", "", r.Pos())
			}
		}
		if isCond {
			if be, ok := n.(*ast.BinaryExpr); ok && (be.Op == token.NEQ || be.Op == token.EQL) {
				var id *ast.Ident
				if x, ok := be.X.(*ast.Ident); ok {
					if y, ok := be.Y.(*ast.Ident); ok && y.Name == "nil" {
						id = x
					}
				}
				if id != nil {
					obj := e.info.ObjectOf(id)
					op := be.Op
					return func(succ int, st *lockState) {
						for k, eo := range st.pending {
							if eo == obj {
								failed := (op == token.NEQ && succ == 0) || (op == token.EQL && succ == 1)
								delete(st.pending, k)
								if !failed {
									st.must[k], st.may[k], st.oblig[k] = true, true, true
								}
							}
						}
					}
				}
			}
		}
		// an error variable overwritten before it was tested
		if as, ok := n.(*ast.AssignStmt); ok {
			for _, l := range as.Lhs {
				if id, ok := l.(*ast.Ident); ok {
					o := e.info.ObjectOf(id)
					for k, eo := range s.pending {
						if eo == o && o != nil && o != lhsErr {
							add(VIOLATION, "R1", pretty(k), "error of Lock("+pretty(k)+") overwritten before it was tested", "", as.Pos())
							delete(s.pending, k)
							s.must[k], s.may[k], s.oblig[k] = true, true, true
						}
					}
				}
			}
		}
		return nil
	}

	in := make([]*lockState, len(g.Blocks))
	in[0] = entry
	runBlock := func(b *cfg.Block) (out *lockState, rf refine) {
		s := in[b.Index].clone()
		for ni, n := range b.Nodes {
			r := transfer(s, n, ni == len(b.Nodes)-1 && len(b.Succs) == 2)
			if r != nil {
				rf = r
			}
		}
		return s, rf
	}
	cx.emit = false
	work := []*cfg.Block{g.Blocks[0]}
	iter := 0
	for len(work) > 0 {
		iter++
		if iter > 100000 {
			cx.emit = true
			add(UNDECIDED, "ENGINE", "", "fixpoint did not converge", "", u.Body.Pos())
			cx.emit = outerEmit
			return entry
		}
		b := work[0]
		work = work[1:]
		s, rf := runBlock(b)
		for si, succ := range b.Succs {
			out := s.clone()
			if rf != nil {
				rf(si, out)
			}
			if b.Kind == cfg.KindRangeLoop && si == 0 {
				rebindRange(e.info, b.Stmt, out, keyIdents)
			}
			nj := joinLock(in[succ.Index], out)
			if in[succ.Index] == nil || nj.String() != in[succ.Index].String() {
				in[succ.Index] = nj
				work = append(work, succ)
			}
		}
	}
	// reporting pass over the stable states (top level, or when the caller is reporting)
	cx.emit = outerEmit || !inline
	var exit *lockState
	for _, b := range g.Blocks {
		if in[b.Index] == nil {
			continue // unreachable
		}
		s, _ := runBlock(b)
		if len(b.Succs) == 0 && b.Live {
			endsInReturn := false
			if len(b.Nodes) > 0 {
				_, endsInReturn = b.Nodes[len(b.Nodes)-1].(*ast.ReturnStmt)
			}
			if !endsInReturn && !inline {
				// falling off the end, or a panic/no-return call
				if len(s.oblig) > 0 {
					add(VIOLATION, "R4", setKeys(s.oblig), "function end reached with {"+setKeys(s.oblig)+"} still locked", "", u.Body.End())
				} else {
					add(OK, "R4", "", "function end releases every lock", "", u.Body.End())
				}
			}
			if inline {
				// deferred calls registered inside the closure run now
				for k := range s.deferred {
					delete(s.must, k)
					delete(s.may, k)
					delete(s.oblig, k)
					for _, ks := range s.reads {
						delete(ks, k)
					}
				}
				s.deferred = copySet(parentDeferred)
			}
			if exit == nil {
				exit = s
			} else {
				exit = joinLock(exit, s)
			}
		}
	}
	cx.emit = outerEmit
	if exit == nil {
		exit = entry.clone() // no normal exit
		if inline {
			exit.deferred = copySet(parentDeferred)
		}
	}
	return exit
}

func (e *lockEngine) cfgOf(u *Unit) *cfg.CFG {
	if e.cfgs == nil {
		e.cfgs = map[*Unit]*cfg.CFG{}
	}
	if g, ok := e.cfgs[u]; ok {
		return g
	}
	g := cfg.New(u.Body, func(*ast.CallExpr) bool { return true })
	e.cfgs[u] = g
	return g
}

func (e *lockEngine) derivesOf(u *Unit) map[token.Pos]map[types.Object]bool {
	if e.dcache == nil {
		e.dcache = map[*Unit]map[token.Pos]map[types.Object]bool{}
	}
	if d, ok := e.dcache[u]; ok {
		return d
	}
	d := e.derives(u)
	e.dcache[u] = d
	return d
}
