package main

import (
	"fmt"
	"go/token"

	"golang.org/x/tools/go/ssa"
)

// C16-R8 — JSON-null deletion of a client Update.
//
// "removes the members supplied as JSON null" is about the members of the
// activity's *object*. The rule decides the provenance of the deleted keys:
// every delete(m, k) on the stored object's map inside the per-object body of
// SocialWrappedCallbacks.update takes k from a range over a map that is
// (nil or) the idx'th value of rawActivity["object"], idx being the index the
// supplied object itself is taken from (op.At(idx)); and the delete happens
// only where the ranged value is nil. The derivation follows static calls into
// package pub (a helper returning the raw object) and local variables.

type rawObjWalk struct {
	p       *Pub
	indices []ssa.Value // index operands used to select an element of the object array, mapped to the anchor function
	why     string
}

// isRawActivity: v is the raw activity map (field rawActivity, or a parameter bound to it).
func isRawActivity(v ssa.Value, rawParams map[*ssa.Parameter]bool) bool {
	v = unwrap(v)
	if _, ok := loadOfField(v, "rawActivity"); ok {
		return true
	}
	if pa, ok := v.(*ssa.Parameter); ok && rawParams[pa] {
		return true
	}
	return false
}

// fromRawObject: every value v can denote is nil or (an element of) rawActivity["object"].
func (w *rawObjWalk) fromRawObject(v ssa.Value, rawParams map[*ssa.Parameter]bool, bind map[*ssa.Parameter]ssa.Value, depth int, seen map[ssa.Value]bool) bool {
	if depth > 6 {
		w.why = "derivation too deep"
		return false
	}
	if seen[v] {
		return true
	}
	seen[v] = true
	if isNilConst(v) {
		return true
	}
	switch x := v.(type) {
	case *ssa.Phi:
		for _, e := range x.Edges {
			if !w.fromRawObject(e, rawParams, bind, depth, seen) {
				return false
			}
		}
		return true
	case *ssa.ChangeType:
		return w.fromRawObject(x.X, rawParams, bind, depth, seen)
	case *ssa.MakeInterface:
		return w.fromRawObject(x.X, rawParams, bind, depth, seen)
	case *ssa.ChangeInterface:
		return w.fromRawObject(x.X, rawParams, bind, depth, seen)
	case *ssa.TypeAssert:
		return w.fromRawObject(x.X, rawParams, bind, depth, seen)
	case *ssa.Extract:
		switch t := x.Tuple.(type) {
		case *ssa.TypeAssert:
			if x.Index == 0 {
				return w.fromRawObject(t.X, rawParams, bind, depth, seen)
			}
		case *ssa.Lookup:
			if x.Index == 0 {
				return w.fromRawObject(t, rawParams, bind, depth, seen)
			}
		case *ssa.Call:
			return w.fromCall(t, x.Index, rawParams, bind, depth, seen)
		}
	case *ssa.Lookup:
		if s, ok := stringConst(x.Index); ok && s == "object" && isRawActivity(x.X, rawParams) {
			return true
		}
		if s, ok := stringConst(x.Index); ok {
			w.why = fmt.Sprintf("the keys come from member %q of %s", s, valueLabel(x.X))
		} else {
			w.why = "the keys come from a lookup that is not rawActivity[\"object\"]"
		}
		return false
	case *ssa.UnOp:
		if x.Op == token.MUL {
			switch a := x.X.(type) {
			case *ssa.IndexAddr:
				idx := a.Index
				if pa, ok := unwrap(idx).(*ssa.Parameter); ok && bind[pa] != nil {
					idx = bind[pa]
				}
				w.indices = append(w.indices, idx)
				return w.fromRawObject(a.X, rawParams, bind, depth, seen)
			case *ssa.Alloc:
				n := 0
				for _, r := range *a.Referrers() {
					if st, ok := r.(*ssa.Store); ok && st.Addr == a {
						n++
						if !w.fromRawObject(st.Val, rawParams, bind, depth, seen) {
							return false
						}
					}
				}
				if n > 0 {
					return true
				}
			}
		}
		if isRawActivity(x, rawParams) {
			w.why = "the keys are the top-level members of the raw activity itself, not of its object"
			return false
		}
	case *ssa.Field:
		if isRawActivity(x, rawParams) {
			w.why = "the keys are the top-level members of the raw activity itself, not of its object"
			return false
		}
	case *ssa.Parameter:
		if rawParams[x] {
			w.why = "the keys are the top-level members of the raw activity itself, not of its object"
			return false
		}
	case *ssa.Call:
		return w.fromCall(x, 0, rawParams, bind, depth, seen)
	}
	if w.why == "" {
		w.why = "the ranged map is " + valueLabel(v) + ", which is not derived from rawActivity[\"object\"]"
	}
	return false
}

func (w *rawObjWalk) fromCall(c *ssa.Call, resIdx int, rawParams map[*ssa.Parameter]bool, bind map[*ssa.Parameter]ssa.Value, depth int, seen map[ssa.Value]bool) bool {
	callee := c.Common().StaticCallee()
	if callee == nil || callee.Pkg == nil || callee.Pkg.Pkg != w.p.Pkg.Types || len(callee.Blocks) == 0 {
		w.why = "the ranged map is the result of " + callName(c) + ", which is not a function of package pub that can be followed"
		return false
	}
	rp := map[*ssa.Parameter]bool{}
	bd := map[*ssa.Parameter]ssa.Value{}
	for i, pa := range callee.Params {
		if i >= len(c.Common().Args) {
			break
		}
		a := c.Common().Args[i]
		if isRawActivity(a, rawParams) {
			rp[pa] = true
		}
		if ap, ok := unwrap(a).(*ssa.Parameter); ok && bind[ap] != nil {
			bd[pa] = bind[ap]
		} else {
			bd[pa] = a
		}
	}
	for _, r := range returnsIn(callee) {
		if resIdx >= len(r.Results) {
			return false
		}
		if !w.fromRawObject(r.Results[resIdx], rp, bd, depth+1, map[ssa.Value]bool{}) {
			return false
		}
	}
	return true
}

func checkC16NullDeletion(res *Result, p *Pub) {
	const rule = "C16-R8"
	res.Rule(rule, "JSON-null deletion: every delete on the stored object's map in the per-object body of the social update takes its key from a range over (nil or) the idx'th value of rawActivity[\"object\"] — idx being the index the supplied object is taken from — and happens only where the ranged value is nil")
	fn := p.MustFunc(res, rule, "SocialWrappedCallbacks.update$1")
	if fn == nil {
		return
	}
	ff := computeFacts(fn)
	g := flowOf(fn)
	// indices the supplied object is selected with: arguments of At(·)
	atArgs := map[ssa.Value]bool{}
	for _, ci := range callsIn(fn) {
		if ci.Common().IsInvoke() && ci.Common().Method.Name() == "At" && len(ci.Common().Args) == 1 {
			atArgs[unwrap(ci.Common().Args[0])] = true
		}
	}
	nDel := 0
	for _, ci := range callsIn(fn) {
		b, ok := ci.Common().Value.(*ssa.Builtin)
		if !ok || b.Name() != "delete" {
			continue
		}
		args := ci.Common().Args
		if !anyBackward(g, args[0], func(x ssa.Value) bool { return isCallNamed(x, "Database.Get") }) {
			continue // not the stored object's map
		}
		nDel++
		key, _ := unwrap(args[1]).(*ssa.Extract)
		var next *ssa.Next
		if key != nil && key.Index == 1 {
			next, _ = key.Tuple.(*ssa.Next)
		}
		if next == nil || next.IsString {
			res.bad(rule, fname(fn), p.pos(ci), "the deleted key is the key of a range over the raw object", "the key is "+valueLabel(args[1])+", not a ranged map key")
			continue
		}
		rng, _ := next.Iter.(*ssa.Range)
		if rng == nil {
			res.bad(rule, fname(fn), p.pos(ci), "the deleted key is the key of a range over the raw object", "iterator is not a range")
			continue
		}
		w := &rawObjWalk{p: p}
		okSrc := w.fromRawObject(rng.X, map[*ssa.Parameter]bool{}, map[*ssa.Parameter]ssa.Value{}, 0, map[ssa.Value]bool{})
		res.check(okSrc, rule, fname(fn), p.pos(ci), "the members deleted are those of the activity's object (rawActivity[\"object\"]), never the activity's own", w.why)
		if okSrc {
			okIdx := true
			detail := ""
			for _, ix := range w.indices {
				if !atArgs[unwrap(ix)] {
					okIdx = false
					detail = "the raw object is selected with " + valueLabel(ix) + ", the supplied object with a different index"
				}
			}
			res.check(okIdx, rule, fname(fn), p.pos(ci), "the raw object consulted is the one at the index of the supplied object (At(idx))", detail)
		}
		// only where the ranged value is nil
		var val ssa.Value
		for _, r := range *next.Referrers() {
			if ex, ok := r.(*ssa.Extract); ok && ex.Index == 2 {
				val = ex
			}
		}
		okNil := val != nil && ff.has(ci, val, fNIL, "")
		res.check(okNil, rule, fname(fn), p.pos(ci), "a member is deleted only where the raw object gives it as null", "the delete is not guarded by <ranged value> == nil")
	}
	res.Count("C16-R8 null-deletion sites", nDel, 1)
}
