package main

import (
	"fmt"
	"go/token"

	"golang.org/x/tools/go/ssa"
)

// C16-R8 — JSON-null deletion of a client Update.
//
// "removes the members supplied as JSON null" is about the members of the
// activity's *object*. The rule decides the provenance of the deleted keys:
// every delete(m, k) on the stored object's map inside the per-object body of
// SocialWrappedCallbacks.update takes k from a range over a map that is
// (nil or) the idx'th value of rawActivity["object"], idx being the index the
// supplied object itself is taken from (op.At(idx)); and the delete happens
// only where the ranged value is nil. The derivation follows static calls into
// package pub (a helper returning the raw object) and local variables.

type rawObjWalk struct {
	p       *Pub
	indices []ssa.Value // index operands used to select an element of the object array, mapped to the anchor function
	why     string
}

// isRawActivity: v is the raw activity map (field rawActivity, or a parameter bound to it).
func isRawActivity(v ssa.Value, rawParams map[*ssa.Parameter]bool) bool {
	v = unwrap(v)
	if _, ok := loadOfField(v, "rawActivity"); ok {
		return true
	}
	if pa, ok := v.(*ssa.Parameter); ok && rawParams[pa] {
		return true
	}
	return false
}

// fromRawObject: every value v can denote is nil or (an element of) rawActivity["object"].
func (w *rawObjWalk) fromRawObject(v ssa.Value, rawParams map[*ssa.Parameter]bool, bind map[*ssa.Parameter]ssa.Value, depth int, seen map[ssa.Value]bool) bool {
	if depth > 6 {
		w.why = "derivation too deep"
		return false
	}
	if seen[v] {
		return true
	}
	seen[v] = true
	if isNilConst(v) {
		return true
	}
	switch x := v.(type) {
	case *ssa.Phi:
		for _, e := range x.Edges {
			if !w.fromRawObject(e, rawParams, bind, depth, seen) {
				return false
			}
		}
		return true
	case *ssa.ChangeType:
		return w.fromRawObject(x.X, rawParams, bind, depth, seen)
	case *ssa.MakeInterface:
		return w.fromRawObject(x.X, rawParams, bind, depth, seen)
	case *ssa.ChangeInterface:
		return w.fromRawObject(x.X, rawParams, bind, depth, seen)
	case *ssa.TypeAssert:
		return w.fromRawObject(x.X, rawParams, bind, depth, seen)
	case *ssa.Extract:
		switch t := x.Tuple.(type) {
		case *ssa.TypeAssert:
			if x.Index == 0 {
				return w.fromRawObject(t.X, rawParams, bind, depth, seen)
			}
		case *ssa.Lookup:
			if x.Index == 0 {
				return w.fromRawObject(t, rawParams, bind, depth, seen)
			}
		case *ssa.Call:
			return w.fromCall(t, x.Index, rawParams, bind, depth, seen)
		}
	case *ssa.Lookup:
		if s, ok := stringConst(x.Index); ok && s == "object" && isRawActivity(x.X, rawParams) {
			return true
		}
		if s, ok := stringConst(x.Index); ok {
			w.why = fmt.Sprintf("the keys come from member %q of %s", s, valueLabel(x.X))
		} else {
			w.why = "the keys come from a lookup that is not rawActivity[\"object\"]"
		}
		return false
	case *ssa.UnOp:
		if x.Op == token.MUL {
			switch a := x.X.(type) {
			case *ssa.IndexAddr:
				idx := a.Index
				if pa, ok := unwrap(idx).(*ssa.Parameter); ok && bind[pa] != nil {
					idx = bind[pa]
				}
				w.indices = append(w.indices, idx)
				return w.fromRawObject(a.X, rawParams, bind, depth, seen)
			case *ssa.Alloc:
				n := 0
				for _, r := range *a.Referrers() {
					if st, ok := r.(*ssa.Store); ok && st.Addr == a {
						n++
						if !w.fromRawObject(st.Val, rawParams, bind, depth, seen) {
							return false
						}
					}
				}
				if n > 0 {
					return true
				}
			}
		}
		if isRawActivity(x, rawParams) {
			w.why = "the keys are the top-level members of the raw activity itself, not of its object"
			return false
		}
	case *ssa.Field:
		if isRawActivity(x, rawParams) {
			w.why = "the keys are the top-level members of the raw activity itself, not of its object"
			return false
		}
	case *ssa.Parameter:
		if rawParams[x] {
			w.why = "the keys are the top-level members of the raw activity itself, not of its object"
			return false
		}
	case *ssa.Call:
		return w.fromCall(x, 0, rawParams, bind, depth, seen)
	}
	if w.why == "" {
		w.why = "the ranged map is " + valueLabel(v) + ", which is not derived from rawActivity[\"object\"]"
	}
	return false
}

func (w *rawObjWalk) fromCall(c *ssa.Call, resIdx int, rawParams map[*ssa.Parameter]bool, bind map[*ssa.Parameter]ssa.Value, depth int, seen map[ssa.Value]bool) bool {
	callee := c.Common().StaticCallee()
	if callee == nil || callee.Pkg == nil || callee.Pkg.Pkg != w.p.Pkg.Types || len(callee.Blocks) == 0 {
		w.why = "the ranged map is the result of " + callName(c) + ", which is not a function of package pub that can be followed"
		return false
	}
	rp := map[*ssa.Parameter]bool{}
	bd := map[*ssa.Parameter]ssa.Value{}
	for i, pa := range callee.Params {
		if i >= len(c.Common().Args) {
			break
		}
		a := c.Common().Args[i]
		if isRawActivity(a, rawParams) {
			rp[pa] = true
		}
		if ap, ok := unwrap(a).(*ssa.Parameter); ok && bind[ap] != nil {
			bd[pa] = bind[ap]
		} else {
			bd[pa] = a
		}
	}
	for _, r := range returnsIn(callee) {
		if resIdx >= len(r.Results) {
			return false
		}
		if !w.fromRawObject(r.Results[resIdx], rp, bd, depth+1, map[ssa.Value]bool{}) {
			return false
		}
	}
	return true
}

func checkC16NullDeletion(res *Result, p *Pub) {
	const rule = "C16-R8"
	res.Rule(rule, "JSON-null deletion: every delete on the stored object's map in the per-object body of the social update takes its key from a range over (nil or) the idx'th value of rawActivity[\"object\"] — idx being the index the supplied object is taken from — and happens only where the ranged value is nil")
	fn := p.MustFunc(res, rule, "SocialWrappedCallbacks.update$1")
	if fn == nil {
		return
	}
	ff := computeFacts(fn)
	g := flowOf(fn)
	// indices the supplied object is selected with: arguments of At(·)
	atArgs := map[ssa.Value]bool{}
	for _, ci := range callsIn(fn) {
		if ci.Common().IsInvoke() && ci.Common().Method.Name() == "At" && len(ci.Common().Args) == 1 {
			atArgs[unwrap(ci.Common().Args[0])] = true
		}
	}
	nDel := 0
	for _, ci := range callsIn(fn) {
		b, ok := ci.Common().Value.(*ssa.Builtin)
		if !ok || b.Name() != "delete" {
			continue
		}
		args := ci.Common().Args
		if !anyBackward(g, args[0], func(x ssa.Value) bool { return isCallNamed(x, "Database.Get") }) {
			continue // not the stored object's map
		}
		nDel++
		key, _ := unwrap(args[1]).(*ssa.Extract)
		var next *ssa.Next
		if key != nil && key.Index == 1 {
			next, _ = key.Tuple.(*ssa.Next)
		}
		if next == nil || next.IsString {
			res.bad(rule, fname(fn), p.pos(ci), "the deleted key is the key of a range over the raw object", "the key is "+valueLabel(args[1])+", not a ranged map key")
			continue
		}
		rng, _ := next.Iter.(*ssa.Range)
		if rng == nil {
			res.bad(rule, fname(fn), p.pos(ci), "the deleted key is the key of a range over the raw object", "iterator is not a range")
			continue
		}
		w := &rawObjWalk{p: p}
		okSrc := w.fromRawObject(rng.X, map[*ssa.Parameter]bool{}, map[*ssa.Parameter]ssa.Value{}, 0, map[ssa.Value]bool{})
		res.check(okSrc, rule, fname(fn), p.pos(ci), "the members deleted are those of the activity's object (rawActivity[\"object\"]), never the activity's own", w.why)
		if okSrc {
			okIdx := true
			detail := ""
			for _, ix := range w.indices {
				if !atArgs[unwrap(ix)] {
					okIdx = false
					detail = "the raw object is selected with " + valueLabel(ix) + ", the supplied object with a different index"
				}
			}
			res.check(okIdx, rule, fname(fn), p.pos(ci), "the raw object consulted is the one at the index of the supplied object (At(idx))", detail)
		}
		// only where the ranged value is nil
		var val ssa.Value
		for _, r := range *next.Referrers() {
			if ex, ok := r.(*ssa.Extract); ok && ex.Index == 2 {
				val = ex
			}
		}
		okNil := val != nil && ff.has(ci, val, fNIL, "")
		res.check(okNil, rule, fname(fn), p.pos(ci), "a member is deleted only where the raw object gives it as null", "the delete is not guarded by <ranged value> == nil")
	}
	res.Count("C16-R8 null-deletion sites", nDel, 1)
	checkRawMapChain(res, p, rule)
}

// onlyUnmarshalWrites: v is a load of a local variable whose only writer is
// json.Unmarshal (its address is passed there, and nothing else stores to it).
func onlyUnmarshalWrites(v ssa.Value) (bool, string) {
	ld, ok := unwrap(v).(*ssa.UnOp)
	if !ok || ld.Op != token.MUL {
		return false, "the raw map handed on is " + valueLabel(v) + ", not the variable json.Unmarshal filled"
	}
	al, ok := ld.X.(*ssa.Alloc)
	if !ok {
		return false, "the raw map handed on is " + valueLabel(v) + ", not a local variable"
	}
	unm := false
	for _, r := range *al.Referrers() {
		switch x := r.(type) {
		case *ssa.Store:
			if x.Addr == al {
				if isNilConst(x.Val) {
					continue
				}
				return false, "the variable holding the decoded request body is overwritten with " + valueLabel(x.Val) + ": explicit JSON nulls of the request are lost before the Update callback sees them"
			}
		case *ssa.MakeInterface:
			for _, rr := range *x.Referrers() {
				if c, ok := rr.(*ssa.Call); ok {
					if f := c.Common().StaticCallee(); f != nil && f.Pkg != nil && f.Pkg.Pkg.Path() == "encoding/json" && f.Name() == "Unmarshal" {
						unm = true
					}
				}
			}
		}
	}
	if !unm {
		return false, "the variable is not filled by json.Unmarshal"
	}
	return true, ""
}

// checkRawMapChain: SocialWrappedCallbacks.rawActivity is the map the request
// body was decoded into, handed on unchanged: field <- PostOutbox's parameter
// <- the argument of every delegate.PostOutbox call in pub <- (parameters of
// callers) <- a variable only json.Unmarshal writes.
func checkRawMapChain(res *Result, p *Pub, rule string) {
	E := computeEffects(p)
	fn := p.MustFunc(res, rule, "sideEffectActor.PostOutbox")
	if fn == nil {
		return
	}
	var prm *ssa.Parameter
	for _, b := range fn.Blocks {
		for _, ins := range b.Instrs {
			if st, ok := ins.(*ssa.Store); ok {
				if fa, ok := st.Addr.(*ssa.FieldAddr); ok && fieldName(fa.X.Type(), fa.Field) == "rawActivity" {
					pr, isP := unwrap(st.Val).(*ssa.Parameter)
					res.check(isP, rule, fname(fn), p.pos(st), "rawActivity is the raw map PostOutbox was given", "stored value is "+valueLabel(st.Val))
					if isP {
						prm = pr
					}
				}
			}
		}
	}
	if prm == nil {
		res.bad(rule, fname(fn), p.pos(fn), "PostOutbox hands its raw map to the callbacks", "no store of a parameter into rawActivity")
		return
	}
	idx := -1
	for i, q := range fn.Params {
		if q == prm {
			idx = i
		}
	}
	type work struct {
		f   *ssa.Function
		idx int // parameter index in f.Params
	}
	todo := []work{{fn, idx}}
	seen := map[*ssa.Function]bool{fn: true}
	origins := 0
	for depth := 0; len(todo) > 0 && depth < 5; depth++ {
		var next []work
		for _, wk := range todo {
			for _, g := range p.Funcs {
				for _, ci := range E.byFn[g] {
					hit := false
					for _, c := range ci.Callees {
						if c == wk.f {
							hit = true
						}
					}
					if !hit {
						continue
					}
					cc := ci.Instr.Common()
					ai := wk.idx
					if cc.IsInvoke() {
						ai-- // Args exclude the receiver
					}
					if ai < 0 || ai >= len(cc.Args) {
						res.undecided(rule, fname(g), p.pos(ci.Instr), "raw map argument of "+ci.Label, "argument index out of range")
						continue
					}
					a := collapsePhi(cc.Args[ai], 0)
					// `if m == nil { m = Serialize() }` (no raw request, Send path): a merge
					// whose other incoming values arrive only where the parameter is nil
					if ph, ok := unwrap(a).(*ssa.Phi); ok {
						ffg := computeFacts(g)
						var only *ssa.Parameter
						good := len(ffg.edgeIn[ph.Block()]) == len(ph.Edges)
						for _, e := range ph.Edges {
							if pa, ok := unwrap(e).(*ssa.Parameter); ok {
								if only != nil && only != pa {
									good = false
								}
								only = pa
							}
						}
						if good && only != nil {
							for i, e := range ph.Edges {
								if unwrap(e) == ssa.Value(only) {
									continue
								}
								es := ffg.edgeIn[ph.Block()][i]
								if es != nil && !es.facts[fact{ffg.canon(es, only), fNIL, ""}] {
									good = false
								}
							}
						}
						if good && only != nil {
							a = only
						}
					}
					if pa, ok := unwrap(a).(*ssa.Parameter); ok {
						res.ok(rule, fname(g), p.pos(ci.Instr), "the raw map is handed on unchanged to "+fname(wk.f))
						if !seen[g] {
							seen[g] = true
							for i, q := range g.Params {
								if q == pa {
									next = append(next, work{g, i})
								}
							}
						}
						continue
					}
					if isNilConst(a) {
						res.ok(rule, fname(g), p.pos(ci.Instr), "no request body (programmatic Send): nil raw map")
						continue
					}
					// a merge of the results of an expanded helper's exits: at this call only the
					// exits with a nil error remain; they must all yield the same variable
					if _, isPhi := unwrap(a).(*ssa.Phi); isPhi {
						if ci2, ok := ci.Instr.(ssa.Instruction); ok {
							vals := computeFacts(g).feasibleAt(ci2, unwrap(a), 0)
							var al *ssa.Alloc
							same := len(vals) > 0
							for _, fv := range vals {
								ld, ok := unwrap(fv).(*ssa.UnOp)
								if !ok || ld.Op != token.MUL {
									same = false
									break
								}
								x, ok := ld.X.(*ssa.Alloc)
								if !ok || (al != nil && al != x) {
									same = false
									break
								}
								al = x
							}
							if same {
								a = vals[0]
							}
						}
					}
					ok, why := onlyUnmarshalWrites(a)
					origins++
					res.check(ok, rule, fname(g), p.pos(ci.Instr), "the raw map handed to "+fname(wk.f)+" is the decoded request body itself", why)
				}
			}
		}
		todo = next
	}
	res.Count("C16-R8 origins of the raw activity map", origins, 1)
}

// collapsePhi: a merge all of whose incoming values are one and the same value
// (ignoring itself) denotes that value.
func collapsePhi(v ssa.Value, depth int) ssa.Value {
	ph, ok := unwrap(v).(*ssa.Phi)
	if !ok || depth > 4 {
		return v
	}
	var one ssa.Value
	for _, e := range ph.Edges {
		e = collapsePhi(e, depth+1)
		if unwrap(e) == ssa.Value(ph) {
			continue
		}
		if one == nil {
			one = e
		} else if unwrap(one) != unwrap(e) {
			return v
		}
	}
	if one == nil {
		return v
	}
	return one
}
