package main

import (
	"go/types"
	"strings"

	"golang.org/x/tools/go/ssa"
)

// checkStatelessHandlers: the actor types of package pub carry configuration
// only. No method writes a field of its receiver (or of anything reached from
// the receiver): a value remembered from one request would be used for the
// next one — a different outbox, a different actor — and, with concurrent
// requests, read and written without synchronisation. Constructors (plain
// functions) are where the fields are set.
func checkStatelessHandlers(res *Result, p *Pub, rule string) {
	n := 0
	for _, fn := range p.Funcs {
		root := fn
		for root.Parent() != nil {
			root = root.Parent()
		}
		recv := root.Signature.Recv()
		if recv == nil {
			continue
		}
		ptr, isPtr := recv.Type().(*types.Pointer)
		if !isPtr {
			continue // value receivers work on a copy (C19-R5 covers the transport)
		}
		named, _ := ptr.Elem().(*types.Named)
		if named == nil || named.Obj().Pkg() == nil || !strings.HasSuffix(named.Obj().Pkg().Path(), "/pub") {
			continue
		}
		if fn == root {
			n++
		}
		var recvVal ssa.Value
		if fn == root && len(fn.Params) > 0 {
			recvVal = fn.Params[0]
		}
		fromRecv := func(v ssa.Value) bool {
			for i := 0; i < 6; i++ {
				switch x := v.(type) {
				case *ssa.FieldAddr:
					v = x.X
				case *ssa.UnOp:
					v = x.X
				case *ssa.FreeVar:
					// a closure of the method capturing the receiver
					return x.Name() == recv.Name()
				case *ssa.Parameter:
					return recvVal != nil && x == recvVal
				default:
					return false
				}
			}
			return false
		}
		bad := 0
		for _, b := range fn.Blocks {
			for _, ins := range b.Instrs {
				st, ok := ins.(*ssa.Store)
				if !ok {
					continue
				}
				fa, ok := st.Addr.(*ssa.FieldAddr)
				if !ok || !fromRecv(fa.X) {
					continue
				}
				bad++
				res.bad(rule, fname(fn), p.pos(st), "request handlers keep no state: no method writes a field of its receiver", "store to "+named.Obj().Name()+"."+fieldName(fa.X.Type(), fa.Field)+": the value outlives the request and is shared by every later and every concurrent one")
			}
		}
		if bad == 0 && fn == root {
			res.ok(rule, fname(fn), p.pos(fn), "request handlers keep no state: no method writes a field of its receiver")
		}
	}
	res.Count(rule+" pointer-receiver methods of pub examined", n, 20)
}
