package main

// C02 — federated delivery reaches exactly the addressed inboxes (structural clauses).

import (
	"fmt"
	"go/constant"
	"go/token"
	"sort"
	"strings"

	"golang.org/x/tools/go/ssa"
)

// checkInPlaceFilterLoop verifies the index discipline of an in-place filter
// loop (`for i < n { if drop(x[i]) { remove x[i] } else { i++ } }`): on every
// path from a removal back to the loop header the index is unchanged (else the
// element that slid into position i is skipped), and some path advances it.
func checkInPlaceFilterLoop(res *Result, p *Pub, rule, fnName string, wantSites int) {
	fn := p.MustFunc(res, rule, fnName)
	if fn == nil {
		return
	}
	nSites := 0
	for _, b := range fn.Blocks {
		for _, ins := range b.Instrs {
			ci, ok := ins.(ssa.CallInstruction)
			if !ok {
				continue
			}
			cc := ci.Common()
			var idx ssa.Value
			if bi, ok := cc.Value.(*ssa.Builtin); ok && bi.Name() == "append" && len(cc.Args) == 2 {
				a0, ok0 := cc.Args[0].(*ssa.Slice)
				a1, ok1 := cc.Args[1].(*ssa.Slice)
				if ok0 && ok1 && a0.X == a1.X && a0.High != nil && a1.Low != nil {
					idx = a0.High
				}
			} else if cc.IsInvoke() && cc.Method.Name() == "Remove" && len(cc.Args) == 1 {
				idx = cc.Args[0]
			}
			if idx == nil {
				continue
			}
			phi, ok := idx.(*ssa.Phi)
			if !ok || !reachableFrom(phi.Block(), phi.Block()) {
				res.undecided(rule, fnName, p.pos(ins), "removal index is the loop's index variable", "index is not a loop-header phi")
				continue
			}
			nSites++
			H := phi.Block()
			loop := loopBlocks(H)
			// enumerate paths from the removal block back to the header
			var bad []string
			advanced := false
			var walk func(cur *ssa.BasicBlock, val ssa.Value, seen map[*ssa.BasicBlock]bool, fromRemoval bool)
			walk = func(cur *ssa.BasicBlock, val ssa.Value, seen map[*ssa.BasicBlock]bool, fromRemoval bool) {
				for _, s := range cur.Succs {
					if !loop[s] {
						continue
					}
					pi := -1
					for i, pr := range s.Preds {
						if pr == cur {
							pi = i
						}
					}
					if s == H {
						delivered := phi.Edges[pi]
						if fromRemoval {
							if delivered != val {
								bad = append(bad, fmt.Sprintf("after the removal in block %d the index reaches the loop header as %s instead of unchanged", b.Index, valueLabel(delivered)))
							}
						}
						continue
					}
					if seen[s] {
						continue
					}
					nv := val
					for _, i2 := range s.Instrs {
						if ph, ok := i2.(*ssa.Phi); ok && pi >= 0 && ph.Edges[pi] == val {
							nv = ph
						}
					}
					ns := map[*ssa.BasicBlock]bool{s: true}
					for k := range seen {
						ns[k] = true
					}
					walk(s, nv, ns, fromRemoval)
				}
			}
			walk(b, phi, map[*ssa.BasicBlock]bool{b: true}, true)
			// progress: some incoming value of the header phi is index+1 along a path avoiding the removal block
			var incs func(v ssa.Value, d int)
			incs = func(v ssa.Value, d int) {
				if d > 4 {
					return
				}
				switch x := v.(type) {
				case *ssa.BinOp:
					if x.Op == token.ADD {
						if c, ok := x.Y.(*ssa.Const); ok && c.Value != nil && c.Value.Kind() == constant.Int {
							if n, _ := constant.Int64Val(c.Value); n == 1 && x.X == ssa.Value(phi) && !b.Dominates(x.Block()) {
								advanced = true
							}
						}
					}
				case *ssa.Phi:
					if x != phi {
						for _, e := range x.Edges {
							incs(e, d+1)
						}
					}
				}
			}
			for _, e := range phi.Edges {
				incs(e, 0)
			}
			res.check(len(bad) == 0, rule, fnName, p.pos(ins), "after removing element i the index stays at i (the next element is examined, not skipped)", strings.Join(bad, "; "))
			res.check(advanced, rule, fnName, p.pos(ins), "the keep path advances the index (the loop makes progress)", "no path increments the index by one outside the removal branch")
			okAll, why := everyLapProgresses(phi, loop, isRemovalOf(phi))
			res.check(okAll, rule, fnName, p.pos(ins), "every way round the loop either removes an element or advances the index (no lap leaves both unchanged)", why)
		}
	}
	res.check(nSites >= wantSites, rule, fnName, p.pos(fn), fmt.Sprintf("%d in-place removal site(s) found", wantSites), fmt.Sprintf("found %d", nSites))
}

// depthGuarded: at ins, on every path, the recursion guard is known not to
// have fired: maxDepth <= 0  ∨  depth < maxDepth.
func depthGuarded(ff *FuncFacts, fn *ssa.Function, ins ssa.Instruction, depthName, maxName string) bool {
	// collect the comparison values
	var preds []struct {
		v    ssa.Value
		want factKind
	}
	for _, b := range fn.Blocks {
		for _, i2 := range b.Instrs {
			bo, ok := i2.(*ssa.BinOp)
			if !ok {
				continue
			}
			isP := func(v ssa.Value, n string) bool { return isParamNamed(v, n) }
			isZero := func(v ssa.Value) bool { n, ok := intConst(v); return ok && n == 0 }
			switch {
			// maxDepth > 0 / 0 < maxDepth  must be false;  maxDepth <= 0 / 0 >= maxDepth must be true
			case isP(bo.X, maxName) && isZero(bo.Y) && bo.Op == token.GTR, isZero(bo.X) && isP(bo.Y, maxName) && bo.Op == token.LSS:
				preds = append(preds, struct {
					v    ssa.Value
					want factKind
				}{bo, fFALSE})
			case isP(bo.X, maxName) && isZero(bo.Y) && bo.Op == token.LEQ, isZero(bo.X) && isP(bo.Y, maxName) && bo.Op == token.GEQ:
				preds = append(preds, struct {
					v    ssa.Value
					want factKind
				}{bo, fTRUE})
			// depth >= maxDepth must be false; depth < maxDepth must be true
			case isP(bo.X, depthName) && isP(bo.Y, maxName) && bo.Op == token.GEQ, isP(bo.X, maxName) && isP(bo.Y, depthName) && bo.Op == token.LEQ:
				preds = append(preds, struct {
					v    ssa.Value
					want factKind
				}{bo, fFALSE})
			case isP(bo.X, depthName) && isP(bo.Y, maxName) && bo.Op == token.LSS, isP(bo.X, maxName) && isP(bo.Y, depthName) && bo.Op == token.GTR:
				preds = append(preds, struct {
					v    ssa.Value
					want factKind
				}{bo, fTRUE})
			}
		}
	}
	if len(preds) == 0 {
		return false
	}
	return ff.holdsOnEveryPath(ins, func(s *factState) bool {
		for _, pr := range preds {
			if s.facts[fact{ff.canon(s, pr.v), pr.want, ""}] {
				return true
			}
		}
		return false
	}, 24)
}

// checkDepthGuard: in a self-recursive function with parameters (depth, max):
// every call in `guarded` and the recursive call are depth-guarded, the
// recursive call passes depth+1 and the same max.
func checkDepthGuard(res *Result, p *Pub, E *Effects, rule, fnName, depthName, maxName string, guardedPatterns []string) {
	fn := p.MustFunc(res, rule, fnName)
	if fn == nil {
		return
	}
	ff := computeFacts(fn)
	nRec := 0
	for _, ci := range E.byFn[fn] {
		isRec := false
		for _, c := range ci.Callees {
			if c == fn {
				isRec = true
			}
		}
		if isRec {
			nRec++
			args := ci.Instr.Common().Args
			var dArg, mArg ssa.Value
			for i, prm := range fn.Params {
				if prm.Name() == depthName && i < len(args) {
					dArg = args[i]
				}
				if prm.Name() == maxName && i < len(args) {
					mArg = args[i]
				}
			}
			okD := false
			if bo, ok := dArg.(*ssa.BinOp); ok && bo.Op == token.ADD && isParamNamed(bo.X, depthName) {
				if n, ok := intConst(bo.Y); ok && n == 1 {
					okD = true
				}
			}
			res.check(okD && isParamNamed(mArg, maxName), rule, fnName, p.pos(ci.Instr), "the recursive call passes "+depthName+"+1 and the same "+maxName, fmt.Sprintf("depth argument %s, max argument %s", valueLabel(dArg), valueLabel(mArg)))
			res.check(depthGuarded(ff, fn, ci.Instr, depthName, maxName), rule, fnName, p.pos(ci.Instr), "the recursive call happens only within the depth limit", "facts: "+ff.describe(ci.Instr))
		}
		for _, pat := range guardedPatterns {
			if ci.Label == pat || callName(ci.Instr) == pat {
				res.check(depthGuarded(ff, fn, ci.Instr, depthName, maxName), rule, fnName, p.pos(ci.Instr), ci.Label+" happens only where the depth limit has not been reached ("+maxName+" <= 0 ∨ "+depthName+" < "+maxName+")", "facts: "+ff.describe(ci.Instr))
			}
		}
	}
	res.check(nRec >= 1, rule, fnName, p.pos(fn), "the function recurses (expands nested collections)", "no recursive call found")
}

func checkC02(res *Result) {
	p := loadPub()
	E := computeEffects(p)
	res.Packages = []string{p.Pkg.PkgPath}
	res.Explanation = "Set equality over federation graphs is a runtime quantity and is not decided. Decided on all SSA paths: all five addressing properties of the activity flow into the recipient list of prepare, and from there only through filterURLs(·, IsPublic) into anything that is dereferenced or looked up (Public is cut); IsPublic compares with both spellings; filterURLs' in-place removal does not skip the element after a removed one; nothing is dereferenced in resolveActors unless the depth limit has not been reached and the recursion passes depth+1; a failed dereference is skipped and its error cannot reach the result; every success return of prepare returns dedupeIRIs(all found inboxes, sender's inbox); the transport gets one BatchDeliver per delivery, only through deliverToRecipients."
	res.Rule("C02-R1", "five sources: to, bto, cc, bcc and audience of the activity each flow into the recipient list handed to InboxForActor and resolveActors")
	res.Rule("C02-R2", "Public is cut: every flow from the addressing properties to InboxForActor / resolveActors (hence Dereference) passes through the result of filterURLs(·, IsPublic); IsPublic recognises the full IRI and as:Public; the in-place filter examines every element")
	res.Rule("C02-R3", "depth bound: in resolveActors the dereference and the recursion happen only where (maxDepth <= 0 ∨ depth < maxDepth); the recursion passes depth+1 and the same maxDepth; prepare starts at depth 0 with the application's limit")
	res.Rule("C02-R4", "failures are skipped: the error of a failed dereferenceForResolvingInboxes cannot reach resolveActors' result, and the loop continues")
	res.Rule("C02-R5", "dedupe and self-exclusion: every success return of prepare returns dedupeIRIs(found inboxes from the Database and from remote actors, [inbox of ActorForOutbox(outbox)])")
	res.Rule("C02-R6", "one hand-over: deliverToRecipients calls BatchDeliver exactly once, not in a loop, with its recipients parameter")
	res.Rule("C02-R7", "who may deliver: only deliverToRecipients talks to Transport.BatchDeliver/Deliver; its callers are Deliver and InboxForwarding")
	res.Rule("C02-R8", "error discipline over everything reachable from sideEffectActor.Deliver (apart from the documented skip)")

	fn := p.MustFunc(res, "C02-R1", "sideEffectActor.prepare")
	if fn != nil {
		g := flowOf(fn)
		ff := computeFacts(fn)
		getters := map[string]ssa.Value{}
		for _, k := range addressingKinds {
			cs := findCalls(E, fn, "Activity.GetActivityStreams"+k)
			if len(cs) != 1 {
				res.bad("C02-R1", fname(fn), p.pos(fn), "'"+strings.ToLower(k)+"' of the activity is read", fmt.Sprintf("%d reads", len(cs)))
				continue
			}
			c := cs[0]
			res.check(isParamNamed(c.Common().Value, "activity"), "C02-R1", fname(fn), p.pos(c), "'"+strings.ToLower(k)+"' is read from the activity being delivered", "receiver is "+valueLabel(c.Common().Value))
			getters[k] = c.(ssa.Value)
		}
		filt := findCalls(E, fn, "filterURLs")
		res.check(len(filt) == 1, "C02-R2", fname(fn), p.pos(fn), "filterURLs is applied once", fmt.Sprintf("%d calls", len(filt)))
		sinks := map[string][]ssa.Value{}
		for _, c := range findCalls(E, fn, "Database.InboxForActor") {
			sinks["Database.InboxForActor"] = append(sinks["Database.InboxForActor"], c.Common().Args[1])
		}
		for _, c := range findCalls(E, fn, "sideEffectActor.resolveActors") {
			sinks["resolveActors"] = append(sinks["resolveActors"], c.Common().Args[3])
			d, okd := intConst(c.Common().Args[4])
			res.check(okd && d == 0, "C02-R3", fname(fn), p.pos(c), "resolution starts at depth 0", "depth argument is "+valueLabel(c.Common().Args[4]))
			res.check(isCallNamed(c.Common().Args[5], "FederatingProtocol.MaxDeliveryRecursionDepth"), "C02-R3", fname(fn), p.pos(c), "the limit is the application's MaxDeliveryRecursionDepth", "limit argument is "+valueLabel(c.Common().Args[5]))
		}
		var sinkNames []string
		for n := range sinks {
			sinkNames = append(sinkNames, n)
		}
		sort.Strings(sinkNames)
		res.check(len(sinks) == 2, "C02-R1", fname(fn), p.pos(fn), "recipients are looked up in the Database and resolved remotely", fmt.Sprintf("sinks found: %v", sinkNames))
		if len(filt) == 1 {
			fv := filt[0].(ssa.Value)
			fnArg := filt[0].Common().Args[1]
			isPub := false
			if f, ok := unwrap(fnArg).(*ssa.Function); ok && f.Name() == "IsPublic" {
				isPub = true
			} else if mc, ok := fnArg.(*ssa.MakeClosure); ok {
				if f, ok := mc.Fn.(*ssa.Function); ok && f.Name() == "IsPublic" {
					isPub = true
				}
			}
			res.check(isPub, "C02-R2", fname(fn), p.pos(filt[0]), "the filter predicate is IsPublic", "predicate is "+valueLabel(fnArg))
			for _, k := range addressingKinds {
				src := getters[k]
				if src == nil {
					continue
				}
				for _, sn := range sinkNames {
					for _, sv := range sinks[sn] {
						reach := g.backward(sv)[src]
						res.check(reach, "C02-R1", fname(fn), p.pos(src.(ssa.Instruction)), "'"+strings.ToLower(k)+"' recipients reach "+sn, "no flow: this addressing property is ignored")
						uncut := g.forward(src, map[ssa.Value]bool{fv: true})[sv]
						res.check(!uncut, "C02-R2", fname(fn), p.pos(src.(ssa.Instruction)), "'"+strings.ToLower(k)+"' recipients reach "+sn+" only through filterURLs(·, IsPublic)", "a flow bypasses the Public filter: the Public collection can be looked up / dereferenced")
					}
				}
			}
		}
		// R5
		nOK := 0
		for _, r := range returnsIn(fn) {
			mn, _ := ff.errStatus(r, 1)
			if !mn || !ff.reachable(r) {
				continue
			}
			nOK++
			v := ff.resolve(r, r.Results[0])
			isDedupe := isCallNamed(v, "pub.dedupeIRIs")
			res.check(isDedupe, "C02-R5", fname(fn), p.pos(r), "a success return yields the de-duplicated, self-excluded list", "returns "+valueLabel(v)+" (not the result of dedupeIRIs)")
			if c, ok := v.(*ssa.Call); ok && isDedupe {
				fromDB := anyBackward(g, c.Call.Args[0], func(x ssa.Value) bool { return isCallNamed(x, "Database.InboxForActor") })
				fromRemote := anyBackward(g, c.Call.Args[0], func(x ssa.Value) bool { return isCallNamed(x, "pub.getInboxes") || isCallNamed(x, "resolveActors") })
				res.check(fromDB && fromRemote, "C02-R5", fname(fn), p.pos(c), "both stored and remotely resolved inboxes are delivered to", fmt.Sprintf("from Database: %v, from remote actors: %v", fromDB, fromRemote))
				ign := c.Call.Args[1]
				chain := anyBackward(g, ign, func(x ssa.Value) bool { return isCallNamed(x, "pub.getInbox") }) &&
					anyBackward(g, ign, func(x ssa.Value) bool { return isCallNamed(x, "Database.Get") }) &&
					anyBackward(g, ign, func(x ssa.Value) bool { return isCallNamed(x, "Database.ActorForOutbox") })
				res.check(chain, "C02-R5", fname(fn), p.pos(c), "the excluded inbox is that of the sending actor (getInbox(Get(ActorForOutbox(outbox))))", "ignore list does not derive from the sender's actor document")
			}
		}
		res.check(nOK >= 1, "C02-R5", fname(fn), p.pos(fn), "prepare has a success return", "none")
		for _, c := range findCalls(E, fn, "pub.getInboxes") {
			res.check(anyBackward(g, c.Common().Args[0], func(x ssa.Value) bool { return isCallNamed(x, "resolveActors") }), "C02-R5", fname(fn), p.pos(c), "remote inboxes are those of the resolved actors", "no flow from resolveActors")
		}
	}
	// IsPublic constants
	if f := p.MustFunc(res, "C02-R2", "IsPublic"); f != nil {
		consts := map[string]bool{}
		for _, b := range f.Blocks {
			for _, ins := range b.Instrs {
				if bo, ok := ins.(*ssa.BinOp); ok && (bo.Op == token.EQL || bo.Op == token.NEQ) {
					for _, o := range []ssa.Value{bo.X, bo.Y} {
						if s, ok := stringConst(o); ok {
							consts[s] = true
						}
					}
				}
			}
		}
		res.check(consts["https://www.w3.org/ns/activitystreams#Public"] && consts["as:Public"], "C02-R2", "IsPublic", p.pos(f), "IsPublic recognises the full IRI and the as:Public spelling", fmt.Sprintf("constants compared: %v", setList(consts)))
	}
	checkInPlaceFilterLoop(res, p, "C02-R2", "filterURLs", 1)
	if f := p.Func("filterURLs"); f != nil {
		// removal happens exactly when the predicate holds
		ff := computeFacts(f)
		for _, ci := range callsIn(f) {
			if bi, ok := ci.Common().Value.(*ssa.Builtin); ok && bi.Name() == "append" {
				s := ff.at[ci]
				okT := false
				if s != nil {
					for fc := range s.facts {
						if fc.k == fTRUE {
							for v, n := range ff.ids {
								if fmt.Sprintf("v%d", n) == fc.v {
									if c, ok := v.(*ssa.Call); ok && c.Call.Value == ssa.Value(f.Params[1]) {
										okT = true
									}
								}
							}
						}
					}
				}
				res.check(okT, "C02-R2", "filterURLs", p.pos(ci), "an element is removed exactly where the predicate returned true", "facts: "+ff.describe(ci))
			}
		}
	}

	// R3
	checkDepthGuard(res, p, E, "C02-R3", "sideEffectActor.resolveActors", "depth", "maxDepth", []string{"sideEffectActor.dereferenceForResolvingInboxes"})

	// R4
	if f := p.MustFunc(res, "C02-R4", "sideEffectActor.resolveActors"); f != nil {
		ff := computeFacts(f)
		ds := findCalls(E, f, "sideEffectActor.dereferenceForResolvingInboxes")
		res.check(len(ds) == 1, "C02-R4", fname(f), p.pos(f), "recipients are dereferenced at one site", fmt.Sprintf("%d sites", len(ds)))
		if len(ds) == 1 {
			de := ssa.Value(extractOf(ds[0].(*ssa.Call), 2))
			// the error must not reach any return through phis on an edge where it is non-nil
			var leak func(v ssa.Value, seen map[ssa.Value]bool) string
			leak = func(v ssa.Value, seen map[ssa.Value]bool) string {
				if seen[v] {
					return ""
				}
				seen[v] = true
				phi, ok := v.(*ssa.Phi)
				if !ok {
					return ""
				}
				for i, e := range phi.Edges {
					if e == de {
						es := ff.edgeIn[phi.Block()]
						if i < len(es) && es[i] != nil && !es[i].facts[fact{ff.canon(es[i], de), fNIL, ""}] {
							return fmt.Sprintf("the error of the failed dereference flows into %s along the edge from block %d", valueLabel(phi), phi.Block().Preds[i].Index)
						}
					}
					if why := leak(e, seen); why != "" {
						return why
					}
				}
				return ""
			}
			for _, r := range returnsIn(f) {
				why := leak(ff.resolve(r, r.Results[1]), map[ssa.Value]bool{})
				res.check(why == "", "C02-R4", fname(f), p.pos(r), "a skipped recipient's error is not returned", why+": a recipient that cannot be fetched fails the whole delivery when it is the last one tried")
			}
			// skip edge continues the loop: from the failure edge no return is reachable without passing the loop header
			if de != nil {
				loop := loopBlocks(ds[0].Block())
				hdr := loopHeader(loop)
				okSkip := hdr != nil
				for _, b := range f.Blocks {
					ifi, ok := b.Instrs[len(b.Instrs)-1].(*ssa.If)
					if !ok || !loop[b] {
						continue
					}
					v, k := (&errFlow{ff: ff}).errTest(ifi, ifi.Cond)
					if v != de {
						continue
					}
					failEdge := b.Succs[0]
					if k == "nil" {
						failEdge = b.Succs[1]
					}
					// walk from failEdge without crossing the header: must not meet a return
					seen := map[*ssa.BasicBlock]bool{}
					var walk func(x *ssa.BasicBlock)
					walk = func(x *ssa.BasicBlock) {
						if seen[x] || x == hdr {
							return
						}
						seen[x] = true
						for _, i2 := range x.Instrs {
							if _, isR := i2.(*ssa.Return); isR {
								okSkip = false
							}
						}
						for _, s := range x.Succs {
							walk(s)
						}
					}
					walk(failEdge)
				}
				res.check(okSkip, "C02-R4", fname(f), p.pos(ds[0]), "a failed dereference continues with the next recipient", "the failure edge can reach a return without going round the loop")
			}
		}
	}

	// R5b: dedupeIRIs never hands its input back, and prepare always consults both sources
	if f := p.MustFunc(res, "C02-R5", "dedupeIRIs"); f != nil {
		for _, r := range returnsIn(f) {
			for _, v := range r.Results {
				// through merges: no incoming value is the first parameter itself
				bad := false
				var walk func(x ssa.Value, d int)
				walk = func(x ssa.Value, d int) {
					if d > 5 {
						return
					}
					switch y := x.(type) {
					case *ssa.Parameter:
						bad = true
					case *ssa.Phi:
						for _, e := range y.Edges {
							walk(e, d+1)
						}
					case *ssa.Slice:
						walk(y.X, d+1)
					}
				}
				walk(v, 0)
				res.check(!bad, "C02-R5", fname(f), p.pos(r), "what dedupeIRIs returns has been through the ignore / seen filter (never the input list itself)", "a return hands back the parameter: the sender's own inbox (the ignore list) and duplicates are not removed on that path")
			}
		}
	}
	if f := p.Func("sideEffectActor.prepare"); f != nil {
		ff := computeFacts(f)
		for _, pat := range []string{"sideEffectActor.resolveActors", "Database.InboxForActor"} {
			for _, c := range findCalls(E, f, pat) {
				if pat == "Database.InboxForActor" {
					continue // inside the loop over the recipients (C02-R9 covers it)
				}
				okAll := true
				for _, r := range returnsIn(f) {
					mn, _ := ff.errStatus(r, 1)
					if !mn || !ff.reachable(r) {
						continue
					}
					if !dominates(c, r) {
						okAll = false
					}
				}
				res.check(okAll, "C02-R5", fname(f), p.pos(c), "every success return of prepare has gone through the remote resolution of the recipients not known to the Database", "resolveActors is conditional: on some path addressed actors whose inbox the Database does not know are never resolved")
			}
		}
	}
	// R11: the addressing properties admit every IRI
	res.Rule("C02-R11", "to, bto, cc, bcc and audience take a string as an IRI exactly when it parses and has a scheme (as the anyURI codec does): an addressee written as as:Public, a urn: or any other host-less IRI is an IRI in all five (shared with C12-R2)")
	{
		M := loadGenModel()
		nAddr := 0
		for _, pm := range M.Props {
			switch pm.Name {
			case "to", "bto", "cc", "bcc", "audience":
				if len(pm.Problems) == 0 {
					nAddr++
					checkIRIAdmission(res, M.S, pm, "C02-R11", pm.G.Dir)
				}
			}
		}
		res.Count("C02-R11 addressing properties", nAddr, 5)
	}
	// R9: every recipient is tried
	res.Rule("C02-R9", "every recipient is tried: each way round the loop of resolveActors passes through the dereference (no element is skipped on a condition other than the depth limit checked before the loop), and each way round the stored-inbox loop of prepare passes through InboxForActor")
	if f := p.MustFunc(res, "C02-R9", "sideEffectActor.resolveActors"); f != nil {
		for _, c := range findCalls(E, f, "sideEffectActor.dereferenceForResolvingInboxes") {
			checkEveryElementTried(res, p, "C02-R9", f, c, "every element of the recipient list is dereferenced", "an addressed actor or collection is silently left out (for instance because it was seen before at a depth where its members were cut off)")
		}
	}
	if f := p.MustFunc(res, "C02-R9", "sideEffectActor.prepare"); f != nil {
		for _, c := range findCalls(E, f, "Database.InboxForActor") {
			checkEveryElementTried(res, p, "C02-R9", f, c, "the application is asked for the stored inbox of every recipient", "a recipient's stored inbox is never looked up")
		}
	}
	// R10: no write through a list while it is ranged over
	res.Rule("C02-R10", "the recipient lists are not written through while they are being ranged over (an in-place helper applied to the list under iteration makes the walk skip the element after each hit)")
	nRange := 0
	for _, name := range reachFrom(p, E, "sideEffectActor.Deliver") {
		if f := p.Func(name); f != nil && p.HasFunc(name) {
			nRange += checkNoWriteWhileRanging(res, p, "C02-R10", f)
		}
	}
	res.Count("C02-R10 range-over-slice loops on the delivery path", nRange, 5)
	// R6
	nHand := 0
	for _, cname := range []string{"sideEffectActor.deliverToRecipients", "sideEffectActor.Deliver", "sideEffectActor.InboxForwarding"} {
		f := p.Func(cname)
		if f == nil || !p.HasFunc(cname) {
			continue
		}
		bd := findCalls(E, f, "Transport.BatchDeliver")
		if len(bd) == 0 && cname != "sideEffectActor.deliverToRecipients" {
			continue // this path hands over through the helper
		}
		nHand += len(bd)
		res.check(len(bd) == 1, "C02-R6", fname(f), p.pos(f), "exactly one BatchDeliver call", fmt.Sprintf("%d calls", len(bd)))
		for _, c := range bd {
			res.check(!inLoop(c), "C02-R6", fname(f), p.pos(c), "the payload is handed over once (not in a loop)", "BatchDeliver sits in a loop")
			if cname == "sideEffectActor.deliverToRecipients" {
				res.check(isParamNamed(c.Common().Args[2], "recipients"), "C02-R6", fname(f), p.pos(c), "all prepared inboxes are handed over together", "recipients argument is "+valueLabel(c.Common().Args[2]))
			}
		}
		res.check(len(findCalls(E, f, "Transport.Deliver")) == 0, "C02-R6", fname(f), p.pos(f), "no per-recipient Deliver besides the batch", "Transport.Deliver is also called")
	}
	res.check(nHand >= 1, "C02-R6", "pub", "-", "a BatchDeliver hand-over exists on the delivery paths", "none found")
	// R7
	checkWhoMayDeliver(res, p, E, "C02-R7")
	// R8
	fns := reachFrom(p, E, "sideEffectActor.Deliver")
	addErrFlowObligations(res, p, E, "C02-R8", fns, true)
	res.Functions = len(fns)

	res.Rule("C02-R12", "what delivery reads is decoded: every type that has to / bto / cc / bcc / audience, inbox, items or orderedItems decodes and claims the member (an actor document whose type skips 'inbox' has no inbox as far as getInbox can tell)")
	checkMembersDecoded(res, "C02-R12", []string{"to", "bto", "cc", "bcc", "audience", "inbox", "items", "orderedItems"}, "the delivery computation does not see the member on values of that type: an addressed actor of that type fails the whole delivery, a collection of that type is not expanded")
	res.Rule("C02-R13", "an actor document decoded for its inbox is that document alone: every json.Unmarshal in pub decodes into a variable fresh for that decode (local to the activation, declared inside the loop)")
	checkFreshDecodeTargets(res, p, "C02-R13")
	res.Assumptions = append(res.Assumptions, "value flow is an over-approximation: absence of a flow is exact, presence is necessary for the behaviour", "CFG paths over-approximate feasible paths")
	res.Undecided = []string{"that the resolved set equals the addressed inboxes on a concrete federation graph", "stored-inbox shortcut arithmetic (removeOne) on duplicates", "cyclic collections with an unlimited depth setting"}
	res.Trusted = []string{"go/types, go/ssa (x/tools v0.29.0)", "e1_effects.go, e2_facts.go, e4_flow.go, e9_errflow.go"}
}

// isRemovalOf: predicate for instructions that remove the element at the loop
// index idx from the container (Remove(idx) or append(x[:idx], x[idx+1:]...)).
func isRemovalOf(idx *ssa.Phi) func(ssa.Instruction) bool {
	return func(ins ssa.Instruction) bool {
		ci, ok := ins.(ssa.CallInstruction)
		if !ok {
			return false
		}
		cc := ci.Common()
		if bi, ok := cc.Value.(*ssa.Builtin); ok && bi.Name() == "append" && len(cc.Args) == 2 {
			a0, ok0 := cc.Args[0].(*ssa.Slice)
			a1, ok1 := cc.Args[1].(*ssa.Slice)
			return ok0 && ok1 && a0.X == a1.X && a0.High == ssa.Value(idx) && a1.Low != nil
		}
		return cc.IsInvoke() && cc.Method.Name() == "Remove" && len(cc.Args) == 1 && cc.Args[0] == ssa.Value(idx)
	}
}

// everyLapProgresses enumerates the simple paths from the loop header round
// the loop back to the header and requires of each that it delivers index+1,
// or delivers the index unchanged after a removal. Merges met on the way are
// resolved by the edge the path took.
func everyLapProgresses(idx *ssa.Phi, loop map[*ssa.BasicBlock]bool, isRemoval func(ssa.Instruction) bool) (bool, string) {
	H := idx.Block()
	var bad []string
	paths := 0
	type frame struct {
		resolved map[*ssa.Phi]ssa.Value
		removed  bool
	}
	resolve := func(v ssa.Value, m map[*ssa.Phi]ssa.Value) ssa.Value {
		for i := 0; i < 8; i++ {
			ph, ok := v.(*ssa.Phi)
			if !ok || ph == idx {
				return v
			}
			nv, ok := m[ph]
			if !ok {
				return v
			}
			v = nv
		}
		return v
	}
	var walk func(cur *ssa.BasicBlock, fr frame, seen map[*ssa.BasicBlock]bool, trail []int)
	walk = func(cur *ssa.BasicBlock, fr frame, seen map[*ssa.BasicBlock]bool, trail []int) {
		if paths > 5000 {
			return
		}
		removed := fr.removed
		for _, ins := range cur.Instrs {
			if isRemoval(ins) {
				removed = true
			}
		}
		for _, s := range cur.Succs {
			if !loop[s] {
				continue
			}
			pi := -1
			for i, pr := range s.Preds {
				if pr == cur {
					pi = i
				}
			}
			if s == H {
				paths++
				d := resolve(idx.Edges[pi], fr.resolved)
				adv := false
				if bo, ok := d.(*ssa.BinOp); ok && bo.Op == token.ADD {
					if n, isC := intConst(bo.Y); isC && n >= 1 && resolve(bo.X, fr.resolved) == ssa.Value(idx) {
						adv = true
					}
				}
				switch {
				case adv:
				case d == ssa.Value(idx) && removed:
				case d == ssa.Value(idx):
					bad = append(bad, fmt.Sprintf("the lap through blocks %v returns to the loop header with the index unchanged and nothing removed: the loop does not terminate on such an element", append(append([]int{}, trail...), cur.Index)))
				default:
					bad = append(bad, fmt.Sprintf("the lap through blocks %v delivers %s as the next index", append(append([]int{}, trail...), cur.Index), valueLabel(d)))
				}
				continue
			}
			if seen[s] {
				continue
			}
			nr := map[*ssa.Phi]ssa.Value{}
			for k, v := range fr.resolved {
				nr[k] = v
			}
			for _, i2 := range s.Instrs {
				if ph, ok := i2.(*ssa.Phi); ok && pi >= 0 {
					nr[ph] = ph.Edges[pi]
				}
			}
			ns := map[*ssa.BasicBlock]bool{s: true}
			for k := range seen {
				ns[k] = true
			}
			walk(s, frame{nr, removed}, ns, append(append([]int{}, trail...), cur.Index))
		}
	}
	walk(H, frame{map[*ssa.Phi]ssa.Value{}, false}, map[*ssa.BasicBlock]bool{H: true}, nil)
	if paths > 5000 {
		return false, "too many paths round the loop to enumerate"
	}
	if paths == 0 {
		return false, "no path returns to the loop header"
	}
	if len(bad) > 0 {
		return false, bad[0]
	}
	return true, ""
}

// depthLimitReached: at ins, on every path, the recursion guard is known to
// have fired: maxDepth > 0  ∧  depth >= maxDepth.
func depthLimitReached(ff *FuncFacts, fn *ssa.Function, ins ssa.Instruction, depthName, maxName string) bool {
	type pr struct {
		v    ssa.Value
		want factKind
	}
	var limited, reached []pr
	for _, b := range fn.Blocks {
		for _, i2 := range b.Instrs {
			bo, ok := i2.(*ssa.BinOp)
			if !ok {
				continue
			}
			isP := func(v ssa.Value, n string) bool { return isParamNamed(v, n) }
			isZero := func(v ssa.Value) bool { n, ok := intConst(v); return ok && n == 0 }
			switch {
			case isP(bo.X, maxName) && isZero(bo.Y) && bo.Op == token.GTR, isZero(bo.X) && isP(bo.Y, maxName) && bo.Op == token.LSS:
				limited = append(limited, pr{bo, fTRUE})
			case isP(bo.X, maxName) && isZero(bo.Y) && bo.Op == token.LEQ, isZero(bo.X) && isP(bo.Y, maxName) && bo.Op == token.GEQ:
				limited = append(limited, pr{bo, fFALSE})
			case isP(bo.X, depthName) && isP(bo.Y, maxName) && bo.Op == token.GEQ, isP(bo.X, maxName) && isP(bo.Y, depthName) && bo.Op == token.LEQ:
				reached = append(reached, pr{bo, fTRUE})
			case isP(bo.X, depthName) && isP(bo.Y, maxName) && bo.Op == token.LSS, isP(bo.X, maxName) && isP(bo.Y, depthName) && bo.Op == token.GTR:
				reached = append(reached, pr{bo, fFALSE})
			}
		}
	}
	if len(limited) == 0 || len(reached) == 0 {
		return false
	}
	return ff.holdsOnEveryPath(ins, func(s *factState) bool {
		a, b := false, false
		for _, x := range limited {
			if s.facts[fact{ff.canon(s, x.v), x.want, ""}] {
				a = true
			}
		}
		for _, x := range reached {
			if s.facts[fact{ff.canon(s, x.v), x.want, ""}] {
				b = true
			}
		}
		return a && b
	}, 24)
}
