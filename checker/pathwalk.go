package main

import (
	"go/token"
	"go/types"

	"golang.org/x/tools/go/ssa"
)

// A small forward walk with nil-ness constant propagation: from a given CFG edge, follow every
// path, binding each phi to the value that arrives over the edge taken and deciding `x == nil` /
// `x != nil` branches whose operand resolves to a nil constant or to a value known non-nil (the
// result of errors.New / fmt.Errorf, a typed value in an interface). Used for "everything that
// enters here leaves with an error" rules where the error travels through a merge (a variable
// assigned in several branches and tested afterwards).

const (
	nlUnknown = iota
	nlNil
	nlNonNil
)

type pathEnv map[ssa.Value]ssa.Value

func nilnessOf(v ssa.Value, env pathEnv, depth int) int {
	if depth > 8 {
		return nlUnknown
	}
	if b, ok := env[v]; ok && b != v {
		return nilnessOf(b, env, depth+1)
	}
	switch x := v.(type) {
	case *ssa.Const:
		if x.IsNil() {
			return nlNil
		}
		return nlNonNil
	case *ssa.MakeInterface:
		return nlNonNil
	case *ssa.ChangeInterface:
		return nilnessOf(x.X, env, depth+1)
	case *ssa.Alloc, *ssa.MakeClosure, *ssa.MakeMap, *ssa.MakeSlice, *ssa.MakeChan:
		return nlNonNil
	case *ssa.Call:
		if callee := x.Common().StaticCallee(); callee != nil && callee.Pkg != nil {
			full := callee.Pkg.Pkg.Path() + "." + callee.Name()
			if full == "errors.New" || full == "fmt.Errorf" {
				return nlNonNil
			}
		}
	case *ssa.UnOp:
		// load of a package-level sentinel error
		if x.Op == token.MUL {
			if g, ok := x.X.(*ssa.Global); ok && sentinelNonNil(g) {
				return nlNonNil
			}
		}
	}
	return nlUnknown
}

// walkFromEdge follows every path that starts with the edge from→to. atReturn is called for every
// return reached with the environment of that path; it returns false to stop the walk. The walk
// gives up (returns false) when it exceeds its budget.
func walkFromEdge(from, to *ssa.BasicBlock, atReturn func(r *ssa.Return, env pathEnv) bool) bool {
	budget := 4000
	type key struct {
		from, to *ssa.BasicBlock
	}
	onPath := map[key]int{}
	var walk func(from, to *ssa.BasicBlock, env pathEnv) bool
	walk = func(from, to *ssa.BasicBlock, env pathEnv) bool {
		budget--
		if budget < 0 {
			return false
		}
		k := key{from, to}
		if onPath[k] >= 2 {
			return true // a loop taken twice adds nothing for nil-ness
		}
		onPath[k]++
		defer func() { onPath[k]-- }()
		// bind phis
		idx := -1
		for i, p := range to.Preds {
			if p == from {
				idx = i
			}
		}
		env2 := pathEnv{}
		for k, v := range env {
			env2[k] = v
		}
		for _, ins := range to.Instrs {
			phi, ok := ins.(*ssa.Phi)
			if !ok {
				break
			}
			if idx >= 0 && idx < len(phi.Edges) {
				e := phi.Edges[idx]
				if b, ok := env[e]; ok {
					e = b
				}
				env2[phi] = e
			}
		}
		last := to.Instrs[len(to.Instrs)-1]
		switch x := last.(type) {
		case *ssa.Return:
			return atReturn(x, env2)
		case *ssa.If:
			taken := -1 // 0: true successor, 1: false successor
			if bo, ok := x.Cond.(*ssa.BinOp); ok && (bo.Op == token.EQL || bo.Op == token.NEQ) {
				var side ssa.Value
				if c, ok := bo.Y.(*ssa.Const); ok && c.IsNil() {
					side = bo.X
				} else if c, ok := bo.X.(*ssa.Const); ok && c.IsNil() {
					side = bo.Y
				}
				if side != nil {
					switch nilnessOf(side, env2, 0) {
					case nlNil:
						taken = map[bool]int{true: 0, false: 1}[bo.Op == token.EQL]
					case nlNonNil:
						taken = map[bool]int{true: 1, false: 0}[bo.Op == token.EQL]
					}
				}
			}
			for i, s := range to.Succs {
				if taken >= 0 && i != taken {
					continue
				}
				if !walk(to, s, env2) {
					return false
				}
			}
			return true
		default:
			for _, s := range to.Succs {
				if !walk(to, s, env2) {
					return false
				}
			}
			return true
		}
	}
	return walk(from, to, pathEnv{})
}

// typeSwitchDefaultEdges: for every run of comma-ok type assertions on one value with at least
// minCases members, the edge taken when the last of them fails (the default of a type switch, the
// final else of a chain of assertions).
func typeSwitchDefaultEdges(fn *ssa.Function, minCases int) [][2]*ssa.BasicBlock {
	byX := map[ssa.Value][]*ssa.TypeAssert{}
	for _, b := range fn.Blocks {
		for _, ins := range b.Instrs {
			if ta, ok := ins.(*ssa.TypeAssert); ok && ta.CommaOk {
				if _, isSig := ta.AssertedType.Underlying().(*types.Signature); isSig {
					byX[ta.X] = append(byX[ta.X], ta)
				}
			}
		}
	}
	var out [][2]*ssa.BasicBlock
	for _, tas := range byX {
		if len(tas) < minCases {
			continue
		}
		hasTA := map[*ssa.BasicBlock]bool{}
		for _, ta := range tas {
			hasTA[ta.Block()] = true
		}
		for _, ta := range tas {
			iff, ok := ta.Block().Instrs[len(ta.Block().Instrs)-1].(*ssa.If)
			if !ok {
				continue
			}
			ex, ok := iff.Cond.(*ssa.Extract)
			if !ok || ex.Tuple != ssa.Value(ta) || ex.Index != 1 {
				continue
			}
			if f := ta.Block().Succs[1]; !hasTA[f] {
				out = append(out, [2]*ssa.BasicBlock{ta.Block(), f})
			}
		}
	}
	return out
}
