package main

import (
	"fmt"
	"go/token"
	"go/types"
	"strings"

	"golang.org/x/tools/go/ssa"
)

// A small forward walk with nil-ness constant propagation: from a given CFG edge, follow every
// path, binding each phi to the value that arrives over the edge taken and deciding `x == nil` /
// `x != nil` branches whose operand resolves to a nil constant or to a value known non-nil (the
// result of errors.New / fmt.Errorf, a typed value in an interface). Used for "everything that
// enters here leaves with an error" rules where the error travels through a merge (a variable
// assigned in several branches and tested afterwards).

const (
	nlUnknown = iota
	nlNil
	nlNonNil
)

type pathEnv map[ssa.Value]ssa.Value

func nilnessOf(v ssa.Value, env pathEnv, depth int) int {
	if depth > 8 {
		return nlUnknown
	}
	if b, ok := env[v]; ok && b != v {
		return nilnessOf(b, env, depth+1)
	}
	switch x := v.(type) {
	case *ssa.Const:
		if x.IsNil() {
			return nlNil
		}
		return nlNonNil
	case *ssa.MakeInterface:
		return nlNonNil
	case *ssa.ChangeInterface:
		return nilnessOf(x.X, env, depth+1)
	case *ssa.Alloc, *ssa.MakeClosure, *ssa.MakeMap, *ssa.MakeSlice, *ssa.MakeChan:
		return nlNonNil
	case *ssa.Call:
		if callee := x.Common().StaticCallee(); callee != nil && callee.Pkg != nil {
			full := callee.Pkg.Pkg.Path() + "." + callee.Name()
			if full == "errors.New" || full == "fmt.Errorf" {
				return nlNonNil
			}
		}
	case *ssa.UnOp:
		// load of a package-level sentinel error
		if x.Op == token.MUL {
			if g, ok := x.X.(*ssa.Global); ok && sentinelNonNil(g) {
				return nlNonNil
			}
		}
	}
	return nlUnknown
}

// walkFromEdge follows every path that starts with the edge from→to. atReturn is called for every
// return reached with the environment of that path; it returns false to stop the walk. The walk
// gives up (returns false) when it exceeds its budget.
func walkFromEdge(from, to *ssa.BasicBlock, atReturn func(r *ssa.Return, env pathEnv) bool) bool {
	budget := 4000
	type key struct {
		from, to *ssa.BasicBlock
	}
	onPath := map[key]int{}
	var walk func(from, to *ssa.BasicBlock, env pathEnv) bool
	walk = func(from, to *ssa.BasicBlock, env pathEnv) bool {
		budget--
		if budget < 0 {
			return false
		}
		k := key{from, to}
		if onPath[k] >= 2 {
			return true // a loop taken twice adds nothing for nil-ness
		}
		onPath[k]++
		defer func() { onPath[k]-- }()
		// bind phis
		idx := -1
		for i, p := range to.Preds {
			if p == from {
				idx = i
			}
		}
		env2 := pathEnv{}
		for k, v := range env {
			env2[k] = v
		}
		for _, ins := range to.Instrs {
			phi, ok := ins.(*ssa.Phi)
			if !ok {
				break
			}
			if idx >= 0 && idx < len(phi.Edges) {
				e := phi.Edges[idx]
				if b, ok := env[e]; ok {
					e = b
				}
				env2[phi] = e
			}
		}
		last := to.Instrs[len(to.Instrs)-1]
		switch x := last.(type) {
		case *ssa.Return:
			return atReturn(x, env2)
		case *ssa.If:
			taken := -1 // 0: true successor, 1: false successor
			if bo, ok := x.Cond.(*ssa.BinOp); ok && (bo.Op == token.EQL || bo.Op == token.NEQ) {
				var side ssa.Value
				if c, ok := bo.Y.(*ssa.Const); ok && c.IsNil() {
					side = bo.X
				} else if c, ok := bo.X.(*ssa.Const); ok && c.IsNil() {
					side = bo.Y
				}
				if side != nil {
					switch nilnessOf(side, env2, 0) {
					case nlNil:
						taken = map[bool]int{true: 0, false: 1}[bo.Op == token.EQL]
					case nlNonNil:
						taken = map[bool]int{true: 1, false: 0}[bo.Op == token.EQL]
					}
				}
			}
			for i, s := range to.Succs {
				if taken >= 0 && i != taken {
					continue
				}
				if !walk(to, s, env2) {
					return false
				}
			}
			return true
		default:
			for _, s := range to.Succs {
				if !walk(to, s, env2) {
					return false
				}
			}
			return true
		}
	}
	return walk(from, to, pathEnv{})
}

// typeSwitchDefaultEdges: for every run of comma-ok type assertions on one value with at least
// minCases members, the edge taken when the last of them fails (the default of a type switch, the
// final else of a chain of assertions).
func typeSwitchDefaultEdges(fn *ssa.Function, minCases int) [][2]*ssa.BasicBlock {
	byX := map[ssa.Value][]*ssa.TypeAssert{}
	for _, b := range fn.Blocks {
		for _, ins := range b.Instrs {
			if ta, ok := ins.(*ssa.TypeAssert); ok && ta.CommaOk {
				if _, isSig := ta.AssertedType.Underlying().(*types.Signature); isSig {
					byX[ta.X] = append(byX[ta.X], ta)
				}
			}
		}
	}
	var out [][2]*ssa.BasicBlock
	for _, tas := range byX {
		if len(tas) < minCases {
			continue
		}
		hasTA := map[*ssa.BasicBlock]bool{}
		for _, ta := range tas {
			hasTA[ta.Block()] = true
		}
		for _, ta := range tas {
			iff, ok := ta.Block().Instrs[len(ta.Block().Instrs)-1].(*ssa.If)
			if !ok {
				continue
			}
			ex, ok := iff.Cond.(*ssa.Extract)
			if !ok || ex.Tuple != ssa.Value(ta) || ex.Index != 1 {
				continue
			}
			if f := ta.Block().Succs[1]; !hasTA[f] {
				out = append(out, [2]*ssa.BasicBlock{ta.Block(), f})
			}
		}
	}
	return out
}

// errNilOnAllPathsTo: on every feasible path from the call c (whose error result is errVal) to
// the instruction use, errVal is known nil. Branches on `errVal ==/!= nil` and on pure predicates
// applied to errVal (streams.IsUnmatchedErr) are followed with their outcome remembered, so that
// `if err != nil && !U(err) { return } else if U(err) { return }` leaves only err == nil — which
// the block-level must-facts lose at the merge in front of the second test.
func errNilOnAllPathsTo(fn *ssa.Function, c *ssa.Call, errVal ssa.Value, use ssa.Instruction) bool {
	type state struct {
		nl    int    // nil-ness of errVal
		preds string // remembered predicate outcomes, canonical
	}
	type key struct {
		b *ssa.BasicBlock
		s state
	}
	seen := map[key]bool{}
	budget := 20000
	ok := true
	predKey := func(v ssa.Value) string {
		call, isCall := v.(*ssa.Call)
		if !isCall {
			return ""
		}
		f := call.Common().StaticCallee()
		if f == nil || !isPurePredicate(f) || len(call.Common().Args) != 1 || call.Common().Args[0] != errVal {
			return ""
		}
		return f.Name()
	}
	var walk func(b *ssa.BasicBlock, from int, s state)
	walk = func(b *ssa.BasicBlock, from int, s state) {
		if !ok {
			return
		}
		budget--
		if budget < 0 {
			ok = false
			return
		}
		if from == 0 {
			k := key{b, s}
			if seen[k] {
				return
			}
			seen[k] = true
		}
		for i := from; i < len(b.Instrs); i++ {
			if b.Instrs[i] == use {
				if s.nl != nlNil {
					ok = false
				}
				return
			}
		}
		last := b.Instrs[len(b.Instrs)-1]
		iff, isIf := last.(*ssa.If)
		if !isIf {
			for _, sc := range b.Succs {
				walk(sc, 0, s)
			}
			return
		}
		cond := iff.Cond
		neg := false
		for {
			if u, isNot := cond.(*ssa.UnOp); isNot && u.Op == token.NOT {
				cond = u.X
				neg = !neg
				continue
			}
			break
		}
		// outcome of cond on the true successor is !neg, on the false successor neg
		for si, sc := range b.Succs {
			val := si == 0 // value of iff.Cond on this edge
			if neg {
				val = !val // value of the stripped condition
			}
			s2 := s
			feasible := true
			if bo, isBo := cond.(*ssa.BinOp); isBo && (bo.Op == token.EQL || bo.Op == token.NEQ) {
				var side ssa.Value
				if k, isC := bo.Y.(*ssa.Const); isC && k.IsNil() {
					side = bo.X
				} else if k, isC := bo.X.(*ssa.Const); isC && k.IsNil() {
					side = bo.Y
				}
				if side == errVal {
					isNil := (bo.Op == token.EQL) == val
					want := nlNonNil
					if isNil {
						want = nlNil
					}
					if s.nl != nlUnknown && s.nl != want {
						feasible = false
					}
					s2.nl = want
				}
			} else if pk := predKey(cond); pk != "" {
				tag := pk + "=" + fmt.Sprint(val) + ";"
				anti := pk + "=" + fmt.Sprint(!val) + ";"
				if strings.Contains(s.preds, anti) {
					feasible = false
				}
				// IsUnmatchedErr(nil) is false
				if pk == "IsUnmatchedErr" && val {
					if s.nl == nlNil {
						feasible = false
					}
					s2.nl = nlNonNil
				}
				if !strings.Contains(s.preds, tag) {
					s2.preds = s.preds + tag
				}
			}
			if feasible {
				walk(sc, 0, s2)
			}
		}
	}
	// start after the call
	start := -1
	for i, ins := range c.Block().Instrs {
		if ins == ssa.Instruction(c) {
			start = i + 1
		}
	}
	if start < 0 {
		return false
	}
	walk(c.Block(), start, state{})
	return ok
}
