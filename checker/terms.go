package main

// Symbolic terms for "how is this value computed" rules (header values, digests).
//
// termOf reads an SSA value as an expression tree over constants, parameters of
// the function under analysis, loads of fields/globals and calls. It looks
// through conversions, single-store locals, string concatenation,
// bytes.Buffer accumulation, and — this is the point — through calls of
// straight-line functions of package pub (their single returned expression is
// read with the actual arguments substituted). A rule phrased over terms gives
// the same verdict whether a value is computed in place, through locals, or
// through a small helper function.

import (
	"fmt"
	"go/token"
	"strings"

	"golang.org/x/tools/go/ssa"
)

type term struct {
	op   string // const | param | global | field | call | concat | slice | extract | unknown
	s    string // const text, parameter / global / field / callee name
	args []*term
	val  ssa.Value
}

func (t *term) String() string {
	if t == nil {
		return "<nil>"
	}
	switch t.op {
	case "const":
		return fmt.Sprintf("%q", t.s)
	case "param", "global":
		return t.s
	case "field":
		return t.args[0].String() + "." + t.s
	case "unknown":
		return "?" + t.s
	}
	var as []string
	for _, a := range t.args {
		as = append(as, a.String())
	}
	name := t.op
	if t.s != "" {
		name = t.s
	}
	return name + "(" + strings.Join(as, ", ") + ")"
}

type termEnv map[*ssa.Parameter]*term

func termOf(v ssa.Value, env termEnv, depth int) *term {
	if v == nil {
		return &term{op: "unknown", s: "nil"}
	}
	if depth > 12 {
		return &term{op: "unknown", s: "deep", val: v}
	}
	switch x := v.(type) {
	case *ssa.Const:
		if s, ok := stringConst(x); ok {
			return &term{op: "const", s: s, val: v}
		}
		if x.IsNil() {
			return &term{op: "const", s: "<nil>", val: v}
		}
		return &term{op: "const", s: x.Value.ExactString(), val: v}
	case *ssa.Parameter:
		if env != nil {
			if t, ok := env[x]; ok {
				return t
			}
		}
		return &term{op: "param", s: x.Name(), val: v}
	case *ssa.MakeInterface:
		return termOf(x.X, env, depth+1)
	case *ssa.ChangeType:
		return termOf(x.X, env, depth+1)
	case *ssa.ChangeInterface:
		return termOf(x.X, env, depth+1)
	case *ssa.Convert:
		return termOf(x.X, env, depth+1)
	case *ssa.Extract:
		return &term{op: "extract", s: fmt.Sprint(x.Index), args: []*term{termOf(x.Tuple, env, depth+1)}, val: v}
	case *ssa.BinOp:
		if x.Op == token.ADD {
			l, r := termOf(x.X, env, depth+1), termOf(x.Y, env, depth+1)
			return concatTerms(l, r)
		}
	case *ssa.Slice:
		return &term{op: "slice", args: []*term{termOfCell(x.X, env, depth+1)}, val: v}
	case *ssa.UnOp:
		if x.Op == token.MUL {
			return termOfCell(x.X, env, depth+1)
		}
	case *ssa.Field:
		return &term{op: "field", s: fieldName(x.X.Type(), x.Field), args: []*term{termOf(x.X, env, depth+1)}, val: v}
	case *ssa.Call:
		cc := x.Common()
		if cc.IsInvoke() {
			args := []*term{termOf(cc.Value, env, depth+1)}
			for _, a := range cc.Args {
				args = append(args, termOf(a, env, depth+1))
			}
			return &term{op: "call", s: "invoke:" + cc.Method.Name(), args: args, val: v}
		}
		name := staticName(x)
		if name == "(bytes.Buffer).String" {
			if t := bufferTerm(x, env, depth+1); t != nil {
				return t
			}
		}
		if f := cc.StaticCallee(); f != nil && f.Pkg != nil && x.Parent() != nil && f.Pkg == x.Parent().Pkg && len(f.FreeVars) == 0 && len(f.Blocks) == 1 {
			// a straight-line function of this package: read its returned expression
			if rs := returnsIn(f); len(rs) == 1 && len(rs[0].Results) == 1 && len(cc.Args) == len(f.Params) {
				env2 := termEnv{}
				for i, prm := range f.Params {
					env2[prm] = termOf(cc.Args[i], env, depth+1)
				}
				return termOf(rs[0].Results[0], env2, depth+1)
			}
		}
		var args []*term
		for _, a := range cc.Args {
			args = append(args, termOf(a, env, depth+1))
		}
		return &term{op: "call", s: name, args: args, val: v}
	}
	return &term{op: "unknown", s: valueLabel(v), val: v}
}

// termOfCell: the content of a memory cell (global, field, single-store local).
func termOfCell(addr ssa.Value, env termEnv, depth int) *term {
	switch a := addr.(type) {
	case *ssa.Global:
		return &term{op: "global", s: a.Name(), val: addr}
	case *ssa.FieldAddr:
		return &term{op: "field", s: fieldName(a.X.Type(), a.Field), args: []*term{termOfCell(a.X, env, depth+1)}, val: addr}
	case *ssa.Alloc:
		var stored ssa.Value
		n := 0
		for _, r := range *a.Referrers() {
			if st, ok := r.(*ssa.Store); ok && st.Addr == ssa.Value(a) {
				n++
				stored = st.Val
			}
		}
		if n == 1 {
			return termOf(stored, env, depth+1)
		}
	}
	if p, ok := addr.(*ssa.Parameter); ok {
		return termOf(p, env, depth+1)
	}
	return &term{op: "unknown", s: valueLabel(addr), val: addr}
}

func concatTerms(ts ...*term) *term {
	var flat []*term
	for _, t := range ts {
		if t.op == "concat" {
			flat = append(flat, t.args...)
		} else {
			flat = append(flat, t)
		}
	}
	// merge adjacent constants
	var out []*term
	for _, t := range flat {
		if n := len(out); n > 0 && out[n-1].op == "const" && t.op == "const" {
			out[n-1] = &term{op: "const", s: out[n-1].s + t.s}
			continue
		}
		out = append(out, t)
	}
	if len(out) == 1 {
		return out[0]
	}
	return &term{op: "concat", args: out}
}

// bufferTerm: b.String() where b is a local bytes.Buffer written only by
// WriteString calls that are totally ordered by dominance: the concatenation
// of what was written.
func bufferTerm(str *ssa.Call, env termEnv, depth int) *term {
	buf, ok := str.Call.Args[0].(*ssa.Alloc)
	if !ok {
		return nil
	}
	var writes []*ssa.Call
	for _, r := range *buf.Referrers() {
		c, ok := r.(*ssa.Call)
		if !ok {
			if _, isDbg := r.(*ssa.DebugRef); isDbg {
				continue
			}
			return nil
		}
		switch staticName(c) {
		case "(bytes.Buffer).WriteString":
			writes = append(writes, c)
		case "(bytes.Buffer).String":
		default:
			return nil
		}
	}
	// order by dominance; every write must dominate String()
	for i := 0; i < len(writes); i++ {
		for j := i + 1; j < len(writes); j++ {
			if dominates(writes[j], writes[i]) {
				writes[i], writes[j] = writes[j], writes[i]
			}
		}
	}
	var parts []*term
	for i, w := range writes {
		if !dominates(w, str) || (i > 0 && !dominates(writes[i-1], w)) {
			return nil
		}
		parts = append(parts, termOf(w.Call.Args[1], env, depth+1))
	}
	if len(parts) == 0 {
		return &term{op: "const", s: ""}
	}
	return concatTerms(parts...)
}

// isCallTerm: t is a call of the named function/method.
func isCallTerm(t *term, name string) bool { return t != nil && t.op == "call" && t.s == name }

// dateTerm: t is Format(UTC(Now(<clock>)), layout) [+ suffix] giving the RFC 7231
// IMF-fixdate in GMT; the clock is a parameter named clockParam or the field
// `clock`.
func dateTerm(t *term, clockParam string) (bool, string) {
	suffix := ""
	f := t
	if t.op == "concat" {
		if len(t.args) != 2 || t.args[1].op != "const" {
			return false, "Date is not <formatted time> + <constant>: " + t.String()
		}
		f, suffix = t.args[0], t.args[1].s
	}
	if !isCallTerm(f, "(time.Time).Format") || len(f.args) != 2 {
		return false, "Date value is not produced by time.Time.Format: " + t.String()
	}
	if f.args[1].op != "const" || f.args[1].s+suffix != "Mon, 02 Jan 2006 15:04:05 GMT" {
		return false, fmt.Sprintf("layout %s + %q is not the RFC 7231 IMF-fixdate in GMT", f.args[1], suffix)
	}
	u := f.args[0]
	if !isCallTerm(u, "(time.Time).UTC") {
		return false, "the time formatted is not converted with UTC() immediately before formatting: " + u.String()
	}
	n := u.args[0]
	if !isCallTerm(n, "invoke:Now") {
		return false, "the time is not taken directly from the clock's Now(): " + n.String()
	}
	c := n.args[0]
	if c.op == "param" && c.s == clockParam {
		return true, ""
	}
	if c.op == "field" && c.s == "clock" {
		return true, ""
	}
	return false, "Now() is not called on the application's clock: " + c.String()
}
