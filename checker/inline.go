package main

// E0 — helper inlining pre-pass (source level, bounded).
//
// The path rules of this checker are anchored on the functions that exist in
// package pub today (known_funcs.go lists their names; a vocabulary of names,
// not code). A maintainer who extracts part of such a function into a *new*
// unexported helper (or turns a closure into a new method) does not change
// behaviour, but would move the calls, gates and writes a rule looks for out of
// the anchored function. Before anything is analysed, calls of functions that
// are NOT in the known list are therefore expanded in place, in an in-memory
// overlay of the source handed to go/packages: the call statement is replaced
// by a block that binds receiver and arguments, runs the helper's body inside
// a one-iteration labelled loop (each `return` becomes "assign results; run
// the deferred calls registered so far; break"), and assigns the results. The
// overlay is type-checked like any source; if it does not type-check the
// expansion is dropped and the original text is analysed. `//line` directives
// keep every reported position pointing at the real file and line.
//
// Supported call forms: `x, err := h(..)`, `x, err = h(..)`, `h(..)`,
// `return h(..)`, and `if x, err := h(..); cond {`. Not expanded (the call is
// then analysed as a call, as before): variadic or generic helpers, directly
// recursive helpers, helpers with a defer below the top level of their body,
// with defer plus named results, or calling recover; `go`/`defer` statements;
// calls nested inside larger expressions. At most inlineRounds rounds.

import (
	"bytes"
	"fmt"
	"go/ast"
	"go/parser"
	"go/token"
	"go/types"
	"os"
	"sort"
	"strings"

	"golang.org/x/tools/go/packages"
)

const inlineRounds = 5

type awaySpan struct {
	file       string
	start, end int
}

type inlineInfo struct {
	awaySpans []awaySpan // where the Away helpers are declared in the overlay text (byte offsets)
	Away      []string   // new helpers with no call left after expansion: not analysed on their own
	Expanded  []string   // "helper into caller (file:line)"
	Skipped   []string   // "helper: reason"
	Dropped   string     // non-empty when an overlay failed to type-check
}

var lastInline = &inlineInfo{}
var lastInlineStreams = &inlineInfo{}

// expandedAway: names (as in known_funcs.go) of new helpers every reference to
// which was expanded. Their bodies are analysed inside their callers, with the
// actual arguments; analysing them again in isolation would judge code that can
// no longer run in any other context.
var expandedAway = map[string]bool{}

// declName: Recv.Name or Name, as in known_funcs.go.
func declName(fd *ast.FuncDecl) string { return funcDeclName(fd) }

type textEdit struct {
	start, end int // byte offsets
	text       string
}

func applyEdits(src []byte, eds []textEdit) []byte {
	sort.Slice(eds, func(i, j int) bool { return eds[i].start < eds[j].start })
	var out bytes.Buffer
	last := 0
	for _, e := range eds {
		if e.start < last {
			continue // overlapping: keep the first
		}
		out.Write(src[last:e.start])
		out.WriteString(e.text)
		last = e.end
	}
	out.Write(src[last:])
	return out.Bytes()
}

// helperInfo describes a new function that can be expanded.
type helperInfo struct {
	decl  *ast.FuncDecl // nil for a function literal
	lit   *ast.FuncLit  // an immediately invoked literal, or a local closure that is only ever called
	ftype *ast.FuncType
	body  *ast.BlockStmt
	name  string
	file  *ast.File
	obj   *types.Func
	why   string // non-empty: cannot be expanded
}

func (h *helperInfo) pos() token.Pos {
	if h.decl != nil {
		return h.decl.Pos()
	}
	return h.lit.Pos()
}

func inspectNoLits(n ast.Node, f func(ast.Node) bool) {
	ast.Inspect(n, func(m ast.Node) bool {
		if _, ok := m.(*ast.FuncLit); ok {
			return false
		}
		return f(m)
	})
}

func analyseHelper(p *packages.Package, fd *ast.FuncDecl) string {
	return analyseFuncBody(p, fd.Type, fd.Body, p.TypesInfo.Defs[fd.Name])
}

// analyseFuncBody: can a function with this signature and body be expanded at a call site?
func analyseFuncBody(p *packages.Package, ftype *ast.FuncType, body *ast.BlockStmt, self types.Object) string {
	fd := &ast.FuncDecl{Type: ftype, Body: body}
	if fd.Type.TypeParams != nil && len(fd.Type.TypeParams.List) > 0 {
		return "generic"
	}
	if fd.Type.Params != nil {
		for _, f := range fd.Type.Params.List {
			if _, ok := f.Type.(*ast.Ellipsis); ok {
				return "variadic"
			}
			for _, n := range f.Names {
				if n.Name == "_" {
					return "blank parameter"
				}
			}
			if len(f.Names) == 0 {
				return "unnamed parameter"
			}
		}
	}
	named := false
	if fd.Type.Results != nil {
		for _, f := range fd.Type.Results.List {
			if len(f.Names) > 0 {
				named = true
			}
		}
	}
	why := ""
	hasDefer := false
	for _, st := range fd.Body.List {
		if _, ok := st.(*ast.DeferStmt); ok {
			hasDefer = true
		}
	}
	inspectNoLits(fd.Body, func(n ast.Node) bool {
		switch x := n.(type) {
		case *ast.DeferStmt:
			top := false
			for _, st := range fd.Body.List {
				if st == ast.Stmt(x) {
					top = true
				}
			}
			if !top {
				why = "defer below the top level of the body"
			}
		case *ast.CallExpr:
			if id, ok := x.Fun.(*ast.Ident); ok && id.Name == "recover" {
				why = "calls recover"
			}
			var callee types.Object
			switch f := x.Fun.(type) {
			case *ast.Ident:
				callee = p.TypesInfo.Uses[f]
			case *ast.SelectorExpr:
				callee = p.TypesInfo.Uses[f.Sel]
			}
			if callee != nil && self != nil && callee == self {
				why = "directly recursive"
			}
		case *ast.BranchStmt:
			if x.Tok == token.GOTO {
				why = "goto"
			}
		}
		return true
	})
	if why == "" && hasDefer && named {
		why = "defer together with named results"
	}
	return why
}

// inlineOverlay computes the overlay for package dir (relative to repoDir),
// given the set of known function names. It returns nil when nothing is
// expanded.
// namedOnly: expand only newly declared named functions (function literals are left alone and
// nothing is recorded in the pub-specific tables); used for package streams.
func inlineOverlay(dir string, known map[string]bool, namedOnly bool) map[string][]byte {
	info := &inlineInfo{}
	if !namedOnly {
		lastInline = info
	} else {
		info = lastInlineStreams // accumulates over package streams and the streams/values packages
	}
	overlay := map[string][]byte{}
	counter := 0
	// cheap pre-check (syntax only): is any function declared that is not known?
	anyNew := false
	if ents, err := os.ReadDir(repoDir + "/" + dir); err == nil {
		fs := token.NewFileSet()
		for _, e := range ents {
			if e.IsDir() || !strings.HasSuffix(e.Name(), ".go") || strings.HasSuffix(e.Name(), "_test.go") {
				continue
			}
			f, err := parser.ParseFile(fs, repoDir+"/"+dir+"/"+e.Name(), nil, parser.SkipObjectResolution)
			if err != nil {
				continue // the typed load reports it
			}
			for _, d := range f.Decls {
				if fd, ok := d.(*ast.FuncDecl); ok && fd.Body != nil && !known[declName(fd)] {
					anyNew = true
				}
			}
		}
	}
	if namedOnly && !anyNew {
		return nil
	}
	for round := 0; round < inlineRounds; round++ {
		cfg := &packages.Config{Mode: packages.LoadSyntax, Dir: repoDir, Env: loadEnv(), Overlay: overlay}
		if tags := os.Getenv("VERIF_TAGS"); tags != "" {
			cfg.BuildFlags = []string{"-tags=" + tags}
		}
		pkgs, err := packages.Load(cfg, "./"+dir)
		if err != nil || len(pkgs) != 1 {
			return nil
		}
		p := pkgs[0]
		if len(p.Errors) > 0 {
			if round == 0 {
				return nil // the plain load reports the errors
			}
			info.Dropped = fmt.Sprintf("the expanded source of round %d does not type-check (%v); analysing the original text", round, strings.ReplaceAll(fmt.Sprint(p.Errors), "\n", " | "))
			return nil
		}
		// new helpers
		helpers := map[*types.Func]*helperInfo{}
		for _, f := range p.Syntax {
			if isTestFile(p.Fset, f.Pos()) {
				continue
			}
			for _, d := range f.Decls {
				fd, ok := d.(*ast.FuncDecl)
				if !ok || fd.Body == nil || known[declName(fd)] {
					continue
				}
				obj, _ := p.TypesInfo.Defs[fd.Name].(*types.Func)
				if obj == nil {
					continue
				}
				helpers[obj] = &helperInfo{decl: fd, ftype: fd.Type, body: fd.Body, name: declName(fd), file: f, obj: obj, why: analyseHelper(p, fd)}
				for _, target := range closureAlias {
					if target == declName(fd) {
						helpers[obj].why = "stands for a closure"
					}
				}
			}
		}
		// function literals that can be expanded where they are called: immediately invoked
		// literals, and local closures `f := func(..){..}` of functions that have no anchored
		// closure of their own, when f is only ever called (never passed, stored, deferred or
		// started as a goroutine)
		litHelpers := map[*ast.FuncLit]*helperInfo{}
		closureVars := map[types.Object]*helperInfo{}
		closureDefs := map[types.Object]*ast.AssignStmt{}
		for _, f := range p.Syntax {
			if isTestFile(p.Fset, f.Pos()) || namedOnly {
				continue
			}
			for _, d := range f.Decls {
				fd, ok := d.(*ast.FuncDecl)
				if !ok || fd.Body == nil {
					continue
				}
				// the literal that plays the role of the function's known closure stays a closure
				var anchoredLit *ast.FuncLit
				if known[declName(fd)] && knownPubClosures[declName(fd)] > 0 {
					want := knownPubClosureKind[declName(fd)]
					for _, lk := range funcLitKinds(fd.Body) {
						if lk.kind == want && anchoredLit == nil {
							anchoredLit = lk.lit
						}
					}
				}
				ast.Inspect(fd.Body, func(n ast.Node) bool {
					switch x := n.(type) {
					case *ast.GoStmt, *ast.DeferStmt:
						return false
					case *ast.FuncLit:
						if x == anchoredLit {
							return true // its inside may still contain new literals
						}
					case *ast.CallExpr:
						if lit, ok := x.Fun.(*ast.FuncLit); ok && lit != anchoredLit {
							litHelpers[lit] = &helperInfo{lit: lit, ftype: lit.Type, body: lit.Body, name: "func literal in " + declName(fd), file: f, why: analyseFuncBody(p, lit.Type, lit.Body, nil)}
						}
					case *ast.AssignStmt:
						if x.Tok != token.DEFINE || len(x.Lhs) != 1 || len(x.Rhs) != 1 {
							return true
						}
						lit, ok := x.Rhs[0].(*ast.FuncLit)
						id, ok2 := x.Lhs[0].(*ast.Ident)
						if !ok || !ok2 || id.Name == "_" || lit == anchoredLit {
							return true
						}
						obj := p.TypesInfo.Defs[id]
						if obj == nil {
							return true
						}
						closureVars[obj] = &helperInfo{lit: lit, ftype: lit.Type, body: lit.Body, name: "closure " + id.Name + " of " + declName(fd), file: f, why: analyseFuncBody(p, lit.Type, lit.Body, nil)}
						closureDefs[obj] = x
					}
					return true
				})
			}
		}
		// a closure variable qualifies only if every use of it is the function of a call that is
		// a statement on its own (not in go/defer, not nested, not assigned again)
		if len(closureVars) > 0 {
			callFun := map[*ast.Ident]bool{}
			for _, f := range p.Syntax {
				ast.Inspect(f, func(n ast.Node) bool {
					switch x := n.(type) {
					case *ast.GoStmt:
						return false
					case *ast.DeferStmt:
						return false
					case *ast.CallExpr:
						if id, ok := x.Fun.(*ast.Ident); ok {
							callFun[id] = true
						}
					}
					return true
				})
			}
			for id, obj := range p.TypesInfo.Uses {
				if h := closureVars[obj]; h != nil && !callFun[id] {
					h.why = "the closure value is used other than by calling it"
				}
			}
		}
		if len(helpers) == 0 && len(litHelpers) == 0 && len(closureVars) == 0 {
			break
		}
		if round == 0 && namedOnly {
			// a known function that has fewer function literals than before and references a new
			// function nobody else references: that function took over a closure's body and is
			// left as it is (the rules see a call, as they did when it was a closure)
			refBy := map[types.Object]map[string]bool{}
			for _, f := range p.Syntax {
				for _, d := range f.Decls {
					fd, ok := d.(*ast.FuncDecl)
					if !ok || fd.Body == nil {
						continue
					}
					ast.Inspect(fd.Body, func(n ast.Node) bool {
						if id, ok := n.(*ast.Ident); ok {
							if fn, ok := p.TypesInfo.Uses[id].(*types.Func); ok && helpers[fn] != nil {
								if refBy[fn] == nil {
									refBy[fn] = map[string]bool{}
								}
								refBy[fn][declName(fd)] = true
							}
						}
						return true
					})
				}
			}
			lost := map[string]int{}
			for _, f := range p.Syntax {
				for _, d := range f.Decls {
					if fd, ok := d.(*ast.FuncDecl); ok && fd.Body != nil && known[declName(fd)] {
						if n := knownStreamsClosures[declName(fd)] - countFuncLits(fd.Body); n > 0 {
							lost[declName(fd)] = n
						}
					}
				}
			}
			cands := map[string][]*helperInfo{}
			for fn, h := range helpers {
				by := refBy[fn]
				delete(by, h.name) // self reference (recursion)
				if len(by) == 1 {
					for caller := range by {
						if lost[caller] > 0 {
							cands[caller] = append(cands[caller], h)
						}
					}
				}
			}
			for caller, hs := range cands {
				n := lost[caller]
				var open []*helperInfo
				for _, h := range hs {
					if h.why != "" {
						n-- // cannot be expanded anyway: it accounts for one of the lost closures
					} else {
						open = append(open, h)
					}
				}
				if n > 0 && len(open) <= n {
					for _, h := range open {
						h.why = "stands for a closure of " + caller
					}
				}
			}
			for _, h := range helpers {
				if h.why != "" {
					info.Skipped = append(info.Skipped, declName(h.decl)+": "+h.why)
				}
			}
			sort.Strings(info.Skipped)
		}
		if round == 0 && !namedOnly {
			// a known function that lost its only closure and now calls exactly one new function,
			// which nobody else references: that function stands for the closure
			refCount := map[types.Object]int{}
			for _, o := range p.TypesInfo.Uses {
				refCount[o]++
			}
			for _, f := range p.Syntax {
				if isTestFile(p.Fset, f.Pos()) {
					continue
				}
				for _, d := range f.Decls {
					fd, ok := d.(*ast.FuncDecl)
					if !ok || fd.Body == nil || !known[declName(fd)] || knownPubClosures[declName(fd)] != 1 || countFuncLits(fd.Body) != 0 {
						continue
					}
					var cands []*helperInfo
					seenC := map[*helperInfo]int{}
					ast.Inspect(fd.Body, func(n ast.Node) bool {
						if id, ok := n.(*ast.Ident); ok {
							if fn, ok := p.TypesInfo.Uses[id].(*types.Func); ok {
								if h := helpers[fn]; h != nil {
									if seenC[h] == 0 {
										cands = append(cands, h)
									}
									seenC[h]++
								}
							}
						}
						return true
					})
					if len(cands) == 1 && refCount[cands[0].obj] == seenC[cands[0]] {
						closureAlias[declName(fd)+"$1"] = declName(cands[0].decl)
						cands[0].why = "stands for the closure " + declName(fd) + "$1 (analysed under that role)"
					}
				}
			}
			for _, h := range helpers {
				if h.why != "" {
					info.Skipped = append(info.Skipped, declName(h.decl)+": "+h.why)
				}
			}
			sort.Strings(info.Skipped)
		}
		srcOf := func(filename string) []byte {
			if b, ok := overlay[filename]; ok {
				return b
			}
			b, err := os.ReadFile(filename)
			if err != nil {
				return nil
			}
			return b
		}
		calleeOf := func(c *ast.CallExpr) (*helperInfo, ast.Expr) {
			switch f := c.Fun.(type) {
			case *ast.FuncLit:
				if h := litHelpers[f]; h != nil && h.why == "" {
					return h, nil
				}
			case *ast.Ident:
				if fn, ok := p.TypesInfo.Uses[f].(*types.Func); ok {
					if h := helpers[fn]; h != nil && h.why == "" {
						return h, nil
					}
				}
				if v, ok := p.TypesInfo.Uses[f].(*types.Var); ok {
					if h := closureVars[v]; h != nil && h.why == "" {
						return h, nil
					}
				}
			case *ast.SelectorExpr:
				if fn, ok := p.TypesInfo.Uses[f.Sel].(*types.Func); ok {
					if h := helpers[fn]; h != nil && h.why == "" {
						if sel := p.TypesInfo.Selections[f]; sel != nil && sel.Kind() == types.MethodVal && len(sel.Index()) == 1 {
							return h, f.X
						}
					}
				}
			}
			return nil, nil
		}
		edits := map[string][]textEdit{}
		nEd := 0
		for _, f := range p.Syntax {
			if isTestFile(p.Fset, f.Pos()) {
				continue
			}
			tf := p.Fset.File(f.Pos())
			fname := tf.Name()
			src := srcOf(fname)
			if src == nil {
				continue
			}
			off := func(pos token.Pos) int { return tf.Offset(pos) }
			lineOf := func(pos token.Pos) int { return p.Fset.PositionFor(pos, true).Line }
			fileOf := func(pos token.Pos) string { return p.Fset.PositionFor(pos, true).Filename }
			for _, d := range f.Decls {
				caller, ok := d.(*ast.FuncDecl)
				if !ok || caller.Body == nil {
					continue
				}
				var visit func(n ast.Node) bool
				handled := map[ast.Node]bool{}
				try := func(stmt ast.Stmt, call *ast.CallExpr, kind string, lhs string, tok string, ifs *ast.IfStmt) {
					h, recv := calleeOf(call)
					if h == nil || handled[stmt] {
						return
					}
					if h.decl != nil && h.decl == caller {
						return
					}
					if h.decl != nil && h.decl.Recv != nil && recv == nil {
						return
					}
					// receiver must be addressable-compatible: pointer receiver called on a value is
					// only expanded when the static type of the receiver expression is already a pointer
					if h.decl != nil && h.decl.Recv != nil {
						rt := p.TypesInfo.TypeOf(recv)
						_, recvIsPtr := rt.(*types.Pointer)
						_, wantPtr := h.decl.Recv.List[0].Type.(*ast.StarExpr)
						if recvIsPtr != wantPtr {
							return
						}
					}
					counter++
					id := fmt.Sprintf("__inl%d", counter)
					// tail position: the helper's returns become returns of the caller (no merge of the
					// helper's exits before the caller's return)
					tail := kind == "return" || kind == "returnN"
					tailRet := func(vals string) string {
						if kind == "returnN" {
							return "return " + strings.Replace(lhs, "\x00", vals, 1)
						}
						return "return " + vals
					}
					htf := p.Fset.File(h.pos())
					hsrc := srcOf(htf.Name())
					if hsrc == nil {
						return
					}
					text := func(a, b token.Pos) string { return string(src[off(a):off(b)]) }
					htext := func(a, b token.Pos) string { return string(hsrc[htf.Offset(a):htf.Offset(b)]) }
					// results
					type resv struct{ name, typ string }
					var results []resv
					namedRes := false
					if h.ftype.Results != nil {
						for _, fl := range h.ftype.Results.List {
							t := htext(fl.Type.Pos(), fl.Type.End())
							if len(fl.Names) == 0 {
								results = append(results, resv{"", t})
							}
							for _, n := range fl.Names {
								results = append(results, resv{n.Name, t})
								namedRes = true
							}
						}
					}
					var b strings.Builder
					var rnames []string
					for i, r := range results {
						rn := fmt.Sprintf("%s_r%d", id, i)
						rnames = append(rnames, rn)
						fmt.Fprintf(&b, "var %s %s; ", rn, r.typ)
					}
					if len(results) > 0 {
						b.WriteString("_ = " + rnames[0] + "; ")
					}
					b.WriteString("{ ")
					// bind receiver and arguments
					type bind struct{ name, typ, expr string }
					var binds []bind
					if h.decl != nil && h.decl.Recv != nil {
						rf := h.decl.Recv.List[0]
						if len(rf.Names) == 1 && rf.Names[0].Name != "_" {
							binds = append(binds, bind{rf.Names[0].Name, htext(rf.Type.Pos(), rf.Type.End()), text(recv.Pos(), recv.End())})
						} else {
							binds = append(binds, bind{"_", htext(rf.Type.Pos(), rf.Type.End()), text(recv.Pos(), recv.End())})
						}
					}
					ai := 0
					if h.ftype.Params != nil {
						for _, fl := range h.ftype.Params.List {
							for _, n := range fl.Names {
								if ai >= len(call.Args) {
									return
								}
								binds = append(binds, bind{n.Name, htext(fl.Type.Pos(), fl.Type.End()), text(call.Args[ai].Pos(), call.Args[ai].End())})
								ai++
							}
						}
					}
					if ai != len(call.Args) {
						return // f(g()) multi-value forwarding
					}
					var pre strings.Builder // declarations that live in the scope of the helper's own body
					if len(binds) > 0 {
						// two stages: every argument is evaluated in the caller's scope (into a
						// temporary of the parameter's declared type) before any parameter name
						// is introduced
						var tmp []string
						for i, bd := range binds {
							t := fmt.Sprintf("%s_a%d", id, i)
							tmp = append(tmp, t)
							fmt.Fprintf(&b, "var %s %s = %s; ", t, bd.typ, bd.expr)
						}
						for i, bd := range binds {
							if bd.name == "_" {
								fmt.Fprintf(&pre, "_ = %s; ", tmp[i])
								continue
							}
							fmt.Fprintf(&pre, "var %s %s = %s; _ = %s; ", bd.name, bd.typ, tmp[i], bd.name)
						}
					}
					if namedRes {
						for _, r := range results {
							if r.name != "" && r.name != "_" {
								fmt.Fprintf(&pre, "var %s %s; _ = %s; ", r.name, r.typ, r.name)
							}
						}
					}
					// body with returns and defers rewritten
					var defers []*ast.DeferStmt
					for _, st := range h.body.List {
						if ds, ok := st.(*ast.DeferStmt); ok {
							defers = append(defers, ds)
						}
					}
					deferText := func(before token.Pos) string {
						var out []string
						for i := len(defers) - 1; i >= 0; i-- {
							if defers[i].Pos() < before {
								out = append(out, htext(defers[i].Call.Pos(), defers[i].Call.End()))
							}
						}
						if len(out) == 0 {
							return ""
						}
						return strings.Join(out, "; ") + "; "
					}
					var beds []textEdit
					bodyStart := htf.Offset(h.body.Lbrace) + 1
					bodyEnd := htf.Offset(h.body.Rbrace)
					bad := false
					inspectNoLits(h.body, func(n ast.Node) bool {
						switch x := n.(type) {
						case *ast.DeferStmt:
							beds = append(beds, textEdit{htf.Offset(x.Pos()) - bodyStart, htf.Offset(x.End()) - bodyStart, "{}"})
							return false
						case *ast.ReturnStmt:
							var t strings.Builder
							t.WriteString("{ ")
							if len(x.Results) > 0 {
								var rs []string
								for _, r := range x.Results {
									rs = append(rs, htext(r.Pos(), r.End()))
								}
								fmt.Fprintf(&t, "%s = %s; ", strings.Join(rnames, ", "), strings.Join(rs, ", "))
							} else if len(results) > 0 {
								if !namedRes {
									bad = true
								}
								var rs []string
								for _, r := range results {
									rs = append(rs, r.name)
								}
								fmt.Fprintf(&t, "%s = %s; ", strings.Join(rnames, ", "), strings.Join(rs, ", "))
							}
							t.WriteString(deferText(x.Pos()))
							if tail {
								t.WriteString(tailRet(strings.Join(rnames, ", ")) + " }")
							} else {
								fmt.Fprintf(&t, "break %s }", id)
							}
							if strings.Contains(t.String(), "\n") {
								// keep line structure: a multi-line return keeps its lines
							}
							beds = append(beds, textEdit{htf.Offset(x.Pos()) - bodyStart, htf.Offset(x.End()) - bodyStart, t.String()})
							return false
						}
						return true
					})
					if bad {
						return
					}
					body := string(applyEdits(hsrc[bodyStart:bodyEnd], beds))
					hline := p.Fset.PositionFor(h.body.Lbrace, true)
					if tail {
						fmt.Fprintf(&b, "\n//line %s:%d\n{ %s%s\n}; }\n", hline.Filename, hline.Line, pre.String(), body)
					} else {
						fmt.Fprintf(&b, "\n//line %s:%d\n%s: for { %s%s\n", hline.Filename, hline.Line, id, pre.String(), body)
						// falling off the end (no results): run every defer
						b.WriteString(deferText(h.body.Rbrace))
						fmt.Fprintf(&b, "break %s }; }\n", id)
					}
					// the statement itself
					startLine := lineOf(stmt.Pos())
					fmt.Fprintf(&b, "//line %s:%d\n", fileOf(stmt.Pos()), startLine)
					rjoin := strings.Join(rnames, ", ")
					var ed []textEdit
					switch kind {
					case "assign":
						fmt.Fprintf(&b, "%s %s %s", lhs, tok, rjoin)
						ed = append(ed, textEdit{off(stmt.Pos()), off(stmt.End()), b.String()})
					case "expr":
						if len(rnames) > 0 {
							var us []string
							for range rnames {
								us = append(us, "_")
							}
							fmt.Fprintf(&b, "%s = %s", strings.Join(us, ", "), rjoin)
						}
						ed = append(ed, textEdit{off(stmt.Pos()), off(stmt.End()), b.String()})
					case "return", "returnN":
						// every exit of the expanded body returns; this line is unreachable but keeps the
						// statement list well-formed for the line directive that follows
						b.WriteString("panic(0)")
						ed = append(ed, textEdit{off(stmt.Pos()), off(stmt.End()), b.String()})
					case "ifcond":
						// `if [!]call {` -> `{ <expansion> \n if [!]result {` … `}`
						if len(rnames) != 1 {
							return
						}
						fmt.Fprintf(&b, "\n//line %s:%d\nif ", fileOf(ifs.Cond.Pos()), lineOf(ifs.Cond.Pos()))
						ed = append(ed, textEdit{off(ifs.Pos()), off(ifs.Cond.Pos()), "{ " + b.String()})
						ed = append(ed, textEdit{off(call.Pos()), off(call.End()), rnames[0]})
						ed = append(ed, textEdit{off(ifs.End()), off(ifs.End()), " }"})
					case "if":
						// `if lhs tok call; cond {` -> `{ <expansion>; lhs tok results \n if cond {` … `}`
						fmt.Fprintf(&b, "%s %s %s\n//line %s:%d\nif ", lhs, tok, rjoin, fileOf(ifs.Cond.Pos()), lineOf(ifs.Cond.Pos()))
						ed = append(ed, textEdit{off(ifs.Pos()), off(ifs.Cond.Pos()), "{ " + b.String()})
						ed = append(ed, textEdit{off(ifs.End()), off(ifs.End()), " }"})
					}
					if kind != "if" && kind != "ifcond" {
						// resynchronise the line numbering after the statement
						endLine := lineOf(stmt.End())
						last := &ed[len(ed)-1]
						last.text += fmt.Sprintf("\n//line %s:%d\n", fileOf(stmt.End()), endLine)
					}
					edits[fname] = append(edits[fname], ed...)
					handled[stmt] = true
					nEd++
					info.Expanded = append(info.Expanded, fmt.Sprintf("%s into %s (%s:%d)", h.name, declName(caller), relName(fileOf(stmt.Pos())), startLine))
				}
				visit = func(n ast.Node) bool {
					switch x := n.(type) {
					case *ast.AssignStmt:
						if len(x.Rhs) == 1 && (x.Tok == token.DEFINE || x.Tok == token.ASSIGN) {
							if c, ok := x.Rhs[0].(*ast.CallExpr); ok {
								try(x, c, "assign", string(src[off(x.Lhs[0].Pos()):off(x.Lhs[len(x.Lhs)-1].End())]), x.Tok.String(), nil)
							}
						}
					case *ast.ExprStmt:
						if c, ok := x.X.(*ast.CallExpr); ok {
							try(x, c, "expr", "", "", nil)
						}
					case *ast.ReturnStmt:
						if len(x.Results) == 1 {
							if c, ok := x.Results[0].(*ast.CallExpr); ok {
								try(x, c, "return", "", "", nil)
							}
						} else if len(x.Results) > 1 {
							// `return a, h(..)`: the other operands must be free of calls (their evaluation
							// cannot be reordered observably); the helper supplies exactly one value
							var call *ast.CallExpr
							simple := true
							tmpl := ""
							for i, r := range x.Results {
								if i > 0 {
									tmpl += ", "
								}
								if c, ok := r.(*ast.CallExpr); ok && call == nil {
									if h, _ := calleeOf(c); h != nil && h.ftype.Results != nil && h.ftype.Results.NumFields() == 1 {
										call = c
										tmpl += "\x00"
										continue
									}
								}
								ast.Inspect(r, func(m ast.Node) bool {
									switch m.(type) {
									case *ast.CallExpr, *ast.FuncLit, *ast.UnaryExpr:
										simple = false
									}
									return true
								})
								tmpl += string(src[off(r.Pos()):off(r.End())])
							}
							if call != nil && simple {
								try(x, call, "returnN", tmpl, "", nil)
							}
						}
					case *ast.IfStmt:
						if x.Init == nil {
							cond := x.Cond
							for {
								if u, ok := cond.(*ast.UnaryExpr); ok && u.Op == token.NOT {
									cond = u.X
									continue
								}
								if pe, ok := cond.(*ast.ParenExpr); ok {
									cond = pe.X
									continue
								}
								break
							}
							if c, ok := cond.(*ast.CallExpr); ok {
								try(x, c, "ifcond", "", "", x)
							}
						}
						if as, ok := x.Init.(*ast.AssignStmt); ok && len(as.Rhs) == 1 && (as.Tok == token.DEFINE || as.Tok == token.ASSIGN) {
							if c, ok := as.Rhs[0].(*ast.CallExpr); ok {
								try(x, c, "if", string(src[off(as.Lhs[0].Pos()):off(as.Lhs[len(as.Lhs)-1].End())]), as.Tok.String(), x)
								if handled[x] {
									handled[as] = true
								}
							}
						}
					case *ast.GoStmt, *ast.DeferStmt:
						// the call itself stays; its arguments may still contain closures
					}
					return true
				}
				ast.Inspect(caller.Body, visit)
			}
		}
		if nEd == 0 {
			break
		}
		// a local closure whose calls were expanded may be left without a use: keep its
		// definition well-formed (`f := func(..){..}; _ = f`, on the same line)
		for obj, def := range closureDefs {
			h := closureVars[obj]
			if h == nil || h.why != "" {
				continue
			}
			tf := p.Fset.File(def.Pos())
			already := false
			if b := srcOf(tf.Name()); b != nil {
				rest := string(b[tf.Offset(def.End()):])
				already = strings.HasPrefix(rest, "; _ = "+obj.Name()+" /*inl*/")
			}
			if !already {
				edits[tf.Name()] = append(edits[tf.Name()], textEdit{tf.Offset(def.End()), tf.Offset(def.End()), "; _ = " + obj.Name() + " /*inl*/"})
			}
		}
		for fn, eds := range edits {
			// nested candidates of one round overlap: keep the outermost, the next round sees the rest
			sort.Slice(eds, func(i, j int) bool { return eds[i].start < eds[j].start })
			overlay[fn] = applyEdits(srcOf(fn), eds)
		}
	}
	if len(overlay) == 0 {
		return nil
	}
	// final type-check of the overlay
	cfg := &packages.Config{Mode: packages.LoadSyntax, Dir: repoDir, Env: loadEnv(), Overlay: overlay}
	if tags := os.Getenv("VERIF_TAGS"); tags != "" {
		cfg.BuildFlags = []string{"-tags=" + tags}
	}
	pkgs, err := packages.Load(cfg, "./"+dir)
	if err != nil || len(pkgs) != 1 || len(pkgs[0].Errors) > 0 {
		msg := "load error"
		if err == nil && len(pkgs) == 1 && len(pkgs[0].Errors) > 0 {
			msg = pkgs[0].Errors[0].Error()
		}
		info.Dropped = "the expanded source does not type-check (" + msg + "); analysing the original text"
		if os.Getenv("VERIF_INLINE_DEBUG") != "" {
			for fn, b := range overlay {
				os.WriteFile("/tmp/inline_debug_"+strings.ReplaceAll(relName(fn), "/", "_"), b, 0644)
			}
		}
		return nil
	}
	sort.Strings(info.Expanded)
	// helpers no longer referenced anywhere
	fp := pkgs[0]
	refs := map[types.Object]int{}
	for _, o := range fp.TypesInfo.Uses {
		refs[o]++
	}
	for _, f := range fp.Syntax {
		if isTestFile(fp.Fset, f.Pos()) {
			continue
		}
		for _, d := range f.Decls {
			fd, ok := d.(*ast.FuncDecl)
			if !ok || fd.Body == nil || known[declName(fd)] || fd.Name.IsExported() {
				continue
			}
			if o := fp.TypesInfo.Defs[fd.Name]; o != nil && refs[o] == 0 {
				if !namedOnly {
					expandedAway[declName(fd)] = true
				}
				if tf := fp.Fset.File(fd.Pos()); tf != nil {
					start := fd.Pos()
					if fd.Doc != nil {
						start = fd.Doc.Pos()
					}
					info.awaySpans = append(info.awaySpans, awaySpan{tf.Name(), tf.Offset(start), tf.Offset(fd.End())})
				}
				info.Away = append(info.Away, declName(fd))
			}
		}
	}
	sort.Strings(info.Away)
	if os.Getenv("VERIF_INLINE_DEBUG") != "" {
		for fn, b := range overlay {
			os.WriteFile("/tmp/inline_debug_"+strings.ReplaceAll(relName(fn), "/", "_"), b, 0644)
		}
	}
	return overlay
}

func relName(f string) string {
	if strings.HasPrefix(f, repoDir+"/") {
		return strings.TrimPrefix(f, repoDir+"/")
	}
	return f
}

// dumpKnownFuncs prints the declared function names of a package directory
// (used once to produce known_funcs.go).
func dumpKnownFuncs(dir string) {
	pkgs := loadPkgs(packages.NeedName|packages.NeedFiles|packages.NeedSyntax|packages.NeedCompiledGoFiles, false, "./"+dir)
	var names []string
	for _, p := range pkgs {
		for _, f := range p.Syntax {
			if isTestFile(p.Fset, f.Pos()) {
				continue
			}
			for _, d := range f.Decls {
				if fd, ok := d.(*ast.FuncDecl); ok {
					names = append(names, declName(fd))
				}
			}
		}
	}
	sort.Strings(names)
	closures := map[string]int{}
	for _, p := range pkgs {
		for _, f := range p.Syntax {
			if isTestFile(p.Fset, f.Pos()) {
				continue
			}
			for _, d := range f.Decls {
				if fd, ok := d.(*ast.FuncDecl); ok && fd.Body != nil {
					if n := countFuncLits(fd.Body); n > 0 {
						closures[declName(fd)] = n
					}
				}
			}
		}
	}
	defer func() {
		fmt.Println("\n// Number of function literals directly or indirectly inside each of them (only non-zero).\nvar knownPubClosures = map[string]int{")
		var ks []string
		for k := range closures {
			ks = append(ks, k)
		}
		sort.Strings(ks)
		for _, k := range ks {
			fmt.Printf("\t%q: %d,\n", k, closures[k])
		}
		fmt.Println("}")
	}()
	fmt.Println("package main\n\n// Names of the functions declared in package " + dir + " of the tree the rules were written\n// against (generated by `verifchk -dump-known " + dir + "`). A function whose name is not\n// listed is treated as a newly extracted helper and expanded at its call sites\n// (inline.go) before the rules run.\nvar knownPubFuncs = map[string]bool{")
	for _, n := range names {
		fmt.Printf("\t%q: true,\n", n)
	}
	fmt.Println("}")
}

func countFuncLits(n ast.Node) int {
	c := 0
	ast.Inspect(n, func(m ast.Node) bool {
		if _, ok := m.(*ast.FuncLit); ok {
			c++
		}
		return true
	})
	return c
}

// closureAlias: "X$1" -> name of the new function that took over the body of
// X's only closure (a closure turned into a method or function). Rules anchored
// on the closure are applied to that function, and calls of it count as calls
// of the closure.
var closureAlias = map[string]string{}

type litKind struct {
	lit  *ast.FuncLit
	kind string // iife | go | defer | assign | return | other
}

// funcLitKinds lists the function literals inside n (outermost first, in source order) with
// the syntactic role each plays.
func funcLitKinds(n ast.Node) []litKind {
	var out []litKind
	var stack []ast.Node
	ast.Inspect(n, func(m ast.Node) bool {
		if m == nil {
			stack = stack[:len(stack)-1]
			return true
		}
		if lit, ok := m.(*ast.FuncLit); ok {
			kind := "other"
			if len(stack) > 0 {
				switch par := stack[len(stack)-1].(type) {
				case *ast.CallExpr:
					if par.Fun == ast.Expr(lit) {
						kind = "iife"
						if len(stack) > 1 {
							switch stack[len(stack)-2].(type) {
							case *ast.GoStmt:
								kind = "go"
							case *ast.DeferStmt:
								kind = "defer"
							}
						}
					} else {
						kind = "arg"
					}
				case *ast.AssignStmt:
					kind = "assign"
				case *ast.ValueSpec:
					kind = "assign"
				case *ast.ReturnStmt:
					kind = "return"
				}
			}
			out = append(out, litKind{lit, kind})
		}
		stack = append(stack, m)
		return true
	})
	return out
}
