package main

import (
	"fmt"

	"golang.org/x/tools/go/ssa"
)

// C07-R7 — which protocol an Actor has enabled is fixed by its constructor.
// "a disabled protocol answers 405" presupposes that the flags the 405 gate
// reads (C07-R2) are what the constructor's name promises.

type ctorFlag struct {
	kind string // "const" | "param" | "unset"
	b    bool
	name string
}

func (f ctorFlag) String() string {
	switch f.kind {
	case "const":
		return fmt.Sprint(f.b)
	case "param":
		return "parameter " + f.name
	}
	return "false (not set)"
}

// ctorFlags: the value of the two protocol flags of the actor fn returns.
func ctorFlags(p *Pub, fn *ssa.Function, bind map[*ssa.Parameter]ssa.Value, depth int) (map[string]ctorFlag, string) {
	out := map[string]ctorFlag{"enableSocialProtocol": {kind: "unset"}, "enableFederatedProtocol": {kind: "unset"}}
	found := false
	for _, b := range fn.Blocks {
		for _, ins := range b.Instrs {
			st, ok := ins.(*ssa.Store)
			if !ok {
				continue
			}
			fa, ok := st.Addr.(*ssa.FieldAddr)
			if !ok {
				continue
			}
			name := fieldName(fa.X.Type(), fa.Field)
			if _, want := out[name]; !want {
				continue
			}
			found = true
			v := st.Val
			if pa, ok := v.(*ssa.Parameter); ok && bind != nil && bind[pa] != nil {
				v = bind[pa]
			}
			if bc, isC := boolConst(v); isC {
				out[name] = ctorFlag{kind: "const", b: bc}
			} else if pa, ok := v.(*ssa.Parameter); ok {
				out[name] = ctorFlag{kind: "param", name: pa.Name()}
			} else {
				return nil, "flag " + name + " is set to " + valueLabel(v)
			}
		}
	}
	if found {
		return out, ""
	}
	// no flags set here: the actor may come from another constructor
	if depth < 3 {
		for _, r := range returnsIn(fn) {
			if len(r.Results) == 0 {
				continue
			}
			if c, ok := unwrap(r.Results[0]).(*ssa.Call); ok {
				if callee := c.Common().StaticCallee(); callee != nil && callee.Pkg == fn.Pkg && len(callee.Blocks) > 0 {
					bd := map[*ssa.Parameter]ssa.Value{}
					for i, pa := range callee.Params {
						if i < len(c.Common().Args) {
							a := c.Common().Args[i]
							if ap, ok := a.(*ssa.Parameter); ok && bind != nil && bind[ap] != nil {
								a = bind[ap]
							}
							bd[pa] = a
						}
					}
					return ctorFlags(p, callee, bd, depth+1)
				}
			}
		}
	}
	return out, ""
}

func checkCtorFlags(res *Result, p *Pub) {
	const rule = "C07-R7"
	res.Rule(rule, "constructors fix the protocol flags the 405 gate reads: NewSocialActor enables only the social protocol, NewFederatingActor only the federated one, NewActor both, NewCustomActor exactly what it is told")
	T, F := ctorFlag{kind: "const", b: true}, ctorFlag{kind: "unset"}
	want := map[string][2]ctorFlag{
		"NewSocialActor":     {T, F},
		"NewFederatingActor": {F, T},
		"NewActor":           {T, T},
		"NewCustomActor":     {{kind: "param", name: "enableSocialProtocol"}, {kind: "param", name: "enableFederatedProtocol"}},
	}
	same := func(a, b ctorFlag) bool {
		val := func(f ctorFlag) string {
			if f.kind == "param" {
				return "p:" + f.name
			}
			if f.kind == "const" && f.b {
				return "true"
			}
			return "false"
		}
		return val(a) == val(b)
	}
	n := 0
	for _, name := range []string{"NewSocialActor", "NewFederatingActor", "NewActor", "NewCustomActor"} {
		fn := p.MustFunc(res, rule, name)
		if fn == nil {
			continue
		}
		got, why := ctorFlags(p, fn, nil, 0)
		if got == nil {
			res.undecided(rule, name, p.pos(fn), "protocol flags of the actor "+name+" returns", why)
			continue
		}
		n++
		w := want[name]
		ok := same(got["enableSocialProtocol"], w[0]) && same(got["enableFederatedProtocol"], w[1])
		res.check(ok, rule, name, p.pos(fn), fmt.Sprintf("%s: social = %s, federated = %s", name, w[0], w[1]), fmt.Sprintf("the actor returned has social = %s, federated = %s: a request for the protocol that should be disabled passes the 405 gate", got["enableSocialProtocol"], got["enableFederatedProtocol"]))
	}
	res.Count("C07-R7 constructors", n, 4)
}
