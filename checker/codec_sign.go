package main

import (
	"fmt"
	"go/token"

	"golang.org/x/tools/go/packages"
	"golang.org/x/tools/go/ssa"
	"golang.org/x/tools/go/ssa/ssautil"
)

// SSA for the literal codecs (streams/values/...): small packages, built from
// syntax; their dependencies are taken from type information only.

var valuesSSACache map[string]*ssa.Package

func loadValuesSSA() map[string]*ssa.Package {
	if valuesSSACache != nil {
		return valuesSSACache
	}
	pkgs := loadPkgs(packages.LoadSyntax, false, "./streams/values/...")
	_, spkgs := ssautil.Packages(pkgs, ssa.BuilderMode(0))
	out := map[string]*ssa.Package{}
	for i, sp := range spkgs {
		if sp == nil {
			continue
		}
		sp.Build()
		out[pkgs[i].Name] = sp
	}
	valuesSSACache = out
	return out
}

func isNegationOf(v ssa.Value) (ssa.Value, bool) {
	switch x := v.(type) {
	case *ssa.BinOp:
		if x.Op == token.MUL {
			if n, ok := intConst(x.Y); ok && n == -1 {
				return x.X, true
			}
			if n, ok := intConst(x.X); ok && n == -1 {
				return x.Y, true
			}
		}
		if x.Op == token.SUB {
			if n, ok := intConst(x.X); ok && n == 0 {
				return x.Y, true
			}
		}
	case *ssa.UnOp:
		if x.Op == token.SUB {
			return x.X, true
		}
	}
	return nil, false
}

// checkDurationSign: the xsd:duration reader applies the leading '-' on every
// success return. The sign flag is the boolean that is true exactly where the
// first byte was compared equal to '-'; a success return must deliver either
// a merge of (x where the flag is false, -x where it is true), or -x where the
// flag is known true, or x where it is known false.
func checkDurationSign(res *Result, rule string) {
	sp := loadValuesSSA()["duration"]
	if sp == nil {
		res.undecided(rule, "values/duration", "-", "duration codec in SSA form", "package not built")
		return
	}
	fn := sp.Func("DeserializeDuration")
	if fn == nil || len(fn.Blocks) == 0 {
		res.undecided(rule, "values/duration", "-", "DeserializeDuration found", "missing")
		return
	}
	pos := func(p interface{ Pos() token.Pos }) string { return relPos(fn.Prog.Fset, p.Pos()) }
	// the sign flag: phi of boolean constants whose true edge comes from the true branch of <byte> == '-'
	var flag *ssa.Phi
	for _, b := range fn.Blocks {
		for _, ins := range b.Instrs {
			ph, ok := ins.(*ssa.Phi)
			if !ok {
				continue
			}
			allConst, anyTrue := true, false
			okMinus := true
			for i, e := range ph.Edges {
				v, isC := boolConst(e)
				if !isC {
					allConst = false
					break
				}
				if v {
					anyTrue = true
					// the predecessor must be dominated by the true successor of `x == '-'`
					pred := b.Preds[i]
					found := false
					for _, bb := range fn.Blocks {
						if iff, ok := lastIf(bb); ok {
							if cmp, ok := iff.Cond.(*ssa.BinOp); ok && (cmp.Op == token.EQL || cmp.Op == token.NEQ) {
								// the successor taken when the byte IS '-'
								yes := bb.Succs[0]
								if cmp.Op == token.NEQ {
									yes = bb.Succs[1]
								}
								if n, isN := intConst(cmp.Y); isN && n == '-' && (yes == pred || yes.Dominates(pred)) {
									found = true
								}
							}
						}
					}
					if !found {
						okMinus = false
					}
				}
			}
			if allConst && anyTrue && okMinus {
				flag = ph
			}
		}
	}
	if flag == nil {
		res.bad(rule, "values/duration", pos(fn), "the reader records a leading '-' in a flag", "no boolean that becomes true exactly where the first byte equals '-'")
		return
	}
	ff := computeFacts(fn)
	n := 0
	for _, r := range returnsIn(fn) {
		if len(r.Results) != 2 || !isNilConst(r.Results[1]) {
			continue
		}
		n++
		v := r.Results[0]
		ok, why := false, ""
		if x, isNeg := isNegationOf(v); isNeg {
			_ = x
			ok = ff.has(r, flag, fTRUE, "")
			why = "returns a negated value where the sign flag is not known to be set"
		} else if ph, isPhi := v.(*ssa.Phi); isPhi && len(ph.Edges) == 2 && len(ff.edgeIn[ph.Block()]) == 2 {
			for i := 0; i < 2; i++ {
				x, isNeg := isNegationOf(ph.Edges[i])
				if !isNeg || x != ph.Edges[1-i] {
					continue
				}
				sNeg, sPos := ff.edgeIn[ph.Block()][i], ff.edgeIn[ph.Block()][1-i]
				if sNeg != nil && sPos != nil && sNeg.facts[fact{ff.canon(sNeg, flag), fTRUE, ""}] && sPos.facts[fact{ff.canon(sPos, flag), fFALSE, ""}] {
					ok = true
				} else {
					why = "the merge of x and -x is not selected by the sign flag"
				}
			}
			if !ok && why == "" {
				ok = ff.has(r, flag, fFALSE, "")
				why = fmt.Sprintf("returns %s without applying the sign: a negative duration that takes this path decodes as positive", valueLabel(v))
			}
		} else {
			ok = ff.has(r, flag, fFALSE, "")
			why = fmt.Sprintf("returns %s without applying the sign: a negative duration that takes this path decodes as positive", valueLabel(v))
		}
		res.check(ok, rule, "values/duration", pos(r), "every success return of the duration reader delivers the value with the leading '-' applied", why)
	}
	res.Count(rule+" duration reader success returns", n, 1)
}

func lastIf(b *ssa.BasicBlock) (*ssa.If, bool) {
	if len(b.Instrs) == 0 {
		return nil, false
	}
	iff, ok := b.Instrs[len(b.Instrs)-1].(*ssa.If)
	return iff, ok
}

// checkAnyURIReader: the xsd:anyURI reader rejects a value only for one of the
// documented reasons: it is not a string, url.Parse fails, or the result has
// no scheme. Every construction of an error in DeserializeAnyURI must lie where
// one of these is known; any further condition (a host, a particular scheme, …)
// turns IRIs the ontology admits into unknown values.
func checkAnyURIReader(res *Result, rule string) {
	sp := loadValuesSSA()["anyuri"]
	if sp == nil {
		res.undecided(rule, "values/anyURI", "-", "anyURI codec in SSA form", "package not built")
		return
	}
	fn := sp.Func("DeserializeAnyURI")
	if fn == nil || len(fn.Blocks) == 0 {
		res.undecided(rule, "values/anyURI", "-", "DeserializeAnyURI found", "missing")
		return
	}
	pos := func(p interface{ Pos() token.Pos }) string { return relPos(fn.Prog.Fset, p.Pos()) }
	ff := computeFacts(fn)
	type want struct {
		v ssa.Value
		k factKind
	}
	var allowed []want
	for _, b := range fn.Blocks {
		for _, ins := range b.Instrs {
			switch x := ins.(type) {
			case *ssa.Extract:
				if c, ok := x.Tuple.(*ssa.Call); ok && x.Index == 1 {
					if f := c.Common().StaticCallee(); f != nil && f.Pkg != nil && f.Pkg.Pkg.Path() == "net/url" && f.Name() == "Parse" {
						allowed = append(allowed, want{x, fNONNIL})
					}
				}
				if ta, ok := x.Tuple.(*ssa.TypeAssert); ok && x.Index == 1 && isParamNamed(ta.X, "this") {
					allowed = append(allowed, want{x, fFALSE})
				}
			case *ssa.BinOp:
				// len(u.Scheme) == 0   |   u.Scheme == ""
				isScheme := func(v ssa.Value) bool {
					if c, ok := v.(*ssa.Call); ok {
						if bi, ok := c.Common().Value.(*ssa.Builtin); ok && bi.Name() == "len" {
							v = c.Common().Args[0]
						} else {
							return false
						}
					}
					_, ok := loadOfField(v, "Scheme")
					return ok
				}
				if isScheme(x.X) {
					zero := false
					if n, ok := intConst(x.Y); ok && n == 0 {
						zero = true
					}
					if sv, ok := stringConst(x.Y); ok && sv == "" {
						zero = true
					}
					if zero {
						switch x.Op {
						case token.EQL, token.LEQ:
							allowed = append(allowed, want{x, fTRUE})
						case token.NEQ, token.GTR:
							allowed = append(allowed, want{x, fFALSE})
						}
					}
				}
			}
		}
	}
	n := 0
	for _, ci := range callsIn(fn) {
		f := ci.Common().StaticCallee()
		if f == nil || f.Pkg == nil || !(f.Pkg.Pkg.Path() == "fmt" && f.Name() == "Errorf" || f.Pkg.Pkg.Path() == "errors" && f.Name() == "New") {
			continue
		}
		n++
		ok := ff.holdsOnEveryPath(ci, func(s *factState) bool {
			for _, a := range allowed {
				if s.facts[fact{ff.canon(s, a.v), a.k, ""}] {
					return true
				}
			}
			return false
		}, 8)
		res.check(ok, rule, "values/anyURI", pos(ci), "a value is rejected as an IRI only because it is not a string, does not parse, or has no scheme", "this rejection can be reached for a string that parses and has a scheme: IRIs the ontology admits (urn:, mailto:, magnet:, …) are turned into unknown values; facts: "+ff.describe(ci))
	}
	res.Count(rule+" anyURI rejections", n, 2)
}

// checkDurationWriterSign: SerializeDuration normalises the sign first — the raw parameter is only
// ever compared with 0 (the sign test) and negated; every other test (the unit thresholds, a
// "zero duration" shortcut) looks at the normalised value, else a negative duration takes the
// branch meant for small positive ones.
func checkDurationWriterSign(res *Result, rule string) {
	sp := loadValuesSSA()["duration"]
	if sp == nil {
		res.undecided(rule, "values/duration", "-", "duration codec in SSA form", "package not built")
		return
	}
	fn := sp.Func("SerializeDuration")
	if fn == nil || len(fn.Blocks) == 0 || len(fn.Params) != 1 {
		res.undecided(rule, "values/duration", "-", "SerializeDuration found", "missing")
		return
	}
	pos := func(p interface{ Pos() token.Pos }) string { return relPos(fn.Prog.Fset, p.Pos()) }
	prm := fn.Params[0]
	nSign, bad := 0, ""
	for _, ref := range *prm.Referrers() {
		switch x := ref.(type) {
		case *ssa.BinOp:
			switch x.Op {
			case token.LSS, token.GTR, token.LEQ, token.GEQ, token.EQL, token.NEQ:
				other := x.Y
				if other == ssa.Value(prm) {
					other = x.X
				}
				if n, isN := intConst(other); isN && n == 0 {
					nSign++
				} else {
					bad = pos(x)
				}
			}
		case *ssa.Call:
			// this.Hours() etc. on the raw parameter: a unit computed before the sign is normalised
			if x.Common().StaticCallee() != nil && len(x.Common().Args) > 0 && x.Common().Args[0] == ssa.Value(prm) {
				bad = pos(x)
			}
		}
	}
	res.check(nSign >= 1 && bad == "", rule, "values/duration", pos(fn), "SerializeDuration tests the sign first: the raw value is only compared with 0 and negated; thresholds look at the normalised value", "the raw (possibly negative) duration is measured at "+bad+": a negative duration takes the branch meant for small positive ones (e.g. -PT45S is written as a zero duration)")
}
