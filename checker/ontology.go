package main

// Ontology oracle: an independent reading of the JSON-LD vocabulary files
// named on /repo/gen.go's go:generate line. Uses encoding/json only and shares
// no code with astool. Computes the closures the properties C12/C13/C14/C01/C18
// are stated over.

import (
	"encoding/json"
	"fmt"
	"os"
	"path/filepath"
	"regexp"
	"sort"
	"strings"
)

type OType struct {
	Name     string
	Vocab    *OVocab
	Parents  []string // names (unique across vocabularies; asserted)
	Disjoint []string // declared disjointWith
	Typeless bool
}

type OProp struct {
	Name       string
	Vocab      *OVocab
	Domain     []string // type names
	RangeTypes []string // type names
	RangeLits  []string // e.g. xsd:string, rdf:langString
	Functional bool
	NatLang    bool     // rdf:langString in range
	Without    []string // types explicitly withheld
}

type OVocab struct {
	File  string
	ID    string // vocabulary URI
	Name  string // e.g. ActivityStreams
	Types []*OType
	Props []*OProp
}

type Ontology struct {
	Vocabs      []*OVocab
	Types       map[string]*OType
	Props       map[string]*OProp // by vocab-qualified key "Vocab.name"
	PropsByName map[string][]*OProp
	anc         map[string]map[string]bool
	desc        map[string]map[string]bool
	Problems    []string
}

func specFiles() []string {
	b, err := os.ReadFile(filepath.Join(repoDir, "gen.go"))
	if err != nil {
		fatalf("reading gen.go: %v", err)
	}
	re := regexp.MustCompile(`-spec\s+(\S+)`)
	var out []string
	for _, line := range strings.Split(string(b), "\n") {
		if strings.Contains(line, "go:generate") {
			for _, m := range re.FindAllStringSubmatch(line, -1) {
				out = append(out, m[1])
			}
		}
	}
	if len(out) == 0 {
		fatalf("gen.go names no -spec files")
	}
	return out
}

func asList(v interface{}) []interface{} {
	switch x := v.(type) {
	case nil:
		return nil
	case []interface{}:
		return x
	}
	return []interface{}{v}
}

func str(v interface{}) string {
	s, _ := v.(string)
	return s
}

// refName strips a vocabulary alias prefix ("as:Object" -> "Object"); literal
// ranges (xsd:, rdf:, rfc:) are returned unchanged with lit=true.
func refName(v interface{}) (name string, lit bool, ok bool) {
	switch x := v.(type) {
	case string:
		return x, true, true
	case map[string]interface{}:
		n := str(x["name"])
		if n == "" {
			return "", false, false
		}
		if i := strings.Index(n, ":"); i >= 0 {
			n = n[i+1:]
		}
		return n, false, true
	}
	return "", false, false
}

var ontologyCache *Ontology

func loadOntology() *Ontology {
	if ontologyCache != nil {
		return ontologyCache
	}
	O := &Ontology{Types: map[string]*OType{}, Props: map[string]*OProp{}, PropsByName: map[string][]*OProp{}}
	for _, f := range specFiles() {
		b, err := os.ReadFile(filepath.Join(repoDir, f))
		if err != nil {
			fatalf("reading ontology %s: %v", f, err)
		}
		var doc map[string]interface{}
		if err := json.Unmarshal(b, &doc); err != nil {
			fatalf("parsing ontology %s: %v", f, err)
		}
		v := &OVocab{File: f, ID: str(doc["id"]), Name: str(doc["name"])}
		var members []interface{}
		members = append(members, asList(doc["members"])...)
		if secs, ok := doc["sections"].(map[string]interface{}); ok {
			var keys []string
			for k := range secs {
				keys = append(keys, k)
			}
			sort.Strings(keys)
			for _, k := range keys {
				if sm, ok := secs[k].(map[string]interface{}); ok {
					members = append(members, asList(sm["members"])...)
				}
			}
		}
		for _, mi := range members {
			m, ok := mi.(map[string]interface{})
			if !ok {
				continue
			}
			types := map[string]bool{}
			for _, t := range asList(m["type"]) {
				types[str(t)] = true
			}
			name := str(m["name"])
			switch {
			case types["owl:Class"]:
				t := &OType{Name: name, Vocab: v}
				for _, p := range asList(m["subClassOf"]) {
					if n, _, ok := refName(p); ok {
						t.Parents = append(t.Parents, n)
					}
				}
				for _, p := range asList(m["disjointWith"]) {
					if n, _, ok := refName(p); ok {
						t.Disjoint = append(t.Disjoint, n)
					}
				}
				if b, ok := m["@wtf_typeless"].(bool); ok && b {
					t.Typeless = true
				}
				if O.Types[name] != nil {
					O.Problems = append(O.Problems, fmt.Sprintf("type name %q defined twice (%s and %s): name-based predicates cannot tell them apart", name, O.Types[name].Vocab.Name, v.Name))
				}
				O.Types[name] = t
				v.Types = append(v.Types, t)
			case types["rdf:Property"] || types["owl:FunctionalProperty"]:
				p := &OProp{Name: name, Vocab: v, Functional: types["owl:FunctionalProperty"]}
				union := func(x interface{}) []interface{} {
					if mm, ok := x.(map[string]interface{}); ok {
						return asList(mm["unionOf"])
					}
					return nil
				}
				for _, d := range union(m["domain"]) {
					if n, lit, ok := refName(d); ok && !lit {
						p.Domain = append(p.Domain, n)
					}
				}
				for _, r := range union(m["range"]) {
					if n, lit, ok := refName(r); ok {
						if lit {
							p.RangeLits = append(p.RangeLits, n)
							if n == "rdf:langString" {
								p.NatLang = true
							}
						} else {
							p.RangeTypes = append(p.RangeTypes, n)
						}
					}
				}
				for _, w := range asList(m["@wtf_without_property"]) {
					if n, _, ok := refName(w); ok {
						p.Without = append(p.Without, n)
					}
				}
				O.Props[v.Name+"."+name] = p
				O.PropsByName[name] = append(O.PropsByName[name], p)
				v.Props = append(v.Props, p)
			}
		}
		O.Vocabs = append(O.Vocabs, v)
	}
	// closures
	O.anc = map[string]map[string]bool{}
	O.desc = map[string]map[string]bool{}
	var ancOf func(n string, seen map[string]bool)
	for name := range O.Types {
		set := map[string]bool{}
		ancOf = func(n string, seen map[string]bool) {
			t := O.Types[n]
			if t == nil {
				O.Problems = append(O.Problems, fmt.Sprintf("type %q referenced but not defined", n))
				return
			}
			for _, p := range t.Parents {
				if !seen[p] {
					seen[p] = true
					ancOf(p, seen)
				}
			}
		}
		ancOf(name, set)
		O.anc[name] = set
	}
	for name := range O.Types {
		O.desc[name] = map[string]bool{}
	}
	for name, as := range O.anc {
		for a := range as {
			if O.desc[a] != nil {
				O.desc[a][name] = true
			}
		}
	}
	sort.Strings(O.Problems)
	ontologyCache = O
	return O
}

func (O *Ontology) TypeNames() []string {
	var out []string
	for n := range O.Types {
		out = append(out, n)
	}
	sort.Strings(out)
	return out
}

// Anc: proper ancestors; AncSelf: ancestors or self.
func (O *Ontology) Anc(n string) map[string]bool  { return O.anc[n] }
func (O *Ontology) Desc(n string) map[string]bool { return O.desc[n] }
func (O *Ontology) AncSelf(n string) map[string]bool {
	s := map[string]bool{n: true}
	for a := range O.anc[n] {
		s[a] = true
	}
	return s
}

// DisjointSet: all B such that some ancestor-or-self of A is declared
// disjoint (either direction) with some ancestor-or-self of B.
func (O *Ontology) DisjointSet(a string) map[string]bool {
	decl := func(x, y string) bool {
		for _, d := range O.Types[x].Disjoint {
			if d == y {
				return true
			}
		}
		for _, d := range O.Types[y].Disjoint {
			if d == x {
				return true
			}
		}
		return false
	}
	out := map[string]bool{}
	for b := range O.Types {
		for x := range O.AncSelf(a) {
			for y := range O.AncSelf(b) {
				if O.Types[x] != nil && O.Types[y] != nil && decl(x, y) {
					out[b] = true
				}
			}
		}
	}
	return out
}

// PropsOf: the ontology properties of type T: domain ∩ anc*(T) ≠ ∅, minus
// those withheld from T or an ancestor.
func (O *Ontology) PropsOf(t string) []*OProp {
	as := O.AncSelf(t)
	var out []*OProp
	for _, v := range O.Vocabs {
		for _, p := range v.Props {
			in := false
			for _, d := range p.Domain {
				if as[d] {
					in = true
				}
			}
			for _, w := range p.Without {
				if as[w] {
					in = false
				}
			}
			if in {
				out = append(out, p)
			}
		}
	}
	return out
}

// KindsOf: the type kinds a property admits: every ranged type and all its descendants.
func (O *Ontology) KindsOf(p *OProp) map[string]bool {
	out := map[string]bool{}
	for _, r := range p.RangeTypes {
		out[r] = true
		for d := range O.desc[r] {
			out[d] = true
		}
	}
	return out
}

func setList(m map[string]bool) []string {
	var out []string
	for k := range m {
		out = append(out, k)
	}
	sort.Strings(out)
	return out
}

func setDiff(want, got map[string]bool) (missing, extra []string) {
	for k := range want {
		if !got[k] {
			missing = append(missing, k)
		}
	}
	for k := range got {
		if !want[k] {
			extra = append(extra, k)
		}
	}
	sort.Strings(missing)
	sort.Strings(extra)
	return
}
