package main

// C06 — a federated peer cannot act beyond its authority.

import (
	"fmt"
	"strings"

	"golang.org/x/tools/go/ssa"
)

// anyBackward: some value flowing into v satisfies pred.
func anyBackward(g *FlowGraph, v ssa.Value, pred func(ssa.Value) bool) bool {
	for x := range g.backward(v) {
		if pred(x) {
			return true
		}
	}
	return false
}

func isCallNamed(v ssa.Value, names ...string) bool {
	c, ok := v.(*ssa.Call)
	if !ok {
		return false
	}
	n := callName(c)
	for _, w := range names {
		if n == w || strings.HasSuffix(n, "."+w) {
			return true
		}
	}
	return false
}

func isParamNamed(v ssa.Value, name string) bool {
	p, ok := v.(*ssa.Parameter)
	return ok && p.Name() == name
}

func isFreeVarNamed(v ssa.Value, name string) bool {
	p, ok := v.(*ssa.FreeVar)
	return ok && p.Name() == name
}

// failureReturn: the return's (last) error result is known non-nil.
func failureReturnPred(ff *FuncFacts) func(r *ssa.Return) bool {
	return func(r *ssa.Return) bool {
		for i, v := range r.Results {
			if isErrorType(v) {
				mn, nn := ff.errStatus(r, i)
				return nn && !mn
			}
		}
		return false
	}
}

// checkGuardedBy: every call of fn with an effect in `mask` lies in the region
// where guard (a call returning error) returned nil.
func checkGuardedBy(res *Result, p *Pub, E *Effects, rule, fnName, guardPattern string, mask Eff, what string) {
	fn := p.MustFunc(res, rule, fnName)
	if fn == nil {
		return
	}
	ff := computeFacts(fn)
	gs := findCalls(E, fn, guardPattern)
	if len(gs) != 1 {
		res.bad(rule, fnName, p.pos(fn), what+": "+guardPattern+" is called exactly once", fmt.Sprintf("%d call sites", len(gs)))
		return
	}
	g, _ := gs[0].(*ssa.Call)
	ge := errResult(g)
	n := 0
	for _, ci := range E.byFn[fn] {
		if ci.Instr == ssa.CallInstruction(g) || ci.Trans&mask == 0 || !ff.reachable(ci.Instr) {
			continue
		}
		n++
		res.check(ge != nil && dominates(g, ci.Instr) && ff.has(ci.Instr, ge, fNIL, ""), rule, fnName, p.pos(ci.Instr),
			fmt.Sprintf("%s [%s] only after %s succeeded (%s)", ci.Label, ci.Trans, guardPattern, what), "facts at the call: "+ff.describe(ci.Instr))
	}
	res.check(n >= 1, rule, fnName, p.pos(fn), "the guarded effects exist", "no effectful call found after "+guardPattern)
}

// hostComparison: the comparison of two non-constant strings that are both the Host field of
// a *url.URL, if fn has exactly one.
func hostComparison(fn *ssa.Function) (*ssa.BinOp, int) {
	var cmp *ssa.BinOp
	n := 0
	for _, b := range fn.Blocks {
		for _, ins := range b.Instrs {
			if bo, ok := ins.(*ssa.BinOp); ok && bo.X.Type().String() == "string" {
				if _, isC := bo.X.(*ssa.Const); isC {
					continue
				}
				if _, isC := bo.Y.(*ssa.Const); isC {
					continue
				}
				cmp = bo
				n++
			}
		}
	}
	return cmp, n
}

// originCheckHomes: the functions in which the origin comparison lives — the helper
// mustHaveActivityOriginMatchObjects when it exists, plus federating update / deleteFn when the
// comparison is written out in them.
func originCheckHomes(p *Pub, E *Effects) []string {
	var out []string
	if p.HasFunc("mustHaveActivityOriginMatchObjects") {
		out = append(out, "mustHaveActivityOriginMatchObjects")
	}
	for _, n := range []string{"FederatingWrappedCallbacks.update", "FederatingWrappedCallbacks.deleteFn"} {
		if fn := p.Func(n); fn != nil && len(findCalls(E, fn, "mustHaveActivityOriginMatchObjects")) == 0 {
			if _, k := hostComparison(fn); k >= 1 {
				out = append(out, n)
			}
		}
	}
	return out
}

// checkOriginCompare: rule C06-R2 on the function that holds the comparison.
func checkOriginCompare(res *Result, p *Pub, E *Effects, fn *ssa.Function) {
	if fn == nil {
		return
	}
	{
		ff := computeFacts(fn)
		g := flowOf(fn)
		cmp, n := hostComparison(fn)
		if cmp == nil || n != 1 {
			res.bad("C06-R2", fname(fn), p.pos(fn), "exactly one comparison of two host strings", fmt.Sprintf("found %d string comparisons", n))
		} else {
			hostOf := func(v ssa.Value) (ssa.Value, bool) {
				base, ok := loadOfField(v, "Host")
				if ok && typeIs(base.Type(), "net/url", "URL") {
					return base, true
				}
				return nil, false
			}
			bx, okx := hostOf(cmp.X)
			by, oky := hostOf(cmp.Y)
			res.check(okx && oky, "C06-R2", fname(fn), p.pos(cmp), "both sides are the Host field of a *url.URL (not Hostname(), String(), or another field)", "operands: "+valueLabel(cmp.X)+" and "+valueLabel(cmp.Y))
			if okx && oky {
				fromAct := func(v ssa.Value) bool {
					return anyBackward(g, v, func(x ssa.Value) bool {
						c, ok := x.(*ssa.Call)
						return ok && staticName(c) == "pub.GetId" && isParamNamed(unwrap(c.Call.Args[0]), "a")
					})
				}
				fromObj := func(v ssa.Value) bool {
					return anyBackward(g, v, func(x ssa.Value) bool {
						c, ok := x.(*ssa.Call)
						return ok && staticName(c) == "pub.ToId"
					})
				}
				res.check((fromAct(bx) && fromObj(by) && !fromAct(by)) || (fromAct(by) && fromObj(bx) && !fromAct(bx)), "C06-R2", fname(fn), p.pos(cmp), "one host comes from GetId(activity), the other from ToId(current object)", "data flow into the operands does not match")
				// ToId's argument iterates the activity's object property
				for _, ci := range callsIn(fn) {
					if staticName(ci) == "pub.ToId" {
						res.check(anyBackward(g, ci.Common().Args[0], func(x ssa.Value) bool {
							return isCallNamed(x, "GetActivityStreamsObject")
						}), "C06-R2", fname(fn), p.pos(ci), "the ids compared are those of the activity's object property", "ToId's argument does not derive from GetActivityStreamsObject()")
					}
				}
				// mismatch ⇒ failure
				// the comparison decides an If one of whose edges leads to a failure return
				tot, why := totalLoopFF(ff, loopBlocks(cmp.Block()))
				res.check(tot, "C06-R2", fname(fn), p.pos(cmp), "every object is compared (the loop is left early only by failing)", why)
				okFail := false
				for _, r := range returnsIn(fn) {
					s := ff.at[r]
					if s == nil {
						continue
					}
					cn := ff.canon(s, cmp)
					mismatch := (cmp.Op.String() == "!=" && s.facts[fact{cn, fTRUE, ""}]) || (cmp.Op.String() == "==" && s.facts[fact{cn, fFALSE, ""}])
					if mismatch {
						mn, nn := ff.errStatus(r, 0)
						okFail = nn && !mn
					}
				}
				res.check(okFail, "C06-R2", fname(fn), p.pos(cmp), "a host mismatch leads to a failure return", "no return confined to the mismatch edge returns a non-nil error")
			}
		}
	}
}

func checkC06(res *Result) {
	p := loadPub()
	E := computeEffects(p)
	res.Packages = []string{p.Pkg.PkgPath}
	res.Explanation = "Decides, on all SSA paths, that the authority checks guard the effects and are checks of the right data: Update/Delete touch the Database only after mustHaveActivityOriginMatchObjects succeeded, which compares the Host field of the activity id with the Host field of every object id in a loop that cannot be left early except by failing; Accept updates 'following' only after a verification that reads the Follow from the local Database (not from the peer), requires it to be a Follow whose actor is the local actor, and requires every accepting actor among that stored Follow's objects; Undo calls the application only after every actor of every fetched undone activity was found among the Undo's own actors; the block check receives, for every actor, an id derived from that actor (IRI or embedded object's id). Value-level host semantics (case, sub-domains) are inherent in == on Host and not decided."
	res.Rule("C06-R1", "origin check guards effects: in federating update/deleteFn every Database/Transport/callback effect lies in the success region of mustHaveActivityOriginMatchObjects(a)")
	res.Rule("C06-R2", "host, every object: the comparison is between the Host fields of two *url.URL, one from GetId(activity), one from ToId(current object); the loop over objects is total (left early only by a failure return)")
	res.Rule("C06-R3", "Accept: Following/Update only after the verifying closure succeeded; the closure returns nil only after Database.Get of the referenced id, IsOrExtendsFollow, the local actor found among the stored Follow's actors, and every accepting actor found among the stored Follow's objects")
	res.Rule("C06-R4", "Undo: the application callback only after mustHaveActivityActorsMatchObjectActors succeeded; that function looks every actor of every fetched object up in a set built from the Undo's actors, in total loops")
	res.Rule("C06-R5", "block check asks about the actors: every element appended to the slice passed to Blocked derives from the current actor element (its IRI or the id of the embedded value), the loop is total")
	res.Rule("C06-R6", "error discipline over the inbox side-effect path (everything reachable from sideEffectActor.PostInbox and AuthorizePostInbox)")

	mask := eDBW | eDBR | eDBLOCK | eTP | eCB
	// R1
	for _, n := range []string{"FederatingWrappedCallbacks.update", "FederatingWrappedCallbacks.deleteFn"} {
		fn := p.Func(n)
		if fn != nil && len(findCalls(E, fn, "mustHaveActivityOriginMatchObjects")) == 0 {
			if cmp, k := hostComparison(fn); k == 1 {
				// the check written out in the callback: every effect lies after the comparison loop
				loop := loopBlocks(cmp.Block())
				H := loopHeader(loop)
				nEff := 0
				for _, ci := range E.byFn[fn] {
					if ci.Trans&mask == 0 {
						continue
					}
					nEff++
					ok := H != nil && H.Dominates(ci.Instr.Block()) && !loop[ci.Instr.Block()]
					res.check(ok, "C06-R1", n, p.pos(ci.Instr), fmt.Sprintf("%s [%s] only after every object's host was compared with the activity's (origin check)", ci.Label, ci.Trans), "the effect is not confined to the region after the comparison loop")
				}
				res.check(nEff >= 1, "C06-R1", n, p.pos(fn), "the guarded effects exist", "no effectful call found")
				continue
			}
		}
		checkGuardedBy(res, p, E, "C06-R1", n, "mustHaveActivityOriginMatchObjects", mask, "origin check")
	}
	for _, n := range []string{"FederatingWrappedCallbacks.update", "FederatingWrappedCallbacks.deleteFn"} {
		if fn := p.Func(n); fn != nil {
			for _, c := range findCalls(E, fn, "mustHaveActivityOriginMatchObjects") {
				res.check(isParamNamed(unwrap(c.Common().Args[0]), "a"), "C06-R1", n, p.pos(c), "the origin check is applied to the received activity", "argument is "+valueLabel(c.Common().Args[0]))
			}
		}
	}

	// R2
	for _, name := range originCheckHomes(p, E) {
		checkOriginCompare(res, p, E, p.Func(name))
	}

	// R3
	checkAcceptVerification(res, p, E, "C06-R3")

	// R4
	for _, n := range []string{"FederatingWrappedCallbacks.undo", "SocialWrappedCallbacks.undo"} {
		checkGuardedBy(res, p, E, "C06-R4", n, "mustHaveActivityActorsMatchObjectActors", eCB, "actor check")
	}
	if fn := p.MustFunc(res, "C06-R4", "mustHaveActivityActorsMatchObjectActors"); fn != nil {
		ff := computeFacts(fn)
		g := flowOf(fn)
		var lookups []*ssa.Lookup
		for _, b := range fn.Blocks {
			for _, ins := range b.Instrs {
				if l, ok := ins.(*ssa.Lookup); ok {
					if _, isMap := l.X.Type().Underlying().(interface{ Elem() interface{} }); !isMap {
						_ = isMap
					}
					if strings.HasPrefix(l.X.Type().String(), "map[") {
						lookups = append(lookups, l)
					}
				}
			}
		}
		res.check(len(lookups) == 1, "C06-R4", fname(fn), p.pos(fn), "one membership test", fmt.Sprintf("%d map lookups", len(lookups)))
		for _, l := range lookups {
			fromUndoActors := anyBackward(g, l.X, func(x ssa.Value) bool { return isParamNamed(x, "actors") })
			mapFromFetched := anyBackward(g, l.X, func(x ssa.Value) bool { return isCallNamed(x, "Transport.Dereference", "streams.ToType") })
			keyFromFetched := anyBackward(g, l.Index, func(x ssa.Value) bool { return isCallNamed(x, "streams.ToType") })
			keyFromUndo := anyBackward(g, l.Index, func(x ssa.Value) bool { return isParamNamed(x, "actors") })
			res.check(fromUndoActors && !mapFromFetched && keyFromFetched && !keyFromUndo, "C06-R4", fname(fn), p.pos(l),
				"each actor of the fetched object is looked up in the set of the Undo's own actors (not the reverse)",
				fmt.Sprintf("set built from Undo actors: %v; set built from fetched data: %v; key from fetched object: %v; key from Undo actors: %v", fromUndoActors, mapFromFetched, keyFromFetched, keyFromUndo))
			tot, why := totalLoopFF(ff, loopBlocks(l.Block()))
			res.check(tot, "C06-R4", fname(fn), p.pos(l), "every actor of the object is tested (loop left early only by failing)", why)
		}
		for _, c := range findCalls(E, fn, "Transport.Dereference") {
			tot, why := totalLoopFF(ff, loopBlocks(c.Block()))
			res.check(tot, "C06-R4", fname(fn), p.pos(c), "every undone object is fetched and tested (loop left early only by failing)", why)
		}
	}

	// R5
	if fn := p.MustFunc(res, "C06-R5", "sideEffectActor.AuthorizePostInbox"); fn != nil {
		ff := computeFacts(fn)
		g := flowOf(fn)
		bl := findCalls(E, fn, "FederatingProtocol.Blocked")
		res.check(len(bl) == 1, "C06-R5", fname(fn), p.pos(fn), "Blocked consulted once", fmt.Sprintf("%d calls", len(bl)))
		nApp := 0
		for _, ci := range callsIn(fn) {
			bi, ok := ci.Common().Value.(*ssa.Builtin)
			if !ok || bi.Name() != "append" {
				continue
			}
			nApp++
			// appended elements: second argument is a slice literal built from stores
			elem := ci.Common().Args[1]
			fromIter := anyBackward(g, elem, func(x ssa.Value) bool { return isCallNamed(x, "ActivityStreamsActorProperty.At") })
			fromActivityID := anyBackward(g, elem, func(x ssa.Value) bool {
				c, ok := x.(*ssa.Call)
				return ok && c.Common().IsInvoke() && c.Common().Method.Name() == "GetJSONLDId" && isParamNamed(c.Common().Value, "activity")
			})
			res.check(fromIter && !fromActivityID, "C06-R5", fname(fn), p.pos(ci), "the id handed to the block check derives from the current actor element", fmt.Sprintf("derives from actor element: %v; derives from the activity's own id: %v", fromIter, fromActivityID))
			if len(bl) == 1 {
				res.check(anyBackward(g, bl[0].Common().Args[1], func(x ssa.Value) bool { return x == ci.(ssa.Value) }), "C06-R5", fname(fn), p.pos(ci), "the collected ids are what Blocked receives", "no flow from this append to Blocked's argument")
			}
			tot, why := totalLoopFF(ff, loopBlocks(ci.Block()))
			res.check(tot, "C06-R5", fname(fn), p.pos(ci), "every actor is collected (loop left early only by failing)", why)
		}
		res.check(nApp >= 2, "C06-R5", fname(fn), p.pos(fn), "both spellings of an actor (IRI, embedded object) are collected", fmt.Sprintf("%d append sites", nApp))
	}

	// R6
	fns := reachFrom(p, E, "sideEffectActor.PostInbox", "sideEffectActor.AuthorizePostInbox")
	addErrFlowObligations(res, p, E, "C06-R6", fns, true)
	res.Functions = len(fns)
	// R7: identity
	res.Rule("C06-R7", "identity used by the checks: GetId yields the value's JSON-LD id whenever it has one; the href of a Link stands in only where the id property is nil (the origin check and Database.Update must speak about the same id)")
	checkIdentity(res, p, "C06-R7")
	// R8: the verification steps can fail
	res.Rule("C06-R8", "no verification step is dead: in the Accept verification closure, the origin check and the Undo actor check every return is feasible under the branch facts (a refusal whose condition can never hold — e.g. a flag that is not reset before the search — verifies nothing)")
	for _, name := range []string{"FederatingWrappedCallbacks.accept$1", "mustHaveActivityOriginMatchObjects", "mustHaveActivityActorsMatchObjectActors", "sideEffectActor.AuthorizePostInbox"} {
		fn := p.MustFunc(res, "C06-R8", name)
		if fn == nil {
			continue
		}
		ff := computeFacts(fn)
		for _, r := range returnsIn(fn) {
			res.check(ff.reachable(r), "C06-R8", fname(fn), p.pos(r), "this return can be reached", "under the facts established by the preceding tests this return is unreachable: the refusal it implements can never happen")
		}
	}
	res.Assumptions = append(res.Assumptions, "value flow is an over-approximation (absence of a flow is exact, presence is necessary not sufficient)", "CFG paths over-approximate feasible paths")
	res.Undecided = []string{"host-string semantics beyond the choice of the Host field (case, sub-domains, default ports)", "that the application's Blocked answers truthfully"}
	res.Trusted = []string{"go/types, go/ssa (x/tools v0.29.0)", "e1_effects.go, e2_facts.go, e4_flow.go, e9_errflow.go"}
}

// checkSearchFlags: a boolean "found" flag that is merged at a loop header must
// be monotone: inside the loop it is only ever set to the constant true (never
// recomputed, never reset), so one match anywhere in the list suffices.
func checkSearchFlags(res *Result, p *Pub, rule string, fn *ssa.Function) {
	for _, b := range fn.Blocks {
		for _, ins := range b.Instrs {
			phi, ok := ins.(*ssa.Phi)
			if !ok || phi.Type().String() != "bool" || !reachableFrom(b, b) {
				continue
			}
			okMono := true
			for _, e := range phi.Edges {
				if e == ssa.Value(phi) {
					continue
				}
				if _, isC := boolConst(e); !isC {
					okMono = false
				}
			}
			res.check(okMono, rule, fname(fn), p.pos(phi), "search flag "+phi.Comment+" is monotone in its loop (only ever set to a constant)", "the flag is recomputed from a per-element value: the last element decides instead of any element")
		}
	}
}

// checkAcceptVerification: what "a verified Accept" means (C06-R3; C04 relies on it under its own
// id): Following/Update only after the verifying closure succeeded; the closure succeeds only
// after Database.Get of the referenced id, IsOrExtendsFollow, the local actor found among the
// stored Follow's actors, and every accepting actor found among the stored Follow's objects.
func checkAcceptVerification(res *Result, p *Pub, E *Effects, rule string) {
	checkGuardedBy(res, p, E, rule, "FederatingWrappedCallbacks.accept", "FederatingWrappedCallbacks.accept$1", eDBW, "verification of the Follow")
	if fn := p.Func("FederatingWrappedCallbacks.accept"); fn != nil {
		ff := computeFacts(fn)
		ver := findCalls(E, fn, "FederatingWrappedCallbacks.accept$1")
		for _, c := range findCalls(E, fn, "Database.Following") {
			if len(ver) == 1 {
				v := ver[0].(*ssa.Call)
				res.check(dominates(v, c) && ff.has(c, v, fNIL, ""), rule, fname(fn), p.pos(c), "following is read only after the Follow was verified", "facts: "+ff.describe(c))
			}
		}
	}
	if fn := p.MustFunc(res, rule, "FederatingWrappedCallbacks.accept$1"); fn != nil {
		ff := computeFacts(fn)
		g := flowOf(fn)
		gets := findCalls(E, fn, "Database.Get")
		if len(gets) != 1 {
			res.bad(rule, fname(fn), p.pos(fn), "the referenced Follow is read from the local Database once", fmt.Sprintf("%d Get calls", len(gets)))
		} else {
			get := gets[0].(*ssa.Call)
			stored := ssa.Value(extractOf(get, 0))
			gerr := ssa.Value(extractOf(get, 1))
			fromStored := func(v ssa.Value) bool {
				return anyBackward(g, v, func(x ssa.Value) bool { return x == stored })
			}
			// actors / objects read for verification come from the stored value
			nA, nO := 0, 0
			for _, ci := range callsIn(fn) {
				cc := ci.Common()
				if !cc.IsInvoke() {
					continue
				}
				switch cc.Method.Name() {
				case "GetActivityStreamsActor":
					nA++
					res.check(fromStored(cc.Value), rule, fname(fn), p.pos(ci), "the Follow's actors are read from the stored Follow", "receiver does not derive from Database.Get's result: a peer-supplied copy is trusted")
				case "GetActivityStreamsObject":
					nO++
					res.check(fromStored(cc.Value), rule, fname(fn), p.pos(ci), "the Follow's objects are read from the stored Follow", "receiver does not derive from Database.Get's result: a peer-supplied copy is trusted")
				}
			}
			res.check(nA >= 1 && nO >= 1, rule, fname(fn), p.pos(fn), "both the actors and the objects of the stored Follow are examined", fmt.Sprintf("actor reads %d, object reads %d", nA, nO))
			// success returns
			nOK := 0
			for _, r := range returnsIn(fn) {
				mn, _ := ff.errStatus(r, 0)
				if !mn || !ff.reachable(r) {
					continue
				}
				nOK++
				s := ff.at[r]
				isFollow := false
				for f := range s.facts {
					if f.k == fTRUE && strings.HasPrefix(f.v, "pure:IsOrExtendsActivityStreamsFollow(") {
						isFollow = true
					}
				}
				res.check(gerr != nil && ff.has(r, gerr, fNIL, "") && isFollow, rule, fname(fn), p.pos(r), "verification succeeds only for a stored value that is a Follow", "facts: "+ff.describe(r))
			}
			res.check(nOK == 1, rule, fname(fn), p.pos(fn), "one success exit, at the end of all checks", fmt.Sprintf("%d success returns", nOK))
			// the three loops: local actor among actors (search), accept actors collected, objects matched, all found
			checkSearchFlags(res, p, rule, fn)
			// the final "all found" loop must fail on a missing one: a range over a map with a failure return inside
			nAll := 0
			for _, b := range fn.Blocks {
				for _, ins := range b.Instrs {
					if rg, ok := ins.(*ssa.Range); ok {
						if _, isMap := rg.X.Type().Underlying().(interface{ Key() interface{} }); isMap {
							_ = isMap
						}
						lb := loopBlocks(b.Succs[0])
						hasFail := false
						for x := range lb {
							for _, s := range x.Succs {
								if !lb[s] {
									for _, i2 := range s.Instrs {
										if r, ok := i2.(*ssa.Return); ok && failureReturnPred(ff)(r) {
											hasFail = true
										}
									}
								}
							}
						}
						if strings.HasPrefix(rg.X.Type().String(), "map[string]bool") && hasFail {
							nAll++
						}
					}
				}
			}
			res.check(nAll >= 1, rule, fname(fn), p.pos(fn), "every accepting actor must have been found among the stored Follow's objects (a missing one fails)", "no loop over the found-map with a failure exit")
		}
	}

}

// checkIdentity: one notion of "the id of a value" (C06-R7; C17, C20 rely on it under their own
// ids): GetId yields the JSON-LD id whenever there is one and the href of a Link only where the id
// property is nil; ToId yields, for an embedded value, exactly what GetId yields for it, and for
// an IRI the IRI — nothing else (no href shortcut of its own).
func checkIdentity(res *Result, p *Pub, rule string) {
	if fn := p.MustFunc(res, rule, "GetId"); fn != nil {
		ff := computeFacts(fn)
		g := flowOf(fn)
		var idCall *ssa.Call
		for _, ci := range callsIn(fn) {
			if c, ok := ci.(*ssa.Call); ok && c.Common().IsInvoke() && c.Common().Method.Name() == "GetJSONLDId" && isParamNamed(c.Common().Value, fn.Params[0].Name()) {
				idCall = c
			}
		}
		res.check(idCall != nil, rule, fname(fn), p.pos(fn), "GetId consults the JSON-LD id of its argument", "no GetJSONLDId() call on the parameter")
		nHref := 0
		for _, r := range returnsIn(fn) {
			if len(r.Results) != 2 {
				continue
			}
			mayNil, _ := ff.errStatus(r, 1)
			if !mayNil {
				continue
			}
			v := ff.resolve(r, r.Results[0])
			if !anyBackward(g, v, func(x ssa.Value) bool { return isCallNamed(x, "GetActivityStreamsHref") }) {
				continue
			}
			nHref++
			ok := idCall != nil && ff.has(r, idCall, fNIL, "")
			res.check(ok, rule, fname(fn), p.pos(r), "href is returned as the id only where the value has no id property", "a Link that carries both id and href is identified by its href: the origin check then compares a different host from the id the stored object is keyed by")
		}
		res.Count("C06-R7 href returns of GetId", nHref, 1)
	}
	if fn := p.MustFunc(res, rule, "ToId"); fn != nil {
		ff := computeFacts(fn)
		g := flowOf(fn)
		n := 0
		for _, r := range returnsIn(fn) {
			if len(r.Results) != 2 {
				continue
			}
			mayNil, _ := ff.errStatus(r, 1)
			if !mayNil {
				continue
			}
			n++
			v := ff.resolve(r, r.Results[0])
			viaGetId := anyBackward(g, v, func(x ssa.Value) bool { return isCallNamed(x, "GetId") })
			viaIRI := anyBackward(g, v, func(x ssa.Value) bool { return isCallNamed(x, "GetIRI") })
			own := anyBackward(g, v, func(x ssa.Value) bool {
				return isCallNamed(x, "GetActivityStreamsHref") || isCallNamed(x, "GetJSONLDId")
			})
			res.check((viaGetId || viaIRI) && !own, rule, fname(fn), p.pos(r), "ToId answers with GetId of the embedded value or with the IRI, and has no id rule of its own", "the id is taken from the value directly (href or id property) instead of through GetId: ToId and GetId can name different ids for one value — the origin check speaks about one, Database.Update / the de-duplication about the other")
		}
		res.Count(rule+" success returns of ToId", n, 2)
	}
}
