package main

import (
	"go/ast"
	"go/constant"
	"go/token"
	"go/types"

	"golang.org/x/tools/go/packages"
	"golang.org/x/tools/go/ssa"
	"golang.org/x/tools/go/ssa/ssautil"
)

// Shape-independent denotation of a hierarchy predicate f(other) bool: the set of
// GetTypeName() strings for which it returns true, read off the SSA form with the
// branch facts of E2 — whatever the statement form (range or index loop, if or switch,
// `a == "X" || g(other)`, operands either way round). Used when the statement-form reader of
// c13.go does not recognise a body.

var ssaPkgCache = map[*packages.Package]*ssa.Package{}

func ssaOfPackage(p *packages.Package) *ssa.Package {
	if sp, ok := ssaPkgCache[p]; ok {
		return sp
	}
	_, spkgs := ssautil.Packages([]*packages.Package{p}, ssa.BuilderMode(0))
	var sp *ssa.Package
	if len(spkgs) == 1 && spkgs[0] != nil {
		sp = spkgs[0]
		sp.Build()
	}
	ssaPkgCache[p] = sp
	return sp
}

// constStringsOf: the string constants a compared operand can denote: a constant itself, or an
// element of a slice/array literal all of whose elements are string constants.
func constStringsOf(v ssa.Value) ([]string, bool) {
	if c, ok := v.(*ssa.Const); ok && c.Value != nil && c.Value.Kind() == constant.String {
		return []string{constant.StringVal(c.Value)}, true
	}
	ld, ok := v.(*ssa.UnOp)
	if !ok || ld.Op != token.MUL {
		return nil, false
	}
	ia, ok := ld.X.(*ssa.IndexAddr)
	if !ok {
		return nil, false
	}
	var arr ssa.Value = ia.X
	if sl, ok := arr.(*ssa.Slice); ok {
		arr = sl.X
	}
	al, ok := arr.(*ssa.Alloc)
	if !ok {
		return nil, false
	}
	var out []string
	for _, ref := range *al.Referrers() {
		switch x := ref.(type) {
		case *ssa.IndexAddr:
			for _, rr := range *x.Referrers() {
				if st, ok := rr.(*ssa.Store); ok && st.Addr == ssa.Value(x) {
					c, ok := st.Val.(*ssa.Const)
					if !ok || c.Value == nil || c.Value.Kind() != constant.String {
						return nil, false
					}
					out = append(out, constant.StringVal(c.Value))
				}
			}
		case *ssa.Slice:
		default:
			if _, isStore := ref.(*ssa.Store); isStore {
				return nil, false
			}
		}
	}
	return out, true
}

func (pe *predEval) evalSSA(p *packages.Package, fd *ast.FuncDecl, depth int) *predResult {
	res := &predResult{names: map[string]bool{}}
	if depth > 4 {
		res.problem = "delegation too deep"
		return res
	}
	sp := ssaOfPackage(p)
	if sp == nil {
		res.problem = "package has no SSA form"
		return res
	}
	fn := sp.Func(fd.Name.Name)
	if fn == nil || len(fn.Blocks) == 0 || len(fn.Params) != 1 {
		res.problem = "predicate not found in SSA form"
		return res
	}
	other := fn.Params[0]
	isT := func(v ssa.Value) bool {
		c, ok := v.(*ssa.Call)
		return ok && c.Common().IsInvoke() && c.Common().Method.Name() == "GetTypeName" && c.Common().Value == ssa.Value(other)
	}
	type cmpInfo struct {
		v     *ssa.BinOp
		names []string
		neg   bool // v is `!=`: the names match where v is false
	}
	var cmps []cmpInfo
	for _, b := range fn.Blocks {
		for _, ins := range b.Instrs {
			bo, ok := ins.(*ssa.BinOp)
			if !ok || (bo.Op != token.EQL && bo.Op != token.NEQ) {
				continue
			}
			var side ssa.Value
			switch {
			case isT(bo.X):
				side = bo.Y
			case isT(bo.Y):
				side = bo.X
			default:
				continue
			}
			ns, ok := constStringsOf(side)
			if !ok {
				res.problem = "the type name is compared with something that is not a constant name (list) at " + relPos(fn.Prog.Fset, bo.Pos())
				return res
			}
			cmps = append(cmps, cmpInfo{bo, ns, bo.Op == token.NEQ})
		}
	}
	// nothing but comparisons of the type name (and loop bounds, and other predicates applied to
	// the same value) may decide the result: a further condition — on the vocabulary, say — makes
	// the denotation smaller than the set of names collected below
	var allowedCond func(v ssa.Value, d int) bool
	allowedCond = func(v ssa.Value, d int) bool {
		if d > 6 {
			return false
		}
		if _, isC := boolConst(v); isC {
			return true
		}
		switch x := v.(type) {
		case *ssa.BinOp:
			for i := range cmps {
				if cmps[i].v == x {
					return true
				}
			}
			if b, ok := x.X.Type().Underlying().(*types.Basic); ok && b.Info()&types.IsInteger != 0 {
				return true // loop bound
			}
		case *ssa.UnOp:
			if x.Op == token.NOT {
				return allowedCond(x.X, d+1)
			}
		case *ssa.Phi:
			for _, e := range x.Edges {
				if !allowedCond(e, d+1) {
					return false
				}
			}
			return true
		case *ssa.Call:
			if callee := x.Common().StaticCallee(); callee != nil && len(x.Common().Args) == 1 && x.Common().Args[0] == ssa.Value(other) {
				return true
			}
		case *ssa.Extract:
			if _, isNext := x.Tuple.(*ssa.Next); isNext && x.Index == 0 {
				return true
			}
		}
		return false
	}
	for _, b := range fn.Blocks {
		if iff, ok := lastIf(b); ok && !allowedCond(iff.Cond, 0) {
			res.problem = "a condition other than a comparison of the type name decides the result, at " + relPos(fn.Prog.Fset, iff.Pos())
			return res
		}
	}
	ff := computeFacts(fn)
	trueCmp := func(s *factState) (*cmpInfo, bool) {
		if s == nil {
			return nil, false
		}
		for i := range cmps {
			want := fTRUE
			if cmps[i].neg {
				want = fFALSE
			}
			if s.facts[fact{ff.canon(s, cmps[i].v), want, ""}] {
				return &cmps[i], true
			}
		}
		return nil, false
	}
	var judge func(v ssa.Value, s *factState, at token.Pos, d int) bool
	judge = func(v ssa.Value, s *factState, at token.Pos, d int) bool {
		if d > 6 {
			res.problem = "result expression too deep"
			return false
		}
		if b, isC := boolConst(v); isC {
			c, has := trueCmp(s)
			if b {
				if !has {
					res.problem = "returns true where no comparison with the type name is known to have succeeded, at " + relPos(fn.Prog.Fset, at)
					return false
				}
				for _, n := range c.names {
					res.names[n] = true
				}
			} else if has {
				res.problem = "returns false although a comparison with the type name succeeded, at " + relPos(fn.Prog.Fset, at)
				return false
			}
			return true
		}
		switch x := v.(type) {
		case *ssa.BinOp:
			for i := range cmps {
				if cmps[i].v == x && !cmps[i].neg {
					for _, n := range cmps[i].names {
						res.names[n] = true
					}
					return true
				}
			}
		case *ssa.Call:
			callee := x.Common().StaticCallee()
			if callee != nil && len(x.Common().Args) == 1 && x.Common().Args[0] == ssa.Value(other) {
				if obj, ok := callee.Object().(*types.Func); ok {
					if cd := pe.S.funcDecl[obj]; cd != nil {
						sub := pe.eval(pe.S.declPkg[cd], cd)
						if sub.problem != "" {
							sub = pe.evalSSA(pe.S.declPkg[cd], cd, depth+1)
						}
						if sub.problem != "" {
							res.problem = "delegates to " + callee.Name() + ": " + sub.problem
							return false
						}
						for n := range sub.names {
							res.names[n] = true
						}
						return true
					}
				}
			}
		case *ssa.Phi:
			es := ff.edgeIn[x.Block()]
			if len(es) != len(x.Edges) {
				res.problem = "merge without edge states"
				return false
			}
			for i, e := range x.Edges {
				if es[i] == nil {
					continue // infeasible edge
				}
				if !judge(e, es[i], at, d+1) {
					return false
				}
			}
			return true
		}
		res.problem = "unrecognised result " + valueLabel(v) + " at " + relPos(fn.Prog.Fset, at)
		return false
	}
	for _, r := range returnsIn(fn) {
		if !ff.reachable(r) || len(r.Results) != 1 {
			continue
		}
		if !judge(r.Results[0], ff.at[r], r.Pos(), 0) {
			return res
		}
	}
	return res
}
