package main

// C03 — hidden recipients (bto/bcc) never leave the server; plus the shared
// rules on addressing kinds (also used by C05) and on fresh properties being
// installed (also used by C04, C05, C16).

import (
	"fmt"
	"go/types"
	"sort"
	"strings"

	"golang.org/x/tools/go/ssa"
)

// checkKindConsistency: in fn, every X.AppendIRI(v) whose receiver is an
// addressing property of kind K receives only values of kind K, and — when the
// append is guarded by a map membership test — the map was built from the
// receiver's own entries (same kind, same level).
func checkKindConsistency(res *Result, p *Pub, rule, fnName string, wantPerKind int, needBothDirections bool) {
	fn := p.MustFunc(res, rule, fnName)
	if fn == nil {
		return
	}
	g := flowOf(fn)
	perKind := map[string]int{}
	type dir struct{ toObject, toActivity bool }
	dirs := map[string]*dir{}
	for _, k := range addressingKinds {
		dirs[k] = &dir{}
	}
	isProp := func(z ssa.Value) bool {
		return isAddressingValue(z) && !strings.HasSuffix(namedOf(z.Type()).Obj().Name(), "Iterator")
	}
	// objectLevel: the property value x was read from an embedded object
	// (…GetType()) rather than from the activity itself
	objectLevel := func(x ssa.Value) bool {
		kx := addressingKindOf(x.Type())
		for y := range g.backwardUntil(x, func(z ssa.Value) bool {
			k := addressingKindOf(z.Type())
			return k != "" && (k != kx || !isProp(z))
		}) {
			if c, ok := y.(*ssa.Call); ok && c.Common().IsInvoke() && c.Common().Method.Name() == "GetType" {
				return true
			}
		}
		return false
	}
	// sourceProps: the nearest addressing properties the value v was read from
	sourceProps := func(v ssa.Value) []ssa.Value {
		var out []ssa.Value
		for x := range g.backwardUntil(v, isProp) {
			if x != v && isProp(x) {
				out = append(out, x)
			}
		}
		return out
	}
	for _, ci := range callsIn(fn) {
		cc := ci.Common()
		if !cc.IsInvoke() || cc.Method.Name() != "AppendIRI" {
			continue
		}
		k := addressingKindOf(cc.Value.Type())
		if k == "" {
			continue
		}
		perKind[k]++
		kinds := g.kindsReaching(cc.Args[0])
		var ks []string
		for x := range kinds {
			ks = append(ks, x)
		}
		sort.Strings(ks)
		res.check(len(kinds) == 1 && kinds[k], rule, fnName, p.pos(ci), fmt.Sprintf("value appended to the '%s' property comes from '%s' entries only", strings.ToLower(k), strings.ToLower(k)),
			fmt.Sprintf("addressing kinds flowing into the appended value: %v (a hidden/visible recipient kind is copied into the wrong property)", ks))
		// guard
		if l := guardingLookup(ci); l != nil {
			recvIn := g.backwardUntil(l.X, isProp)[cc.Value]
			res.check(recvIn, rule, fnName, p.pos(ci), fmt.Sprintf("the membership test guarding the append to '%s' looks at a set built from that same property", strings.ToLower(k)),
				"the set consulted was not built from the receiver's entries (wrong kind or wrong level): entries are skipped or duplicated")
		}
		if !needBothDirections && guardingLookup(ci) == nil && len(loopBlocks(ci.Block())) > 0 {
			// a plain copy loop: every entry of the source property is carried over, whatever its
			// spelling (IRI or embedded value) — a lap that skips the append drops a recipient
			checkEveryElementTried(res, p, rule, fn, ci, fmt.Sprintf("every '%s' entry is carried over (each way round the copy loop appends, or fails)", strings.ToLower(k)), "an entry of one spelling (an embedded actor, say) is left out of the "+strings.ToLower(k)+" of the wrapping Create and never delivered to")
		}
		recvObj := objectLevel(cc.Value)
		srcObj, srcAct := false, false
		for _, sp := range sourceProps(cc.Args[0]) {
			if objectLevel(sp) {
				srcObj = true
			} else {
				srcAct = true
			}
		}
		if recvObj && srcAct && !srcObj {
			dirs[k].toObject = true
		} else if !recvObj && srcObj && !srcAct {
			dirs[k].toActivity = true
		}
	}
	for _, k := range addressingKinds {
		res.check(perKind[k] >= wantPerKind, rule, fnName, p.pos(fn), fmt.Sprintf("'%s' is carried over (%d AppendIRI site(s))", strings.ToLower(k), wantPerKind), fmt.Sprintf("found %d", perKind[k]))
		if needBothDirections {
			res.check(dirs[k].toObject && dirs[k].toActivity, rule, fnName, p.pos(fn), fmt.Sprintf("'%s' is copied in both directions (activity→object and object→activity)", strings.ToLower(k)),
				fmt.Sprintf("activity→object: %v, object→activity: %v", dirs[k].toObject, dirs[k].toActivity))
		}
	}
}

// guardingLookup: the comma-ok map lookup whose ok result decides the branch
// that (immediately) contains ins, if any.
func guardingLookup(ins ssa.Instruction) *ssa.Lookup {
	b := ins.Block()
	for depth := 0; depth < 2 && b != nil; depth++ {
		idom := b.Idom()
		if idom == nil {
			return nil
		}
		if ifi, ok := idom.Instrs[len(idom.Instrs)-1].(*ssa.If); ok {
			var find func(v ssa.Value, d int) *ssa.Lookup
			find = func(v ssa.Value, d int) *ssa.Lookup {
				if d > 3 {
					return nil
				}
				switch x := v.(type) {
				case *ssa.Extract:
					if l, ok := x.Tuple.(*ssa.Lookup); ok && l.CommaOk {
						return l
					}
				case *ssa.UnOp:
					return find(x.X, d+1)
				}
				return nil
			}
			if l := find(ifi.Cond, 0); l != nil {
				return l
			}
			return nil
		}
		b = idom
	}
	return nil
}

// checkFreshInstalled: wherever a property read with R.GetX() is replaced by
// a freshly constructed one when nil (phi(getter, constructor)), the fresh
// value is installed on R with a Set call — otherwise mutations of the fresh
// value are lost.
func checkFreshInstalled(res *Result, p *Pub, rule string, fnNames []string, min int) {
	n := 0
	for _, name := range fnNames {
		fn := p.Func(name)
		if fn == nil {
			continue
		}
		for _, b := range fn.Blocks {
			for _, ins := range b.Instrs {
				phi, ok := ins.(*ssa.Phi)
				if !ok || len(phi.Edges) != 2 {
					continue
				}
				var getter *ssa.Call
				var fresh ssa.Value
				for _, e := range phi.Edges {
					u := unwrap(e)
					if c, ok := u.(*ssa.Call); ok {
						if c.Common().IsInvoke() && strings.HasPrefix(c.Common().Method.Name(), "Get") {
							getter = c
						} else if f := c.Common().StaticCallee(); f != nil && f.Pkg != nil && f.Pkg.Pkg.Path() == modPath+"/streams" && strings.HasPrefix(f.Name(), "New") {
							fresh = u
						}
					}
				}
				if getter == nil || fresh == nil {
					continue
				}
				n++
				recv := getter.Common().Value
				installed := false
				for _, ci := range callsIn(fn) {
					cc := ci.Common()
					if !cc.IsInvoke() || !strings.HasPrefix(cc.Method.Name(), "Set") || len(cc.Args) != 1 {
						continue
					}
					if cc.Value != recv && unwrap(cc.Value) != unwrap(recv) {
						continue
					}
					a := unwrap(cc.Args[0])
					if a == fresh || a == ssa.Value(phi) {
						installed = true
					}
				}
				res.check(installed, rule, name, p.pos(phi), fmt.Sprintf("a fresh %s created because %s() returned nil is installed on its owner", strings.TrimPrefix(valueLabel(fresh), "New"), getter.Common().Method.Name()),
					"no Set call puts the fresh value on the receiver: everything added to it afterwards is lost")
			}
		}
	}
	res.Count(rule+" fresh-on-nil sites", n, min)
}

func checkC03(res *Result) {
	p := loadPub()
	E := computeEffects(p)
	res.Packages = []string{p.Pkg.PkgPath}
	res.Explanation = "Decides structural necessary conditions on all SSA paths: (delivery) every success return of prepare has called stripHiddenRecipients on the activity parameter, after all five addressing properties were read; Deliver hands the same activity value to deliverToRecipients only after prepare succeeded, and deliverToRecipients serialises exactly its parameter; BatchDeliver/Deliver of the Transport are reachable only through deliverToRecipients, whose callers are Deliver and InboxForwarding; stripHiddenRecipients and clearSensitiveFields clear both kinds on the value and, in a loop that cannot be left early, on every element of 'object' (clearSensitiveFields recursing); (GET handler) clearSensitiveFields(t) dominates Serialize(t) on the same value; (normalisation) in wrapInCreate and normalizeRecipients no value of one addressing kind is appended to a property of another kind and membership guards consult the receiver's own set. The payload bytes themselves are not examined."
	res.Rule("C03-R1", "strip before serialise: every success return of prepare is preceded by stripHiddenRecipients(activity); Deliver passes that same activity to deliverToRecipients only in prepare's success region; deliverToRecipients serialises its own parameter")
	res.Rule("C03-R2", "collect before strip: the bto/bcc reads in prepare precede the strip (hidden recipients still receive the delivery)")
	res.Rule("C03-R3", "strip is complete: stripHiddenRecipients sets bto and bcc to nil on the activity and, in a total loop over object, on each element (both kinds at both levels)")
	res.Rule("C03-R4", "GET handler: clearSensitiveFields(t) dominates Serialize(t) on the same value; clearSensitiveFields clears both kinds and recurses into every element of object")
	res.Rule("C03-R5", "kind consistency: in wrapInCreate and normalizeRecipients each AppendIRI on an addressing property of kind K receives only K-values, guarded by the receiver's own set; all five kinds are carried (both directions in normalizeRecipients)")
	res.Rule("C03-R6", "who may deliver: Transport.BatchDeliver/Deliver are called only from deliverToRecipients (and the bundled transport itself); deliverToRecipients is called only from Deliver and InboxForwarding")

	// R1/R2
	if fn := p.MustFunc(res, "C03-R1", "sideEffectActor.prepare"); fn != nil {
		ff := computeFacts(fn)
		strips := findCalls(E, fn, "stripHiddenRecipients")
		inlineStrip := false
		if len(strips) == 0 && !p.HasFunc("stripHiddenRecipients") {
			// the helper written out in prepare: the strip is the clearing of bto and bcc on the
			// activity parameter and, after them, the loop over its objects
			var lastTop ssa.CallInstruction
			var loopSet ssa.CallInstruction
			for _, ci := range callsIn(fn) {
				cc := ci.Common()
				if cc.IsInvoke() && (cc.Method.Name() == "SetActivityStreamsBto" || cc.Method.Name() == "SetActivityStreamsBcc") && isNilConst(cc.Args[0]) {
					if isParamNamed(unwrap(cc.Value), "activity") {
						if lastTop == nil || dominates(lastTop, ci) {
							lastTop = ci
						}
					} else if inLoop(ci) {
						loopSet = ci
					}
				}
			}
			if lastTop != nil && loopSet != nil {
				inlineStrip = true
				// the strip is complete once the object loop has been left: represent it by the
				// first instruction of each loop exit block dominated by the loop header
				loop := loopBlocks(loopSet.Block())
				H := loopHeader(loop)
				for b := range loop {
					for _, sc := range b.Succs {
						if !loop[sc] && H != nil && H.Dominates(sc) && len(sc.Instrs) > 0 {
							if ci, ok := firstCallIn(sc); ok {
								_ = ci
							}
						}
					}
				}
				strips = append(strips, lastTop)
				stripLoopHeader[fn] = H
				stripLoop[fn] = loop
			}
		}
		res.check(len(strips) >= 1, "C03-R1", fname(fn), p.pos(fn), "prepare strips hidden recipients", "no call of stripHiddenRecipients (and no clearing of bto/bcc written out in prepare)")
		for _, s := range strips {
			if inlineStrip {
				continue
			}
			res.check(isParamNamed(unwrap(s.Common().Args[0]), "activity"), "C03-R1", fname(fn), p.pos(s), "the strip is applied to the activity being delivered", "argument is "+valueLabel(s.Common().Args[0]))
		}
		for _, r := range returnsIn(fn) {
			mn, _ := ff.errStatus(r, 1)
			if !mn || !ff.reachable(r) {
				continue
			}
			dom := false
			for _, s := range strips {
				if dominates(s, r) {
					dom = true
				}
			}
			if inlineStrip && dom {
				// also past the loop over the objects
				// (the loop itself is shown total by the stripper rule; with no 'object' there is nothing to loop over)
				loop := stripLoop[fn]
				getObj := false
				for _, ci := range callsIn(fn) {
					if ci.Common().IsInvoke() && ci.Common().Method.Name() == "GetActivityStreamsObject" && isParamNamed(unwrap(ci.Common().Value), "activity") && dominates(ci, r) {
						for _, s := range strips {
							if dominates(s, ci) {
								getObj = true
							}
						}
					}
				}
				dom = getObj && !loop[r.Block()]
			}
			res.check(dom, "C03-R1", fname(fn), p.pos(r), "success return of prepare only after stripHiddenRecipients", "a path returns the recipients without having stripped bto/bcc from the payload")
		}
		// R2: reads of the hidden kinds precede the strip
		for _, k := range []string{"Bto", "Bcc"} {
			gs := findCalls(E, fn, "Activity.GetActivityStreams"+k)
			res.check(len(gs) >= 1, "C03-R2", fname(fn), p.pos(fn), "prepare reads "+strings.ToLower(k)+" recipients", "no read of the property")
			for _, gcall := range gs {
				for _, s := range strips {
					res.check(dominates(gcall, s), "C03-R2", fname(fn), p.pos(gcall), strings.ToLower(k)+" is read before it is stripped", "the strip can happen before the recipients were collected")
				}
			}
		}
	}
	if fn := p.MustFunc(res, "C03-R1", "sideEffectActor.Deliver"); fn != nil {
		ff := computeFacts(fn)
		prep := findCalls(E, fn, "sideEffectActor.prepare")
		dtr := handOverSites(E, fn)
		if len(prep) == 1 && len(dtr) == 1 {
			pc := prep[0].(*ssa.Call)
			res.check(ff.has(dtr[0], extractOf(pc, 1), fNIL, "") && dominates(pc, dtr[0]), "C03-R1", fname(fn), p.pos(dtr[0]), "deliverToRecipients only after prepare succeeded", "facts: "+ff.describe(dtr[0]))
			if callName(dtr[0]) == "sideEffectActor.deliverToRecipients" || len(dtr[0].Common().Args) >= 5 {
				res.check(pc.Call.Args[3] == dtr[0].Common().Args[3] && isParamNamed(unwrap(pc.Call.Args[3]), "activity"), "C03-R1", fname(fn), p.pos(dtr[0]), "the activity that was stripped is the activity that is sent", "prepare and deliverToRecipients receive different values")
				res.check(dtr[0].Common().Args[4] == ssa.Value(extractOf(pc, 0)), "C03-R1", fname(fn), p.pos(dtr[0]), "the recipients computed by prepare are the recipients used", "argument mismatch")
			} else {
				// the helper written out in Deliver: BatchDeliver(c, payload, recipients)
				g := flowOf(fn)
				a := dtr[0].Common().Args
				okAct := isParamNamed(unwrap(pc.Call.Args[3]), "activity") && anyBackward(g, a[1], func(x ssa.Value) bool { return isCallNamed(x, "streams.Serialize") }) && anyBackward(g, a[1], func(x ssa.Value) bool { return isParamNamed(x, "activity") })
				res.check(okAct, "C03-R1", fname(fn), p.pos(dtr[0]), "the activity that was stripped is the activity that is sent", "the payload is not the serialisation of the activity handed to prepare")
				res.check(unwrap(a[2]) == ssa.Value(extractOf(pc, 0)), "C03-R1", fname(fn), p.pos(dtr[0]), "the recipients computed by prepare are the recipients used", "argument mismatch")
			}
		} else {
			res.bad("C03-R1", fname(fn), p.pos(fn), "Deliver = prepare then deliverToRecipients, once each", fmt.Sprintf("prepare calls %d, deliverToRecipients calls %d", len(prep), len(dtr)))
		}
	}
	for _, cname := range optionalFuncs(p, []string{"sideEffectActor.deliverToRecipients"}) {
		fn := p.Func(cname)
		g := flowOf(fn)
		for _, c := range findCalls(E, fn, "Transport.BatchDeliver") {
			body := c.Common().Args[1]
			fromParam := anyBackward(g, body, func(x ssa.Value) bool { return isParamNamed(x, "activity") })
			viaSerialize := anyBackward(g, body, func(x ssa.Value) bool { return isCallNamed(x, "streams.Serialize") })
			res.check(fromParam && viaSerialize, "C03-R1", fname(fn), p.pos(c), "the payload is the serialisation of the activity parameter", fmt.Sprintf("from parameter: %v; through streams.Serialize: %v", fromParam, viaSerialize))
		}
		for _, c := range findCalls(E, fn, "streams.Serialize") {
			res.check(isParamNamed(unwrap(c.Common().Args[0]), "activity"), "C03-R1", fname(fn), p.pos(c), "Serialize is applied to the activity parameter itself", "argument is "+valueLabel(c.Common().Args[0]))
		}
	}

	// R3
	if p.HasFunc("stripHiddenRecipients") {
		checkStripper(res, p, "C03-R3", "stripHiddenRecipients", false)
	} else {
		checkStripperOn(res, p, "C03-R3", p.Func("sideEffectActor.prepare"), "activity", false, false)
	}
	// R4
	checkStripper(res, p, "C03-R4", "clearSensitiveFields", true)
	if fn := p.MustFunc(res, "C03-R4", "NewActivityStreamsHandlerScheme$1"); fn != nil {
		cl := findCalls(E, fn, "clearSensitiveFields")
		se := findCalls(E, fn, "streams.Serialize")
		res.check(len(cl) >= 1 && len(se) == 1, "C03-R4", fname(fn), p.pos(fn), "handler scrubs and serialises", fmt.Sprintf("clearSensitiveFields calls %d, Serialize calls %d", len(cl), len(se)))
		if len(se) == 1 {
			okDom := false
			ffh := computeFacts(fn)
			served := unwrap(ffh.resolveAt(se[0], se[0].Common().Args[0]))
			for _, c := range cl {
				if dominates(c, se[0]) && (unwrap(c.Common().Args[0]) == unwrap(se[0].Common().Args[0]) || unwrap(ffh.resolveAt(c, c.Common().Args[0])) == served) {
					okDom = true
				}
			}
			res.check(okDom, "C03-R4", fname(fn), p.pos(se[0]), "clearSensitiveFields(t) is applied to the served value on every path before Serialize(t)", "some path serialises the value without the recursive scrub (or a different value is scrubbed)")
		}
	}

	// R7: what the strip clears is all the decoder kept of the member
	res.Rule("C03-R7", "the strip reaches every copy: the decoder keeps a hidden-recipient member only in its typed property — a type does not also keep the raw member among its unknown members (which are written back verbatim) because the document spelt it with a vocabulary alias")
	if ok, nT, ex := claimsIgnoreAlias(loadStreams()); nT > 0 {
		if !ok {
			res.Add(Oblig{Rule: "C03-R7", Func: "streams/impl", Pos: "-", Key: "C03-R7|streams/impl|aliased bto/bcc kept among the unknown members",
				Desc: "bto/bcc are kept only in their typed properties", Verdict: VIOLATION,
				Detail: fmt.Sprintf("%d of %d types compare document keys with plain member names only (e.g. %s): \"as:bcc\" in a document that aliases the vocabulary is interpreted AND kept as an unknown member, so it is still in the payload after stripHiddenRecipients / clearSensitiveFields set the typed property to nil", len(ex), nT, strings.Join(ex[:min(len(ex), 3)], ", "))})
		} else {
			res.ok("C03-R7", "streams/impl", "-", "bto/bcc are kept only in their typed properties")
		}
	}
	checkHiddenClaimed(res, "C03-R7")
	res.Rule("C03-R8", "the strip functions see every embedded object: GetType of the object property returns the value for each of its type-valued kinds (shared with C18-R4)")
	checkTypeAccessorTables(res, "C03-R8", map[string]bool{"object": true})
	// R5
	checkKindConsistency(res, p, "C03-R5", "wrapInCreate", 1, false)
	checkKindConsistency(res, p, "C03-R5", "normalizeRecipients", 2, true)
	checkFreshInstalled(res, p, "C03-R5", []string{"normalizeRecipients"}, 10)
	if fn := p.Func("wrapInCreate"); fn != nil {
		// each fresh activity<K> property is installed on the Create
		for _, k := range addressingKinds {
			n := 0
			for _, ci := range callsIn(fn) {
				cc := ci.Common()
				if cc.IsInvoke() && cc.Method.Name() == "SetActivityStreams"+k {
					n++
				}
			}
			res.check(n == 1, "C03-R5", "wrapInCreate", p.pos(fn), "the Create gets its '"+strings.ToLower(k)+"' property installed", fmt.Sprintf("%d SetActivityStreams%s calls", n, k))
		}
	}

	// R6
	checkWhoMayDeliver(res, p, E, "C03-R6")

	res.Assumptions = append(res.Assumptions, "the generated SetActivityStreamsBto(nil)/Bcc(nil) removes the member from the serialisation (C01/C12 cover the generated code)", "value flow is an over-approximation")
	res.Undecided = []string{"the payload bytes themselves", "bto/bcc deeper than one level of 'object' on delivery (outside the statement)"}
	res.Trusted = []string{"go/types, go/ssa (x/tools v0.29.0)", "e1_effects.go, e2_facts.go, e4_flow.go"}
}

// checkStripper verifies the shape of stripHiddenRecipients / clearSensitiveFields.
var stripLoopHeader = map[*ssa.Function]*ssa.BasicBlock{}
var stripLoop = map[*ssa.Function]map[*ssa.BasicBlock]bool{}

func firstCallIn(b *ssa.BasicBlock) (ssa.CallInstruction, bool) {
	for _, ins := range b.Instrs {
		if ci, ok := ins.(ssa.CallInstruction); ok {
			return ci, true
		}
	}
	return nil, false
}

func checkStripper(res *Result, p *Pub, rule, fnName string, recursive bool) {
	fn := p.MustFunc(res, rule, fnName)
	if fn == nil {
		return
	}
	checkStripperOn(res, p, rule, fn, fn.Params[0].Name(), recursive, true)
}

// checkStripperOn applies the stripper rules to fn, the value stripped being its parameter
// prmName. unconditional: nothing may return before the value has been examined (a helper whose
// only job is to strip); false for a function that strips among other things.
func checkStripperOn(res *Result, p *Pub, rule string, fn *ssa.Function, prmName string, recursive, unconditional bool) {
	if fn == nil {
		res.undecided(rule, "stripper", "-", "function that clears bto/bcc", "not found")
		return
	}
	fnName := fname(fn)
	var prm *ssa.Parameter
	for _, q := range fn.Params {
		if q.Name() == prmName {
			prm = q
		}
	}
	if prm == nil {
		res.undecided(rule, fnName, p.pos(fn), "parameter "+prmName, "not found")
		return
	}
	topLevel := map[string]int{}
	inLoopN := map[string]int{}
	var loopCall ssa.Instruction
	recursed := false
	for _, ci := range callsIn(fn) {
		cc := ci.Common()
		if cc.IsInvoke() && (cc.Method.Name() == "SetActivityStreamsBto" || cc.Method.Name() == "SetActivityStreamsBcc") {
			k := strings.TrimPrefix(cc.Method.Name(), "SetActivityStreams")
			nilArg := isNilConst(cc.Args[0])
			if !nilArg {
				res.bad(rule, fnName, p.pos(ci), "hidden recipients are cleared by setting the property to nil", "argument is not nil")
				continue
			}
			base := unwrap(cc.Value)
			if ta, ok := base.(*ssa.TypeAssert); ok {
				base = unwrap(ta.X)
			}
			if ex, ok := base.(*ssa.Extract); ok {
				if ta, ok := ex.Tuple.(*ssa.TypeAssert); ok {
					base = unwrap(ta.X)
				}
			}
			if base == ssa.Value(prm) {
				topLevel[k]++
			} else if inLoop(ci) {
				inLoopN[k]++
				loopCall = ci
			}
		}
		if f := cc.StaticCallee(); f != nil && f == fn {
			recursed = true
			loopCall = ci
			res.check(inLoop(ci), rule, fnName, p.pos(ci), "the recursion visits every element of 'object'", "recursive call is not inside the loop over object")
		}
	}
	for _, k := range []string{"Bto", "Bcc"} {
		res.check(topLevel[k] == 1, rule, fnName, p.pos(fn), strings.ToLower(k)+" is cleared on the value itself", fmt.Sprintf("%d such calls", topLevel[k]))
		if !recursive {
			res.check(inLoopN[k] == 1, rule, fnName, p.pos(fn), strings.ToLower(k)+" is cleared on each element of 'object'", fmt.Sprintf("%d such calls inside the loop", inLoopN[k]))
		}
	}
	if recursive {
		res.check(recursed, rule, fnName, p.pos(fn), "clearing recurses into 'object'", "no recursive call")
	}
	if unconditional {
		checkStripperUnconditional(res, p, rule, fn)
	}
	checkGuardCoversProperty(res, p, rule, fn)
	if loopCall != nil {
		tot, why := totalLoop(loopBlocks(loopCall.Block()), func(*ssa.Return) bool { return false })
		res.check(tot, rule, fnName, p.pos(loopCall), "the loop over 'object' visits every element (cannot be left early)", why)
		// the loop iterates GetActivityStreamsObject()
		g := flowOf(fn)
		var src ssa.Value
		if c, ok := loopCall.(*ssa.Call); ok {
			if c.Common().IsInvoke() {
				src = c.Common().Value
			} else if len(c.Common().Args) > 0 {
				src = c.Common().Args[0]
			}
		}
		if src != nil {
			res.check(anyBackward(g, src, func(x ssa.Value) bool { return isCallNamed(x, "GetActivityStreamsObject") }), rule, fnName, p.pos(loopCall), "the elements visited are those of the 'object' property", "loop does not iterate GetActivityStreamsObject()")
		}
	}
}

// checkWhoMayDeliver: the only callers of Transport.BatchDeliver / Deliver in
// pub are deliverToRecipients (and HttpSigTransport.BatchDeliver calling its
// own Deliver); deliverToRecipients is called only from Deliver and
// InboxForwarding.
func checkWhoMayDeliver(res *Result, p *Pub, E *Effects, rule string) {
	n := 0
	for _, fn := range p.Funcs {
		for _, ci := range E.byFn[fn] {
			if ci.Label == "Transport.BatchDeliver" || ci.Label == "Transport.Deliver" {
				n++
				okFn := fname(fn) == "sideEffectActor.deliverToRecipients" || fname(fn) == "sideEffectActor.Deliver" || fname(fn) == "sideEffectActor.InboxForwarding"
				res.check(okFn, rule, fname(fn), p.pos(ci.Instr), ci.Label+" is called only on the two delivery paths (deliverToRecipients, or Deliver / InboxForwarding themselves)", "a payload reaches the transport from "+fname(fn)+" without passing the strip/serialise path")
				if okFn {
					// the payload is the serialisation of the function's activity parameter
					g := flowOf(fn)
					body := ci.Instr.Common().Args[1]
					fromParam := anyBackward(g, body, func(x ssa.Value) bool { return isParamNamed(x, "activity") })
					viaSerialize := anyBackward(g, body, func(x ssa.Value) bool { return isCallNamed(x, "streams.Serialize") })
					res.check(fromParam && viaSerialize, rule, fname(fn), p.pos(ci.Instr), "the payload is the serialisation of the activity parameter", fmt.Sprintf("from parameter: %v; through streams.Serialize: %v", fromParam, viaSerialize))
				}
			}
			for _, c := range ci.Callees {
				if fname(c) == "sideEffectActor.deliverToRecipients" {
					ok := fname(fn) == "sideEffectActor.Deliver" || fname(fn) == "sideEffectActor.InboxForwarding"
					res.check(ok, rule, fname(fn), p.pos(ci.Instr), "deliverToRecipients is called only from Deliver and InboxForwarding", "new caller "+fname(fn))
				}
				if fname(c) == "sideEffectActor.Deliver" {
					// Deliver is reached from baseActor.deliver (delegate) and through the follow side channel
					ok := fname(fn) == "baseActor.deliver" || fname(fn) == "FederatingWrappedCallbacks.follow"
					res.check(ok, rule, fname(fn), p.pos(ci.Instr), "sideEffectActor.Deliver is reached only from baseActor.deliver and the automatic Accept/Reject", "new caller "+fname(fn))
				}
			}
		}
	}
	res.check(n >= 1, rule, "pub", "-", "a Transport delivery call exists", "none found")
}

// checkStripperUnconditional: nothing can return from the stripper before the
// value itself has been examined for bto, for bcc and for 'object'. The
// examination of a member is the setter/getter call on the parameter itself
// or, where the member is reached through a type assertion on the parameter,
// that assertion; each must dominate every return of the function.
func checkStripperUnconditional(res *Result, p *Pub, rule string, fn *ssa.Function) {
	prm := fn.Params[0]
	baseOf := func(v ssa.Value) (ssa.Value, ssa.Instruction) {
		v = unwrap(v)
		if ta, ok := v.(*ssa.TypeAssert); ok {
			return unwrap(ta.X), ta
		}
		if ex, ok := v.(*ssa.Extract); ok {
			if ta, ok := ex.Tuple.(*ssa.TypeAssert); ok {
				return unwrap(ta.X), ta
			}
		}
		return v, nil
	}
	anchors := map[string]ssa.Instruction{}
	for _, ci := range callsIn(fn) {
		cc := ci.Common()
		if !cc.IsInvoke() {
			continue
		}
		m := cc.Method.Name()
		if m != "SetActivityStreamsBto" && m != "SetActivityStreamsBcc" && m != "GetActivityStreamsObject" {
			continue
		}
		base, ta := baseOf(cc.Value)
		if base != ssa.Value(prm) {
			continue
		}
		if ta != nil {
			anchors[m] = ta
		} else {
			anchors[m] = ci
		}
	}
	for _, m := range []string{"SetActivityStreamsBto", "SetActivityStreamsBcc", "GetActivityStreamsObject"} {
		a := anchors[m]
		if a == nil {
			res.bad(rule, fname(fn), p.pos(fn), m+" is applied to the value itself", "no such call on the parameter")
			continue
		}
		ok := true
		where := ""
		for _, r := range returnsIn(fn) {
			if !dominates(a, r) {
				ok = false
				where = p.pos(r)
			}
		}
		res.check(ok, rule, fname(fn), p.pos(a), "nothing returns before "+m+" (or the type test guarding it) has been reached", "the return at "+where+" can be reached without it: some values leave with hidden recipients in place")
	}
}

// vocabTypeIfaces: the interfaces of streams/vocab that describe a type (not a
// property or iterator): they have GetTypeName, VocabularyURI and JSONLDContext.
func vocabTypeIfaces(p *Pub) []*types.Named {
	var out []*types.Named
	for _, imp := range p.Pkg.Imports {
		if !strings.HasSuffix(imp.PkgPath, "/streams/vocab") {
			continue
		}
		sc := imp.Types.Scope()
		for _, n := range sc.Names() {
			tn, ok := sc.Lookup(n).(*types.TypeName)
			if !ok {
				continue
			}
			named, ok := tn.Type().(*types.Named)
			if !ok {
				continue
			}
			it, ok := named.Underlying().(*types.Interface)
			if !ok {
				continue
			}
			has := map[string]bool{}
			for i := 0; i < it.NumMethods(); i++ {
				has[it.Method(i).Name()] = true
			}
			if has["GetTypeName"] && has["VocabularyURI"] && has["JSONLDContext"] && has["IsExtending"] {
				out = append(out, named)
			}
		}
	}
	return out
}

// checkGuardCoversProperty: where the stripper reaches bto / bcc / object
// through a type assertion x.(I), I must be implemented by every vocabulary
// type that has that member — otherwise values of the excluded types keep
// their hidden recipients (or are not descended into).
func checkGuardCoversProperty(res *Result, p *Pub, rule string, fn *ssa.Function) {
	vts := vocabTypeIfaces(p)
	res.Count(rule+" vocabulary type interfaces", len(vts), 50)
	seen := map[string]bool{}
	for _, ci := range callsIn(fn) {
		cc := ci.Common()
		if !cc.IsInvoke() {
			continue
		}
		m := cc.Method.Name()
		if m != "SetActivityStreamsBto" && m != "SetActivityStreamsBcc" && m != "GetActivityStreamsObject" {
			continue
		}
		var ta *ssa.TypeAssert
		v := unwrap(cc.Value)
		if t, ok := v.(*ssa.TypeAssert); ok {
			ta = t
		} else if ex, ok := v.(*ssa.Extract); ok {
			ta, _ = ex.Tuple.(*ssa.TypeAssert)
		}
		if ta == nil {
			continue
		}
		iface, ok := ta.AssertedType.Underlying().(*types.Interface)
		if !ok {
			continue
		}
		key := m + "|" + typeShort(ta.AssertedType)
		if seen[key] {
			continue
		}
		seen[key] = true
		var excluded []string
		n := 0
		for _, vt := range vts {
			vi := vt.Underlying().(*types.Interface)
			hasM := false
			for i := 0; i < vi.NumMethods(); i++ {
				if vi.Method(i).Name() == m {
					hasM = true
				}
			}
			if !hasM {
				continue
			}
			n++
			if !types.Implements(vt, iface) {
				excluded = append(excluded, vt.Obj().Name())
			}
		}
		sort.Strings(excluded)
		detail := ""
		if len(excluded) > 0 {
			detail = fmt.Sprintf("%d of the %d vocabulary types with that member do not satisfy %s, e.g. %s", len(excluded), n, typeShort(ta.AssertedType), strings.Join(excluded[:min(len(excluded), 4)], ", "))
		}
		res.check(len(excluded) == 0 && n > 0, rule, fname(fn), p.pos(ta), fmt.Sprintf("the type test %s guarding %s admits every vocabulary type that has the member", typeShort(ta.AssertedType), m), detail)
	}
}
