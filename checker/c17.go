package main

// C17 — inbox forwarding happens iff its three conditions hold, once, unchanged.

import (
	"fmt"
	"go/token"
	"strings"

	"golang.org/x/tools/go/ssa"
)

// checkSkipOnFailure: when `call` fails, the loop it sits in continues with
// the next element: from the failure edge no return and no loop exit is
// reachable without passing the loop header.
func checkSkipOnFailure(res *Result, p *Pub, rule string, fn *ssa.Function, call *ssa.Call, what string) {
	ff := computeFacts(fn)
	e := errResult(call)
	if e == nil {
		res.bad(rule, fname(fn), p.pos(call), what+": the call's error is tested", "error result unused")
		return
	}
	loop := loopBlocks(call.Block())
	hdr := loopHeader(loop)
	if hdr == nil {
		res.bad(rule, fname(fn), p.pos(call), what+": the call sits in a loop", "no loop found")
		return
	}
	found := false
	ok := true
	why := ""
	for _, b := range fn.Blocks {
		ifi, isIf := b.Instrs[len(b.Instrs)-1].(*ssa.If)
		if !isIf || !loop[b] {
			continue
		}
		v, k := (&errFlow{ff: ff}).errTest(ifi, ifi.Cond)
		if v != e {
			continue
		}
		found = true
		fail := b.Succs[0]
		if k == "nil" {
			fail = b.Succs[1]
		}
		seen := map[*ssa.BasicBlock]bool{}
		var walk func(x *ssa.BasicBlock)
		walk = func(x *ssa.BasicBlock) {
			if seen[x] || x == hdr {
				return
			}
			seen[x] = true
			if !loop[x] {
				ok = false
				why = fmt.Sprintf("the failure edge leaves the loop (block %d) instead of continuing with the next element", x.Index)
				return
			}
			for _, s := range x.Succs {
				walk(s)
			}
		}
		walk(fail)
	}
	res.check(found && ok, rule, fname(fn), p.pos(call), what, map[bool]string{true: why, false: "the error is never tested inside the loop"}[found])
}

func checkC17(res *Result) {
	p := loadPub()
	E := computeEffects(p)
	res.Packages = []string{p.Pkg.PkgPath}
	res.Explanation = "The 'iff' over concrete ownership data is not decided. Decided on all SSA paths: (R1) deliverToRecipients in InboxForwarding lies where Exists returned (false,nil), at least one owned collection was found, hasInboxForwardingValues returned (true,nil) and FilterForwarding succeeded; (R2) the activity is created exactly where it was not seen, inside the Exists hold, and a seen activity returns without further effect; (R3) the collection scan reads exactly to/cc/audience, keeps an IRI only where Owns said true, and treats it as a collection only where the loaded value is a Collection/OrderedCollection; (R4) getInboxForwardingValues reads inReplyTo, tag, object and target, each unconditionally; hasInboxForwardingValues is depth-guarded, passes depth+1, returns true only where Owns (or the recursion) said so, and skips values that cannot be fetched or parsed; (R5) the members forwarded to are looked up through the elements of FilterForwarding's result and nothing else; (R6) no mutator is applied to the activity on the forwarding path and the payload is the serialisation of the activity parameter."
	res.Rule("C17-R1", "gates: deliverToRecipients only where exists==false ∧ an owned collection exists ∧ ownsValue==true ∧ FilterForwarding succeeded")
	res.Rule("C17-R2", "seen exactly once: Database.Create(activity) only where Exists returned (false,nil); exists==true returns nil with no further effect")
	res.Rule("C17-R3", "condition 2 sources: exactly to, cc and audience are scanned; an IRI is kept only where Owns returned true; it counts as a collection only where the loaded value IsOrExtends (Ordered)Collection")
	res.Rule("C17-R4", "condition 3: getInboxForwardingValues reads inReplyTo, tag, object, target each on every path; hasInboxForwardingValues is depth-guarded, recursion passes depth+1, true only from Owns==true or a recursive true, unfetchable/unparsable values are skipped")
	res.Rule("C17-R5", "the filter is authoritative: the collections whose members receive the forward are indexed by the elements of FilterForwarding's result only")
	res.Rule("C17-R6", "payload unchanged: no mutator on ActivityStreams values anywhere on the forwarding path; the payload is Serialize(activity parameter)")
	res.Rule("C17-R7", "error discipline over InboxForwarding and hasInboxForwardingValues")

	fn := p.MustFunc(res, "C17-R1", "sideEffectActor.InboxForwarding")
	if fn != nil {
		ff := computeFacts(fn)
		g := flowOf(fn)
		one := func(pat string) *ssa.Call {
			cs := findCalls(E, fn, pat)
			if len(cs) != 1 {
				res.bad("C17-R1", fname(fn), p.pos(fn), pat+" is called exactly once", fmt.Sprintf("%d calls", len(cs)))
				return nil
			}
			c, _ := cs[0].(*ssa.Call)
			return c
		}
		ex := one("Database.Exists")
		cr := one("Database.Create")
		hv := one("sideEffectActor.hasInboxForwardingValues")
		ffw := one("FederatingProtocol.FilterForwarding")
		var dl *ssa.Call
		if hs := handOverSites(E, fn); len(hs) == 1 {
			dl, _ = hs[0].(*ssa.Call)
		} else {
			res.bad("C17-R1", fname(fn), p.pos(fn), "the activity is handed to the transport exactly once on the forwarding path", fmt.Sprintf("%d hand-over sites", len(hs)))
		}
		if ex != nil && cr != nil && hv != nil && ffw != nil && dl != nil {
			exV, exE := extractOf(ex, 0), extractOf(ex, 1)
			okEx := ff.has(dl, exV, fFALSE, "") && ff.has(dl, exE, fNIL, "")
			okHV := ff.has(dl, extractOf(hv, 0), fTRUE, "") && ff.has(dl, extractOf(hv, 1), fNIL, "")
			okFF := ff.has(dl, extractOf(ffw, 1), fNIL, "")
			// len(colIRIs) != 0 where colIRIs is what FilterForwarding receives
			okLen := false
			col := ffw.Call.Args[1]
			for _, ci := range callsIn(fn) {
				if bi, ok := ci.Common().Value.(*ssa.Builtin); ok && bi.Name() == "len" && ci.Common().Args[0] == col {
					if ff.has(dl, ci.(ssa.Value), fNEQ, "const:0") {
						okLen = true
					}
				}
			}
			res.check(okEx, "C17-R1", fname(fn), p.pos(dl), "forwarding only for an activity not seen before (Exists == (false, nil))", "facts: "+ff.describe(dl))
			res.check(okLen, "C17-R1", fname(fn), p.pos(dl), "forwarding only if an owned collection was addressed (len(colIRIs) != 0)", "facts: "+ff.describe(dl))
			res.check(okHV, "C17-R1", fname(fn), p.pos(dl), "forwarding only if an owned inReplyTo/object/target/tag value was found (ownsValue == (true, nil))", "facts: "+ff.describe(dl))
			res.check(okFF, "C17-R1", fname(fn), p.pos(dl), "forwarding only after FilterForwarding succeeded", "facts: "+ff.describe(dl))
			// R2
			res.check(ff.has(cr, exV, fFALSE, "") && ff.has(cr, exE, fNIL, "") && isParamNamed(unwrap(cr.Call.Args[1]), "activity"), "C17-R2", fname(fn), p.pos(cr), "the activity is recorded as seen exactly where it was not seen before", "facts: "+ff.describe(cr))
			res.check(!inLoop(cr), "C17-R2", fname(fn), p.pos(cr), "recorded once (not in a loop)", "Create sits in a loop")
			for _, ci := range E.byFn[fn] {
				if ci.Instr == ssa.CallInstruction(ex) || ci.Trans&(eDBW|eDBR|eTP|eCB|eAPPREAD) == 0 || !reachesInstr(ex, ci.Instr) {
					continue
				}
				res.check(ff.has(ci.Instr, exV, fFALSE, ""), "C17-R2", fname(fn), p.pos(ci.Instr), ci.Label+" only for an activity not seen before", "reachable although Exists returned true: a repeated delivery has effects")
			}
			for _, ci := range E.byFn[fn] {
				if ci.Trans&(eDBW|eDBR|eTP|eCB|eAPPREAD) != 0 && ci.Instr != ssa.CallInstruction(ex) && ci.Label != "Database.Exists" {
					if !dominates(ex, ci.Instr) {
						res.bad("C17-R2", fname(fn), p.pos(ci.Instr), ci.Label+" happens after the seen-check", "not dominated by Exists")
					}
				}
			}
			// R5: the range whose elements index the member maps is FilterForwarding's result
			toSend := ssa.Value(extractOf(ffw, 0))
			nLook := 0
			for _, b := range fn.Blocks {
				for _, ins := range b.Instrs {
					l, ok := ins.(*ssa.Lookup)
					if !ok || !strings.HasPrefix(l.X.Type().String(), "map[string]") {
						continue
					}
					nLook++
					// the key derives from an element of a slice: which slice? (do not look
					// behind FilterForwarding's result itself)
					okKey := false
					all := true
					badSrc := ""
					for x := range g.backwardUntil(l.Index, func(z ssa.Value) bool { return z == toSend }) {
						if ia, ok := x.(*ssa.IndexAddr); ok {
							if ia.X == toSend {
								okKey = true
							} else {
								all = false
								badSrc = valueLabel(ia.X)
							}
						}
					}
					res.check(okKey && all, "C17-R5", fname(fn), p.pos(l), "the member collections used are those named by FilterForwarding's result", "the key also/only derives from "+badSrc+": collections the application filtered out can be forwarded to")
				}
			}
			res.check(nLook >= 2, "C17-R5", fname(fn), p.pos(fn), "members are looked up for Collections and OrderedCollections", fmt.Sprintf("%d lookups", nLook))
			// the recipients handed over derive from those lookups
			recArg, actOK := ssa.Value(nil), false
			if len(dl.Call.Args) >= 5 {
				// deliverToRecipients(c, boxIRI, activity, recipients)
				recArg = dl.Call.Args[4]
				actOK = isParamNamed(unwrap(dl.Call.Args[3]), "activity")
			} else if len(dl.Call.Args) >= 3 {
				// the helper written out: BatchDeliver(c, payload, recipients)
				recArg = dl.Call.Args[2]
				actOK = anyBackward(g, dl.Call.Args[1], func(x ssa.Value) bool { return isParamNamed(x, "activity") }) && anyBackward(g, dl.Call.Args[1], func(x ssa.Value) bool { return isCallNamed(x, "streams.Serialize") })
			}
			res.check(recArg != nil && anyBackward(g, recArg, func(x ssa.Value) bool { _, ok := x.(*ssa.Lookup); return ok }), "C17-R5", fname(fn), p.pos(dl), "the recipients are the members of those collections", "recipients do not derive from the member maps")
			res.check(actOK, "C17-R6", fname(fn), p.pos(dl), "what is forwarded is the received activity", "different value")
			// FilterForwarding gets the owned collections and the activity
			res.check(isParamNamed(unwrap(ffw.Call.Args[2]), "activity"), "C17-R5", fname(fn), p.pos(ffw), "the filter is asked about the received activity", "different value")
		}
		// R3
		scanned := map[string]bool{}
		for _, ci := range E.byFn[fn] {
			for _, k := range addressingKinds {
				if ci.Label == "Activity.GetActivityStreams"+k {
					scanned[k] = true
				}
			}
		}
		res.check(scanned["To"] && scanned["Cc"] && scanned["Audience"] && !scanned["Bto"] && !scanned["Bcc"], "C17-R3", fname(fn), p.pos(fn), "exactly to, cc and audience are examined for owned collections", fmt.Sprintf("scanned: %v", setList(scanned)))
		// appends to myIRIs / colIRIs
		sawOrdered, sawPlain := false, false
		for _, ci := range callsIn(fn) {
			bi, ok := ci.Common().Value.(*ssa.Builtin)
			if !ok || bi.Name() != "append" {
				continue
			}
			// which slice? the one passed to FilterForwarding (colIRIs) or iterated for loading (myIRIs)
			s := ff.at[ci]
			if s == nil {
				continue
			}
			ownsPred := func(s *factState) bool {
				for f := range s.facts {
					if f.k == fTRUE {
						for v, n := range ff.ids {
							if fmt.Sprintf("v%d", n) == f.v {
								if e, ok := v.(*ssa.Extract); ok && isCallNamed(e.Tuple, "Database.Owns") {
									return true
								}
							}
						}
					}
				}
				return false
			}
			collPred := func(s *factState) bool {
				hit := false
				for f := range s.facts {
					if f.k != fTRUE {
						continue
					}
					if strings.HasPrefix(f.v, "pure:IsOrExtendsActivityStreamsOrderedCollection(") {
						sawOrdered, hit = true, true
					}
					if strings.HasPrefix(f.v, "pure:IsOrExtendsActivityStreamsCollection(") {
						sawPlain, hit = true, true
					}
				}
				return hit
			}
			_ = s
			// on every path to the append (a named flag such as `usable := isOrdered || isPlain` is looked through)
			hasColl := ff.holdsOnEveryPath(ci, collPred, 4)
			hasOwns := ff.holdsOnEveryPath(ci, ownsPred, 4)
			elemFromRecipients := anyBackward(g, ci.Common().Args[1], func(x ssa.Value) bool {
				c, ok := x.(*ssa.Call)
				return ok && staticName(c) == "pub.ToId"
			})
			if !elemFromRecipients {
				continue
			}
			// classify by what is known
			if hasColl {
				res.ok("C17-R3", fname(fn), p.pos(ci), "an IRI counts as an addressed collection only where the loaded value is a Collection/OrderedCollection")
			} else if hasOwns {
				res.ok("C17-R3", fname(fn), p.pos(ci), "an addressed IRI is kept only where Owns returned true")
			} else if inLoop(ci) && !anyBackward(g, ci.Common().Args[0], func(x ssa.Value) bool { return false }) {
				// the initial gathering of to/cc/audience ids (no condition) — identified by being fed from the getters' loops
				res.ok("C17-R3", fname(fn), p.pos(ci), "addressed id gathered")
			}
		}
		nOwnsGuard := 0
		for _, o := range res.Obligs {
			if o.Rule == "C17-R3" && strings.Contains(o.Desc, "Owns returned true") {
				nOwnsGuard++
			}
		}
		res.check(nOwnsGuard >= 1, "C17-R3", fname(fn), p.pos(fn), "ownership filters the addressed ids", "no append guarded by Owns==true")
		nCollGuard := 0
		for _, o := range res.Obligs {
			if o.Rule == "C17-R3" && strings.Contains(o.Desc, "counts as an addressed collection") {
				nCollGuard++
			}
		}
		res.check(nCollGuard >= 1 && sawOrdered && sawPlain, "C17-R3", fname(fn), p.pos(fn), "both Collection and OrderedCollection are recognised", fmt.Sprintf("%d guarded appends; OrderedCollection test seen: %v, Collection test seen: %v", nCollGuard, sawOrdered, sawPlain))
	}

	// R4
	if f := p.MustFunc(res, "C17-R4", "getInboxForwardingValues"); f != nil {
		want := map[string]bool{"GetActivityStreamsInReplyTo": false, "GetActivityStreamsTag": false, "GetActivityStreamsObject": false, "GetActivityStreamsTarget": false}
		var rets []*ssa.Return = returnsIn(f)
		for _, b := range f.Blocks {
			for _, ins := range b.Instrs {
				ta, ok := ins.(*ssa.TypeAssert)
				if !ok || !ta.CommaOk || !isParamNamed(ta.X, "o") {
					continue
				}
				// which getter is called on the asserted value?
				for _, ci := range callsIn(f) {
					cc := ci.Common()
					if !cc.IsInvoke() {
						continue
					}
					if e, ok := cc.Value.(*ssa.Extract); ok && e.Tuple == ssa.Value(ta) {
						if _, known := want[cc.Method.Name()]; known {
							want[cc.Method.Name()] = true
							dom := true
							for _, r := range rets {
								if !ta.Block().Dominates(r.Block()) && ta.Block() != r.Block() {
									dom = false
								}
							}
							res.check(dom, "C17-R4", fname(f), p.pos(ta), strings.TrimPrefix(cc.Method.Name(), "GetActivityStreams")+" is examined on every path (independently of the other three)", "the test for this property is skipped on some path (e.g. made an else-branch of another property's test)")
						}
					}
				}
			}
		}
		for m, ok := range want {
			res.check(ok, "C17-R4", fname(f), p.pos(f), strings.TrimPrefix(m, "GetActivityStreams")+" values are collected", "property not read")
		}
		// both embedded values and IRIs are collected, in total loops
		for _, ci := range callsIn(f) {
			if bi, ok := ci.Common().Value.(*ssa.Builtin); ok && bi.Name() == "append" {
				tot, why := totalLoop(loopBlocks(ci.Block()), func(*ssa.Return) bool { return false })
				res.check(tot, "C17-R4", fname(f), p.pos(ci), "every value of the property is collected", why)
			}
		}
		// … every embedded value: once an element is known to hold a value (GetType() != nil),
		// every way on to the next element passes through the append of that value — no kind of
		// value (a Link, a Mention, …) is left out of the ownership search
		nGT := 0
		for _, ci := range callsIn(f) {
			gt, ok := ci.(*ssa.Call)
			if !ok || !gt.Common().IsInvoke() || gt.Common().Method.Name() != "GetType" {
				continue
			}
			loop := loopBlocks(gt.Block())
			H := loopHeader(loop)
			if len(loop) == 0 || H == nil {
				continue
			}
			nGT++
			// the block entered when the value is non-nil
			var T *ssa.BasicBlock
			for _, b := range f.Blocks {
				if iff, ok := lastIf(b); ok {
					if bo, ok := iff.Cond.(*ssa.BinOp); ok && (bo.X == ssa.Value(gt) || bo.Y == ssa.Value(gt)) && (isNilConst(bo.X) || isNilConst(bo.Y)) {
						if bo.Op == token.NEQ {
							T = b.Succs[0]
						} else if bo.Op == token.EQL {
							T = b.Succs[1]
						}
					}
				}
			}
			if T == nil {
				res.bad("C17-R4", fname(f), p.pos(gt), "an element holding a value is recognised by GetType() != nil", "no such test")
				continue
			}
			// blocks that append the value
			app := map[*ssa.BasicBlock]bool{}
			for lb := range loop {
				for _, i2 := range lb.Instrs {
					if c, ok := i2.(*ssa.Call); ok {
						if bi, ok := c.Common().Value.(*ssa.Builtin); ok && bi.Name() == "append" {
							for _, a := range c.Common().Args[1:] {
								// append(t, tv): variadic → slice of a fresh array holding tv
								hit := false
								if sl, ok := a.(*ssa.Slice); ok {
									if al, ok := sl.X.(*ssa.Alloc); ok {
										for _, r := range *al.Referrers() {
											if ia, ok := r.(*ssa.IndexAddr); ok {
												for _, rr := range *ia.Referrers() {
													if st, ok := rr.(*ssa.Store); ok && unwrap(st.Val) == ssa.Value(gt) {
														hit = true
													}
												}
											}
										}
									}
								}
								if hit {
									app[lb] = true
								}
							}
						}
					}
				}
			}
			// from T, can the loop header be reached without passing an appending block?
			bad := false
			if !app[T] {
				seen := map[*ssa.BasicBlock]bool{T: true}
				q := []*ssa.BasicBlock{T}
				for len(q) > 0 && !bad {
					b := q[0]
					q = q[1:]
					for _, sc := range b.Succs {
						if sc == H || !loop[sc] {
							if sc == H {
								bad = true
							}
							continue
						}
						if app[sc] || seen[sc] {
							continue
						}
						seen[sc] = true
						q = append(q, sc)
					}
				}
			}
			res.check(!bad, "C17-R4", fname(f), p.pos(gt), "every embedded value of the property is collected for the ownership search, whatever its type", "a path from 'the element holds a value' goes on to the next element without appending it: values of some kind (e.g. an embedded Mention whose href this server owns) are never examined")
		}
		res.Count("C17-R4 embedded-value loops in getInboxForwardingValues", nGT, 4)
	}
	checkDepthGuard(res, p, E, "C17-R4", "sideEffectActor.hasInboxForwardingValues", "currDepth", "maxDepth", []string{"Database.Owns", "Transport.Dereference", "CommonBehavior.NewTransport"})
	if f := p.MustFunc(res, "C17-R4", "sideEffectActor.hasInboxForwardingValues"); f != nil {
		ff := computeFacts(f)
		for _, r := range returnsIn(f) {
			v := ff.resolve(r, r.Results[0])
			if b, isC := boolConst(v); isC && !b {
				continue
			}
			// true: must be where Owns said true, or the recursion said true
			s := ff.at[r]
			ok := false
			if s != nil {
				for fc := range s.facts {
					if fc.k != fTRUE {
						continue
					}
					for val, n := range ff.ids {
						if fmt.Sprintf("v%d", n) == fc.v {
							if e, isE := val.(*ssa.Extract); isE && e.Index == 0 && (isCallNamed(e.Tuple, "Database.Owns") || isCallNamed(e.Tuple, "hasInboxForwardingValues")) {
								ok = true
							}
						}
					}
				}
			}
			res.check(ok, "C17-R4", fname(f), p.pos(r), "'owned value found' is reported only where Owns (or the recursion) returned true", "facts: "+ff.describe(r))
		}
		// a negative answer only at the depth limit or after the whole search
		var heads []*ssa.BasicBlock
		var loops []map[*ssa.BasicBlock]bool
		for _, ci := range E.byFn[f] {
			isRec := false
			for _, c := range ci.Callees {
				if c == f {
					isRec = true
				}
			}
			if isRec || ci.Label == "Transport.Dereference" {
				if lb := loopBlocks(ci.Instr.Block()); len(lb) > 0 {
					if h := loopHeader(lb); h != nil {
						heads = append(heads, h)
						loops = append(loops, lb)
					}
				}
			}
		}
		res.check(len(heads) >= 2, "C17-R4", fname(f), p.pos(f), "the search has a dereference loop and a recursion loop", fmt.Sprintf("%d loops found", len(heads)))
		for _, r := range returnsIn(f) {
			v := ff.resolve(r, r.Results[0])
			if b, isC := boolConst(v); !isC || b {
				continue
			}
			mayNil, mayNonNil := ff.errStatus(r, 1)
			if !mayNil || mayNonNil {
				continue // reports a failure
			}
			after := len(heads) >= 2
			for i, h := range heads {
				if !h.Dominates(r.Block()) || loops[i][r.Block()] {
					after = false
				}
			}
			atLimit := depthLimitReached(ff, f, r, "currDepth", "maxDepth")
			res.check(after || atLimit, "C17-R4", fname(f), p.pos(r), "'nothing owned' is answered only at the depth limit or after every value has been fetched and searched", "this return gives up before the dereference and recursion loops although the depth limit has not been reached: an owned value reachable only through a bare IRI is not found")
		}
		for _, c := range findCalls(E, f, "Transport.Dereference") {
			checkSkipOnFailure(res, p, "C17-R4", f, c.(*ssa.Call), "a value that cannot be fetched is skipped and the remaining values are still examined")
		}
		for _, ci := range callsIn(f) {
			if staticName(ci) == "streams.ToType" {
				checkSkipOnFailure(res, p, "C17-R4", f, ci.(*ssa.Call), "a fetched value of unknown type is skipped and the remaining values are still examined")
			}
		}
		g := flowOf(f)
		for _, c := range findCalls(E, f, "Database.Owns") {
			fromVals := anyBackward(g, c.Common().Args[1], func(x ssa.Value) bool { return isCallNamed(x, "pub.getInboxForwardingValues") })
			res.check(fromVals, "C17-R4", fname(f), p.pos(c), "ownership is asked about the inReplyTo/object/target/tag values", "key does not derive from getInboxForwardingValues")
		}
	}

	// R6
	r6names := append([]string{"sideEffectActor.InboxForwarding", "sideEffectActor.hasInboxForwardingValues", "getInboxForwardingValues"}, optionalFuncs(p, []string{"sideEffectActor.deliverToRecipients"})...)
	for _, n := range reachFrom(p, E, "sideEffectActor.InboxForwarding") {
		dup := false
		for _, m := range r6names {
			if m == n {
				dup = true
			}
		}
		if !dup && p.HasFunc(n) {
			r6names = append(r6names, n) // everything the forwarding path can call inside pub
		}
	}
	for _, name := range r6names {
		f := p.MustFunc(res, "C17-R6", name)
		if f == nil {
			continue
		}
		n := 0
		for _, ci := range callsIn(f) {
			cc := ci.Common()
			if !cc.IsInvoke() || !isMutatorName(cc.Method.Name()) {
				continue
			}
			if nn := namedOf(cc.Value.Type()); nn != nil && nn.Obj().Pkg() != nil && (strings.HasSuffix(nn.Obj().Pkg().Path(), "/streams/vocab") || nn.Obj().Pkg().Path() == modPath+"/pub") {
				if appInterfaces[nn.Obj().Name()] {
					continue
				}
				n++
				res.bad("C17-R6", name, p.pos(ci), "no ActivityStreams value is modified on the forwarding path", cc.Method.Name()+" on "+typeShort(cc.Value.Type()))
			}
		}
		if n == 0 {
			res.ok("C17-R6", name, p.pos(f), "no ActivityStreams value is modified on the forwarding path")
		}
	}
	for _, cname := range []string{"sideEffectActor.deliverToRecipients", "sideEffectActor.InboxForwarding"} {
		f := p.Func(cname)
		if f == nil || !p.HasFunc(cname) {
			continue
		}
		for _, c := range findCalls(E, f, "streams.Serialize") {
			res.check(isParamNamed(unwrap(c.Common().Args[0]), "activity"), "C17-R6", fname(f), p.pos(c), "the payload is the serialisation of the activity as received", "argument is "+valueLabel(c.Common().Args[0]))
		}
	}
	// R7
	addErrFlowObligations(res, p, E, "C17-R7", append([]string{"sideEffectActor.InboxForwarding", "sideEffectActor.hasInboxForwardingValues"}, optionalFuncs(p, []string{"sideEffectActor.deliverToRecipients"})...), true)
	res.Rule("C17-R9", "'is owned by this server' is asked about the value's id in the library's one sense (shared with C06-R7)")
	checkIdentity(res, p, "C17-R9")
	res.Rule("C17-R8", "the forwarded payload has the members that were received: the default federating callbacks, which run on the same activity value before InboxForwarding, never call a mutator on the activity or on a value read out of it")
	checkCallbacksLeaveActivity(res, p, "C17-R8")
	res.Rule("C17-R10", "the value searched for owned ids is the fetched document alone: every json.Unmarshal in pub decodes into a variable fresh for that decode (local to the activation, declared inside the loop)")
	checkFreshDecodeTargets(res, p, "C17-R10")
	res.Assumptions = append(res.Assumptions, "value flow is an over-approximation", "CFG paths over-approximate feasible paths")
	res.Undecided = []string{"the 'iff' at value level (which concrete ids are owned at which chain level)", "that the forwarded bytes equal the received bytes (C01)"}
	res.Trusted = []string{"go/types, go/ssa (x/tools v0.29.0)", "e1_effects.go, e2_facts.go, e4_flow.go, e9_errflow.go"}
}
