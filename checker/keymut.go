package main

import (
	"go/types"

	"golang.org/x/tools/go/ssa"
)

// A lock key is a *url.URL: the identity the application locks is what the pointer points to at
// the time of the call. A function that writes through that pointer (id.RawQuery = "", …) between
// Lock(k) and Unlock(k) makes the Unlock name another id than the Lock did: the lock taken is
// never released and one that was never taken is. The typestate of E3 follows key *expressions*,
// so this rule closes the gap: no value used as a lock key is handed to a function of pub that
// writes through that parameter, and no field of it is stored to in the locking function.

var ptrWriteCache = map[*ssa.Function]map[int]bool{}

// writesThroughPtrParams: indices of the pointer parameters f stores through (directly or by
// handing the parameter to a function of the same package that does).
func writesThroughPtrParams(f *ssa.Function, depth int) map[int]bool {
	if m, ok := ptrWriteCache[f]; ok {
		return m
	}
	m := map[int]bool{}
	ptrWriteCache[f] = m
	if len(f.Blocks) == 0 || depth > 3 {
		return m
	}
	idx := map[ssa.Value]int{}
	for i, pa := range f.Params {
		if _, ok := pa.Type().Underlying().(*types.Pointer); ok {
			idx[pa] = i
		}
	}
	for _, b := range f.Blocks {
		for _, ins := range b.Instrs {
			switch x := ins.(type) {
			case *ssa.Store:
				if fa, ok := x.Addr.(*ssa.FieldAddr); ok {
					if i, ok := idx[fa.X]; ok {
						m[i] = true
					}
				}
				if i, ok := idx[x.Addr]; ok {
					m[i] = true
				}
			case ssa.CallInstruction:
				if callee := x.Common().StaticCallee(); callee != nil && callee.Pkg == f.Pkg {
					cw := writesThroughPtrParams(callee, depth+1)
					for j, a := range x.Common().Args {
						if i, ok := idx[a]; ok && cw[j] {
							m[i] = true
						}
					}
				}
			}
		}
	}
	return m
}

func checkLockKeysNotMutated(res *Result, p *Pub, E *Effects, rule string) {
	n := 0
	for _, fn := range p.Funcs {
		var keys []ssa.Value
		for _, ci := range E.byFn[fn] {
			if ci.Label == "Database.Lock" && len(ci.Instr.Common().Args) == 2 {
				keys = append(keys, ci.Instr.Common().Args[1])
			}
		}
		if len(keys) == 0 {
			continue
		}
		n++
		isKey := func(v ssa.Value) bool {
			for _, k := range keys {
				if k == v {
					return true
				}
			}
			return false
		}
		bad := false
		for _, b := range fn.Blocks {
			for _, ins := range b.Instrs {
				switch x := ins.(type) {
				case *ssa.Store:
					if fa, ok := x.Addr.(*ssa.FieldAddr); ok && isKey(fa.X) {
						bad = true
						res.bad(rule, fname(fn), p.pos(x), "a lock key is not modified in the function that locks it", "field "+fieldName(fa.X.Type(), fa.Field)+" of the key is assigned: Lock and Unlock may name different ids")
					}
				case ssa.CallInstruction:
					callee := x.Common().StaticCallee()
					if callee == nil || callee.Pkg != fn.Pkg {
						continue
					}
					cw := writesThroughPtrParams(callee, 0)
					for j, a := range x.Common().Args {
						if isKey(a) && cw[j] {
							bad = true
							res.bad(rule, fname(fn), p.pos(x), "a lock key is not modified in the function that locks it", "the key is handed to "+fname(callee)+", which writes through that parameter: the id unlocked is no longer the id that was locked (a leaked lock and a foreign one released)")
						}
					}
				}
			}
		}
		if !bad {
			res.ok(rule, fname(fn), p.pos(fn), "the lock keys of this function are not written through")
		}
	}
	res.Count(rule+" locking functions examined for key mutation", n, 15)
}
