package main

import (
	"fmt"
	"go/constant"
	"go/token"
	"go/types"
	"strings"

	"golang.org/x/tools/go/ssa"
)

// extractOf returns the Extract of index i of a tuple-valued call, or nil.
func extractOf(call ssa.Value, i int) *ssa.Extract {
	refs := call.Referrers()
	if refs == nil {
		return nil
	}
	for _, r := range *refs {
		if e, ok := r.(*ssa.Extract); ok && e.Index == i {
			return e
		}
	}
	return nil
}

// callsIn lists the call instructions of fn (Call, Defer, Go) in block order.
func callsIn(fn *ssa.Function) []ssa.CallInstruction {
	var out []ssa.CallInstruction
	for _, b := range fn.Blocks {
		for _, ins := range b.Instrs {
			if ci, ok := ins.(ssa.CallInstruction); ok {
				out = append(out, ci)
			}
		}
	}
	return out
}

func returnsIn(fn *ssa.Function) []*ssa.Return {
	var out []*ssa.Return
	for _, b := range fn.Blocks {
		if b == fn.Recover {
			continue // synthetic exit taken only after a recovered panic
		}
		for _, ins := range b.Instrs {
			if r, ok := ins.(*ssa.Return); ok {
				out = append(out, r)
			}
		}
	}
	return out
}

func isNilConst(v ssa.Value) bool {
	c, ok := v.(*ssa.Const)
	return ok && c.IsNil()
}

func boolConst(v ssa.Value) (val, ok bool) {
	c, isC := v.(*ssa.Const)
	if !isC || c.Value == nil || c.Value.Kind() != constant.Bool {
		return false, false
	}
	return constant.BoolVal(c.Value), true
}

func intConst(v ssa.Value) (int64, bool) {
	c, isC := v.(*ssa.Const)
	if !isC || c.Value == nil || c.Value.Kind() != constant.Int {
		return 0, false
	}
	n, ok := constant.Int64Val(c.Value)
	return n, ok
}

func stringConst(v ssa.Value) (string, bool) {
	c, isC := v.(*ssa.Const)
	if !isC || c.Value == nil || c.Value.Kind() != constant.String {
		return "", false
	}
	return constant.StringVal(c.Value), true
}

// invokeName returns "Iface.Method" for an invoke on a named interface.
func invokeName(ci ssa.CallInstruction) string {
	cc := ci.Common()
	if !cc.IsInvoke() {
		return ""
	}
	n := namedOf(cc.Value.Type())
	if n == nil {
		return "." + cc.Method.Name()
	}
	return n.Obj().Name() + "." + cc.Method.Name()
}

// staticName returns the callee's qualified name for a static call: "pkg.Func" or "(recv).Method".
func staticName(ci ssa.CallInstruction) string {
	f := ci.Common().StaticCallee()
	if f == nil {
		return ""
	}
	if f.Signature.Recv() != nil {
		rn := namedOf(f.Signature.Recv().Type())
		if rn != nil {
			pk := ""
			if rn.Obj().Pkg() != nil {
				pk = rn.Obj().Pkg().Name() + "."
			}
			return "(" + pk + rn.Obj().Name() + ")." + f.Name()
		}
	}
	if f.Pkg != nil {
		return f.Pkg.Pkg.Name() + "." + f.Name()
	}
	return f.Name()
}

// callName is a readable name for any call.
func callName(ci ssa.CallInstruction) string {
	if n := invokeName(ci); n != "" {
		return n
	}
	if n := staticName(ci); n != "" {
		return n
	}
	return "dynamic " + valueLabel(ci.Common().Value)
}

// loadOfField reports whether v is a load of field `name` (through FieldAddr
// or Field) and returns the base value.
func loadOfField(v ssa.Value, name string) (ssa.Value, bool) {
	switch x := v.(type) {
	case *ssa.UnOp:
		if x.Op == token.MUL {
			if fa, ok := x.X.(*ssa.FieldAddr); ok && fieldName(fa.X.Type(), fa.Field) == name {
				return fa.X, true
			}
		}
	case *ssa.Field:
		if fieldName(x.X.Type(), x.Field) == name {
			return x.X, true
		}
	}
	return nil, false
}

// unwrap strips conversions that do not change identity.
func unwrap(v ssa.Value) ssa.Value {
	for {
		switch x := v.(type) {
		case *ssa.ChangeType:
			v = x.X
		case *ssa.MakeInterface:
			v = x.X
		case *ssa.ChangeInterface:
			v = x.X
		default:
			return v
		}
	}
}

func typeShort(t types.Type) string { return types.TypeString(t, shortQual) }

func hasPrefixAny(s string, ps ...string) bool {
	for _, p := range ps {
		if strings.HasPrefix(s, p) {
			return true
		}
	}
	return false
}

// dominates reports whether instruction a dominates instruction b.
func dominates(a, b ssa.Instruction) bool {
	if a.Block() == b.Block() {
		for _, ins := range a.Block().Instrs {
			if ins == a {
				return true
			}
			if ins == b {
				return false
			}
		}
		return false
	}
	if a.Block().Dominates(b.Block()) {
		return true
	}
	return executedBefore(a, b)
}

// executedBefore: a (a call) has been executed on every *feasible* path that
// reaches b, by the must-facts of E2 — which, unlike dominance, know that an
// edge guarded by `err != nil` is not taken after the calls that must have
// succeeded for the merged err to be nil (the shape produced by an error
// returned from a helper and tested by its caller).
func executedBefore(a, b ssa.Instruction) bool {
	if _, ok := a.(ssa.CallInstruction); !ok || a.Parent() == nil || a.Parent() != b.Parent() {
		return false
	}
	ff := computeFacts(a.Parent())
	n, ok := ff.doneIDs[a]
	if !ok {
		return false
	}
	return ff.hasName(b, fmt.Sprintf("done:%d", n), fTRUE, "")
}

// reachableFrom reports whether block `to` is reachable from block `from`
// (following successor edges, from itself counts only via a cycle unless same).
func reachableFrom(from, to *ssa.BasicBlock) bool {
	seen := map[*ssa.BasicBlock]bool{}
	var walk func(b *ssa.BasicBlock) bool
	walk = func(b *ssa.BasicBlock) bool {
		if b == to {
			return true
		}
		if seen[b] {
			return false
		}
		seen[b] = true
		for _, s := range b.Succs {
			if walk(s) {
				return true
			}
		}
		return false
	}
	for _, s := range from.Succs {
		if walk(s) {
			return true
		}
	}
	return false
}
