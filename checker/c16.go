package main

// C16 — client Update/Delete/Add/Remove/Like/Block, and the shared
// "required object/target first" rule (also used by C10 and C04).

import (
	"fmt"
	"strings"

	"golang.org/x/tools/go/ssa"
)

// which default callbacks require 'object' / 'target' (from the struct docs
// and the ActivityPub sections they implement)
var requiresObject = map[string]bool{
	"FederatingWrappedCallbacks.create": true, "FederatingWrappedCallbacks.update": true, "FederatingWrappedCallbacks.deleteFn": true,
	"FederatingWrappedCallbacks.follow": true, "FederatingWrappedCallbacks.add": true, "FederatingWrappedCallbacks.remove": true,
	"FederatingWrappedCallbacks.like": true, "FederatingWrappedCallbacks.undo": true, "FederatingWrappedCallbacks.block": true,
	"SocialWrappedCallbacks.create": true, "SocialWrappedCallbacks.update": true, "SocialWrappedCallbacks.deleteFn": true,
	"SocialWrappedCallbacks.follow": true, "SocialWrappedCallbacks.add": true, "SocialWrappedCallbacks.remove": true,
	"SocialWrappedCallbacks.like": true, "SocialWrappedCallbacks.undo": true, "SocialWrappedCallbacks.block": true,
}
var requiresTarget = map[string]bool{
	"FederatingWrappedCallbacks.add": true, "FederatingWrappedCallbacks.remove": true,
	"SocialWrappedCallbacks.add": true, "SocialWrappedCallbacks.remove": true,
}

// getterOnParam finds the call param.<method>() in fn.
func getterOnParam(fn *ssa.Function, paramIdx int, method string) *ssa.Call {
	if paramIdx >= len(fn.Params) {
		return nil
	}
	prm := fn.Params[paramIdx]
	for _, ci := range callsIn(fn) {
		c, ok := ci.(*ssa.Call)
		if ok && c.Common().IsInvoke() && c.Common().Value == ssa.Value(prm) && c.Common().Method.Name() == method {
			return c
		}
	}
	return nil
}

// lenCallsOn lists the x.Len() invokes on value v.
func lenCallsOn(ff *FuncFacts, fn *ssa.Function, v ssa.Value) []*ssa.Call {
	var out []*ssa.Call
	for _, ci := range callsIn(fn) {
		c, ok := ci.(*ssa.Call)
		if ok && c.Common().IsInvoke() && ff.resolve(c, c.Common().Value) == v && c.Common().Method.Name() == "Len" {
			out = append(out, c)
		}
	}
	return out
}

// presentPred: the property value `v` is known non-nil and non-empty.
func presentAt(ff *FuncFacts, ins ssa.Instruction, v *ssa.Call, lens []*ssa.Call) bool {
	if !ff.has(ins, v, fNONNIL, "") {
		return false
	}
	for _, l := range lens {
		if ff.has(ins, l, fNEQ, "const:0") {
			return true
		}
	}
	return false
}

func absentPred(ff *FuncFacts, v *ssa.Call, lens []*ssa.Call) factPred {
	return func(s *factState) bool {
		if s.facts[fact{ff.canon(s, v), fNIL, ""}] {
			return true
		}
		for _, l := range lens {
			if s.facts[fact{ff.canon(s, l), fEQ, "const:0"}] {
				return true
			}
		}
		return false
	}
}

func isSentinel(v ssa.Value, name string) bool {
	u, ok := v.(*ssa.UnOp)
	if !ok {
		return false
	}
	g, ok := u.X.(*ssa.Global)
	return ok && g.Name() == name
}

// checkRequiredFirst applies, to every default callback of both protocols:
// the required property is tested first; when it is nil or empty the callback
// returns the sentinel and nothing else happens; every effect lies in the
// region where the property is known present.
func checkRequiredFirst(res *Result, p *Pub, E *Effects, rule string) {
	n := 0
	for _, fn := range E.wrapped {
		name := fname(fn)
		type req struct{ getter, sentinel string }
		var reqs []req
		if requiresObject[name] {
			reqs = append(reqs, req{"GetActivityStreamsObject", "ErrObjectRequired"})
		}
		if requiresTarget[name] {
			reqs = append(reqs, req{"GetActivityStreamsTarget", "ErrTargetRequired"})
		}
		if len(reqs) == 0 {
			continue
		}
		ff := computeFacts(fn)
		for _, rq := range reqs {
			g := getterOnParam(fn, 2, rq.getter) // params: receiver w, c, a
			if g == nil {
				res.bad(rule, name, p.pos(fn), rq.getter+" of the activity is read", "no such call on the activity parameter")
				continue
			}
			lens := lenCallsOn(ff, fn, g)
			// every effect only where the property is present
			for _, ci := range E.byFn[fn] {
				if ci.Trans&(eSIDE|eCLK) == 0 || !ff.reachable(ci.Instr) {
					continue
				}
				n++
				res.check(presentAt(ff, ci.Instr, g, lens), rule, name, p.pos(ci.Instr),
					fmt.Sprintf("%s [%s] only where %s is non-nil and non-empty", ci.Label, ci.Trans, strings.TrimPrefix(rq.getter, "GetActivityStreams")),
					"facts at the call: "+ff.describe(ci.Instr))
			}
			// the absent edge returns the sentinel
			nSent := 0
			for _, r := range returnsIn(fn) {
				if !ff.reachable(r) {
					continue
				}
				if ff.holdsOnEveryPath(r, absentPred(ff, g, lens), 3) {
					nSent++
					res.check(isSentinel(ff.resolve(r, r.Results[0]), rq.sentinel), rule, name, p.pos(r), "missing/empty "+strings.TrimPrefix(rq.getter, "GetActivityStreams")+" ⇒ return "+rq.sentinel, "this return is reached only with the property absent but returns something else")
				}
			}
			res.check(nSent >= 1, rule, name, p.pos(g), "a return exists for missing/empty "+strings.TrimPrefix(rq.getter, "GetActivityStreams"), "no return is confined to the absent region: the property is not tested")
		}
	}
	res.Count(rule+" effect sites guarded by required-property test", n, 20)
}
