package main

// C16 — client Update/Delete/Add/Remove/Like/Block, and the shared
// "required object/target first" rule (also used by C10 and C04).

import (
	"fmt"
	"go/token"
	"strings"

	"golang.org/x/tools/go/ssa"
)

// which default callbacks require 'object' / 'target' (from the struct docs
// and the ActivityPub sections they implement)
var requiresObject = map[string]bool{
	"FederatingWrappedCallbacks.create": true, "FederatingWrappedCallbacks.update": true, "FederatingWrappedCallbacks.deleteFn": true,
	"FederatingWrappedCallbacks.follow": true, "FederatingWrappedCallbacks.add": true, "FederatingWrappedCallbacks.remove": true,
	"FederatingWrappedCallbacks.like": true, "FederatingWrappedCallbacks.undo": true, "FederatingWrappedCallbacks.block": true,
	"SocialWrappedCallbacks.create": true, "SocialWrappedCallbacks.update": true, "SocialWrappedCallbacks.deleteFn": true,
	"SocialWrappedCallbacks.follow": true, "SocialWrappedCallbacks.add": true, "SocialWrappedCallbacks.remove": true,
	"SocialWrappedCallbacks.like": true, "SocialWrappedCallbacks.undo": true, "SocialWrappedCallbacks.block": true,
}
var requiresTarget = map[string]bool{
	"FederatingWrappedCallbacks.add": true, "FederatingWrappedCallbacks.remove": true,
	"SocialWrappedCallbacks.add": true, "SocialWrappedCallbacks.remove": true,
}

// getterOnParam finds the call param.<method>() in fn.
func getterOnParam(fn *ssa.Function, paramIdx int, method string) *ssa.Call {
	if paramIdx >= len(fn.Params) {
		return nil
	}
	prm := fn.Params[paramIdx]
	for _, ci := range callsIn(fn) {
		c, ok := ci.(*ssa.Call)
		if ok && c.Common().IsInvoke() && c.Common().Value == ssa.Value(prm) && c.Common().Method.Name() == method {
			return c
		}
	}
	return nil
}

// lenCallsOn lists the x.Len() invokes on value v.
func lenCallsOn(ff *FuncFacts, fn *ssa.Function, v ssa.Value) []*ssa.Call {
	var out []*ssa.Call
	for _, ci := range callsIn(fn) {
		c, ok := ci.(*ssa.Call)
		if ok && c.Common().IsInvoke() && ff.resolve(c, c.Common().Value) == v && c.Common().Method.Name() == "Len" {
			out = append(out, c)
		}
	}
	return out
}

// presentPred: the property value `v` is known non-nil and non-empty.
func presentAt(ff *FuncFacts, ins ssa.Instruction, v *ssa.Call, lens []*ssa.Call) bool {
	if !ff.has(ins, v, fNONNIL, "") {
		return false
	}
	for _, l := range lens {
		if ff.has(ins, l, fNEQ, "const:0") {
			return true
		}
	}
	return false
}

func absentPred(ff *FuncFacts, v *ssa.Call, lens []*ssa.Call) factPred {
	return func(s *factState) bool {
		if s.facts[fact{ff.canon(s, v), fNIL, ""}] {
			return true
		}
		for _, l := range lens {
			if s.facts[fact{ff.canon(s, l), fEQ, "const:0"}] {
				return true
			}
		}
		return false
	}
}

func isSentinel(v ssa.Value, name string) bool {
	u, ok := v.(*ssa.UnOp)
	if !ok {
		return false
	}
	g, ok := u.X.(*ssa.Global)
	return ok && g.Name() == name
}

// checkRequiredFirst applies, to every default callback of both protocols:
// the required property is tested first; when it is nil or empty the callback
// returns the sentinel and nothing else happens; every effect lies in the
// region where the property is known present.
func checkRequiredFirst(res *Result, p *Pub, E *Effects, rule string) {
	n := 0
	for _, fn := range E.wrapped {
		name := fname(fn)
		type req struct{ getter, sentinel string }
		var reqs []req
		if requiresObject[name] {
			reqs = append(reqs, req{"GetActivityStreamsObject", "ErrObjectRequired"})
		}
		if requiresTarget[name] {
			reqs = append(reqs, req{"GetActivityStreamsTarget", "ErrTargetRequired"})
		}
		if len(reqs) == 0 {
			continue
		}
		ff := computeFacts(fn)
		for _, rq := range reqs {
			g := getterOnParam(fn, 2, rq.getter) // params: receiver w, c, a
			if g == nil {
				res.bad(rule, name, p.pos(fn), rq.getter+" of the activity is read", "no such call on the activity parameter")
				continue
			}
			lens := lenCallsOn(ff, fn, g)
			// every effect only where the property is present
			for _, ci := range E.byFn[fn] {
				if ci.Trans&(eSIDE|eCLK) == 0 || !ff.reachable(ci.Instr) {
					continue
				}
				n++
				res.check(presentAt(ff, ci.Instr, g, lens), rule, name, p.pos(ci.Instr),
					fmt.Sprintf("%s [%s] only where %s is non-nil and non-empty", ci.Label, ci.Trans, strings.TrimPrefix(rq.getter, "GetActivityStreams")),
					"facts at the call: "+ff.describe(ci.Instr))
			}
			// the absent edge returns the sentinel
			nSent := 0
			for _, r := range returnsIn(fn) {
				if !ff.reachable(r) {
					continue
				}
				if ff.holdsOnEveryPath(r, absentPred(ff, g, lens), 3) {
					nSent++
					res.check(isSentinel(ff.resolve(r, r.Results[0]), rq.sentinel), rule, name, p.pos(r), "missing/empty "+strings.TrimPrefix(rq.getter, "GetActivityStreams")+" ⇒ return "+rq.sentinel, "this return is reached only with the property absent but returns something else")
				}
			}
			res.check(nSent >= 1, rule, name, p.pos(g), "a return exists for missing/empty "+strings.TrimPrefix(rq.getter, "GetActivityStreams"), "no return is confined to the absent region: the property is not tested")
		}
	}
	res.Count(rule+" effect sites guarded by required-property test", n, 20)
}

// storesTo lists the Store instructions of fn whose address is (a load of) the
// field `field` of the receiver, i.e. *w.<field> = v.
func storesThroughField(fn *ssa.Function, field string) []*ssa.Store {
	var out []*ssa.Store
	for _, b := range fn.Blocks {
		for _, ins := range b.Instrs {
			st, ok := ins.(*ssa.Store)
			if !ok {
				continue
			}
			if _, ok := loadOfField(st.Addr, field); ok {
				out = append(out, st)
			}
		}
	}
	return out
}

func checkC16(res *Result) {
	p := loadPub()
	E := computeEffects(p)
	res.Packages = []string{p.Pkg.PkgPath}
	res.Explanation = "Decides structural necessary conditions on all SSA paths of the social (outbox) default callbacks: a missing/empty object (target) returns the sentinel before any effect and every effect lies where it is present; the undeliverable side channel is set — before anything can return — to true by block and to false by every other callback, and PostOutbox returns deliverable = !undeliverable on the matched path; Delete replaces the stored object, under its lock, by toTombstone(stored, id, clock.Now()), which copies id, former type, published and updated (each independently, when present) and sets deleted; Add/Remove touch only owned targets (Owns==true for the key locked/read/written), append / remove with the documented mutator, and Remove's in-place scan examines every element; Like prepends every object id to Liked(ActorForOutbox(outbox)) inside one hold; Update writes ToType(stored ⊕ supplied) back under the object's lock; the wrapped application callback of the right name runs last. The keys removed by an Update are exactly keys of the idx'th raw value of the activity's object whose value is null (C16-R8). Exact member sets after Update are value-level and not decided."
	res.Rule("C16-R1", "required object/target first: sentinel before any effect; every effect where the property is present (shared rule)")
	res.Rule("C16-R2", "Block is never delivered: block stores true through undeliverable before any return, every other callback stores false; PostOutbox yields deliverable = !undeliverable on the matched path and still calls addToOutbox")
	res.Rule("C16-R3", "Tombstone: toTombstone sets id (parameter), formerType (obj.GetTypeName()), deleted (parameter now) and copies published and updated independently when present; social deleteFn passes (stored object, its id, clock.Now()) and Updates the result")
	res.Rule("C16-R4", "Add/Remove/Like: ownership before modification, documented mutator, total scans; Like prepends each object id to the actor's liked collection")
	res.Rule("C16-R5", "Update merge shape: every key of the supplied object's serialisation is written into the stored object's map; the value passed to Database.Update is ToType of that map")
	res.Rule("C16-R6", "override table and callback-last for the social callbacks")
	res.Rule("C16-R7", "error discipline over everything reachable from sideEffectActor.PostOutbox")

	checkRequiredFirst(res, p, E, "C16-R1")

	// R2
	nStore := 0
	for _, fn := range E.wrapped {
		name := fname(fn)
		if !strings.HasPrefix(name, "SocialWrappedCallbacks.") {
			continue
		}
		want := name == "SocialWrappedCallbacks.block"
		sts := storesThroughField(fn, "undeliverable")
		nStore += len(sts)
		allWant := len(sts) >= 1
		for _, st := range sts {
			v, isC := boolConst(st.Val)
			if !isC || v != want {
				allWant = false
			}
		}
		res.check(allWant, "C16-R2", name, p.pos(fn), fmt.Sprintf("every store through undeliverable writes %v", want), fmt.Sprintf("%d stores, not all constant %v", len(sts), want))
		domAll := false
		for _, st := range sts {
			ok := true
			for _, r := range returnsIn(fn) {
				if !dominates(st, r) {
					ok = false
				}
			}
			for _, ci := range E.byFn[fn] {
				if ci.Trans&(eSIDE|eCLK) != 0 && !dominates(st, ci.Instr) {
					ok = false
				}
			}
			if ok {
				domAll = true
			}
		}
		res.check(domAll, "C16-R2", name, p.pos(fn), "the deliverability decision is recorded before anything else can happen or return", "no store through undeliverable dominates every return and effect: some path leaves the caller's default in place")
	}
	res.Count("stores through undeliverable", nStore, 9)
	if fn := p.MustFunc(res, "C16-R2", "sideEffectActor.PostOutbox"); fn != nil {
		ff := computeFacts(fn)
		// the alloc whose address is stored into wrapped.undeliverable
		var cell ssa.Value
		for _, b := range fn.Blocks {
			for _, ins := range b.Instrs {
				if st, ok := ins.(*ssa.Store); ok {
					if fa, ok := st.Addr.(*ssa.FieldAddr); ok && fieldName(fa.X.Type(), fa.Field) == "undeliverable" {
						cell = st.Val
					}
				}
			}
		}
		res.check(cell != nil, "C16-R2", fname(fn), p.pos(fn), "PostOutbox hands the callbacks a cell for the deliverability decision", "no store into wrapped.undeliverable")
		// some return yields !*cell
		okNot := false
		var walk func(v ssa.Value, d int) bool
		walk = func(v ssa.Value, d int) bool {
			if d > 4 {
				return false
			}
			switch x := v.(type) {
			case *ssa.UnOp:
				if x.Op == token.NOT {
					if ld, ok := x.X.(*ssa.UnOp); ok && ld.Op == token.MUL && ld.X == cell {
						return true
					}
				}
			case *ssa.Phi:
				for _, e := range x.Edges {
					if walk(e, d+1) {
						return true
					}
				}
			}
			return false
		}
		for _, r := range returnsIn(fn) {
			if walk(ff.resolve(r, r.Results[0]), 0) {
				okNot = true
			}
		}
		res.check(okNot, "C16-R2", fname(fn), p.pos(fn), "deliverable is the negation of what the callback recorded", "no return yields !undeliverable")
		checkOrder(res, p, E, "C16-R2", "sideEffectActor.PostOutbox", []pstep{{"sideEffectActor.addToOutbox", 1, 1, "store and list (also for Block)"}})
		for _, c := range findCalls(E, fn, "sideEffectActor.addToOutbox") {
			_, isRet := interface{}(c).(*ssa.Call)
			_ = isRet
			// not conditional on deliverability
			s := ff.at[c]
			cond := false
			if s != nil && cell != nil {
				for f := range s.facts {
					for v, n := range ff.ids {
						if fmt.Sprintf("v%d", n) == f.v {
							if ld, ok := v.(*ssa.UnOp); ok && ld.X == cell {
								cond = true
							}
						}
					}
				}
			}
			res.check(!cond, "C16-R2", fname(fn), p.pos(c), "the activity is stored and listed whatever the deliverability", "addToOutbox is conditional on undeliverable")
		}
	}

	// R3
	if fn := p.MustFunc(res, "C16-R3", "toTombstone"); fn != nil {
		ff := computeFacts(fn)
		g := flowOf(fn)
		type copyRule struct {
			setter string
			src    func(ssa.Value) bool
			what   string
		}
		getterResult := func(name string) ssa.Value {
			for _, ci := range callsIn(fn) {
				if c, ok := ci.(*ssa.Call); ok && c.Common().IsInvoke() && c.Common().Method.Name() == name {
					return c
				}
			}
			return nil
		}
		pub, upd := getterResult("GetActivityStreamsPublished"), getterResult("GetActivityStreamsUpdated")
		for _, cr := range []copyRule{
			{"SetJSONLDId", func(x ssa.Value) bool { return isParamNamed(x, "id") }, "id = the id passed in"},
			{"SetActivityStreamsFormerType", func(x ssa.Value) bool { return isCallNamed(x, "GetTypeName") }, "formerType = the object's type name"},
			{"SetActivityStreamsDeleted", func(x ssa.Value) bool { return isParamNamed(x, "now") }, "deleted = the time passed in"},
			{"SetActivityStreamsPublished", func(x ssa.Value) bool { return x == pub && pub != nil }, "published = the object's published"},
			{"SetActivityStreamsUpdated", func(x ssa.Value) bool { return x == upd && upd != nil }, "updated = the object's updated"},
		} {
			var site ssa.CallInstruction
			for _, ci := range callsIn(fn) {
				if ci.Common().IsInvoke() && ci.Common().Method.Name() == cr.setter {
					site = ci
				}
			}
			if site == nil {
				res.bad("C16-R3", fname(fn), p.pos(fn), "Tombstone "+cr.what, cr.setter+" is not called")
				continue
			}
			res.check(anyBackward(g, site.Common().Args[0], cr.src), "C16-R3", fname(fn), p.pos(site), "Tombstone "+cr.what, "the value installed does not derive from that source")
			// independence of the optional copies
			if cr.setter == "SetActivityStreamsPublished" && upd != nil {
				res.check(!ff.has(site, upd, fNONNIL, "") && !ff.has(site, upd, fNIL, ""), "C16-R3", fname(fn), p.pos(site), "published is copied whether or not updated is present", "the copy is conditional on updated")
			}
			if cr.setter == "SetActivityStreamsUpdated" && pub != nil {
				res.check(!ff.has(site, pub, fNONNIL, "") && !ff.has(site, pub, fNIL, ""), "C16-R3", fname(fn), p.pos(site), "updated is copied whether or not published is present", "the copy is conditional on published: an object with updated but no published loses its updated time")
			}
			if cr.setter == "SetJSONLDId" || cr.setter == "SetActivityStreamsFormerType" || cr.setter == "SetActivityStreamsDeleted" {
				okAll := true
				for _, r := range returnsIn(fn) {
					if !dominates(site, r) {
						okAll = false
					}
				}
				res.check(okAll, "C16-R3", fname(fn), p.pos(site), cr.setter+" happens on every path", "conditional")
			}
		}
		// formerType value
		for _, ci := range callsIn(fn) {
			if ci.Common().IsInvoke() && ci.Common().Method.Name() == "AppendXMLSchemaString" {
				res.check(anyBackward(g, ci.Common().Args[0], func(x ssa.Value) bool {
					c, ok := x.(*ssa.Call)
					return ok && c.Common().IsInvoke() && c.Common().Method.Name() == "GetTypeName" && isParamNamed(c.Common().Value, "obj")
				}), "C16-R3", fname(fn), p.pos(ci), "formerType holds obj.GetTypeName()", "different value")
			}
		}
	}
	if fn := p.MustFunc(res, "C16-R3", "SocialWrappedCallbacks.deleteFn$1"); fn != nil {
		g := flowOf(fn)
		ts := findCalls(E, fn, "toTombstone")
		res.check(len(ts) == 1, "C16-R3", fname(fn), p.pos(fn), "one Tombstone per object", fmt.Sprintf("%d calls", len(ts)))
		for _, c := range ts {
			a := c.Common().Args
			okObj := anyBackward(g, a[0], func(x ssa.Value) bool { return isCallNamed(x, "Database.Get") })
			// … and from nowhere else: every value that can arrive at the argument (through merges)
			// is the result of Database.Get — the object as the client embedded it in the Delete
			// carries whatever published / updated / type the client chose
			var leaves []ssa.Value
			var expand func(v ssa.Value, d int)
			seenL := map[ssa.Value]bool{}
			expand = func(v ssa.Value, d int) {
				v = unwrap(v)
				if seenL[v] || d > 8 {
					return
				}
				seenL[v] = true
				switch x := v.(type) {
				case *ssa.Phi:
					for _, e := range x.Edges {
						expand(e, d+1)
					}
				case *ssa.UnOp:
					if al, ok := x.X.(*ssa.Alloc); ok && x.Op == token.MUL {
						for _, ref := range *al.Referrers() {
							if st, ok := ref.(*ssa.Store); ok && st.Addr == ssa.Value(al) {
								expand(st.Val, d+1)
							}
						}
						return
					}
					leaves = append(leaves, v)
				default:
					leaves = append(leaves, v)
				}
			}
			expand(a[0], 0)
			for _, lf := range leaves {
				src := lf
				if ex, ok := lf.(*ssa.Extract); ok {
					src = ex.Tuple
				}
				if c, isC := lf.(*ssa.Const); isC && c.IsNil() {
					continue // the zero value before the assignment
				}
				if !isCallNamed(src, "Database.Get") {
					okObj = false
				}
			}
			okID := isURLParam(a[1])
			okNow := isCallNamed(a[2], "Clock.Now")
			res.check(okObj && okID && okNow, "C16-R3", fname(fn), p.pos(c), "toTombstone(stored object, its id, clock.Now())", fmt.Sprintf("object from Database.Get: %v; id is the object's id: %v; time from the clock: %v", okObj, okID, okNow))
			for _, u := range findCalls(E, fn, "Database.Update") {
				res.check(unwrap(u.Common().Args[1]) == ssa.Value(c.(*ssa.Call)), "C16-R3", fname(fn), p.pos(u), "the Tombstone replaces the stored object", "Update's argument is not the Tombstone")
			}
			for _, gt := range findCalls(E, fn, "Database.Get") {
				res.check(gt.Common().Args[1] == a[1], "C16-R3", fname(fn), p.pos(gt), "the object read is the one named by the id", "different key")
			}
		}
	}

	// R4
	checkOwnership(res, p, E, "C16-R4", []string{"add$1", "remove$1"})
	checkCollectionMutators(res, p, "C16-R4", map[string]bool{"add$1": true, "remove$1": true, "SocialWrappedCallbacks.like": true})
	checkInPlaceFilterLoop(res, p, "C16-R4", "remove$1", 2)
	if fn := p.Func("remove$1"); fn != nil {
		ff := computeFacts(fn)
		for _, ci := range callsIn(fn) {
			if ci.Common().IsInvoke() && ci.Common().Method.Name() == "Remove" {
				tot, why := totalLoopFF(ff, loopBlocks(ci.Block()))
				res.check(tot, "C16-R4", "remove$1", p.pos(ci), "the scan examines every element of the collection (left early only by failing)", why)
			}
		}
	}
	checkRemoveMembership(res, p, "C16-R4")
	for _, name := range []string{"add", "remove"} {
		if fn := p.Func(name); fn != nil {
			ff := computeFacts(fn)
			for _, c := range findCalls(E, fn, name+"$1") {
				tot, why := totalLoopFF(ff, loopBlocks(c.Block()))
				res.check(inLoop(c) && tot, "C16-R4", name, p.pos(c), "every target is processed (loop left early only by failing)", why)
			}
		}
	}
	if fn := p.MustFunc(res, "C16-R4", "SocialWrappedCallbacks.like"); fn != nil {
		ff := computeFacts(fn)
		g := flowOf(fn)
		for _, c := range findCalls(E, fn, "Database.Liked") {
			res.check(anyBackward(g, c.Common().Args[1], func(x ssa.Value) bool { return isCallNamed(x, "Database.ActorForOutbox") }), "C16-R4", fname(fn), p.pos(c), "the liked collection is that of the outbox's actor", "key does not derive from ActorForOutbox")
		}
		for _, ci := range callsIn(fn) {
			if ci.Common().IsInvoke() && ci.Common().Method.Name() == "PrependIRI" {
				res.check(anyBackward(g, ci.Common().Args[0], func(x ssa.Value) bool { return isCallNamed(x, "GetActivityStreamsObject") }), "C16-R4", fname(fn), p.pos(ci), "what is prepended are the ids of the Like's objects", "different source")
				tot, why := totalLoopFF(ff, loopBlocks(ci.Block()))
				res.check(tot, "C16-R4", fname(fn), p.pos(ci), "every object id is added", why)
			}
		}
		for _, u := range findCalls(E, fn, "Database.Update") {
			res.check(anyBackward(g, u.Common().Args[1], func(x ssa.Value) bool { return isCallNamed(x, "Database.Liked") }), "C16-R4", fname(fn), p.pos(u), "the collection written is the one read", "different value")
		}
	}
	checkFreshInstalled(res, p, "C16-R4", []string{"add$1", "SocialWrappedCallbacks.like"}, 3)

	// R5
	if fn := p.MustFunc(res, "C16-R5", "SocialWrappedCallbacks.update$1"); fn != nil {
		g := flowOf(fn)
		var merged bool
		for _, b := range fn.Blocks {
			for _, ins := range b.Instrs {
				mu, ok := ins.(*ssa.MapUpdate)
				if !ok {
					continue
				}
				mapFromStored := anyBackward(g, mu.Map, func(x ssa.Value) bool { return isCallNamed(x, "Database.Get") })
				valFromSupplied := anyBackward(g, mu.Value, func(x ssa.Value) bool { return isCallNamed(x, "GetType") })
				if mapFromStored && valFromSupplied {
					merged = true
					tot, why := totalLoop(loopBlocks(mu.Block()), func(*ssa.Return) bool { return false })
					res.check(tot, "C16-R5", fname(fn), p.pos(mu), "every supplied member is copied (the copy loop cannot be left early)", why)
				}
			}
		}
		res.check(merged, "C16-R5", fname(fn), p.pos(fn), "the supplied object's members are written into the stored object's map", "no map update with that data flow")
		for _, u := range findCalls(E, fn, "Database.Update") {
			v, _ := unwrapExtract(u.Common().Args[1])
			okT := isCallNamed(v, "streams.ToType") && anyBackward(g, v, func(x ssa.Value) bool { return isCallNamed(x, "Database.Get") })
			res.check(okT, "C16-R5", fname(fn), p.pos(u), "what is written back is ToType of the merged map", "argument is "+valueLabel(u.Common().Args[1]))
		}
		for _, gt := range findCalls(E, fn, "Database.Get") {
			res.check(isURLParam(gt.Common().Args[1]), "C16-R5", fname(fn), p.pos(gt), "the stored object read is the one the activity names", "different key")
		}
	}

	checkC16NullDeletion(res, p)
	res.Rule("C16-R10", "'answered 400 and changes nothing': the activity is stored and put in the outbox only after the callbacks ran — no callback dispatch can execute after addToOutbox")
	checkOutboxAfterCallbacks(res, p, E, "C16-R10")
	res.Rule("C16-R9", "an activity lacking a required object or target is answered 400: the sentinel a default callback returns travels unchanged through sideEffectActor.PostOutbox and baseActor.deliver to the comparison in PostOutboxScheme (shared with C10-R9)")
	checkSentinelTransparent(res, p, E, "C16-R9", []string{"sideEffectActor.PostOutbox", "baseActor.deliver"})

	// R6
	checkOverrideTable(res, p, "C16-R6", "SocialWrappedCallbacks", 9)
	checkCallbackLast(res, p, E, "C16-R6", "SocialWrappedCallbacks")
	// R7
	fns := reachFrom(p, E, "sideEffectActor.PostOutbox")
	addErrFlowObligations(res, p, E, "C16-R7", fns, true)
	res.Functions = len(fns)
	res.Assumptions = append(res.Assumptions, "value flow is an over-approximation", "CFG paths over-approximate feasible paths")
	res.Undecided = []string{"that exactly the supplied members change (value level)", "which nulls a nested (non-top-level) member or an object given by IRI carries (outside the statement)", "answers of Database.Owns"}
	res.Trusted = []string{"go/types, go/ssa, go/ast (x/tools v0.29.0)", "e1_effects.go, e2_facts.go, e4_flow.go, e9_errflow.go"}
}

// isURLParam: v is a parameter of type *url.URL of its function (the per-object id handed to
// the per-object body, whatever it is called).
func isURLParam(v ssa.Value) bool {
	pa, ok := unwrap(v).(*ssa.Parameter)
	return ok && typeIs(pa.Type(), "net/url", "URL")
}

// checkRemoveMembership: in remove's per-target closure an element of the target collection is
// matched against the ids to remove by its id in the library's one sense — ToId(element) — in the
// branch for unordered collections and in the branch for ordered ones alike (an element may be an
// IRI or an embedded value in either).
func checkRemoveMembership(res *Result, p *Pub, rule string) {
	fn := p.Func("remove$1")
	if fn == nil {
		res.undecided(rule, "remove$1", "-", "per-target closure of remove found", "missing")
		return
	}
	g := flowOf(fn)
	n := 0
	for _, b := range fn.Blocks {
		for _, ins := range b.Instrs {
			lk, ok := ins.(*ssa.Lookup)
			if !ok || lk.X.Type().String() != "map[string]bool" {
				continue
			}
			n++
			res.check(anyBackward(g, lk.Index, func(x ssa.Value) bool { return isCallNamed(x, "ToId") }), rule, "remove$1", p.pos(lk), "an element is matched by ToId(element), whatever its spelling", "the key looked up does not come from ToId: elements of one spelling (an embedded value in an unordered collection, say) are never matched and stay in the collection")
		}
	}
	res.Count(rule+" membership tests in remove (items and orderedItems branch)", n, 2)
}
