package main

// E9 — error discipline: no effect after a failed or untested step, and no
// failure swallowed into a success return.
//
// A forward may-analysis over SSA tracks, for every error value produced by a
// call, the set of states it can be in on some path reaching a point:
//   U  produced, not yet tested
//   F  known non-nil (failed)
//   O  known nil, or sanctioned (IsUnmatchedErr(e) is true)
// Branch conditions refine the set (and prune edges that contradict an earlier
// test of the same SSA value). Obligations:
//   (a) at every effectful call other than Unlock / ResponseWriter writes, no
//       tracked error may be U or F;
//   (b) at every return whose error result may be nil (or which has no error
//       result), no tracked error may be U or F — unless it was handed on
//       (returned, wrapped, sent on a channel).
// Documented skips (a failed fetch of one recipient is skipped) are a reviewed
// table keyed by (function, callee).

import (
	"fmt"
	"go/token"
	"sort"
	"strings"

	"golang.org/x/tools/go/ssa"
)

const (
	esU uint8 = 1
	esF uint8 = 2
	esO uint8 = 4
)

type errState map[ssa.Value]uint8

func (s errState) clone() errState {
	n := errState{}
	for k, v := range s {
		n[k] = v
	}
	return n
}

type errFinding struct {
	kind string // "effect-after-failure" | "swallowed"
	ins  ssa.Instruction
	src  ssa.Value
	st   uint8
	what string
}

type sanctionedSkip struct{ fn, callee, reason string }

// failures that the properties say are skipped rather than propagated
var sanctionedSkips = []sanctionedSkip{
	{"addResponseHeaders", "(bytes.Buffer).WriteString", "bytes.Buffer.WriteString always returns a nil error (documented)"},
	{"wrapInCreate", "ActivityStreamsObjectProperty.AppendType", "AppendType fails only for a value outside the range of 'object' (Object or Link); every non-activity value reaching wrapInCreate came out of streams.ToType and extends one of the two (PublicKey, the only other type, is typeless and cannot be produced by ToType)"},
	{"sideEffectActor.resolveActors", "sideEffectActor.dereferenceForResolvingInboxes", "C02: recipients that cannot be fetched or parsed are skipped without failing the delivery"},
	{"sideEffectActor.hasInboxForwardingValues", "Transport.Dereference", "C17: a value that cannot be fetched is skipped when looking for owned inReplyTo/object/target/tag values"},
	{"sideEffectActor.hasInboxForwardingValues", "streams.ToType", "C17: a fetched value of unknown type is skipped"},
}

func isErrorType(v ssa.Value) bool { return v.Type().String() == "error" }

// errResult returns the error-typed result value of a call (the call itself,
// or the Extract of the last tuple element), or nil.
func errResult(c *ssa.Call) ssa.Value {
	sig := c.Call.Signature()
	n := sig.Results().Len()
	if n == 0 {
		return nil
	}
	if sig.Results().At(n-1).Type().String() != "error" {
		return nil
	}
	if n == 1 {
		if c.Referrers() == nil || len(*c.Referrers()) == 0 {
			return nil
		}
		return c
	}
	if e := extractOf(c, n-1); e != nil {
		return e
	}
	return nil
}

// discardsError: the call returns an error that is never looked at.
func discardsError(c *ssa.Call) bool {
	sig := c.Call.Signature()
	n := sig.Results().Len()
	if n == 0 || sig.Results().At(n-1).Type().String() != "error" {
		return false
	}
	return errResult(c) == nil
}

type errFlow struct {
	p        *Pub
	E        *Effects
	fn       *ssa.Function
	ff       *FuncFacts
	in       map[*ssa.BasicBlock]errState
	findings []errFinding
	tracked  int
}

func stateStr(b uint8) string {
	var o []string
	if b&esU != 0 {
		o = append(o, "untested")
	}
	if b&esF != 0 {
		o = append(o, "failed")
	}
	if b&esO != 0 {
		o = append(o, "ok")
	}
	return strings.Join(o, "|")
}

// errTest decodes a branch condition into (error value, kind) where kind is
// "nonnil" (cond true ⇒ e != nil), "nil" (cond true ⇒ e == nil) or
// "sanction" (cond true ⇒ failure is an accepted outcome).
func (ef *errFlow) errTest(ins ssa.Instruction, cond ssa.Value) (ssa.Value, string) {
	cond = ef.ff.resolve(ins, cond)
	switch x := cond.(type) {
	case *ssa.UnOp:
		if x.Op == token.NOT {
			v, k := ef.errTest(ins, x.X)
			switch k {
			case "nonnil":
				return v, "nil"
			case "nil":
				return v, "nonnil"
			case "sanction":
				return v, "unsanction"
			}
			return nil, ""
		}
	case *ssa.BinOp:
		if x.Op == token.EQL || x.Op == token.NEQ {
			var other ssa.Value
			if isNilConst(x.Y) {
				other = x.X
			} else if isNilConst(x.X) {
				other = x.Y
			}
			if other != nil && isErrorType(other) {
				v := ef.ff.resolve(ins, other)
				if x.Op == token.NEQ {
					return v, "nonnil"
				}
				return v, "nil"
			}
			// comparison with a documented sentinel: the failure is converted into a
			// status (400), which C10-R4 checks; it counts as handled on the equal edge
			for _, pair := range [][2]ssa.Value{{x.X, x.Y}, {x.Y, x.X}} {
				if isSentinel(pair[1], "ErrObjectRequired") || isSentinel(pair[1], "ErrTargetRequired") {
					v := ef.ff.resolve(ins, pair[0])
					if x.Op == token.EQL {
						return v, "sanction"
					}
					return v, "unsanction"
				}
			}
		}
	case *ssa.Call:
		if f := x.Call.StaticCallee(); f != nil && f.Name() == "IsUnmatchedErr" && len(x.Call.Args) == 1 {
			return ef.ff.resolve(ins, x.Call.Args[0]), "sanction"
		}
	case *ssa.Phi:
		// a named condition: `bad := a || b` (constant-true edges come from the tests that
		// short-circuited) or `ok := a && b`. When every atom tests the same error value in the
		// same way, the merged flag tests it that way too.
		if x.Type().String() != "bool" {
			return nil, ""
		}
		var v ssa.Value
		kind := ""
		orForm, andForm := false, false
		for j, e := range x.Edges {
			var av ssa.Value
			ak := ""
			if c, isC := boolConst(e); isC {
				pb := x.Block().Preds[j]
				pif, ok := pb.Instrs[len(pb.Instrs)-1].(*ssa.If)
				if !ok || len(pb.Succs) != 2 {
					return nil, ""
				}
				// which outcome of the predecessor's test leads here
				outcome := pb.Succs[0] == x.Block()
				if outcome != c {
					return nil, "" // not a short-circuit shape
				}
				if c {
					orForm = true
				} else {
					andForm = true
				}
				av, ak = ef.errTest(pif, pif.Cond)
				if !c {
					// the atom was false on this edge; its kind when true is what we collect
				}
			} else {
				av, ak = ef.errTest(ins, e)
			}
			if av == nil || ak == "" {
				return nil, ""
			}
			if v == nil {
				v, kind = av, ak
			} else if v != av || kind != ak {
				return nil, ""
			}
		}
		if v == nil || (orForm && andForm) {
			return nil, ""
		}
		if andForm {
			// true: every atom holds (kind); false: nothing can be said — report only the true meaning
			// by answering for the true edge; callers negate for the false edge, which would be wrong,
			// so conjunctions are not interpreted
			return nil, ""
		}
		return v, kind
	}
	return nil, ""
}

func runErrFlow(p *Pub, E *Effects, fn *ssa.Function, trackAll bool) *errFlow {
	ef := &errFlow{p: p, E: E, fn: fn, ff: computeFacts(fn), in: map[*ssa.BasicBlock]errState{}}
	if len(fn.Blocks) == 0 {
		return ef
	}
	name := fname(fn)
	skip := map[string]bool{}
	for _, s := range sanctionedSkips {
		if s.fn == name {
			skip[s.callee] = true
		}
	}
	isTrackedCall := func(c *ssa.Call) bool {
		ci := E.calls[c]
		if ci == nil {
			return false
		}
		label := callName(c)
		if isUnlockCall(c) {
			return false // the library deliberately ignores Unlock errors everywhere (nothing can be done about them)
		}
		if skip[label] || (ci.Label != "" && skip[ci.Label]) {
			return false
		}
		if sc := c.Call.StaticCallee(); sc != nil {
			if skip[fname(sc)] || skip[staticName(c)] {
				return false
			}
			switch staticName(c) {
			case "fmt.Errorf", "errors.New":
				return false
			}
		}
		if trackAll {
			return true
		}
		return ci.Trans&(eSIDE|eGATE|eHOOK|eCLK) != 0
	}
	apply := func(s errState, ins ssa.Instruction, report bool) {
		switch x := ins.(type) {
		case *ssa.Call:
			ci := E.calls[x]
			// (a) effect after failure
			if report && ci != nil && ci.Trans&(eSIDE|eCLK|eHOOK|eGATE) != 0 && !isUnlockCall(x) {
				for v, st := range s {
					if st&(esU|esF) != 0 && !ef.ff.has(ins, v, fNIL, "") {
						ef.findings = append(ef.findings, errFinding{"effect-after-failure", ins, v, st, ci.Label + " [" + ci.Trans.String() + "]"})
					}
				}
			}
			if e := errResult(x); e != nil && isTrackedCall(x) {
				s[e] = esU
			} else if report && e == nil && isTrackedCall(x) && discardsError(x) {
				ef.findings = append(ef.findings, errFinding{"discarded", ins, x, esU, callName(x)})
			}
			// wrapping: fmt.Errorf(..., e) hands e on
			if staticName(x) == "fmt.Errorf" {
				for _, a := range x.Call.Args {
					ef.consume(s, ins, a)
				}
			}
		case *ssa.Send:
			ef.consume(s, ins, x.X)
		case *ssa.Return:
			if !report {
				return
			}
			// values handed to the caller
			handed := map[ssa.Value]bool{}
			mayNil := true
			for i, r := range x.Results {
				if isErrorType(r) {
					ef.collect(ins, r, handed, 0)
					mn, _ := ef.ff.errStatus(x, i)
					mayNil = mn
				}
			}
			for v, st := range s {
				if st&(esU|esF) == 0 || handed[v] || ef.ff.has(ins, v, fNIL, "") {
					continue // handled, handed on, or known nil here by the path-sensitive facts
				}
				if !mayNil {
					continue // the function fails anyway: the failure is reported, if under another error value
				}
				ef.findings = append(ef.findings, errFinding{"swallowed", ins, v, st, ""})
			}
		}
	}
	ef.in[fn.Blocks[0]] = errState{}
	work := []*ssa.BasicBlock{fn.Blocks[0]}
	iter := 0
	for len(work) > 0 {
		iter++
		if iter > 100000 {
			panic("errflow: no fixpoint in " + fn.String())
		}
		b := work[0]
		work = work[1:]
		s := ef.in[b].clone()
		for _, ins := range b.Instrs {
			apply(s, ins, false)
		}
		for si, succ := range b.Succs {
			out := s.clone()
			feasible := true
			if ifi, ok := b.Instrs[len(b.Instrs)-1].(*ssa.If); ok {
				v, k := ef.errTest(ifi, ifi.Cond)
				if v != nil {
					if st, tracked := out[v]; tracked {
						truth := si == 0
						var n uint8
						switch {
						case (k == "nonnil" && truth) || (k == "nil" && !truth):
							if st&esU != 0 {
								n |= esF
							}
							n |= st & esF
						case (k == "nil" && truth) || (k == "nonnil" && !truth):
							if st&esU != 0 {
								n |= esO
							}
							n |= st & esO
						case k == "sanction" && truth, k == "unsanction" && !truth:
							n = esO
						default:
							n = st
						}
						if n == 0 {
							feasible = false
						}
						out[v] = n
					}
				}
			}
			if !feasible {
				continue
			}
			// phi moves
			pi := -1
			for i, pr := range succ.Preds {
				if pr == b {
					pi = i
				}
			}
			// what the path-sensitive facts (E2) know on this edge: a tracked error that is
			// known nil here is not failed, whatever the sequence of tests was
			if es := ef.ff.edgeIn[succ]; pi >= 0 && pi < len(es) && es[pi] != nil {
				for v, st := range out {
					if st&(esU|esF) != 0 && es[pi].facts[fact{ef.ff.canon(es[pi], v), fNIL, ""}] {
						out[v] = esO
					}
				}
			}
			for _, ins := range succ.Instrs {
				phi, ok := ins.(*ssa.Phi)
				if !ok {
					break
				}
				if !isErrorType(phi) || pi < 0 {
					continue
				}
				e := phi.Edges[pi]
				if st, ok := out[e]; ok {
					out[phi] = st
					delete(out, e)
				} else if isNilConst(e) {
					out[phi] = esO
				} else {
					delete(out, phi)
				}
			}
			old, seen := ef.in[succ]
			if !seen {
				ef.in[succ] = out
				work = append(work, succ)
				continue
			}
			changed := false
			for v, st := range out {
				if old[v]|st != old[v] {
					old[v] |= st
					changed = true
				}
			}
			if changed {
				work = append(work, succ)
			}
		}
	}
	for _, b := range fn.Blocks {
		st, ok := ef.in[b]
		if !ok {
			continue
		}
		s := st.clone()
		for _, ins := range b.Instrs {
			apply(s, ins, true)
		}
		for v := range s {
			_ = v
		}
	}
	seen := map[ssa.Value]bool{}
	for _, st := range ef.in {
		for v := range st {
			seen[v] = true
		}
	}
	ef.tracked = len(seen)
	return ef
}

// consume marks an error value as handed on (wrapped / sent).
func (ef *errFlow) consume(s errState, ins ssa.Instruction, v ssa.Value) {
	v = ef.ff.resolve(ins, unwrap(v))
	if _, ok := s[v]; ok {
		s[v] = esO
	}
	if sl, ok := v.(*ssa.Slice); ok { // variadic ...interface{}
		_ = sl
	}
}

// collect gathers the tracked values a returned error value stands for.
func (ef *errFlow) collect(ins ssa.Instruction, v ssa.Value, out map[ssa.Value]bool, depth int) {
	v = ef.ff.resolve(ins, v)
	out[v] = true
	if depth > 4 {
		return
	}
	switch x := v.(type) {
	case *ssa.Phi:
		for _, e := range x.Edges {
			ef.collect(ins, e, out, depth+1)
		}
	case *ssa.Call:
		if staticName(x) == "fmt.Errorf" {
			for _, a := range x.Call.Args {
				ef.collect(ins, unwrap(a), out, depth+1)
			}
		}
	}
}

func isUnlockCall(c *ssa.Call) bool {
	return invokeName(c) == "Database.Unlock"
}

// addErrFlowObligations runs E9 on the named functions and records one
// obligation per (function, error source) plus one per finding.
func addErrFlowObligations(res *Result, p *Pub, E *Effects, rule string, fns []string, trackAll bool) {
	total := 0
	for _, name := range fns {
		fn := p.MustFunc(res, rule, name)
		if fn == nil {
			continue
		}
		ef := runErrFlow(p, E, fn, trackAll)
		total += ef.tracked
		bad := map[string]bool{}
		sort.SliceStable(ef.findings, func(i, j int) bool { return ef.findings[i].ins.Pos() < ef.findings[j].ins.Pos() })
		for _, f := range ef.findings {
			src := valueLabel(f.src)
			var desc, detail string
			if f.kind == "discarded" {
				desc = fmt.Sprintf("error result of %s is looked at", f.what)
				detail = "the error is discarded: a failure of this step goes unnoticed"
			} else if f.kind == "swallowed" {
				desc = fmt.Sprintf("error of %s is not swallowed: no return that may report success while it is %s", src, stateStr(f.st&(esU|esF)))
				detail = fmt.Sprintf("return at %s can yield a nil error although the error produced at %s is %s on some path to it", p.pos(f.ins), p.pos(f.src.(ssa.Instruction)), stateStr(f.st&(esU|esF)))
			} else {
				desc = fmt.Sprintf("no effect after a failed/untested %s: %s", src, f.what)
				detail = fmt.Sprintf("%s at %s is reachable while the error produced at %s is %s", f.what, p.pos(f.ins), p.pos(f.src.(ssa.Instruction)), stateStr(f.st&(esU|esF)))
			}
			key := rule + "|" + name + "|" + desc
			if bad[key] {
				continue
			}
			bad[key] = true
			res.Add(Oblig{Rule: rule, Func: name, Pos: p.pos(f.ins), Desc: desc, Verdict: VIOLATION, Detail: detail, Key: key})
		}
		res.ok(rule, name, p.pos(fn), fmt.Sprintf("%d error values tracked; every failure is propagated or sanctioned before the next effect and before a success return (%d findings)", ef.tracked, len(bad)))
	}
	res.Count(rule+" error values tracked", total, 1)
}

// reachFrom lists the names of the pub functions reachable from the given
// roots through resolved callees (E1), roots included.
func reachFrom(p *Pub, E *Effects, roots ...string) []string {
	seen := map[*ssa.Function]bool{}
	var order []*ssa.Function
	var walk func(f *ssa.Function)
	walk = func(f *ssa.Function) {
		if f == nil || seen[f] {
			return
		}
		seen[f] = true
		order = append(order, f)
		for _, ci := range E.byFn[f] {
			for _, c := range ci.Callees {
				walk(c)
			}
		}
		for _, a := range f.AnonFuncs {
			walk(a)
		}
	}
	for _, r := range roots {
		walk(p.Func(r))
	}
	var out []string
	for _, f := range order {
		if _, ok := E.byFn[f]; ok || len(f.Blocks) > 0 {
			out = append(out, fname(f))
		}
	}
	sort.Strings(out)
	return out
}
