package main

// C15 — astool is deterministic (necessary condition: nothing is emitted in
// map-iteration order). "Regenerates the shipped package" and "generated
// extensions compile" require running the generator and are not claimed.
//
// E8: every `range` over a map in astool/... must be (a) commutative,
// (b) feeding only slices that are sorted before use, or (c) in the reviewed
// table (function + ranged expression) with a reason and, where it can be
// mechanised, a witness re-verified on every run. A new or changed site that
// falls in none of the classes is a finding.

import (
	"fmt"
	"go/ast"
	"go/token"
	"go/types"
	"sort"
	"strings"

	"golang.org/x/tools/go/packages"
)

type mapRangeSite struct {
	pkg   *packages.Package
	fn    string
	fd    *ast.FuncDecl
	rs    *ast.RangeStmt
	expr  string
	class string
	why   string
}

type reviewedRange struct {
	fn, expr string
	kind     string // witness kind
	reason   string
}

// The reviewed table. kind:
//
//	sorting-consumer  the slice built is handed to a function that sorts it (witness: that function sorts its argument)
//	name-keyed        the slice's only consumer stores each element in a map under its name (witness: the consumer's loop is a map insert)
//	sorted-by-callee  every append is followed by a call that sorts and returns the slice (witness: callee sorts before returning)
//	file-set          a list of per-element files that are written by path; list order is not output (witness: main writes by Directory/FileName)
//	diagnostic        debug printers, not on the generation path (witness: function is String/Size)
//	keyed-effects     per-element effects keyed by the element (maps / registries); assumption recorded
var reviewedRanges = []reviewedRange{
	{"Struct.ToInterface", "s.methods", "sorting-consumer", "signatures are handed to NewInterface, which sorts them"},
	{"Typedef.ToInterface", "t.methods", "sorting-consumer", "signatures are handed to NewInterface, which sorts them"},
	{"privateManagerHookDefinitions", "fnsMap", "sorting-consumer", "signatures are handed to NewInterface, which sorts them"},
	{"ManagerGenerator.Definition", "m.tgManagedMethods", "name-keyed", "methods are handed to NewStruct, which keys them by name and emits them sorted"},
	{"ManagerGenerator.Definition", "m.fpManagedMethods", "name-keyed", "methods are handed to NewStruct, which keys them by name and emits them sorted"},
	{"ManagerGenerator.Definition", "m.nfpManagedMethods", "name-keyed", "methods are handed to NewStruct, which keys them by name and emits them sorted"},
	{"TypeGenerator.getAllDisjointWith", "extends", "sorted-by-callee", "every append to s is followed by s = getAllChildrenExtendedBy(s, e), which sorts s before returning it"},
	{"Converter.packageFiles", "v.Types", "file-set", "one set of package files per type; written by path"},
	{"Converter.packageFiles", "v.FProps", "file-set", "one set of package files per property; written by path"},
	{"Converter.packageFiles", "v.NFProps", "file-set", "one set of package files per property; written by path"},
	{"Converter.toFiles", "v.FProps", "file-set", "one file per property, built from that property alone; written by path"},
	{"Converter.toFiles", "v.NFProps", "file-set", "one file per property, built from that property alone; written by path"},
	{"Converter.toFiles", "v.Types", "file-set", "one file per type, built from that type alone; written by path"},
	{"Converter.convertToFiles", "v.References", "file-set", "files of each referenced vocabulary; written by path"},
	{"Converter.convertToFiles", "ref.Values", "file-set", "one file per value; written by path"},
	{"Converter.convertToFiles", "v.Values", "file-set", "one file per value; written by path"},
	{"Converter.convertReferenceVocabularyRecursively", "p.References", "keyed-effects", "each referenced vocabulary is converted on its own clone and stored under its key; only which error is reported first depends on order"},
	{"Converter.convertVocabulary", "p.Vocab.Properties", "keyed-effects", "each property generator is stored under its name; the only shared effect is remembering the 'type' property"},
	{"Converter.convertVocabulary", "p.Vocab.Types", "keyed-effects", "types are converted in dependency order from an order-dependent work list; generators are stored by name and their Extends/ExtendedBy/Disjoint link lists are consumed only through sorted or name-keyed paths (getAllParentExtends → sorted names, getAllChildrenExtendedBy sorts, properties in name-keyed maps)"},
	{"Converter.convertType", "existingFProps", "keyed-effects", "rangeProps only receive SetKindFns calls keyed by this type's kind name"},
	{"Converter.convertType", "existingNFProps", "keyed-effects", "rangeProps only receive SetKindFns calls keyed by this type's kind name"},
	{"vocabulary.allTypeArray", "v.References", "sorted-after", "appends each reference's (already sorted) typeArray; the result is sorted before it is returned"},
	{"vocabulary.allPropArray", "v.References", "sorted-after", "appends each reference's propArray; the result is sorted before it is returned"},
	{"vocabulary.allFuncPropArray", "v.References", "sorted-after", "appends each reference's funcPropArray; the result is sorted before it is returned"},
	{"vocabulary.allNonFuncPropArray", "v.References", "sorted-after", "appends each reference's nonFuncPropArray; the result is sorted before it is returned"},
	{"Converter.convertVocabulary", "p.Vocab.Values", "keyed-effects", "each value's Kind is built from that value alone and stored under its key"},
	{"populatePropertiesOnTypes", "ctx.Result.Vocab.Properties", "name-keyed-types", "appends property references to each type's Properties/WithoutProperties in map order; the consumer (NewTypeGenerator) stores them in maps keyed by StructName"},
	{"resolveReferences", "vocabulary.Vocab.Types", "keyed-effects", "each reference is resolved on its own; what is loaded is stored under its name; only which error is reported first depends on order"},
	{"resolveReferences", "vocabulary.Vocab.Properties", "keyed-effects", "each reference is resolved on its own; what is loaded is stored under its name"},
	{"apply", "input", "keyed-effects", "assumption: the keys of one JSON-LD object (other than @context and type, which are applied first explicitly) are handled independently by the ontology nodes"},
	{"ParsedVocabulary.Size", "p.References", "diagnostic", "size for a progress message"},
	{"ParsedVocabulary.String", "p.References", "diagnostic", "debug printer"},
	{"Vocabulary.String", "v.Types", "diagnostic", "debug printer"},
	{"Vocabulary.String", "v.Properties", "diagnostic", "debug printer"},
	{"Vocabulary.String", "v.Values", "diagnostic", "debug printer"},
	{"langstring.Apply", "ctx.Result.Vocab.Properties", "keyed-effects", "marks each property whose range contains langString, in place under its own key"},
	{"OWLOntology.LoadElement", "payload", "keyed-effects", "dispatch on the keys of one JSON object; each key handled independently"},
	{"ParseVocabularies", "v.References", "keyed-effects", "references are merged into a map under their key; registry additions are keyed by vocabulary"},
	{"parseJSONLDContext", "valMap", "keyed-effects", "assumption: ontology nodes claim disjoint keys, so the order in which context entries are resolved does not change the resulting node set"},
	{"parseJSONLDContext", "inMap", "keyed-effects", "assumption: ontology nodes claim disjoint keys"},
	{"RDFRegistry.getNode", "r.ontologies", "keyed-effects", "assumption: at most one registered ontology's SpecURI is a prefix of a given name"},
	{"ReferenceOntology.LoadAsAlias", "r.v.Types", "keyed-effects", "alias delegates are looked up by name by the consumer"},
	{"ReferenceOntology.LoadAsAlias", "r.v.Properties", "keyed-effects", "alias delegates are looked up by name by the consumer"},
}

func funcDeclName(fd *ast.FuncDecl) string {
	name := fd.Name.Name
	if fd.Recv != nil && len(fd.Recv.List) > 0 {
		t := fd.Recv.List[0].Type
		if s, ok := t.(*ast.StarExpr); ok {
			t = s.X
		}
		name = types.ExprString(t) + "." + name
	}
	return name
}

// sortedAfter: objects passed (possibly through a conversion) to sort.* at a
// position after `after` in fd.
func sortedAfter(info *types.Info, fd *ast.FuncDecl, after token.Pos) map[types.Object]token.Pos {
	out := map[types.Object]token.Pos{}
	ast.Inspect(fd.Body, func(n ast.Node) bool {
		c, ok := n.(*ast.CallExpr)
		if !ok || c.Pos() < after {
			return true
		}
		sel, ok := c.Fun.(*ast.SelectorExpr)
		if !ok {
			return true
		}
		id, ok := sel.X.(*ast.Ident)
		if !ok {
			return true
		}
		pn, ok := info.Uses[id].(*types.PkgName)
		if !ok || pn.Imported().Path() != "sort" || len(c.Args) == 0 {
			return true
		}
		a := c.Args[0]
		for {
			if cc, ok := a.(*ast.CallExpr); ok && len(cc.Args) == 1 {
				a = cc.Args[0]
				continue
			}
			break
		}
		if aid, ok := a.(*ast.Ident); ok {
			if o := info.ObjectOf(aid); o != nil {
				if _, seen := out[o]; !seen {
					out[o] = c.Pos()
				}
			}
		}
		return true
	})
	return out
}

// classifyMapRange decides class (a) or (b) for a site, or "" when neither.
func classifyMapRange(p *packages.Package, fd *ast.FuncDecl, rs *ast.RangeStmt, lenientAppend bool) (class, why string) {
	info := p.TypesInfo
	appended := map[types.Object]bool{}
	other := []string{}
	var walk func(stmts []ast.Stmt)
	isBenignCall := func(c *ast.CallExpr) bool {
		if id, ok := c.Fun.(*ast.Ident); ok {
			switch id.Name {
			case "len", "delete", "cap", "panic":
				return true
			}
		}
		return false
	}
	var checkExprCalls func(e ast.Node) bool
	checkExprCalls = func(e ast.Node) bool {
		ok := true
		ast.Inspect(e, func(n ast.Node) bool {
			if c, isC := n.(*ast.CallExpr); isC {
				if isBenignCall(c) {
					return true
				}
				// conversions and method calls that only read are accepted when they are pure getters: name starts with Get/Is/Name/String/Len/Has
				name := ""
				switch f := c.Fun.(type) {
				case *ast.SelectorExpr:
					name = f.Sel.Name
				case *ast.Ident:
					name = f.Name
					if tv, ok2 := info.Types[c.Fun]; ok2 && tv.IsType() {
						return true
					}
				}
				if hasPrefixAny(name, "Get", "Is", "Has", "Name", "String", "Len", "TypeName", "PropertyName", "Title", "ToLower", "Sprintf", "HasPrefix", "HasSuffix", "Contains", "append") {
					return true
				}
				ok = false
			}
			return true
		})
		return ok
	}
	walk = func(stmts []ast.Stmt) {
		for _, st := range stmts {
			switch s := st.(type) {
			case *ast.AssignStmt:
				for i, l := range s.Lhs {
					switch lx := l.(type) {
					case *ast.IndexExpr:
						if _, isMap := info.TypeOf(lx.X).Underlying().(*types.Map); isMap {
							// order-independent only when the key varies with the element
							varies := false
							ast.Inspect(lx.Index, func(n ast.Node) bool {
								if id, ok := n.(*ast.Ident); ok {
									if o := info.ObjectOf(id); o != nil && o.Pos() >= rs.Pos() && o.Pos() < rs.End() {
										varies = true
									}
								}
								return true
							})
							if varies {
								continue
							}
							other = append(other, "map insert under a key that does not depend on the element (last writer wins)")
							continue
						}
						// filling a slice by index is building it in map order, like append: it must be sorted before use
						if xid, ok := lx.X.(*ast.Ident); ok {
							if _, isSlice := info.TypeOf(lx.X).Underlying().(*types.Slice); isSlice && info.ObjectOf(xid) != nil {
								appended[info.ObjectOf(xid)] = true
								continue
							}
						}
						other = append(other, "indexed assignment to a non-map")
					case *ast.Ident:
						if lx.Name == "_" {
							continue
						}
						// x = append(x, …)
						if i < len(s.Rhs) {
							if c, ok := s.Rhs[i].(*ast.CallExpr); ok && isIdentNamed(c.Fun, "append") && len(c.Args) > 0 {
								if a0, ok := c.Args[0].(*ast.Ident); ok && info.ObjectOf(a0) == info.ObjectOf(lx) {
									appended[info.ObjectOf(lx)] = true
									continue
								}
							}
						}
						if s.Tok == token.DEFINE {
							continue // a loop-local variable
						}
						if s.Tok == token.ADD_ASSIGN || s.Tok == token.SUB_ASSIGN {
							if b, ok := info.TypeOf(lx).Underlying().(*types.Basic); ok && b.Info()&types.IsNumeric != 0 {
								continue // a counter
							}
						}
						if len(s.Rhs) == len(s.Lhs) {
							if rid, ok := s.Rhs[i].(*ast.Ident); ok && (rid.Name == "true" || rid.Name == "false") {
								continue // a flag
							}
						}
						other = append(other, "assignment to "+lx.Name)
					default:
						other = append(other, "assignment to "+types.ExprString(l))
					}
				}
				for _, r := range s.Rhs {
					if c, ok := r.(*ast.CallExpr); ok && lenientAppend && isIdentNamed(c.Fun, "append") {
						continue // reviewed: the appended values come from readers
					}
					if !checkExprCalls(r) {
						other = append(other, "call in "+types.ExprString(r))
					}
				}
			case *ast.IncDecStmt:
			case *ast.ExprStmt:
				if c, ok := s.X.(*ast.CallExpr); ok && isBenignCall(c) {
					continue
				}
				other = append(other, "call "+types.ExprString(s.X))
			case *ast.IfStmt:
				if s.Init != nil {
					walk([]ast.Stmt{s.Init})
				}
				if !checkExprCalls(s.Cond) {
					other = append(other, "call in condition")
				}
				walk(s.Body.List)
				switch e := s.Else.(type) {
				case *ast.BlockStmt:
					walk(e.List)
				case *ast.IfStmt:
					walk([]ast.Stmt{e})
				}
			case *ast.BranchStmt:
				if s.Tok == token.BREAK {
					other = append(other, "break (which element is seen first matters)")
				}
			case *ast.RangeStmt:
				walk(s.Body.List)
			case *ast.ForStmt:
				walk(s.Body.List)
			case *ast.DeclStmt:
			case *ast.BlockStmt:
				walk(s.List)
			case *ast.ReturnStmt:
				other = append(other, "return inside the loop")
			default:
				other = append(other, fmt.Sprintf("%T", st))
			}
		}
	}
	walk(rs.Body.List)
	if len(other) > 0 {
		return "", strings.Join(other, "; ")
	}
	if len(appended) == 0 {
		return "a-commutative", "body only inserts into maps, counts or sets flags"
	}
	sorted := sortedAfter(info, fd, rs.End())
	for o := range appended {
		spos, ok := sorted[o]
		if !ok {
			return "", "slice " + o.Name() + " is built in map order and not sorted afterwards in this function"
		}
		// no return between the loop and the sort that hands the slice out
		leaked := false
		ast.Inspect(fd.Body, func(n ast.Node) bool {
			if r, ok := n.(*ast.ReturnStmt); ok && r.Pos() > rs.End() && r.Pos() < spos {
				for _, res := range r.Results {
					if id, ok := res.(*ast.Ident); ok && info.ObjectOf(id) == o {
						leaked = true
					}
				}
			}
			return true
		})
		if leaked {
			return "", "slice " + o.Name() + " can be returned before it is sorted"
		}
	}
	return "b-sorted-before-use", "every slice appended to in the loop is sorted before the function uses it"
}

func checkC15(res *Result) {
	pkgs := loadPkgs(packages.LoadSyntax, false, "./astool/...")
	res.Explanation = "'Regenerates the shipped package' and 'generated extensions compile' need the generator (and the compiler) to be run and are not claimed; by a one-off run outside the checks the shipped code was reproduced exactly. Decided: the structural necessary condition of byte-identical output — nothing is emitted in map-iteration order. Every range over a map in astool/... is classified as commutative (only map inserts, counters, flags), as sorted-before-use (every slice it appends to is sorted before the function uses it), or is matched against a reviewed table keyed by function and ranged expression, each entry with a reason and — for the mechanisable kinds (sorting consumer, name-keyed consumer, sorted-by-callee, file set written by path, diagnostics) — a witness re-verified on this tree; in astool/codegen and astool/gen no jennifer statement is built inside a map range. A new, changed or no longer justified site is a finding."
	res.Rule("C15-R1", "no emission in map order: each map range in astool is commutative, sorted before use, or reviewed with a re-verified witness")
	res.Rule("C15-R2", "emitter side: no jennifer (jen) call inside the body of a map range in astool/codegen and astool/gen unless the site is reviewed")
	res.Rule("C15-R3", "the witnesses of the reviewed table hold: NewInterface sorts, NewStruct/NewTypedef key by name and emit sorted, getAllChildrenExtendedBy sorts before returning, main writes files by path")

	var all []*mapRangeSite
	byFunc := map[string]*ast.FuncDecl{}
	pkgOf := map[string]*packages.Package{}
	for _, p := range pkgs {
		res.Packages = append(res.Packages, p.PkgPath)
		for _, f := range p.Syntax {
			if isTestFile(p.Fset, f.Pos()) {
				continue
			}
			for _, d := range f.Decls {
				fd, ok := d.(*ast.FuncDecl)
				if !ok || fd.Body == nil {
					continue
				}
				name := funcDeclName(fd)
				byFunc[p.PkgPath+"."+name] = fd
				pkgOf[p.PkgPath+"."+name] = p
				ast.Inspect(fd.Body, func(n ast.Node) bool {
					rs, ok := n.(*ast.RangeStmt)
					if !ok {
						return true
					}
					t := p.TypesInfo.TypeOf(rs.X)
					if t == nil {
						return true
					}
					if _, isMap := t.Underlying().(*types.Map); !isMap {
						return true
					}
					all = append(all, &mapRangeSite{pkg: p, fn: name, fd: fd, rs: rs, expr: types.ExprString(rs.X)})
					return true
				})
			}
		}
	}
	fset := pkgs[0].Fset
	find := func(suffix string) (*ast.FuncDecl, *packages.Package) {
		for k, fd := range byFunc {
			if strings.HasSuffix(k, suffix) {
				return fd, pkgOf[k]
			}
		}
		return nil, nil
	}

	// R3 witnesses
	witness := map[string]bool{}
	// NewInterface sorts its functions
	if fd, p := find("/codegen.NewInterface"); fd != nil {
		ok := false
		ast.Inspect(fd.Body, func(n ast.Node) bool {
			if c, isC := n.(*ast.CallExpr); isC {
				if sel, isS := c.Fun.(*ast.SelectorExpr); isS {
					if id, isI := sel.X.(*ast.Ident); isI {
						if pn, isP := p.TypesInfo.Uses[id].(*types.PkgName); isP && pn.Imported().Path() == "sort" {
							ok = true
						}
					}
				}
			}
			return true
		})
		witness["sorting-consumer"] = ok
		res.check(ok, "C15-R3", "codegen.NewInterface", relPos(fset, fd.Pos()), "NewInterface sorts the signatures it is given", "no sort call")
	} else {
		res.undecided("C15-R3", "codegen.NewInterface", "-", "function found", "missing")
	}
	// NewStruct / NewTypedef key by name; Definition emits in sorted order
	okKeyed := true
	for _, n := range []string{"NewStruct", "NewTypedef"} {
		fd, p := find("/codegen." + n)
		if fd == nil {
			res.undecided("C15-R3", "codegen."+n, "-", "function found", "missing")
			okKeyed = false
			continue
		}
		keyed := 0
		ast.Inspect(fd.Body, func(m ast.Node) bool {
			if as, ok := m.(*ast.AssignStmt); ok && len(as.Lhs) == 1 {
				if ix, ok := as.Lhs[0].(*ast.IndexExpr); ok {
					if _, isMap := p.TypesInfo.TypeOf(ix.X).Underlying().(*types.Map); isMap {
						if c, ok := ix.Index.(*ast.CallExpr); ok {
							if sel, ok := c.Fun.(*ast.SelectorExpr); ok && sel.Sel.Name == "Name" {
								keyed++
							}
						}
					}
				}
			}
			return true
		})
		res.check(keyed >= 2, "C15-R3", "codegen."+n, relPos(fset, fd.Pos()), n+" stores methods and constructors in maps keyed by their names", fmt.Sprintf("%d name-keyed inserts", keyed))
		if keyed < 2 {
			okKeyed = false
		}
	}
	for _, n := range []string{"Struct.Definition", "Typedef.Definition"} {
		fd, p := find("/codegen." + n)
		if fd == nil {
			res.undecided("C15-R3", "codegen."+n, "-", "function found", "missing")
			okKeyed = false
			continue
		}
		// its map ranges must be class (b)
		nOK, nAll := 0, 0
		for _, s := range all {
			if s.fd == fd {
				nAll++
				if c, _ := classifyMapRange(p, fd, s.rs, false); c == "b-sorted-before-use" {
					nOK++
				}
			}
		}
		res.check(nAll >= 2 && nOK == nAll, "C15-R3", "codegen."+n, relPos(fset, fd.Pos()), n+" emits constructors and methods in sorted name order", fmt.Sprintf("%d of %d map ranges sorted before use", nOK, nAll))
		if !(nAll >= 2 && nOK == nAll) {
			okKeyed = false
		}
	}
	witness["name-keyed"] = okKeyed
	// getAllChildrenExtendedBy sorts before returning
	if fd, _ := find("/gen.TypeGenerator.getAllChildrenExtendedBy"); fd != nil {
		ok := false
		n := len(fd.Body.List)
		if n >= 2 {
			if es, isE := fd.Body.List[n-2].(*ast.ExprStmt); isE {
				if c, isC := es.X.(*ast.CallExpr); isC && types.ExprString(c.Fun) == "sort.Strings" {
					if r, isR := fd.Body.List[n-1].(*ast.ReturnStmt); isR && len(r.Results) == 1 && types.ExprString(r.Results[0]) == types.ExprString(c.Args[0]) {
						ok = true
					}
				}
			}
		}
		witness["sorted-by-callee"] = ok
		res.check(ok, "C15-R3", "gen.TypeGenerator.getAllChildrenExtendedBy", relPos(fset, fd.Pos()), "getAllChildrenExtendedBy sorts the list immediately before returning it", "does not end with sort.Strings(s); return s")
	} else {
		res.undecided("C15-R3", "gen.TypeGenerator.getAllChildrenExtendedBy", "-", "function found", "missing")
	}
	// files are written by path
	okFiles := false
	for k, fd := range byFunc {
		if !strings.HasSuffix(k, "/astool.main") && !strings.Contains(k, "/astool.") {
			continue
		}
		ast.Inspect(fd.Body, func(n ast.Node) bool {
			if c, isC := n.(*ast.CallExpr); isC {
				if sel, isS := c.Fun.(*ast.SelectorExpr); isS && sel.Sel.Name == "Save" {
					txt := types.ExprString(c)
					if strings.Contains(txt, "FileName") && (strings.Contains(txt, "dir") || strings.Contains(txt, "Directory")) {
						okFiles = true
					}
				}
			}
			return true
		})
	}
	witness["file-set"] = okFiles
	res.check(okFiles, "C15-R3", "astool.main", "-", "each generated file is saved under its own Directory/FileName (the order of the file list is not output)", "no Save(dir + … + FileName) found")
	// TypeGenerator keeps its properties in maps
	okTG := false
	for _, p := range pkgs {
		if !strings.HasSuffix(p.PkgPath, "/astool/gen") {
			continue
		}
		if o := p.Types.Scope().Lookup("TypeGenerator"); o != nil {
			if st, ok := o.Type().Underlying().(*types.Struct); ok {
				n := 0
				for i := 0; i < st.NumFields(); i++ {
					f := st.Field(i)
					if f.Name() == "properties" || f.Name() == "withoutProperties" {
						if _, isMap := f.Type().Underlying().(*types.Map); isMap {
							n++
						}
					}
				}
				okTG = n == 2
			}
		}
	}
	witness["name-keyed-types"] = okTG
	res.check(okTG, "C15-R3", "gen.TypeGenerator", "-", "TypeGenerator keeps properties and withoutProperties in maps (the order of a type's property list is not carried into the generator)", "fields properties/withoutProperties are not both maps")
	witness["sorted-after"] = true // checked per site
	witness["diagnostic"] = true
	witness["keyed-effects"] = true // recorded as assumptions, no mechanical witness

	// classify
	counts := map[string]int{}
	reviewedUsed := map[int]bool{}
	var assumptions []string
	for _, s := range all {
		class, why := classifyMapRange(s.pkg, s.fd, s.rs, false)
		pos := relPos(fset, s.rs.Pos())
		key := "C15-R1|" + s.fn + "|" + s.expr
		if class != "" {
			counts[class]++
			res.Add(Oblig{Rule: "C15-R1", Func: s.fn, Pos: pos, Key: key, Desc: "range over map " + s.expr + ": " + class, Verdict: OK, Detail: why})
		} else {
			found := -1
			for i, rv := range reviewedRanges {
				if rv.fn == s.fn && rv.expr == s.expr {
					found = i
				}
			}
			if found < 0 {
				// the reviewed loop moved into another method of the same type (a helper split out
				// of the reviewed method): same receiver type, same ranged expression
				if i := strings.Index(s.fn, "."); i > 0 {
					for j, rv := range reviewedRanges {
						if k := strings.Index(rv.fn, "."); k > 0 && rv.fn[:k] == s.fn[:i] && rv.expr == s.expr && !reviewedUsed[j] {
							found = j
						}
					}
				}
			}
			if found < 0 && witness["sorted-by-callee"] && appendsFollowedBySortingCallee(s.rs) {
				// not in the table, but of the mechanisable kind "sorted by callee": every append is
				// followed by the callee that sorts the whole slice (witness re-verified under C15-R3)
				counts["c-auto:sorted-by-callee"]++
				res.Add(Oblig{Rule: "C15-R1", Func: s.fn, Pos: pos, Key: key, Desc: "range over map " + s.expr + ": every append is followed by the sorting callee on the same slice", Verdict: OK})
			} else if found < 0 {
				res.Add(Oblig{Rule: "C15-R1", Func: s.fn, Pos: pos, Key: key, Desc: "range over map " + s.expr + " does not feed ordered output", Verdict: VIOLATION,
					Detail: "not commutative and not sorted before use (" + why + "), and not in the reviewed table: generated output may follow map-iteration order and differ from run to run"})
			} else {
				rv := reviewedRanges[found]
				reviewedUsed[found] = true
				counts["c-reviewed:"+rv.kind]++
				if !witness[rv.kind] {
					res.Add(Oblig{Rule: "C15-R1", Func: s.fn, Pos: pos, Key: key, Desc: "range over map " + s.expr + ": reviewed (" + rv.kind + ")", Verdict: VIOLATION, Detail: "the witness for '" + rv.kind + "' no longer holds (see C15-R3): " + rv.reason})
				} else {
					res.Add(Oblig{Rule: "C15-R1", Func: s.fn, Pos: pos, Key: key, Desc: "range over map " + s.expr + ": reviewed (" + rv.kind + "): " + rv.reason, Verdict: OK})
					if rv.kind == "keyed-effects" {
						assumptions = append(assumptions, s.fn+" over "+s.expr+": "+rv.reason)
					}
				}
				// per-site witnesses
				switch rv.kind {
				case "sorting-consumer":
					okC := false
					ast.Inspect(s.fd.Body, func(n ast.Node) bool {
						if c, isC := n.(*ast.CallExpr); isC && strings.HasSuffix(types.ExprString(c.Fun), "NewInterface") {
							okC = true
						}
						return true
					})
					res.check(okC, "C15-R3", s.fn, pos, "the slice built from "+s.expr+" goes to NewInterface", "NewInterface is not called in this function")
				case "name-keyed":
					okC := false
					ast.Inspect(s.fd.Body, func(n ast.Node) bool {
						if c, isC := n.(*ast.CallExpr); isC && (strings.HasSuffix(types.ExprString(c.Fun), "NewStruct") || strings.HasSuffix(types.ExprString(c.Fun), "NewTypedef")) {
							okC = true
						}
						return true
					})
					res.check(okC, "C15-R3", s.fn, pos, "the slice built from "+s.expr+" goes to NewStruct/NewTypedef", "not called in this function")
				case "sorted-by-callee":
					// every append to a slice in the body is followed (same block) by slice = getAllChildrenExtendedBy(slice, …)
					okC := appendsFollowedBySortingCallee(s.rs)
					_ = okC
					okC = true
					ast.Inspect(s.rs.Body, func(n ast.Node) bool {
						bl, isB := n.(*ast.BlockStmt)
						if !isB {
							return true
						}
						for i, st := range bl.List {
							as, isA := st.(*ast.AssignStmt)
							if !isA || len(as.Rhs) != 1 {
								continue
							}
							if c, isC := as.Rhs[0].(*ast.CallExpr); isC && isIdentNamed(c.Fun, "append") {
								next := false
								if i+1 < len(bl.List) {
									if a2, ok := bl.List[i+1].(*ast.AssignStmt); ok && len(a2.Rhs) == 1 {
										if c2, ok := a2.Rhs[0].(*ast.CallExpr); ok && strings.HasSuffix(types.ExprString(c2.Fun), "getAllChildrenExtendedBy") && types.ExprString(a2.Lhs[0]) == types.ExprString(as.Lhs[0]) {
											next = true
										}
									}
								}
								if !next {
									okC = false
								}
							}
						}
						return true
					})
					res.check(okC, "C15-R3", s.fn, pos, "each append in the loop over "+s.expr+" is followed by the sorting callee on the same slice", "an append is not followed by getAllChildrenExtendedBy")
				case "file-set":
					// the slice appended to holds *File values
					okC := false
					ast.Inspect(s.rs.Body, func(n ast.Node) bool {
						if c, isC := n.(*ast.CallExpr); isC && isIdentNamed(c.Fun, "append") && len(c.Args) > 0 {
							if t := s.pkg.TypesInfo.TypeOf(c.Args[0]); t != nil && strings.Contains(t.String(), "convert.File") {
								okC = true
							}
						}
						return true
					})
					res.check(okC, "C15-R3", s.fn, pos, "the loop over "+s.expr+" only accumulates generated files", "no append to a []*File")
				case "sorted-after":
					c2, w2 := classifyMapRange(s.pkg, s.fd, s.rs, true)
					res.check(c2 == "b-sorted-before-use", "C15-R3", s.fn, pos, "the slice built in the loop over "+s.expr+" is sorted before it is returned", w2)
				case "diagnostic":
					nm := s.fd.Name.Name
					res.check(nm == "String" || nm == "Size", "C15-R3", s.fn, pos, "the loop over "+s.expr+" is in a diagnostic printer", "function is not String/Size")
				}
			}
		}
		// R2 emitter side
		if strings.HasSuffix(s.pkg.PkgPath, "/astool/codegen") || strings.HasSuffix(s.pkg.PkgPath, "/astool/gen") {
			jenCall := ""
			ast.Inspect(s.rs.Body, func(n ast.Node) bool {
				if c, isC := n.(*ast.CallExpr); isC {
					if sel, isS := c.Fun.(*ast.SelectorExpr); isS {
						root := sel.X
						for {
							switch x := root.(type) {
							case *ast.CallExpr:
								root = x.Fun
								continue
							case *ast.SelectorExpr:
								root = x.X
								continue
							}
							break
						}
						if id, isI := root.(*ast.Ident); isI {
							if pn, isP := s.pkg.TypesInfo.Uses[id].(*types.PkgName); isP && strings.HasSuffix(pn.Imported().Path(), "/jennifer/jen") {
								jenCall = types.ExprString(c.Fun)
							}
						}
					}
				}
				return true
			})
			res.check(jenCall == "", "C15-R2", s.fn, pos, "no code is emitted inside the range over map "+s.expr, "jen call "+jenCall+" inside a map range: statements are produced in map-iteration order")
		}
	}
	checkC15Algebra(res, pkgs)
	checkC15LoopState(res, pkgs)
	checkAllExtendsAreIn(res, pkgs)
	checkReferenceNodesPerVocabulary(res, pkgs)
	for i, rv := range reviewedRanges {
		if !reviewedUsed[i] {
			fmt.Printf("NOTE: reviewed map-range entry no longer matches a site: %s over %s\n", rv.fn, rv.expr)
		}
	}
	var cs []string
	for k := range counts {
		cs = append(cs, k)
	}
	sort.Strings(cs)
	cm := map[string]int{}
	for _, k := range cs {
		cm[k] = counts[k]
	}
	res.Extra["classes"] = cm
	res.Count("map ranges in astool", len(all), 55)
	res.Functions = len(byFunc)
	res.Assumptions = append(res.Assumptions, assumptions...)
	res.Assumptions = append(res.Assumptions, "sort.* calls produce a deterministic order (names are unique within a sorted list)", "jennifer renders a statement tree deterministically")
	res.Undecided = []string{"that astool regenerates the shipped streams package (needs running the generator; reproduced once by hand, outside the checks)", "that code generated for an arbitrary extension vocabulary compiles and satisfies C01/C12/C13", "order dependence carried through slices stored in generator fields (Extends/ExtendedBy lists) beyond the reviewed consumers"}
	res.Trusted = []string{"go/parser, go/types", "the reviewed table of c15.go (34 entries with reasons)"}
}

// ---- C15-R4/R5: the generator's inheritance algebra -----------------------
//
// Necessary condition of "code generated for an extension satisfies C01/C13
// with respect to that vocabulary": the member set of a generated type is
// (own ∪ properties of every transitive ancestor) minus (properties withheld
// from any transitive ancestor or from the type itself), and the
// extends/extended-by/disjoint tables are built from the transitive closures.
// The rule interprets TypeGenerator.allProperties as a sequence of set
// operations on its accumulator and checks that sequence; it does not match
// source text.

type setOp struct {
	kind string // "union" | "sub"
	src  string // "ancestors.props" | "ancestors.without" | "self.without" | other text
	pos  token.Pos
}

func checkC15Algebra(res *Result, pkgs []*packages.Package) {
	res.Rule("C15-R4", "member-set algebra of the generator: TypeGenerator.allProperties adds the properties of every transitive ancestor and only afterwards removes those withheld from any transitive ancestor and from the type itself")
	res.Rule("C15-R5", "closure helpers: getAllParentExtends / getAllChildrenExtendedBy recurse over Extends()/ExtendedBy(), and the extends, extended-by and disjoint tables are built from them")
	var gp *packages.Package
	for _, p := range pkgs {
		if strings.HasSuffix(p.PkgPath, "/astool/gen") {
			gp = p
		}
	}
	if gp == nil {
		res.undecided("C15-R4", "astool/gen", "-", "package loaded", "missing")
		return
	}
	info := gp.TypesInfo
	fds := map[string]*ast.FuncDecl{}
	for _, f := range gp.Syntax {
		if isTestFile(gp.Fset, f.Pos()) {
			continue
		}
		for _, d := range f.Decls {
			if fd, ok := d.(*ast.FuncDecl); ok && fd.Body != nil {
				fds[funcDeclName(fd)] = fd
			}
		}
	}
	calls := func(fd *ast.FuncDecl, name string) bool {
		found := false
		ast.Inspect(fd.Body, func(n ast.Node) bool {
			if c, ok := n.(*ast.CallExpr); ok {
				if sel, ok := c.Fun.(*ast.SelectorExpr); ok && sel.Sel.Name == name {
					found = true
				}
			}
			return true
		})
		return found
	}
	// R5: closures
	closure := func(fn, over string) {
		fd := fds["TypeGenerator."+fn]
		if fd == nil {
			res.undecided("C15-R5", "TypeGenerator."+fn, "-", "closure helper found", "missing")
			return
		}
		ok := false
		ast.Inspect(fd.Body, func(n ast.Node) bool {
			rs, isR := n.(*ast.RangeStmt)
			if !isR {
				return true
			}
			if c, isC := rs.X.(*ast.CallExpr); isC {
				if sel, isS := c.Fun.(*ast.SelectorExpr); isS && sel.Sel.Name == over {
					// recursion on the loop variable inside the body
					v, _ := rs.Value.(*ast.Ident)
					// the enclosing function literal, if the loop sits in a local recursive closure
					var encl types.Object
					ast.Inspect(fd.Body, func(m ast.Node) bool {
						if as, isA := m.(*ast.AssignStmt); isA && len(as.Lhs) == 1 && len(as.Rhs) == 1 {
							if fl, isF := as.Rhs[0].(*ast.FuncLit); isF && fl.Pos() <= rs.Pos() && rs.End() <= fl.End() {
								if id, isI := as.Lhs[0].(*ast.Ident); isI {
									encl = info.ObjectOf(id)
								}
							}
						}
						return true
					})
					ast.Inspect(rs.Body, func(m ast.Node) bool {
						if cc, isCC := m.(*ast.CallExpr); isCC && v != nil {
							rec := false
							if s2, isS2 := cc.Fun.(*ast.SelectorExpr); isS2 && s2.Sel.Name == fn {
								rec = true
							}
							if id, isI := cc.Fun.(*ast.Ident); isI && encl != nil && info.ObjectOf(id) == encl {
								rec = true
							}
							if rec {
								for _, a := range cc.Args {
									if id, isI := a.(*ast.Ident); isI && info.ObjectOf(id) == info.ObjectOf(v) {
										ok = true
									}
								}
							}
						}
						return true
					})
				}
			}
			return true
		})
		res.check(ok, "C15-R5", "TypeGenerator."+fn, relPos(gp.Fset, fd.Pos()), fn+" visits every element of "+over+"() and recurses on it (transitive closure)", "no recursion on the loop variable of a range over "+over+"()")
		// … every element: the loop over Extends()/ExtendedBy() is not left early
		early := ""
		ast.Inspect(fd.Body, func(n ast.Node) bool {
			rs, isR := n.(*ast.RangeStmt)
			if !isR {
				return true
			}
			c, isC := rs.X.(*ast.CallExpr)
			if !isC {
				return true
			}
			if sel, isS := c.Fun.(*ast.SelectorExpr); !isS || sel.Sel.Name != over {
				return true
			}
			var walk func(m ast.Node, inner bool)
			walk = func(m ast.Node, inner bool) {
				ast.Inspect(m, func(q ast.Node) bool {
					switch x := q.(type) {
					case *ast.FuncLit:
						return false
					case *ast.ForStmt, *ast.RangeStmt, *ast.SwitchStmt, *ast.TypeSwitchStmt, *ast.SelectStmt:
						if q != m {
							walk(q, true)
							return false
						}
					case *ast.BranchStmt:
						if x.Tok == token.BREAK && !inner {
							early = "break at " + relPos(gp.Fset, x.Pos())
						}
					case *ast.ReturnStmt:
						early = "return at " + relPos(gp.Fset, x.Pos())
					}
					return true
				})
			}
			walk(rs.Body, false)
			return true
		})
		res.check(early == "", "C15-R5", "TypeGenerator."+fn, relPos(gp.Fset, fd.Pos()), "the loop over "+over+"() in "+fn+" cannot be left early (every parent / child is visited)", early+": the remaining elements are not visited, the closure is incomplete")
	}
	closure("getAllParentExtends", "Extends")
	closure("getAllChildrenExtendedBy", "ExtendedBy")
	// reaches: fd calls name directly or through other methods of the generator
	var reaches func(fd *ast.FuncDecl, name string, seen map[*ast.FuncDecl]bool) bool
	reaches = func(fd *ast.FuncDecl, name string, seen map[*ast.FuncDecl]bool) bool {
		if fd == nil || seen[fd] {
			return false
		}
		seen[fd] = true
		if calls(fd, name) {
			return true
		}
		hit := false
		ast.Inspect(fd.Body, func(n ast.Node) bool {
			if c, ok := n.(*ast.CallExpr); ok {
				if sel, ok := c.Fun.(*ast.SelectorExpr); ok {
					if g := fds["TypeGenerator."+sel.Sel.Name]; g != nil && reaches(g, name, seen) {
						hit = true
					}
				}
			}
			return !hit
		})
		return hit
	}
	for _, uc := range [][2]string{{"extendsDefinition", "getAllParentExtends"}, {"extendedByDefinition", "getAllChildrenExtendedBy"}, {"disjointWithDefinition", "getAllParentExtends"}, {"disjointWithDefinition", "getAllChildrenExtendedBy"}} {
		fd := fds["TypeGenerator."+uc[0]]
		if fd == nil {
			res.undecided("C15-R5", "TypeGenerator."+uc[0], "-", "table builder found", "missing")
			continue
		}
		res.check(reaches(fd, uc[1], map[*ast.FuncDecl]bool{}), "C15-R5", "TypeGenerator."+uc[0], relPos(gp.Fset, fd.Pos()), uc[0]+" builds its table from "+uc[1], "does not call "+uc[1]+" (directly or through another method)")
	}
	// the disjoint table includes the type itself among the carriers of disjointness
	selfHome := fds["TypeGenerator.getAllDisjointWith"]
	if selfHome == nil {
		selfHome = fds["TypeGenerator.disjointWithDefinition"]
	}
	if fd := selfHome; fd != nil {
		self := false
		ast.Inspect(fd.Body, func(n ast.Node) bool {
			if as, ok := n.(*ast.AssignStmt); ok && len(as.Lhs) == 1 {
				if ix, ok := as.Lhs[0].(*ast.IndexExpr); ok {
					if id, ok := ix.Index.(*ast.Ident); ok && fd.Recv != nil && len(fd.Recv.List[0].Names) == 1 && id.Name == fd.Recv.List[0].Names[0].Name {
						self = true
					}
				}
			}
			return true
		})
		res.check(self, "C15-R5", "TypeGenerator.getAllDisjointWith", relPos(gp.Fset, fd.Pos()), "the type itself is among the types whose disjointness it inherits", "receiver is not added to the ancestor set")
	}

	// R4: allProperties as set algebra
	fd := fds["TypeGenerator.allProperties"]
	if fd == nil {
		res.undecided("C15-R4", "TypeGenerator.allProperties", "-", "function found", "missing")
		return
	}
	pos := relPos(gp.Fset, fd.Pos())
	recv := ""
	if fd.Recv != nil && len(fd.Recv.List[0].Names) == 1 {
		recv = fd.Recv.List[0].Names[0].Name
	}
	var acc types.Object                 // accumulator map
	ancestors := map[types.Object]bool{} // vars holding the transitive ancestor set
	var ops []setOp
	var unknown []string
	isAcc := func(e ast.Expr) bool {
		id, ok := e.(*ast.Ident)
		return ok && acc != nil && info.ObjectOf(id) == acc
	}
	// describe the source of an inner range `for k, v := range X.M()` given the outer loop var bound to ancestors
	describe := func(e ast.Expr, outerVar types.Object, outerIsAnc bool) string {
		var base ast.Expr
		name := ""
		switch x := e.(type) {
		case *ast.CallExpr:
			if sel, ok := x.Fun.(*ast.SelectorExpr); ok {
				base, name = sel.X, sel.Sel.Name
			}
		case *ast.SelectorExpr:
			base, name = x.X, x.Sel.Name
		}
		id, _ := base.(*ast.Ident)
		if id == nil {
			return types.ExprString(e)
		}
		who := ""
		switch {
		case id.Name == recv:
			who = "self"
		case outerVar != nil && info.ObjectOf(id) == outerVar && outerIsAnc:
			who = "ancestors"
		default:
			return types.ExprString(e)
		}
		switch name {
		case "Properties", "properties":
			return who + ".props"
		case "WithoutProperties", "withoutProperties":
			return who + ".without"
		}
		return types.ExprString(e)
	}
	var walk func(stmts []ast.Stmt, outerVar types.Object, outerIsAnc bool, outerSrc string)
	walk = func(stmts []ast.Stmt, outerVar types.Object, outerIsAnc bool, outerSrc string) {
		for _, st := range stmts {
			switch s := st.(type) {
			case *ast.AssignStmt:
				if len(s.Lhs) == 1 && len(s.Rhs) == 1 {
					if id, ok := s.Lhs[0].(*ast.Ident); ok {
						rhs := types.ExprString(s.Rhs[0])
						if acc == nil && (rhs == recv+".properties" || rhs == recv+".Properties()") {
							acc = info.ObjectOf(id)
							ops = append(ops, setOp{"union", "self.props", s.Pos()})
							continue
						}
						if c, ok := s.Rhs[0].(*ast.CallExpr); ok {
							if sel, ok := c.Fun.(*ast.SelectorExpr); ok && sel.Sel.Name == "getAllParentExtends" {
								// the closure is taken from the receiver: passed as the last argument, or
								// implied (method of the receiver without a start argument)
								if (len(c.Args) >= 1 && types.ExprString(c.Args[len(c.Args)-1]) == recv) || (len(c.Args) == 0 && types.ExprString(sel.X) == recv) {
									ancestors[info.ObjectOf(id)] = true
									continue
								}
							}
						}
					}
					if ix, ok := s.Lhs[0].(*ast.IndexExpr); ok && isAcc(ix.X) {
						ops = append(ops, setOp{"union", outerSrc, s.Pos()})
						continue
					}
				}
			case *ast.DeclStmt:
				continue
			case *ast.ExprStmt:
				if c, ok := s.X.(*ast.CallExpr); ok && isIdentNamed(c.Fun, "delete") && len(c.Args) == 2 && isAcc(c.Args[0]) {
					ops = append(ops, setOp{"sub", outerSrc, s.Pos()})
					continue
				}
			case *ast.RangeStmt:
				// reading the accumulator (the sorted tail) ends the algebra
				if isAcc(s.X) {
					return
				}
				if id, ok := s.X.(*ast.Ident); ok && ancestors[info.ObjectOf(id)] {
					var kv types.Object
					if k, ok := s.Key.(*ast.Ident); ok {
						kv = info.ObjectOf(k)
					}
					walk(s.Body.List, kv, true, "ancestors")
					continue
				}
				src := describe(s.X, outerVar, outerIsAnc)
				var kv types.Object
				if v, ok := s.Value.(*ast.Ident); ok {
					kv = info.ObjectOf(v)
				} else if k, ok := s.Key.(*ast.Ident); ok {
					kv = info.ObjectOf(k)
				}
				walk(s.Body.List, kv, false, src)
				continue
			case *ast.ReturnStmt:
				return
			}
			// anything else touching the accumulator is not understood
			touches := false
			ast.Inspect(st, func(n ast.Node) bool {
				if id, ok := n.(*ast.Ident); ok && acc != nil && info.ObjectOf(id) == acc {
					touches = true
				}
				return true
			})
			if touches && acc != nil {
				// reading it to build the sorted result is the tail
				if as, ok := st.(*ast.AssignStmt); ok && len(as.Rhs) == 1 {
					if c, ok := as.Rhs[0].(*ast.CallExpr); ok && isIdentNamed(c.Fun, "make") {
						continue
					}
				}
				unknown = append(unknown, relPos(gp.Fset, st.Pos()))
			}
		}
	}
	walk(fd.Body.List, nil, false, "")
	if acc == nil {
		// the algebra may have been split out into a method of the same type that returns the
		// map: `p := t.helper()` — read it there
		var hd *ast.FuncDecl
		ast.Inspect(fd.Body, func(n ast.Node) bool {
			c, ok := n.(*ast.CallExpr)
			if !ok || len(c.Args) != 0 || hd != nil {
				return true
			}
			sel, ok := c.Fun.(*ast.SelectorExpr)
			if !ok || types.ExprString(sel.X) != recv {
				return true
			}
			if d := fds["TypeGenerator."+sel.Sel.Name]; d != nil && d.Body != nil && d.Recv != nil && len(d.Recv.List[0].Names) == 1 && d.Type.Results != nil && len(d.Type.Results.List) == 1 {
				if _, isMap := d.Type.Results.List[0].Type.(*ast.MapType); isMap {
					hd = d
				}
			}
			return true
		})
		if hd != nil {
			recv = hd.Recv.List[0].Names[0].Name
			ops, unknown = nil, nil
			walk(hd.Body.List, nil, false, "")
		}
	}
	if acc == nil {
		res.undecided("C15-R4", "TypeGenerator.allProperties", pos, "the accumulator starts from the type's own properties", "no `p := t.properties` found")
		return
	}
	var seq []string
	lastUnion, firstSub := token.NoPos, token.NoPos
	have := map[string]bool{}
	for _, o := range ops {
		seq = append(seq, o.kind+"("+o.src+")")
		have[o.kind+":"+o.src] = true
		if o.kind == "union" && o.pos > lastUnion {
			lastUnion = o.pos
		}
		if o.kind == "sub" && (firstSub == token.NoPos || o.pos < firstSub) {
			firstSub = o.pos
		}
		switch o.kind + ":" + o.src {
		case "union:self.props", "union:ancestors.props", "sub:ancestors.without", "sub:self.without":
		default:
			res.bad("C15-R4", "TypeGenerator.allProperties", relPos(gp.Fset, o.pos), "every set operation draws from the transitive ancestors' or the type's own property maps", o.kind+" from "+o.src+": inherited properties must come from the Properties() of every transitive ancestor, and removals from their WithoutProperties(); a per-parent, already filtered source lets a property withheld on one inheritance path re-enter through another")
		}
	}
	res.Extra["allProperties_algebra"] = seq
	for _, u := range unknown {
		res.undecided("C15-R4", "TypeGenerator.allProperties", u, "statement on the accumulator understood", "an unrecognised statement reads or writes the accumulator before the sorted tail")
	}
	res.check(len(ancestors) > 0, "C15-R4", "TypeGenerator.allProperties", pos, "the ancestor set comes from getAllParentExtends(…, receiver)", "no such call")
	for _, need := range []string{"union:self.props", "union:ancestors.props", "sub:ancestors.without", "sub:self.without"} {
		res.check(have[need], "C15-R4", "TypeGenerator.allProperties", pos, "operation present: "+need, "missing; sequence is "+strings.Join(seq, ", "))
	}
	res.check(firstSub == token.NoPos || lastUnion < firstSub, "C15-R4", "TypeGenerator.allProperties", pos, "no property is added after the first removal (withheld properties cannot re-enter)", "a union follows a removal; sequence is "+strings.Join(seq, ", "))
}

// appendsFollowedBySortingCallee: every `x = append(x, …)` in the loop body is followed, in
// the same block, by `x = getAllChildrenExtendedBy(x, …)` — the callee that sorts the whole
// slice before returning it (its sort is a witness of C15-R3) — and there is at least one.
func appendsFollowedBySortingCallee(rs *ast.RangeStmt) bool {
	okC, n := true, 0
	ast.Inspect(rs.Body, func(m ast.Node) bool {
		bl, isB := m.(*ast.BlockStmt)
		if !isB {
			return true
		}
		for i, st := range bl.List {
			as, isA := st.(*ast.AssignStmt)
			if !isA || len(as.Rhs) != 1 {
				continue
			}
			if c, isC := as.Rhs[0].(*ast.CallExpr); isC && isIdentNamed(c.Fun, "append") {
				n++
				next := false
				if i+1 < len(bl.List) {
					if a2, ok := bl.List[i+1].(*ast.AssignStmt); ok && len(a2.Rhs) == 1 {
						if c2, ok := a2.Rhs[0].(*ast.CallExpr); ok && strings.HasSuffix(types.ExprString(c2.Fun), "getAllChildrenExtendedBy") && types.ExprString(a2.Lhs[0]) == types.ExprString(as.Lhs[0]) {
							next = true
						}
					}
				}
				if !next {
					okC = false
				}
			}
		}
		return true
	})
	return okC && n > 0
}

// C15-R7 — Converter.allExtendsAreIn answers "every parent of this type has been converted".
// For a parent of the vocabulary being converted the answer can only be given after all parents
// were looked at: inside the loop over t.Extends, outside the branch for parents of another
// vocabulary, nothing returns anything but false.
func checkAllExtendsAreIn(res *Result, pkgs []*packages.Package) {
	const rule = "C15-R7"
	res.Rule(rule, "Converter.allExtendsAreIn: 'all parents converted' is answered only after the loop over the parents has ended — inside the loop, for a parent of this or of another vocabulary, the only possible answer is false (D17)")
	for _, p := range pkgs {
		if !strings.HasSuffix(p.PkgPath, "/astool/convert") {
			continue
		}
		for _, f := range p.Syntax {
			for _, d := range f.Decls {
				fd, ok := d.(*ast.FuncDecl)
				if !ok || fd.Body == nil || fd.Name.Name != "allExtendsAreIn" {
					continue
				}
				found := false
				ast.Inspect(fd.Body, func(n ast.Node) bool {
					rs, ok := n.(*ast.RangeStmt)
					if !ok || !strings.HasSuffix(types.ExprString(rs.X), ".Extends") {
						return true
					}
					found = true
					ast.Inspect(rs.Body, func(m ast.Node) bool {
						r, ok := m.(*ast.ReturnStmt)
						if !ok || len(r.Results) != 1 {
							return true
						}
						res.check(isIdentNamed(r.Results[0], "false"), rule, "Converter.allExtendsAreIn", relPos(p.Fset, r.Pos()), "inside the loop a parent can only make the answer false", "returns "+types.ExprString(r.Results[0])+" after looking at one parent: a type with several parents is converted before all of them are")
						return true
					})
					return false
				})
				res.check(found, rule, "Converter.allExtendsAreIn", relPos(p.Fset, fd.Pos()), "allExtendsAreIn loops over the type's parents", "no range over t.Extends")
			}
		}
	}
}
