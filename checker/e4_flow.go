package main

// E4 — intra-procedural value-flow graph over SSA with call summaries.
//
// Nodes are SSA values. An edge a → b means data of a may flow into b.
// Calls are summarised: receiver and every argument flow to every result;
// for mutator methods (Append*/Prepend*/Set*/Insert*/Add*) the arguments also
// flow into the receiver. Stores and map updates taint the container and every
// enclosing container (field- and index-insensitive). The graph
// over-approximates: absence of a path is a proof that data cannot get there;
// presence of a path is necessary for data to get there.

import (
	"go/token"
	"go/types"
	"strings"

	"golang.org/x/tools/go/ssa"
)

type FlowGraph struct {
	fn   *ssa.Function
	succ map[ssa.Value][]ssa.Value
	pred map[ssa.Value][]ssa.Value
}

var flowCache = map[*ssa.Function]*FlowGraph{}
var flowBuilding = map[*ssa.Function]bool{}

func (g *FlowGraph) edge(a, b ssa.Value) {
	if a == nil || b == nil || a == b {
		return
	}
	if _, ok := a.(*ssa.Const); ok {
		return
	}
	g.succ[a] = append(g.succ[a], b)
	g.pred[b] = append(g.pred[b], a)
}

// containers returns v and every enclosing container reached by walking up
// through loads, element/field addresses and slices.
func containers(v ssa.Value) []ssa.Value {
	var out []ssa.Value
	seen := map[ssa.Value]bool{}
	for v != nil && !seen[v] {
		seen[v] = true
		out = append(out, v)
		switch x := v.(type) {
		case *ssa.UnOp:
			if x.Op == token.MUL {
				v = x.X
				continue
			}
		case *ssa.IndexAddr:
			v = x.X
			continue
		case *ssa.FieldAddr:
			v = x.X
			continue
		case *ssa.Index:
			v = x.X
			continue
		case *ssa.Field:
			v = x.X
			continue
		case *ssa.Slice:
			v = x.X
			continue
		}
		break
	}
	return out
}

func isMutatorMethod(name string) bool {
	return hasPrefixAny(name, "Append", "Prepend", "Set", "Insert", "Add") || name == "Write" || name == "WriteString"
}

func flowOf(fn *ssa.Function) *FlowGraph {
	if g, ok := flowCache[fn]; ok {
		return g
	}
	g := &FlowGraph{fn: fn, succ: map[ssa.Value][]ssa.Value{}, pred: map[ssa.Value][]ssa.Value{}}
	flowCache[fn] = g
	flowBuilding[fn] = true
	defer delete(flowBuilding, fn)
	for _, b := range fn.Blocks {
		for _, ins := range b.Instrs {
			switch x := ins.(type) {
			case *ssa.Phi:
				for _, e := range x.Edges {
					g.edge(e, x)
				}
			case *ssa.Extract:
				g.edge(x.Tuple, x)
			case *ssa.ChangeType:
				g.edge(x.X, x)
			case *ssa.Convert:
				g.edge(x.X, x)
			case *ssa.MakeInterface:
				g.edge(x.X, x)
			case *ssa.ChangeInterface:
				g.edge(x.X, x)
			case *ssa.TypeAssert:
				g.edge(x.X, x)
			case *ssa.UnOp:
				g.edge(x.X, x)
			case *ssa.BinOp:
				g.edge(x.X, x)
				g.edge(x.Y, x)
			case *ssa.Slice:
				g.edge(x.X, x)
			case *ssa.Index:
				g.edge(x.X, x)
			case *ssa.IndexAddr:
				g.edge(x.X, x)
			case *ssa.Lookup:
				g.edge(x.X, x)
			case *ssa.Field:
				g.edge(x.X, x)
			case *ssa.FieldAddr:
				g.edge(x.X, x)
			case *ssa.Range:
				g.edge(x.X, x)
			case *ssa.Next:
				g.edge(x.Iter, x)
			case *ssa.Store:
				for _, c := range containers(x.Addr) {
					g.edge(x.Val, c)
				}
			case *ssa.MapUpdate:
				for _, c := range containers(x.Map) {
					g.edge(x.Value, c)
					g.edge(x.Key, c)
				}
			case *ssa.MakeClosure:
				for _, bnd := range x.Bindings {
					g.edge(bnd, x)
				}
			case *ssa.Send:
				g.edge(x.X, x.Chan)
			case ssa.CallInstruction:
				cc := x.Common()
				res, _ := ins.(ssa.Value)
				if sum := flowSummaryOf(cc.StaticCallee(), fn); sum != nil {
					g.applySummary(sum, cc, res)
					continue
				}
				var ins_ []ssa.Value
				if cc.IsInvoke() {
					ins_ = append(ins_, cc.Value)
				} else if _, isB := cc.Value.(*ssa.Builtin); !isB {
					if _, isF := cc.Value.(*ssa.Function); !isF {
						ins_ = append(ins_, cc.Value) // closure / func value: captured data may flow out
					}
				}
				ins_ = append(ins_, cc.Args...)
				if res != nil {
					for _, a := range ins_ {
						g.edge(a, res)
					}
				}
				// mutation of the receiver / first argument
				mname := ""
				if cc.IsInvoke() {
					mname = cc.Method.Name()
				} else if f := cc.StaticCallee(); f != nil && f.Signature.Recv() != nil {
					mname = f.Name()
				}
				if mname != "" && isMutatorMethod(mname) {
					var recv ssa.Value
					args := cc.Args
					if cc.IsInvoke() {
						recv = cc.Value
					} else if len(args) > 0 {
						recv, args = args[0], args[1:]
					}
					for _, a := range args {
						for _, c := range containers(recv) {
							g.edge(a, c)
						}
					}
				}
				if bi, ok := cc.Value.(*ssa.Builtin); ok && bi.Name() == "copy" && len(cc.Args) == 2 {
					for _, c := range containers(cc.Args[0]) {
						g.edge(cc.Args[1], c)
					}
				}
			}
		}
	}
	return g
}

// backward returns every value from which data may flow into v (v included).
func (g *FlowGraph) backward(v ssa.Value) map[ssa.Value]bool {
	seen := map[ssa.Value]bool{v: true}
	work := []ssa.Value{v}
	for len(work) > 0 {
		x := work[0]
		work = work[1:]
		for _, p := range g.pred[x] {
			if !seen[p] {
				seen[p] = true
				work = append(work, p)
			}
		}
	}
	return seen
}

// forward returns every value into which data of v may flow (v included),
// never passing through a value in `cut`.
func (g *FlowGraph) forward(v ssa.Value, cut map[ssa.Value]bool) map[ssa.Value]bool {
	seen := map[ssa.Value]bool{v: true}
	work := []ssa.Value{v}
	for len(work) > 0 {
		x := work[0]
		work = work[1:]
		for _, s := range g.succ[x] {
			if !seen[s] && !cut[s] {
				seen[s] = true
				work = append(work, s)
			}
		}
	}
	return seen
}

var addressingKinds = []string{"To", "Bto", "Cc", "Bcc", "Audience"}

// addressingKindOf: "To"/"Bto"/... if t is vocab.ActivityStreams<K>Property or
// its iterator type, else "".
func addressingKindOf(t types.Type) string {
	n := namedOf(t)
	if n == nil || n.Obj().Pkg() == nil || !strings.HasSuffix(n.Obj().Pkg().Path(), "/streams/vocab") {
		return ""
	}
	name := n.Obj().Name()
	for _, k := range addressingKinds {
		if name == "ActivityStreams"+k+"Property" || name == "ActivityStreams"+k+"PropertyIterator" {
			return k
		}
	}
	return ""
}

// backwardUntil is backward, but does not look behind values for which stop
// holds (they are included, their sources are not).
func (g *FlowGraph) backwardUntil(v ssa.Value, stop func(ssa.Value) bool) map[ssa.Value]bool {
	seen := map[ssa.Value]bool{v: true}
	work := []ssa.Value{v}
	for len(work) > 0 {
		x := work[0]
		work = work[1:]
		if x != v && stop(x) {
			continue
		}
		for _, p := range g.pred[x] {
			if !seen[p] {
				seen[p] = true
				work = append(work, p)
			}
		}
	}
	return seen
}

func isAddressingValue(x ssa.Value) bool { return addressingKindOf(x.Type()) != "" }

// kindsReaching: the addressing kinds of the nearest property-typed values
// that may flow into v (the properties the value was read from).
func (g *FlowGraph) kindsReaching(v ssa.Value) map[string]bool {
	out := map[string]bool{}
	for x := range g.backwardUntil(v, isAddressingValue) {
		if k := addressingKindOf(x.Type()); k != "" && x != v {
			out[k] = true
		}
	}
	return out
}

// ---- call summaries for functions of the analysed package ------------------
//
// A static call of a function whose body is in package pub is not summarised
// as "every argument flows to every result": the callee's own graph says
// which parameter reaches which result (and which other parameter's
// containers), and which calls inside the callee (transitively) a result may
// derive from. Those inner calls appear as source nodes in the caller's
// graph, so that "this value is the result of Database.X" is answered the same
// whether the Database call sits in the function or in a helper extracted from
// it. Recursive cycles fall back to the coarse summary.

type flowSummary struct {
	nres    int
	p2r     map[int]map[int]bool // parameter index -> result index
	p2p     map[int]map[int]bool // parameter index -> parameter whose containers it flows into
	origins map[int][]ssa.Value  // result index -> call values inside the callee it may derive from
}

var flowSummaries = map[*ssa.Function]*flowSummary{}
var flowSummaryBusy = map[*ssa.Function]bool{}

func flowSummaryOf(f, caller *ssa.Function) *flowSummary {
	if f == nil || caller == nil || f.Blocks == nil || f.Pkg == nil || f.Pkg != caller.Pkg || f == caller || len(f.FreeVars) > 0 || flowBuilding[f] {
		return nil
	}
	if s, ok := flowSummaries[f]; ok {
		return s
	}
	if flowSummaryBusy[f] {
		return nil
	}
	flowSummaryBusy[f] = true
	defer delete(flowSummaryBusy, f)
	g := flowOf(f)
	sum := &flowSummary{nres: f.Signature.Results().Len(), p2r: map[int]map[int]bool{}, p2p: map[int]map[int]bool{}, origins: map[int][]ssa.Value{}}
	rets := returnsIn(f)
	for i, prm := range f.Params {
		fw := g.forward(prm, nil)
		for _, r := range rets {
			for j, op := range r.Results {
				if fw[op] {
					if sum.p2r[i] == nil {
						sum.p2r[i] = map[int]bool{}
					}
					sum.p2r[i][j] = true
				}
			}
		}
		for k, other := range f.Params {
			if k != i && fw[other] {
				if sum.p2p[i] == nil {
					sum.p2p[i] = map[int]bool{}
				}
				sum.p2p[i][k] = true
			}
		}
	}
	for _, r := range rets {
		for j, op := range r.Results {
			seen := map[ssa.Value]bool{}
			for _, o := range sum.origins[j] {
				seen[o] = true
			}
			for v := range g.backward(op) {
				if c, ok := v.(*ssa.Call); ok && !seen[c] {
					// getters on vocabulary values inside a helper are not origins
					// anybody asks about; application interfaces and static calls are
					if c.Common().IsInvoke() {
						if _, isApp := classifyIfaceCall(pubIfaceName(c.Common().Value.Type()), c.Common().Method.Name()); !isApp {
							continue
						}
					}
					seen[c] = true
					sum.origins[j] = append(sum.origins[j], c)
				}
			}
		}
	}
	flowSummaries[f] = sum
	return sum
}

func (g *FlowGraph) applySummary(sum *flowSummary, cc *ssa.CallCommon, res ssa.Value) {
	target := func(j int) []ssa.Value {
		if res == nil {
			return nil
		}
		if sum.nres <= 1 {
			return []ssa.Value{res}
		}
		var out []ssa.Value
		if refs := res.Referrers(); refs != nil {
			for _, r := range *refs {
				if e, ok := r.(*ssa.Extract); ok && e.Index == j {
					out = append(out, e)
				}
			}
		}
		return out
	}
	for i, a := range cc.Args {
		for j := range sum.p2r[i] {
			for _, t := range target(j) {
				g.edge(a, t)
			}
		}
		for k := range sum.p2p[i] {
			if k < len(cc.Args) {
				for _, c := range containers(cc.Args[k]) {
					g.edge(a, c)
				}
			}
		}
	}
	for j, os := range sum.origins {
		for _, o := range os {
			for _, t := range target(j) {
				g.edge(o, t)
			}
		}
	}
}
