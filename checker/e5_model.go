package main

// E5 (continued) — structural models of the generated property and type
// packages, extracted through go/ast + go/types.

import (
	"fmt"
	"go/ast"
	"go/token"
	"go/types"
	"path"
	"sort"
	"strings"
)

// Member is one way an element can hold a value.
type Member struct {
	Field   *types.Var
	Kind    string       // "type" | "literal"
	TypeGen *GenType     // for Kind=="type"
	Iface   *types.Named // vocab interface of the type member
	Lit     string       // for literals: values package base name (string, langString, anyURI, …), filled from the codec used
	HasFlag *types.Var   // has<K>Member flag, if any
}

type PropModel struct {
	G             *GenProp
	Iface         *types.Named // vocab.<…>Property
	Name          string       // propName literal
	VocabURI      string
	Functional    bool
	Elem          *types.Named // struct holding one value
	Container     *types.Named // non-functional: struct holding the slice
	Members       []*Member
	ElemDeser     *ast.FuncDecl // deserialize<…>Iterator, or Deserialize<…>Property for functional
	PropDeser     *ast.FuncDecl // Deserialize<…>Property
	MapKeyRead    string        // "", "conditional", "unconditional": how <name>Map is read
	Problems      []string
	memberByField map[*types.Var]*Member
}

type TypeModel struct {
	G        *GenType
	Fields   map[*types.Var]*PropModel // struct field -> property
	FieldOrd []*types.Var
	Problems []string
}

type GenModel struct {
	S       *Streams
	Props   []*PropModel
	PropOf  map[*types.Named]*PropModel // by vocab interface
	TypeOf  map[*types.Named]*GenType   // by vocab interface
	MgrProp map[*types.Func]*PropModel
	MgrType map[*types.Func]*GenType
	Types   []*TypeModel
}

var genModelCache *GenModel

func fieldsOfStruct(n *types.Named) []*types.Var {
	st, ok := n.Underlying().(*types.Struct)
	if !ok {
		return nil
	}
	var out []*types.Var
	for i := 0; i < st.NumFields(); i++ {
		out = append(out, st.Field(i))
	}
	return out
}

func structHasField(n *types.Named, name string) *types.Var {
	for _, f := range fieldsOfStruct(n) {
		if f.Name() == name {
			return f
		}
	}
	return nil
}

func loadGenModel() *GenModel {
	if genModelCache != nil {
		return genModelCache
	}
	S := loadStreams()
	M := &GenModel{S: S, PropOf: map[*types.Named]*PropModel{}, TypeOf: map[*types.Named]*GenType{}, MgrProp: map[*types.Func]*PropModel{}, MgrType: map[*types.Func]*GenType{}}
	info := S.Root.TypesInfo
	typeByPkg := map[*types.Package]*GenType{}
	for _, g := range S.Types {
		typeByPkg[g.Pkg.Types] = g
	}
	propByPkg := map[*types.Package]*PropModel{}
	for _, gp := range S.Props {
		pm := &PropModel{G: gp, memberByField: map[*types.Var]*Member{}}
		propByPkg[gp.Pkg.Types] = pm
		M.Props = append(M.Props, pm)
	}
	// Manager methods
	for name, fd := range declaredFuncs(S.Root) {
		if !strings.HasPrefix(name, "(Manager).Deserialize") {
			continue
		}
		obj, _ := info.Defs[fd.Name].(*types.Func)
		if obj == nil {
			continue
		}
		sig := obj.Type().(*types.Signature)
		rs, ok := sig.Results().At(0).Type().(*types.Signature)
		if !ok || rs.Results().Len() != 2 {
			continue
		}
		iface, _ := rs.Results().At(0).Type().(*types.Named)
		ast.Inspect(fd.Body, func(n ast.Node) bool {
			c, ok := n.(*ast.CallExpr)
			if !ok {
				return true
			}
			f := calleeFunc(info, c)
			if f == nil || f.Pkg() == nil || !strings.HasPrefix(f.Name(), "Deserialize") {
				return true
			}
			if g := typeByPkg[f.Pkg()]; g != nil && iface != nil {
				M.TypeOf[iface] = g
				M.MgrType[obj] = g
			}
			if pm := propByPkg[f.Pkg()]; pm != nil && iface != nil {
				pm.Iface = iface
				M.PropOf[iface] = pm
				M.MgrProp[obj] = pm
			}
			return true
		})
	}
	for _, pm := range M.Props {
		extractPropModel(M, pm)
	}
	for _, g := range S.Types {
		M.Types = append(M.Types, extractTypeModel(M, g))
	}
	genModelCache = M
	return M
}

// firstStringAssign finds `name := "lit"` in fd.
func firstStringAssign(info *types.Info, fd *ast.FuncDecl, name string) (string, bool) {
	var out string
	found := false
	ast.Inspect(fd.Body, func(n ast.Node) bool {
		as, ok := n.(*ast.AssignStmt)
		if !ok || found || len(as.Lhs) != 1 || len(as.Rhs) != 1 {
			return true
		}
		if id, ok := as.Lhs[0].(*ast.Ident); ok && id.Name == name && as.Tok == token.DEFINE {
			if s, ok := strLit(info, as.Rhs[0]); ok {
				out, found = s, true
			}
		}
		return true
	})
	return out, found
}

func extractPropModel(M *GenModel, pm *PropModel) {
	p := pm.G.Pkg
	info := p.TypesInfo
	scope := p.Types.Scope()
	// structs: the one with `properties` is the container, the one with `unknown` the element
	for _, n := range scope.Names() {
		tn, ok := scope.Lookup(n).(*types.TypeName)
		if !ok {
			continue
		}
		named, ok := tn.Type().(*types.Named)
		if !ok {
			continue
		}
		if _, isStruct := named.Underlying().(*types.Struct); !isStruct {
			continue
		}
		if structHasField(named, "properties") != nil {
			pm.Container = named
		}
		if structHasField(named, "unknown") != nil {
			pm.Elem = named
		}
	}
	if pm.Elem == nil {
		pm.Problems = append(pm.Problems, "no element struct (with an 'unknown' field) found")
		return
	}
	pm.Functional = pm.Container == nil
	// deserialisers
	for name, fd := range pm.G.Funcs {
		if fd.Recv != nil {
			continue
		}
		if strings.HasPrefix(name, "Deserialize") && strings.HasSuffix(name, "Property") {
			pm.PropDeser = fd
		}
		if strings.HasPrefix(name, "deserialize") && strings.HasSuffix(name, "Iterator") {
			pm.ElemDeser = fd
		}
	}
	if pm.PropDeser == nil {
		pm.Problems = append(pm.Problems, "no Deserialize…Property function")
		return
	}
	if pm.Functional {
		pm.ElemDeser = pm.PropDeser
	}
	if pm.ElemDeser == nil {
		pm.Problems = append(pm.Problems, "no element deserialiser")
		return
	}
	pm.Name, _ = firstStringAssign(info, pm.PropDeser, "propName")
	// vocabulary: aliasMap["uri"]
	ast.Inspect(pm.PropDeser.Body, func(n ast.Node) bool {
		if ix, ok := n.(*ast.IndexExpr); ok && isIdentNamed(ix.X, "aliasMap") {
			if u, ok := strLit(info, ix.Index); ok {
				pm.VocabURI = u
			}
		}
		return true
	})
	// <name>Map handling
	ast.Inspect(pm.PropDeser.Body, func(n ast.Node) bool {
		ix, ok := n.(*ast.IndexExpr)
		if !ok || !isIdentNamed(ix.X, "m") {
			return true
		}
		if be, ok := ix.Index.(*ast.BinaryExpr); ok && be.Op == token.ADD {
			if s, ok := strLit(info, be.Y); ok && s == "Map" {
				pm.MapKeyRead = "unconditional"
			}
		}
		return true
	})
	if pm.MapKeyRead != "" {
		// conditional when it sits inside an `if !ok` block
		ast.Inspect(pm.PropDeser.Body, func(n ast.Node) bool {
			ifs, ok := n.(*ast.IfStmt)
			if !ok {
				return true
			}
			if u, ok := ifs.Cond.(*ast.UnaryExpr); ok && u.Op == token.NOT && isIdentNamed(u.X, "ok") {
				ast.Inspect(ifs.Body, func(m ast.Node) bool {
					if ix, ok := m.(*ast.IndexExpr); ok && isIdentNamed(ix.X, "m") {
						if be, ok := ix.Index.(*ast.BinaryExpr); ok && be.Op == token.ADD {
							pm.MapKeyRead = "conditional"
						}
					}
					return true
				})
			}
			return true
		})
	}
	// members
	for _, f := range fieldsOfStruct(pm.Elem) {
		switch f.Name() {
		case "unknown", "iri", "alias", "myIdx", "parent":
			continue
		}
		if strings.HasPrefix(f.Name(), "has") && f.Type().String() == "bool" {
			continue
		}
		m := &Member{Field: f}
		if n, ok := f.Type().(*types.Named); ok {
			if g := M.TypeOf[n]; g != nil {
				m.Kind, m.TypeGen, m.Iface = "type", g, n
			}
		}
		if m.Kind == "" {
			m.Kind = "literal"
		}
		pm.Members = append(pm.Members, m)
		pm.memberByField[f] = m
	}
	// flags: has<K>Member pairs with the literal member whose name ends the same way
	for _, f := range fieldsOfStruct(pm.Elem) {
		if strings.HasPrefix(f.Name(), "has") && f.Type().String() == "bool" {
			suffix := strings.TrimPrefix(f.Name(), "has") // e.g. StringMember
			for _, m := range pm.Members {
				if m.Kind != "literal" || !strings.HasSuffix(m.Field.Name(), suffix) {
					continue
				}
				// the part before the suffix is the (all lower-case) vocabulary prefix:
				// xmlschema+StringMember, but not rdfLang+StringMember
				prefix := strings.TrimSuffix(m.Field.Name(), suffix)
				if prefix == strings.ToLower(prefix) {
					m.HasFlag = f
				}
			}
		}
	}
	// literal kinds from the codec used in the element deserialiser
	for _, cl := range compositesOf(info, pm.ElemDeser, pm.Elem) {
		for _, kv := range cl.lit.Elts {
			k, ok := kv.(*ast.KeyValueExpr)
			if !ok {
				continue
			}
			fv, _ := info.ObjectOf(k.Key.(*ast.Ident)).(*types.Var)
			m := pm.memberByField[fv]
			if m == nil || m.Kind != "literal" {
				continue
			}
			if cl.source != nil {
				if f := calleeFunc(info, cl.source); f != nil && f.Pkg() != nil && strings.Contains(f.Pkg().Path(), "/streams/values/") {
					m.Lit = path.Base(f.Pkg().Path())
				}
			}
		}
	}
}

// compositeSite is a composite literal of the element struct inside a
// function, with the call that produced the value `v` in scope (the init of
// the enclosing if), if any.
type compositeSite struct {
	lit    *ast.CompositeLit
	source *ast.CallExpr
	pos    token.Pos
}

func compositesOf(info *types.Info, fd *ast.FuncDecl, elem *types.Named) []compositeSite {
	return compositesOfDepth(info, fd, elem, map[*ast.FuncDecl]bool{})
}

// compositesOfDepth also looks into functions of the same package that fd calls and that return
// an element (a reader split into helper functions): their element literals are fd's.
func compositesOfDepth(info *types.Info, fd *ast.FuncDecl, elem *types.Named, seen map[*ast.FuncDecl]bool) []compositeSite {
	var out []compositeSite
	if seen[fd] || len(seen) > 4 {
		return nil
	}
	seen[fd] = true
	if streamsCache != nil {
		ast.Inspect(fd.Body, func(n ast.Node) bool {
			c, ok := n.(*ast.CallExpr)
			if !ok {
				return true
			}
			f := calleeFunc(info, c)
			if f == nil {
				return true
			}
			cd := streamsCache.funcDecl[f]
			if cd == nil || cd.Body == nil || cd.Recv != nil || streamsCache.declPkg[cd] != streamsCache.declPkg[fd] {
				return true
			}
			sig, _ := f.Type().(*types.Signature)
			if sig == nil || sig.Results().Len() < 1 || namedOf(sig.Results().At(0).Type()) != elem {
				return true
			}
			out = append(out, compositesOfDepth(info, cd, elem, seen)...)
			return true
		})
	}
	var stack []ast.Node
	ast.Inspect(fd.Body, func(n ast.Node) bool {
		if n == nil {
			stack = stack[:len(stack)-1]
			return true
		}
		stack = append(stack, n)
		cl, ok := n.(*ast.CompositeLit)
		if !ok {
			return true
		}
		tv, ok := info.Types[cl]
		if !ok || namedOf(tv.Type) != elem {
			return true
		}
		// `x := &Elem{…}` followed by `x.f = v`: the element is the literal plus those fields
		if len(stack) >= 2 {
			var as *ast.AssignStmt
			if a, ok := stack[len(stack)-2].(*ast.AssignStmt); ok {
				as = a
			} else if u, ok := stack[len(stack)-2].(*ast.UnaryExpr); ok && u.Op == token.AND && len(stack) >= 3 {
				if a, ok := stack[len(stack)-3].(*ast.AssignStmt); ok {
					as = a
				}
			}
			if as != nil && len(as.Lhs) == 1 && len(as.Rhs) == 1 {
				if id, ok := as.Lhs[0].(*ast.Ident); ok && id.Name != "_" {
					obj := info.ObjectOf(id)
					var extra []ast.Expr
					ast.Inspect(fd.Body, func(m ast.Node) bool {
						a2, ok := m.(*ast.AssignStmt)
						if !ok || len(a2.Lhs) != 1 || len(a2.Rhs) != 1 || a2.Pos() < cl.End() {
							return true
						}
						if sel, ok := a2.Lhs[0].(*ast.SelectorExpr); ok {
							if x, ok := sel.X.(*ast.Ident); ok && obj != nil && info.ObjectOf(x) == obj {
								extra = append(extra, &ast.KeyValueExpr{Key: sel.Sel, Value: a2.Rhs[0]})
							}
						}
						return true
					})
					if len(extra) > 0 {
						cl = &ast.CompositeLit{Type: cl.Type, Lbrace: cl.Lbrace, Rbrace: cl.Rbrace, Elts: append(append([]ast.Expr{}, cl.Elts...), extra...)}
					}
				}
			}
		}
		site := compositeSite{lit: cl, pos: cl.Pos()}
		// nearest enclosing if with an init `v, err := call(...)`
		for i := len(stack) - 1; i >= 0; i-- {
			if ifs, ok := stack[i].(*ast.IfStmt); ok && ifs.Init != nil {
				if as, ok := ifs.Init.(*ast.AssignStmt); ok && len(as.Rhs) == 1 {
					if c, ok := as.Rhs[0].(*ast.CallExpr); ok {
						// only if the literal is in the if's body (not its else chain)
						if cl.Pos() >= ifs.Body.Pos() && cl.End() <= ifs.Body.End() {
							inner := c
							if in2, ok := c.Fun.(*ast.CallExpr); ok {
								inner = in2 // mgr.DeserializeX()(m, aliasMap): the resolvable call is the inner one
							}
							site.source = inner
							break
						}
					}
				}
			}
		}
		out = append(out, site)
		return true
	})
	return out
}

// propKeyName: the JSON key / Go name of a property as the ontology names it.
func titleName(s string) string {
	if s == "" {
		return s
	}
	return strings.ToUpper(s[:1]) + s[1:]
}

func extractTypeModel(M *GenModel, g *GenType) *TypeModel {
	tm := &TypeModel{G: g, Fields: map[*types.Var]*PropModel{}}
	if g.Struct == nil {
		tm.Problems = append(tm.Problems, "type struct not found")
		return tm
	}
	for _, f := range fieldsOfStruct(g.Struct) {
		if n, ok := f.Type().(*types.Named); ok {
			if pm := M.PropOf[n]; pm != nil {
				tm.Fields[f] = pm
				tm.FieldOrd = append(tm.FieldOrd, f)
				continue
			}
		}
		switch f.Name() {
		case "alias", "unknown":
		default:
			tm.Problems = append(tm.Problems, fmt.Sprintf("field %s of type %s is not a property", f.Name(), f.Type()))
		}
	}
	sort.Slice(tm.FieldOrd, func(i, j int) bool { return tm.FieldOrd[i].Name() < tm.FieldOrd[j].Name() })
	return tm
}

// ontologyProp finds the ontology property a PropModel implements.
func (pm *PropModel) ontologyProp(O *Ontology) *OProp {
	for _, cand := range O.PropsByName[pm.Name] {
		if normURI(cand.Vocab.ID) == normURI(pm.VocabURI) {
			return cand
		}
	}
	return nil
}
