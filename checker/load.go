package main

// Loading /repo's current working tree: go/packages (type-checked syntax) and
// go/ssa for package pub. Any load or type error is fatal: a check never
// passes on source it could not read.

import (
	"fmt"
	"go/ast"
	"go/parser"
	"go/token"
	"go/types"
	"os"
	"path/filepath"
	"regexp"
	"sort"
	"strings"

	"golang.org/x/tools/go/packages"
	"golang.org/x/tools/go/ssa"
	"golang.org/x/tools/go/ssa/ssautil"
)

const modPath = "github.com/go-fed/activity"

var repoDir = "/repo"

func loadEnv() []string {
	env := os.Environ()
	env = append(env, "GOFLAGS=-mod=mod -trimpath", "GOPROXY=off", "GOSUMDB=off", "GOTOOLCHAIN=local", "GOWORK=off")
	if t := os.Getenv("VERIF_GOOS_GOARCH"); t != "" {
		p := strings.SplitN(t, "/", 2)
		env = append(env, "GOOS="+p[0], "GOARCH="+p[1])
	}
	return env
}

func fatalf(format string, a ...interface{}) {
	fmt.Printf("ERROR: "+format+"\n", a...)
	os.Exit(2)
}

func loadPkgs(mode packages.LoadMode, tests bool, patterns ...string) []*packages.Package {
	cfg := &packages.Config{Mode: mode, Dir: repoDir, Env: loadEnv(), Tests: tests}
	if len(patterns) == 1 && patterns[0] == "./pub" && os.Getenv("VERIF_NO_INLINE") == "" {
		cfg.Overlay = pubOverlay()
	}
	if len(patterns) == 1 && os.Getenv("VERIF_NO_INLINE") == "" {
		switch patterns[0] {
		case "./streams":
			cfg.Overlay = streamsOverlay()
		case "./streams/values/...":
			cfg.Overlay = valuesOverlay()
		case "./streams/...":
			cfg.Overlay = mergeOverlays(streamsOverlay(), valuesOverlay())
		}
	}
	if tags := os.Getenv("VERIF_TAGS"); tags != "" {
		cfg.BuildFlags = []string{"-tags=" + tags}
	}
	pkgs, err := packages.Load(cfg, patterns...)
	if err != nil {
		fatalf("loading %v from %s: %v", patterns, repoDir, err)
	}
	if len(pkgs) == 0 {
		fatalf("loading %v from %s: no packages", patterns, repoDir)
	}
	n := 0
	packages.Visit(pkgs, nil, func(p *packages.Package) {
		for _, e := range p.Errors {
			fmt.Printf("ERROR: package %s: %v\n", p.PkgPath, e)
			n++
		}
	})
	if n > 0 {
		fatalf("%d load/type errors in %s: no verdict is possible", n, repoDir)
	}
	sort.Slice(pkgs, func(i, j int) bool { return pkgs[i].PkgPath < pkgs[j].PkgPath })
	return pkgs
}

var streamsOverlayDone bool
var streamsOverlayMap map[string][]byte

// streamsOverlay: the same for the hand-written and generated files of package streams itself
// (Serialize, the resolvers): newly declared named functions are expanded where they are called.
func streamsOverlay() map[string][]byte {
	if !streamsOverlayDone {
		streamsOverlayDone = true
		streamsOverlayMap = inlineOverlay("streams", knownStreamsFuncs, true)
	}
	return streamsOverlayMap
}

var valuesOverlayDone bool
var valuesOverlayMap map[string][]byte

var valuesKnownName = regexp.MustCompile(`^(Serialize|Deserialize|Less)[A-Z]`)

// valuesOverlay: the same for the literal codecs under streams/values: every package there
// declares Serialize<X>, Deserialize<X> and Less<X>; any other function is a new helper.
func valuesOverlay() map[string][]byte {
	if valuesOverlayDone {
		return valuesOverlayMap
	}
	valuesOverlayDone = true
	ents, err := os.ReadDir(repoDir + "/streams/values")
	if err != nil {
		return nil
	}
	for _, e := range ents {
		if !e.IsDir() {
			continue
		}
		dir := "streams/values/" + e.Name()
		known := map[string]bool{}
		fs := token.NewFileSet()
		files, _ := os.ReadDir(repoDir + "/" + dir)
		for _, f := range files {
			if f.IsDir() || !strings.HasSuffix(f.Name(), ".go") || strings.HasSuffix(f.Name(), "_test.go") {
				continue
			}
			af, err := parser.ParseFile(fs, repoDir+"/"+dir+"/"+f.Name(), nil, parser.SkipObjectResolution)
			if err != nil {
				continue
			}
			for _, d := range af.Decls {
				if fd, ok := d.(*ast.FuncDecl); ok && fd.Recv == nil && valuesKnownName.MatchString(fd.Name.Name) {
					known[fd.Name.Name] = true
				}
			}
		}
		valuesOverlayMap = mergeOverlays(valuesOverlayMap, inlineOverlay(dir, known, true))
	}
	return valuesOverlayMap
}

func mergeOverlays(a, b map[string][]byte) map[string][]byte {
	if len(a) == 0 {
		return b
	}
	if len(b) == 0 {
		return a
	}
	out := map[string][]byte{}
	for k, v := range a {
		out[k] = v
	}
	for k, v := range b {
		out[k] = v
	}
	return out
}

// compilerOverlay: the expanded sources as the compiler should see them (C11-R2): helpers every
// call of which was expanded are blanked out (line structure kept), so that their bodies are
// judged where they run — with the caller's guards in force — and not once more in isolation.
func compilerOverlay() map[string][]byte {
	all := mergeOverlays(mergeOverlays(pubOverlay(), streamsOverlay()), valuesOverlay())
	if len(all) == 0 {
		return nil
	}
	out := map[string][]byte{}
	for k, v := range all {
		out[k] = append([]byte{}, v...)
	}
	for _, info := range []*inlineInfo{lastInline, lastInlineStreams} {
		for _, sp := range info.awaySpans {
			b, ok := out[sp.file]
			if !ok || sp.end > len(b) || sp.start < 0 {
				continue
			}
			for i := sp.start; i < sp.end; i++ {
				if b[i] != '\n' {
					b[i] = ' '
				}
			}
		}
	}
	return out
}

var pubOverlayDone bool
var pubOverlayMap map[string][]byte

// pubOverlay: the source overlay in which newly extracted helpers of package
// pub are expanded at their call sites (inline.go); nil when there are none.
func pubOverlay() map[string][]byte {
	if !pubOverlayDone {
		pubOverlayDone = true
		pubOverlayMap = inlineOverlay("pub", knownPubFuncs, false)
	}
	return pubOverlayMap
}

// relPos renders a position relative to the repository root.
func relPos(fset *token.FileSet, p token.Pos) string {
	if !p.IsValid() {
		return "-"
	}
	pos := fset.Position(p)
	f := pos.Filename
	if rel, err := filepath.Rel(repoDir, f); err == nil && !strings.HasPrefix(rel, "..") {
		f = rel
	}
	return fmt.Sprintf("%s:%d", f, pos.Line)
}

// ---------------------------------------------------------------------------
// package pub in SSA form

type Pub struct {
	Pkg   *packages.Package
	Prog  *ssa.Program
	SSA   *ssa.Package
	Fset  *token.FileSet
	Info  *types.Info
	Funcs []*ssa.Function // every source function and closure of non-test pub, sorted by position
	decl  map[*ssa.Function]ast.Node
}

var pubCache *Pub

func loadPub() *Pub {
	if pubCache != nil {
		return pubCache
	}
	pkgs := loadPkgs(packages.LoadAllSyntax, false, "./pub")
	if len(pkgs) != 1 || pkgs[0].PkgPath != modPath+"/pub" {
		fatalf("expected exactly package %s/pub, got %d packages", modPath, len(pkgs))
	}
	prog, spkgs := ssautil.AllPackages(pkgs, ssa.BuilderMode(0))
	prog.Build()
	p := &Pub{Pkg: pkgs[0], Prog: prog, SSA: spkgs[0], Fset: pkgs[0].Fset, Info: pkgs[0].TypesInfo, decl: map[*ssa.Function]ast.Node{}}
	var add func(f *ssa.Function)
	seen := map[*ssa.Function]bool{}
	add = func(f *ssa.Function) {
		if f == nil || seen[f] || f.Blocks == nil || f.Synthetic != "" {
			return
		}
		if f.Parent() == nil && expandedAway[fname(f)] {
			return // analysed inside its callers (inline.go)
		}
		seen[f] = true
		p.Funcs = append(p.Funcs, f)
		for _, a := range f.AnonFuncs {
			add(a)
		}
	}
	for _, m := range p.SSA.Members {
		switch x := m.(type) {
		case *ssa.Function:
			add(x)
		case *ssa.Type:
			for _, T := range []types.Type{x.Type(), types.NewPointer(x.Type())} {
				ms := prog.MethodSets.MethodSet(T)
				for i := 0; i < ms.Len(); i++ {
					fn := prog.MethodValue(ms.At(i))
					if fn != nil && fn.Pkg == p.SSA {
						add(fn)
					}
				}
			}
		}
	}
	sort.Slice(p.Funcs, func(i, j int) bool { return p.Funcs[i].Pos() < p.Funcs[j].Pos() })
	if len(p.Funcs) < 100 {
		fatalf("package pub: only %d source functions found (expected > 100)", len(p.Funcs))
	}
	pubCache = p
	return p
}

// FuncName gives a stable, readable name: Recv.Method, func, or parent$N for closures.
func fname(f *ssa.Function) string {
	if f == nil {
		return "<nil>"
	}
	if f.Parent() != nil {
		idx := 0
		for i, a := range f.Parent().AnonFuncs {
			if a == f {
				idx = i + 1
			}
		}
		return fmt.Sprintf("%s$%d", fname(f.Parent()), idx)
	}
	name := f.Name()
	if recv := f.Signature.Recv(); recv != nil {
		t := recv.Type()
		if p, ok := t.(*types.Pointer); ok {
			t = p.Elem()
		}
		if n, ok := t.(*types.Named); ok {
			name = n.Obj().Name() + "." + f.Name()
		}
	}
	// a new function that took over the body of a closure is known by the closure's name
	for role, target := range closureAlias {
		if target == name {
			return role
		}
	}
	return name
}

// Func looks a function up by the name fname would give it; fatal if absent
// (an anchor that no longer resolves is a failure, never a skip).
func (p *Pub) Func(name string) *ssa.Function {
	for _, f := range p.Funcs {
		if fname(f) == name {
			return f
		}
	}
	// A rule anchored on the per-element closure X$N of X: when X no longer has
	// that closure (its body was written into X's loop directly, or moved to a
	// new method that the expansion pre-pass put back into X), the body is part
	// of X and the rule is applied to X.
	if a := closureAlias[name]; a != "" {
		if f := p.Func(a); f != nil {
			if !bodyFallbackNoted[name] {
				bodyFallbackNoted[name] = true
				fmt.Printf("NOTE: %s not found; the new function %s takes its role\n", name, a)
			}
			return f
		}
	}
	if i := strings.LastIndex(name, "$"); i > 0 {
		if parent := p.Func(name[:i]); parent != nil {
			if !bodyFallbackNoted[name] {
				bodyFallbackNoted[name] = true
				fmt.Printf("NOTE: %s not found; its rules are applied to %s\n", name, name[:i])
			}
			return parent
		}
	}
	return nil
}

var bodyFallbackNoted = map[string]bool{}

// HasFunc: exact lookup, no fallback.
func (p *Pub) HasFunc(name string) bool {
	if closureAlias[name] != "" {
		return true
	}
	for _, f := range p.Funcs {
		if fname(f) == name {
			return true
		}
	}
	return false
}

func (p *Pub) MustFunc(res *Result, rule, name string) *ssa.Function {
	f := p.Func(name)
	if f == nil {
		res.undecided(rule, name, "-", "anchor function "+name, "function not found in package pub: the rule cannot be applied")
	}
	return f
}

func (p *Pub) pos(x interface{ Pos() token.Pos }) string { return relPos(p.Fset, x.Pos()) }

// Named returns the named type pub.<name>.
func (p *Pub) Named(name string) *types.Named {
	o := p.Pkg.Types.Scope().Lookup(name)
	if o == nil {
		fatalf("pub.%s not found", name)
	}
	n, ok := o.Type().(*types.Named)
	if !ok {
		fatalf("pub.%s is not a named type", name)
	}
	return n
}

// isTestFile reports whether pos lies in a _test.go file.
func isTestFile(fset *token.FileSet, p token.Pos) bool {
	return strings.HasSuffix(fset.Position(p).Filename, "_test.go")
}

func namedOf(t types.Type) *types.Named {
	if p, ok := t.(*types.Pointer); ok {
		t = p.Elem()
	}
	n, _ := t.(*types.Named)
	return n
}

// typeIs reports whether t (possibly a pointer) is the named type pkgSuffix.name.
func typeIs(t types.Type, pkgPath, name string) bool {
	n := namedOf(t)
	if n == nil || n.Obj().Name() != name {
		return false
	}
	if n.Obj().Pkg() == nil {
		return pkgPath == ""
	}
	return n.Obj().Pkg().Path() == pkgPath
}
