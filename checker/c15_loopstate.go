package main

import (
	"go/ast"
	"go/token"
	"go/types"

	"golang.org/x/tools/go/packages"
)

// C15-R6 — no state leaks from one loop iteration into the next through a record that is handed
// on by value. In the vocabulary reader and converter a struct variable that lives outside a
// loop, has a field assigned inside the loop and is appended (by value) inside the same loop
// carries the field value of one iteration into every later one: an entry meant for the
// vocabulary's own types then names a foreign vocabulary (or the reverse). The rule asks that
// what is modified per iteration is a per-iteration copy.
func checkC15LoopState(res *Result, pkgs []*packages.Package) {
	const rule = "C15-R6"
	res.Rule(rule, "per-iteration records: inside a loop of astool, a struct variable declared outside the loop is not both field-assigned and appended (or stored) by value — the per-iteration variant must be a copy made inside the loop")
	nLoops := 0
	for _, p := range pkgs {
		info := p.TypesInfo
		for _, f := range p.Syntax {
			if isTestFile(p.Fset, f.Pos()) {
				continue
			}
			for _, d := range f.Decls {
				fd, ok := d.(*ast.FuncDecl)
				if !ok || fd.Body == nil {
					continue
				}
				ast.Inspect(fd.Body, func(n ast.Node) bool {
					var body *ast.BlockStmt
					var loopPos token.Pos
					switch x := n.(type) {
					case *ast.RangeStmt:
						body, loopPos = x.Body, x.Pos()
					case *ast.ForStmt:
						body, loopPos = x.Body, x.Pos()
					default:
						return true
					}
					nLoops++
					// struct variables declared outside this loop whose fields are assigned inside it
					assigned := map[types.Object]token.Pos{}
					ast.Inspect(body, func(m ast.Node) bool {
						as, ok := m.(*ast.AssignStmt)
						if !ok {
							return true
						}
						for _, l := range as.Lhs {
							sel, ok := l.(*ast.SelectorExpr)
							if !ok {
								continue
							}
							id, ok := sel.X.(*ast.Ident)
							if !ok {
								continue
							}
							obj, _ := info.ObjectOf(id).(*types.Var)
							if obj == nil || obj.Pos() >= loopPos && obj.Pos() <= body.End() {
								continue // declared inside the loop: a per-iteration variable
							}
							if _, isStruct := obj.Type().Underlying().(*types.Struct); !isStruct {
								continue // pointers and maps are shared on purpose
							}
							assigned[obj] = as.Pos()
						}
						return true
					})
					if len(assigned) == 0 {
						return true
					}
					// … and appended by value in the same loop
					ast.Inspect(body, func(m ast.Node) bool {
						c, ok := m.(*ast.CallExpr)
						if !ok || !isIdentNamed(c.Fun, "append") {
							return true
						}
						for _, a := range c.Args[1:] {
							if id, ok := a.(*ast.Ident); ok {
								if obj, _ := info.ObjectOf(id).(*types.Var); obj != nil {
									if at, hit := assigned[obj]; hit {
										res.bad(rule, funcDeclName(fd), relPos(p.Fset, at), "the record modified in the loop is a per-iteration copy", "field of "+obj.Name()+" (declared outside the loop) is assigned here and "+obj.Name()+" is appended by value at "+relPos(p.Fset, c.Pos())+": the assignment persists into every later iteration")
										delete(assigned, obj)
									}
								}
							}
						}
						return true
					})
					return true
				})
			}
		}
	}
	res.Count(rule+" loops examined in astool", nLoops, 100)
	if nLoops > 0 {
		res.ok(rule, "astool", "-", "no loop of astool assigns a field of an outer struct variable and appends that variable by value")
	}
}
