package main

import (
	"fmt"
	"go/ast"
	"go/token"
	"go/types"
	"sort"
	"strings"

	"golang.org/x/tools/go/packages"
)

// C15-R6 — no state leaks from one loop iteration into the next through a record that is handed
// on by value. In the vocabulary reader and converter a struct variable that lives outside a
// loop, has a field assigned inside the loop and is appended (by value) inside the same loop
// carries the field value of one iteration into every later one: an entry meant for the
// vocabulary's own types then names a foreign vocabulary (or the reverse). The rule asks that
// what is modified per iteration is a per-iteration copy.
func checkC15LoopState(res *Result, pkgs []*packages.Package) {
	const rule = "C15-R6"
	res.Rule(rule, "per-iteration records: inside a loop of astool, a struct variable declared outside the loop is not both field-assigned and appended (or stored) by value — the per-iteration variant must be a copy made inside the loop")
	nLoops := 0
	for _, p := range pkgs {
		info := p.TypesInfo
		for _, f := range p.Syntax {
			if isTestFile(p.Fset, f.Pos()) {
				continue
			}
			for _, d := range f.Decls {
				fd, ok := d.(*ast.FuncDecl)
				if !ok || fd.Body == nil {
					continue
				}
				ast.Inspect(fd.Body, func(n ast.Node) bool {
					var body *ast.BlockStmt
					var loopPos token.Pos
					switch x := n.(type) {
					case *ast.RangeStmt:
						body, loopPos = x.Body, x.Pos()
					case *ast.ForStmt:
						body, loopPos = x.Body, x.Pos()
					default:
						return true
					}
					nLoops++
					// struct variables declared outside this loop whose fields are assigned inside it
					assigned := map[types.Object]token.Pos{}
					ast.Inspect(body, func(m ast.Node) bool {
						as, ok := m.(*ast.AssignStmt)
						if !ok {
							return true
						}
						for _, l := range as.Lhs {
							sel, ok := l.(*ast.SelectorExpr)
							if !ok {
								continue
							}
							id, ok := sel.X.(*ast.Ident)
							if !ok {
								continue
							}
							obj, _ := info.ObjectOf(id).(*types.Var)
							if obj == nil || obj.Pos() >= loopPos && obj.Pos() <= body.End() {
								continue // declared inside the loop: a per-iteration variable
							}
							if _, isStruct := obj.Type().Underlying().(*types.Struct); !isStruct {
								continue // pointers and maps are shared on purpose
							}
							assigned[obj] = as.Pos()
						}
						return true
					})
					if len(assigned) == 0 {
						return true
					}
					// … and appended by value in the same loop
					ast.Inspect(body, func(m ast.Node) bool {
						c, ok := m.(*ast.CallExpr)
						if !ok || !isIdentNamed(c.Fun, "append") {
							return true
						}
						for _, a := range c.Args[1:] {
							if id, ok := a.(*ast.Ident); ok {
								if obj, _ := info.ObjectOf(id).(*types.Var); obj != nil {
									if at, hit := assigned[obj]; hit {
										res.bad(rule, funcDeclName(fd), relPos(p.Fset, at), "the record modified in the loop is a per-iteration copy", "field of "+obj.Name()+" (declared outside the loop) is assigned here and "+obj.Name()+" is appended by value at "+relPos(p.Fset, c.Pos())+": the assignment persists into every later iteration")
										delete(assigned, obj)
									}
								}
							}
						}
						return true
					})
					return true
				})
			}
		}
	}
	res.Count(rule+" loops examined in astool", nLoops, 100)
	if nLoops > 0 {
		res.ok(rule, "astool", "-", "no loop of astool assigns a field of an outer struct variable and appends that variable by value")
	}
}

// C15-R8 — reference nodes act on every vocabulary (D18). References (the rdf and xsd value
// vocabularies) are carried over from one parsed vocabulary to the next; a node that, besides
// registering its value in the reference, also writes the vocabulary being parsed
// (ctx.Result.Vocab — rdf:langString marks natural-language-map properties) must therefore be
// given the chance to act again when a later vocabulary references the value that already
// exists: it has an ApplyToVocabulary hook with that effect, and resolveReference calls the hook
// on its "already there" branch.
func checkReferenceNodesPerVocabulary(res *Result, pkgs []*packages.Package) {
	const rule = "C15-R8"
	res.Rule(rule, "reference nodes act on every vocabulary: a node whose Apply both registers a value in a carried-over reference vocabulary and writes the vocabulary being parsed has an ApplyToVocabulary hook with the same per-vocabulary effect, and resolveReference calls it where the value already exists (D18)")
	writesCurrentVocab := func(n ast.Node) bool {
		hit := false
		ast.Inspect(n, func(m ast.Node) bool {
			switch x := m.(type) {
			case *ast.AssignStmt:
				for _, l := range x.Lhs {
					if strings.HasPrefix(types.ExprString(l), "ctx.Result.Vocab.") {
						hit = true
					}
				}
			case *ast.CallExpr:
				if strings.HasPrefix(types.ExprString(x.Fun), "ctx.Result.Vocab.Set") {
					hit = true
				}
			}
			return true
		})
		return hit
	}
	nApply, nBoth := 0, 0
	for _, p := range pkgs {
		if !strings.Contains(p.PkgPath, "/astool/rdf") {
			continue
		}
		// methods by receiver type name
		methods := map[string]map[string]*ast.FuncDecl{}
		for _, f := range p.Syntax {
			for _, d := range f.Decls {
				if fd, ok := d.(*ast.FuncDecl); ok && fd.Recv != nil && fd.Body != nil {
					name := funcDeclName(fd)
					i := strings.Index(name, ".")
					if methods[name[:i]] == nil {
						methods[name[:i]] = map[string]*ast.FuncDecl{}
					}
					methods[name[:i]][name[i+1:]] = fd
				}
			}
		}
		// body of a method together with the methods of the same receiver it calls (two levels)
		closure := func(typ string, fd *ast.FuncDecl) []ast.Node {
			out := []ast.Node{fd.Body}
			seen := map[*ast.FuncDecl]bool{fd: true}
			frontier := []*ast.FuncDecl{fd}
			for depth := 0; depth < 2; depth++ {
				var next []*ast.FuncDecl
				for _, g := range frontier {
					ast.Inspect(g.Body, func(m ast.Node) bool {
						if c, ok := m.(*ast.CallExpr); ok {
							if sel, ok := c.Fun.(*ast.SelectorExpr); ok {
								if h := methods[typ][sel.Sel.Name]; h != nil && !seen[h] {
									if id, ok := sel.X.(*ast.Ident); ok && g.Recv != nil && len(g.Recv.List[0].Names) == 1 && id.Name == g.Recv.List[0].Names[0].Name {
										seen[h] = true
										out = append(out, h.Body)
										next = append(next, h)
									}
								}
							}
						}
						return true
					})
				}
				frontier = next
			}
			return out
		}
		var typs []string
		for t := range methods {
			typs = append(typs, t)
		}
		sort.Strings(typs)
		for _, typ := range typs {
			ap := methods[typ]["Apply"]
			if ap == nil || ap.Type.Params == nil || ap.Type.Params.NumFields() != 3 {
				continue
			}
			nApply++
			registers, writes := false, false
			for _, b := range closure(typ, ap) {
				ast.Inspect(b, func(m ast.Node) bool {
					if c, ok := m.(*ast.CallExpr); ok {
						if sel, ok := c.Fun.(*ast.SelectorExpr); ok && sel.Sel.Name == "GetResultReferenceWithDefaults" {
							registers = true
						}
					}
					return true
				})
				if writesCurrentVocab(b) {
					writes = true
				}
			}
			if !registers || !writes {
				continue
			}
			nBoth++
			hook := methods[typ]["ApplyToVocabulary"]
			okHook := false
			if hook != nil {
				for _, b := range closure(typ, hook) {
					if writesCurrentVocab(b) {
						okHook = true
					}
				}
			}
			res.check(okHook, rule, typ+".Apply", relPos(p.Fset, ap.Pos()), "the node's effect on the vocabulary being parsed is also available as ApplyToVocabulary", "Apply registers a value in a reference vocabulary that is carried over to later vocabularies and also writes ctx.Result.Vocab, but there is no ApplyToVocabulary with that effect: for every vocabulary after the first the effect is lost (an extension's natural language map properties are not recognised)")
		}
		// resolveReference
		for _, f := range p.Syntax {
			for _, d := range f.Decls {
				fd, ok := d.(*ast.FuncDecl)
				if !ok || fd.Body == nil || fd.Recv != nil || fd.Name.Name != "resolveReference" {
					continue
				}
				found, okCall := false, false
				ast.Inspect(fd.Body, func(m ast.Node) bool {
					ifs, ok := m.(*ast.IfStmt)
					if !ok {
						return true
					}
					txt := ""
					if ifs.Init != nil {
						if as, ok := ifs.Init.(*ast.AssignStmt); ok && len(as.Rhs) == 1 {
							txt = types.ExprString(as.Rhs[0])
						}
					}
					if strings.Contains(txt, ".Values[") {
						found = true
						ast.Inspect(ifs.Body, func(k ast.Node) bool {
							if c, ok := k.(*ast.CallExpr); ok {
								if sel, ok := c.Fun.(*ast.SelectorExpr); ok && sel.Sel.Name == "ApplyToVocabulary" {
									okCall = true
								}
							}
							return true
						})
					}
					return true
				})
				res.check(found && okCall, rule, "resolveReference", relPos(p.Fset, fd.Pos()), "where the referenced value already exists (registered while an earlier vocabulary was parsed) the node's ApplyToVocabulary hook is called", fmt.Sprintf("branch for an existing value found: %v; hook called there: %v", found, okCall))
			}
		}
	}
	res.Count(rule+" Apply methods of RDF nodes examined", nApply, 20)
	res.Count(rule+" nodes that register a reference value and write the current vocabulary", nBoth, 1)
}
