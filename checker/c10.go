package main

// C10 — each outcome reported exactly once, with the documented status.
//
// Typestate on the http.ResponseWriter parameter of the five entry points and
// of sideEffectActor.AuthorizePostInbox: a forward may-analysis computes, for
// every program point, the set of possible "write histories"
// (WriteHeader count 0/1/2+, body written, writer handed to a gate); every
// return is classified (handled?, error nil?) through the must-facts of E2 and
// must be compatible with every history that can reach it.

import (
	"fmt"
	"sort"
	"strings"

	"golang.org/x/tools/go/ssa"
)

// write history: bits of a small product lattice element
type wh struct {
	hdr  int  // WriteHeader calls so far: 0,1,2 (2 = two or more)
	body bool // Write called
	hand bool // w handed to a gate (the application may have written)
}

type whSet map[wh]bool

func (a whSet) union(b whSet) (whSet, bool) {
	ch := false
	for k := range b {
		if !a[k] {
			a[k] = true
			ch = true
		}
	}
	return a, ch
}

type rwEvent struct {
	kind string // "header", "body", "hand", "hset"
	ins  ssa.CallInstruction
}

// rwEventOf classifies a call with respect to the ResponseWriter value w.
func rwEventOf(ci ssa.CallInstruction, w ssa.Value, E *Effects) string {
	cc := ci.Common()
	if cc.IsInvoke() && cc.Value == w && isResponseWriter(cc.Value.Type()) {
		switch cc.Method.Name() {
		case "WriteHeader":
			return "header"
		case "Write":
			return "body"
		case "Header":
			return "hset"
		}
		return "other"
	}
	for _, a := range cc.Args {
		if a == w {
			return "hand"
		}
	}
	return ""
}

type whFlow struct {
	in map[*ssa.BasicBlock]whSet
	at map[ssa.Instruction]whSet
}

func computeWriteHistories(fn *ssa.Function, w ssa.Value, E *Effects) *whFlow {
	f := &whFlow{in: map[*ssa.BasicBlock]whSet{}, at: map[ssa.Instruction]whSet{}}
	f.in[fn.Blocks[0]] = whSet{wh{}: true}
	work := []*ssa.BasicBlock{fn.Blocks[0]}
	apply := func(s whSet, ins ssa.Instruction) whSet {
		ci, ok := ins.(ssa.CallInstruction)
		if !ok {
			return s
		}
		ev := rwEventOf(ci, w, E)
		if ev == "" || ev == "hset" {
			return s
		}
		n := whSet{}
		for h := range s {
			switch ev {
			case "header":
				if h.hdr < 2 {
					h.hdr++
				}
			case "body":
				h.body = true
			case "hand", "other":
				h.hand = true
			}
			n[h] = true
		}
		return n
	}
	for len(work) > 0 {
		b := work[0]
		work = work[1:]
		s := whSet{}
		s.union(f.in[b])
		for _, ins := range b.Instrs {
			s = apply(s, ins)
		}
		for _, succ := range b.Succs {
			if f.in[succ] == nil {
				f.in[succ] = whSet{}
				f.in[succ].union(s)
				work = append(work, succ)
			} else if _, ch := f.in[succ].union(s); ch {
				work = append(work, succ)
			}
		}
	}
	for _, b := range fn.Blocks {
		if f.in[b] == nil {
			continue
		}
		s := whSet{}
		s.union(f.in[b])
		for _, ins := range b.Instrs {
			cp := whSet{}
			cp.union(s)
			f.at[ins] = cp
			s = apply(s, ins)
		}
	}
	return f
}

func (s whSet) String() string {
	var out []string
	for h := range s {
		out = append(out, fmt.Sprintf("{WriteHeader×%d body=%v handed=%v}", h.hdr, h.body, h.hand))
	}
	sort.Strings(out)
	return strings.Join(out, " ")
}

func respWriterParam(fn *ssa.Function) ssa.Value {
	for _, p := range fn.Params {
		if isResponseWriter(p.Type()) {
			return p
		}
	}
	return nil
}

// dominatedByBodyWrite: the instruction is dominated by a w.Write call.
func dominatedByBodyWrite(fn *ssa.Function, w ssa.Value, E *Effects, ins ssa.Instruction) bool {
	for _, ci := range callsIn(fn) {
		if rwEventOf(ci, w, E) == "body" && dominates(ci, ins) {
			return true
		}
	}
	return false
}

// siteQuery answers "does this predicate hold on every path to the site": the
// site is an instruction, or one incoming edge of a phi that selects the status.
type siteQuery func(pred factPred) bool

type statusRow struct {
	code int64
	why  string
	pred func(ff *FuncFacts, q siteQuery) bool
}

func checkC10(res *Result) {
	p := loadPub()
	E := computeEffects(p)
	res.Packages = []string{p.Pkg.PkgPath}
	res.Explanation = "Typestate on the ResponseWriter over all SSA paths of the five request entry points and of sideEffectActor.AuthorizePostInbox: a may-analysis of write histories (number of WriteHeader calls, body written, writer handed to an authentication/authorization gate) combined with the must-facts of E2 to classify every return as not-handled / handled-with-error / handled-nil; each return must be compatible with every history that can reach it (R1–R3). Every WriteHeader site must carry the documented constant for the condition that governs it, and every documented row must be present in every entry point that documents it (R4, sibling agreement). The Location header of the 201 is the id of the activity returned by deliver (R3b)."
	res.Rule("C10-R1", "not handled ⇒ silent: a return with handled==false is reached with no write, no header mutation by the library's own calls and the writer not handed to anyone")
	res.Rule("C10-R2", "error ⇒ nothing written by the library: a return with a non-nil error is reached with zero WriteHeader/Write calls (returns dominated by w.Write itself are write faults, outside the fault model)")
	res.Rule("C10-R3", "handled, nil ⇒ exactly one status: a return (true, nil) is reached with exactly one WriteHeader, or with none on the denied edge of a gate the writer was handed to (the application, or AuthorizePostInbox's 403, is the writer); never two")
	res.Rule("C10-R3b", "201 carries Location = id of the activity returned by deliver, set before WriteHeader")
	res.Rule("C10-R4", "status table: every WriteHeader site carries the documented constant for its governing condition, and every documented row is present")
	res.Rule("C10-R5", "AuthorizePostInbox: error ⇒ no write; blocked ⇒ exactly one 403; authorized ⇒ no write")

	unmatched := func(ff *FuncFacts, q siteQuery) bool {
		return q(func(s *factState) bool {
			for f := range s.facts {
				if f.k == fTRUE && strings.HasPrefix(f.v, "pure:IsUnmatchedErr(") {
					return true
				}
			}
			return false
		})
	}
	noID := func(ff *FuncFacts, q siteQuery) bool {
		// GetJSONLDId() result known nil, or known not to hold an IRI
		for _, ci := range callsIn(ff.fn) {
			if c, ok := ci.(*ssa.Call); ok && c.Common().IsInvoke() && c.Common().Method.Name() == "GetJSONLDId" {
				if q(func(s *factState) bool { return idUnusableIn(ff, s, c) }) {
					return true
				}
			}
		}
		return false
	}
	sentinel := func(ff *FuncFacts, q siteQuery) bool {
		sawObj, sawTgt := false, false
		ok := q(func(s *factState) bool {
			hit := false
			for f := range s.facts {
				if f.k == fEQ && f.c == "global:pub.ErrObjectRequired" {
					sawObj, hit = true, true
				}
				if f.k == fEQ && f.c == "global:pub.ErrTargetRequired" {
					sawTgt, hit = true, true
				}
			}
			return hit
		})
		return ok && sawObj && sawTgt
	}
	flagFalse := func(flag string) func(ff *FuncFacts, q siteQuery) bool {
		return func(ff *FuncFacts, q siteQuery) bool {
			return q(func(s *factState) bool { return s.facts[fact{"param:b->" + flag, fFALSE, ""}] })
		}
	}
	tomb := func(want factKind) func(ff *FuncFacts, q siteQuery) bool {
		return func(ff *FuncFacts, q siteQuery) bool {
			return q(func(s *factState) bool {
				for f := range s.facts {
					if f.k == want && strings.HasPrefix(f.v, "pure:IsOrExtendsActivityStreamsTombstone(") {
						return true
					}
				}
				return false
			})
		}
	}
	always := func(ff *FuncFacts, q siteQuery) bool { return true }

	tables := map[string][]statusRow{
		"baseActor.PostInboxScheme": {
			{405, "federated protocol disabled", flagFalse("enableFederatedProtocol")},
			{400, "unknown type (IsUnmatchedErr)", unmatched},
			{400, "activity has no usable id (absent, or not an IRI)", noID},
			{400, "ErrObjectRequired or ErrTargetRequired from PostInbox", sentinel},
			{200, "accepted", always},
		},
		"baseActor.PostOutboxScheme": {
			{405, "social protocol disabled", flagFalse("enableSocialProtocol")},
			{400, "unknown type (IsUnmatchedErr)", unmatched},
			{400, "ErrObjectRequired or ErrTargetRequired from deliver", sentinel},
			{201, "created", always},
		},
		"baseActor.GetInbox":  {{200, "served", always}},
		"baseActor.GetOutbox": {{200, "served", always}},
		"NewActivityStreamsHandlerScheme$1": {
			{410, "Tombstone", tomb(fTRUE)},
			{200, "not a Tombstone", tomb(fFALSE)},
		},
	}

	nReturns, nSites := 0, 0
	for _, ep := range entryPoints {
		fn := p.MustFunc(res, "C10-R1", ep.name)
		if fn == nil {
			continue
		}
		w := respWriterParam(fn)
		if w == nil {
			res.bad("C10-R1", ep.name, p.pos(fn), "entry point has a ResponseWriter parameter", "none found")
			continue
		}
		ff := computeFacts(fn)
		hist := computeWriteHistories(fn, w, E)
		auth, _ := findDelegateGate(E, fn, ep.authGate, 1, 2)
		authz, _ := findDelegateGate(E, fn, ep.authzGate, 0, 1)
		// returns
		for _, r := range returnsIn(fn) {
			if !ff.reachable(r) {
				continue
			}
			nReturns++
			pos := p.pos(r)
			hs := hist.at[r]
			hv := ff.resolve(r, r.Results[0])
			handled, isConst := boolConst(hv)
			if !isConst {
				// named result: decide through facts
				if ff.has(r, hv, fTRUE, "") {
					handled, isConst = true, true
				} else if ff.has(r, hv, fFALSE, "") {
					handled, isConst = false, true
				}
			}
			if !isConst {
				res.undecided("C10-R1", ep.name, pos, "return with statically known 'handled' result", "the first result is neither a constant nor decided by the facts: "+ff.describe(r))
				continue
			}
			mayNil, mayNonNil := ff.errStatus(r, 1)
			if !handled {
				ok := len(hs) == 1 && hs[wh{}]
				hsetBefore := false
				for _, ci := range callsIn(fn) {
					if rwEventOf(ci, w, E) == "hset" && reachesInstr(ci, r) {
						hsetBefore = true
					}
				}
				res.check(ok && !hsetBefore && !mayNonNil, "C10-R1", ep.name, pos, "return not-handled: nothing written, nil error", fmt.Sprintf("histories %s; header touched: %v; error may be non-nil: %v", hs, hsetBefore, mayNonNil))
				continue
			}
			if mayNonNil {
				// failure return
				if dominatedByBodyWrite(fn, w, E, r) {
					res.ok("C10-R2", ep.name, pos, "failure return after w.Write (write fault: outside the fault model)")
				} else {
					clean := true
					for h := range hs {
						if h.hdr > 0 || h.body {
							clean = false
						}
					}
					res.check(clean, "C10-R2", ep.name, pos, "failure return: no WriteHeader/Write by the library on any path", "histories reaching this return: "+hs.String())
				}
			}
			if mayNil {
				denied := (auth.present && ff.has(r, auth.okV, fFALSE, "")) || (authz.present && ff.has(r, authz.okV, fFALSE, ""))
				ok := true
				for h := range hs {
					switch {
					case h.hdr == 1:
					case h.hdr == 0 && !h.body && h.hand && denied:
					default:
						ok = false
					}
				}
				what := "success return: exactly one WriteHeader"
				if denied {
					what = "denied return: status left to the gate that was handed the writer"
				}
				res.check(ok, "C10-R3", ep.name, pos, what, "histories reaching this return: "+hs.String()+"; denied edge: "+fmt.Sprint(denied))
			}
		}
		// status table
		rows := tables[ep.name]
		seenRow := map[int]bool{}
		for _, ci := range callsIn(fn) {
			if rwEventOf(ci, w, E) != "header" || !ff.reachable(ci) {
				continue
			}
			nSites++
			type site struct {
				code int64
				q    siteQuery
				desc string
			}
			var sites []site
			arg := ci.Common().Args[0]
			if code, isC := intConst(arg); isC {
				ins := ci
				sites = append(sites, site{code, func(pred factPred) bool { return ff.holdsOnEveryPath(ins, pred, 3) }, ""})
			} else if phi, isPhi := arg.(*ssa.Phi); isPhi && len(ff.edgeIn[phi.Block()]) == len(phi.Edges) {
				for i, e := range phi.Edges {
					code, isC := intConst(e)
					if !isC {
						sites = nil
						break
					}
					es := ff.edgeIn[phi.Block()][i]
					pb := phi.Block().Preds[i]
					if es == nil {
						continue
					}
					sites = append(sites, site{code, func(pred factPred) bool {
						return pred(es) || ff.blockEdgesHold(pb, pred, 3, map[*ssa.BasicBlock]bool{})
					}, fmt.Sprintf(" (status selected on the edge from block %d)", pb.Index)})
				}
			}
			if len(sites) == 0 {
				res.undecided("C10-R4", ep.name, p.pos(ci), "WriteHeader with a statically known status", "status is neither a constant nor a choice among constants")
				continue
			}
			for _, st := range sites {
				matched := -1
				for i, row := range rows {
					if row.code == st.code && !seenRow[i] && row.pred(ff, st.q) {
						matched = i
						break
					}
				}
				if matched < 0 {
					// a documented condition may be answered at more than one site
					// (the test written as two ifs): a row already seen still matches
					for i, row := range rows {
						if row.code == st.code && row.why != "accepted" && row.why != "created" && row.why != "served" && row.pred(ff, st.q) {
							matched = i
							break
						}
					}
				}
				if matched < 0 {
					var conds []string
					for _, row := range rows {
						if row.pred(ff, st.q) && row.why != "accepted" && row.why != "created" && row.why != "served" {
							conds = append(conds, fmt.Sprintf("%s (documented %d)", row.why, row.code))
						}
					}
					res.bad("C10-R4", ep.name, p.pos(ci), fmt.Sprintf("WriteHeader(%d)%s matches a documented (condition, status) row", st.code, st.desc), "governing conditions: "+strings.Join(conds, "; ")+"; facts: "+ff.describe(ci))
				} else {
					seenRow[matched] = true
					res.ok("C10-R4", ep.name, p.pos(ci), fmt.Sprintf("WriteHeader(%d) for %s", st.code, rows[matched].why))
				}
			}
		}
		for i, row := range rows {
			if !seenRow[i] {
				res.bad("C10-R4", ep.name, p.pos(fn), fmt.Sprintf("documented outcome present: %d for %s", row.code, row.why), "no WriteHeader site carries this status under this condition")
			}
		}
		// R3b Location
		if ep.name == "baseActor.PostOutboxScheme" {
			checkLocation(res, p, E, fn, ff, w)
		}
	}
	res.Count("returns classified", nReturns, 30)
	res.Count("WriteHeader sites", nSites, 10)

	// R5 AuthorizePostInbox
	if fn := p.MustFunc(res, "C10-R5", "sideEffectActor.AuthorizePostInbox"); fn != nil {
		w := respWriterParam(fn)
		ff := computeFacts(fn)
		hist := computeWriteHistories(fn, w, E)
		var blocked *ssa.Call
		for _, ci := range E.byFn[fn] {
			if ci.Label == "FederatingProtocol.Blocked" {
				blocked, _ = ci.Instr.(*ssa.Call)
			}
		}
		for _, r := range returnsIn(fn) {
			hs := hist.at[r]
			av := ff.resolve(r, r.Results[0])
			authorized, isC := boolConst(av)
			mayNil, mayNonNil := ff.errStatus(r, 1)
			n := 0
			for h := range hs {
				if h.hdr > n {
					n = h.hdr
				}
			}
			uniform := len(hs) == 1
			switch {
			case !isC:
				res.undecided("C10-R5", fname(fn), p.pos(r), "return with constant 'authorized'", "not a constant")
			case authorized:
				res.check(uniform && n == 0 && !mayNonNil, "C10-R5", fname(fn), p.pos(r), "authorized ⇒ nothing written, nil error", "histories "+hs.String())
			case mayNonNil && !mayNil:
				res.check(uniform && n == 0, "C10-R5", fname(fn), p.pos(r), "error ⇒ nothing written", "histories "+hs.String())
			case mayNil && !mayNonNil:
				isBlocked := blocked != nil && extractOf(blocked, 0) != nil && ff.has(r, extractOf(blocked, 0), fTRUE, "")
				res.check(uniform && n == 1 && isBlocked, "C10-R5", fname(fn), p.pos(r), "denied without error ⇒ exactly one status (403), only when Blocked said so", fmt.Sprintf("histories %s; blocked==true known: %v", hs, isBlocked))
			default:
				res.undecided("C10-R5", fname(fn), p.pos(r), "return with decidable error status", "error may be nil or non-nil here: "+ff.describe(r))
			}
		}
		for _, ci := range callsIn(fn) {
			if rwEventOf(ci, w, E) == "header" {
				code, _ := intConst(ci.Common().Args[0])
				isBlocked := blocked != nil && extractOf(blocked, 0) != nil && ff.has(ci, extractOf(blocked, 0), fTRUE, "") && ff.has(ci, extractOf(blocked, 1), fNIL, "")
				res.check(code == 403 && isBlocked, "C10-R4", fname(fn), p.pos(ci), "WriteHeader(403) where Blocked returned (true, nil)", fmt.Sprintf("status %d; facts: %s", code, ff.describe(ci)))
			}
		}
	}
	// R8: usable id
	res.Rule("C10-R8", "usable id: in PostInboxScheme every delegate call that receives the activity (PostInboxRequestBodyHook, AuthorizePostInbox, PostInbox, InboxForwarding) is reached only where the activity's id property is non-nil and known to hold an IRI (IsXMLSchemaAnyURI()/IsIRI() true, or Get()/GetIRI() non-nil); with R3/R4 the other outcomes of that test are answered 400")
	if fn := p.MustFunc(res, "C10-R8", "baseActor.PostInboxScheme"); fn != nil {
		ff := computeFacts(fn)
		n := 0
		for _, pat := range []string{"delegate.PostInboxRequestBodyHook", "delegate.AuthorizePostInbox", "delegate.PostInbox", "delegate.InboxForwarding"} {
			for _, c := range findCalls(E, fn, pat) {
				n++
				ok, why := inboxIDUsableAt(ff, c)
				res.check(ok, "C10-R8", fname(fn), p.pos(c), pat+" only with a usable activity id", why)
			}
		}
		res.Count("C10-R8 delegate calls receiving the inbox activity", n, 4)
	}
	// R7: the outcome of each step reaches the place where it is turned into a status
	res.Rule("C10-R7", "error discipline on the request path (entry points, deliver, sideEffectActor.PostInbox/PostOutbox, AuthorizePostInbox): no effect after a failed or untested step, and no failure (in particular ErrObjectRequired/ErrTargetRequired on its way to the 400) is swallowed into a success return")
	addErrFlowObligations(res, p, E, "C10-R7", []string{"baseActor.PostInboxScheme", "baseActor.PostOutboxScheme", "baseActor.GetInbox", "baseActor.GetOutbox", "NewActivityStreamsHandlerScheme$1", "baseActor.deliver", "sideEffectActor.PostInbox", "sideEffectActor.PostOutbox", "sideEffectActor.AuthorizePostInbox"}, true)
	res.Rule("C10-R9", "sentinel transparency: sideEffectActor.PostInbox / PostOutbox and baseActor.deliver hand a callback's error on as it is — none builds a new error from it and returns that instead (the comparison with ErrObjectRequired / ErrTargetRequired at the entry point decides the 400)")
	checkSentinelTransparent(res, p, E, "C10-R9", []string{"sideEffectActor.PostInbox", "sideEffectActor.PostOutbox", "baseActor.deliver"})
	res.Rule("C10-R12", "a 400 for a refused outbox activity comes with nothing changed: addToOutbox only after the callbacks (shared with C16-R10)")
	checkOutboxAfterCallbacks(res, p, E, "C10-R12")
	res.Rule("C10-R11", "'a failure is reported as an error with nothing written' rests on no failure being swallowed below the entry points: error discipline over everything reachable from the four delegate steps of a POST (PostInbox, PostOutbox, AuthorizePostInbox, InboxForwarding, deliver) — an error is looked at, and no return reports success while one is pending (shared with C06-R6 / C08-R5)")
	addErrFlowObligations(res, p, E, "C10-R11", reachFrom(p, E, "sideEffectActor.PostInbox", "sideEffectActor.PostOutbox", "sideEffectActor.AuthorizePostInbox", "sideEffectActor.InboxForwarding", "baseActor.deliver"), true)
	res.Rule("C10-R10", "unknown type ⇒ 400 rests on streams.ToType never answering (nil, nil): JSONResolver.Resolve (and its dispatch closure) return a nil error only where a callback has been called; ToType returns a nil error only after Resolve")
	if sp := loadStreamsRootSSA(); sp != nil {
		nret := 0
		if fn := methodOf(sp, "JSONResolver", "Resolve"); fn != nil {
			anon := map[*ssa.Function]bool{}
			for _, a := range fn.AnonFuncs {
				anon[a] = true
			}
			nret += checkNilOnlyAfter(res, "C10-R10", fn, 0, true, func(c ssa.CallInstruction) bool {
				if c.Common().IsInvoke() {
					return false
				}
				if _, isBuiltin := c.Common().Value.(*ssa.Builtin); isBuiltin {
					return false
				}
				callee := c.Common().StaticCallee()
				return callee == nil || anon[callee]
			}, "a call of a resolver callback")
		} else {
			res.undecided("C10-R10", "JSONResolver.Resolve", "-", "found in SSA", "missing")
		}
		if fn := sp.Func("ToType"); fn != nil {
			nret += checkNilOnlyAfter(res, "C10-R10", fn, 1, false, func(c ssa.CallInstruction) bool {
				callee := c.Common().StaticCallee()
				return callee != nil && callee.Name() == "Resolve" && callee.Signature.Recv() != nil
			}, "the call of JSONResolver.Resolve")
		} else {
			res.undecided("C10-R10", "ToType", "-", "found in SSA", "missing")
		}
		res.Count("C10-R10 returns examined", nret, 100)
	}
	// R5-provenance of the sentinels is C16-R1 (shared rule), applied here too
	checkRequiredFirst(res, p, E, "C10-R6")
	res.Rule("C10-R6", "the 400 sentinels come from where documented: every default callback whose activity requires object (target) returns ErrObjectRequired (ErrTargetRequired) when it is nil or empty, before any effect")

	res.Assumptions = append(res.Assumptions,
		"the application's gate (or AuthorizePostInbox's 403) writes the status when it denies: the library cannot be checked for what application code writes",
		"ResponseWriter faults (w.Write failing or short) are outside the property's fault model",
		"CFG paths over-approximate feasible paths")
	res.Undecided = []string{"which strings xsd:anyURI accepts as an IRI (the id codec: url.Parse succeeds and a scheme is present)", "what the application writes on a denied request"}
	res.Trusted = []string{"go/types, go/ssa (x/tools v0.29.0)", "e2_facts.go, c10.go transfer functions"}
}

// reachesInstr: instruction a can execute before instruction b on some path.
func reachesInstr(a, b ssa.Instruction) bool {
	if a.Block() == b.Block() {
		for _, ins := range a.Block().Instrs {
			if ins == a {
				return true
			}
			if ins == b {
				break
			}
		}
	}
	return reachableFrom(a.Block(), b.Block())
}

func checkLocation(res *Result, p *Pub, E *Effects, fn *ssa.Function, ff *FuncFacts, w ssa.Value) {
	var deliver *ssa.Call
	for _, ci := range callsIn(fn) {
		if f := ci.Common().StaticCallee(); f != nil && fname(f) == "baseActor.deliver" {
			deliver, _ = ci.(*ssa.Call)
		}
	}
	var created ssa.CallInstruction
	for _, ci := range callsIn(fn) {
		if rwEventOf(ci, w, E) == "header" {
			if code, ok := intConst(ci.Common().Args[0]); ok && code == 201 {
				created = ci
			}
		}
	}
	if deliver == nil || created == nil {
		res.bad("C10-R3b", fname(fn), p.pos(fn), "201 response built from deliver's result", "deliver call or WriteHeader(201) not found")
		return
	}
	act := extractOf(deliver, 0)
	derr := extractOf(deliver, 1)
	okRegion := derr != nil && ff.has(created, derr, fNIL, "")
	res.check(okRegion, "C10-R3b", fname(fn), p.pos(created), "WriteHeader(201) only where deliver returned a nil error", "facts: "+ff.describe(created))
	found := false
	for _, ci := range callsIn(fn) {
		if staticName(ci) != "(http.Header).Set" {
			continue
		}
		args := ci.Common().Args
		name, _ := stringConst(args[1])
		if name != "Location" {
			continue
		}
		// receiver is w.Header()
		hc, ok := args[0].(*ssa.Call)
		fromW := ok && hc.Common().IsInvoke() && hc.Common().Value == w && hc.Common().Method.Name() == "Header"
		// value: deliver#0 .GetJSONLDId().Get().String()
		chain := false
		if s, ok := args[2].(*ssa.Call); ok && staticName(s) == "(url.URL).String" {
			if g, ok := s.Call.Args[0].(*ssa.Call); ok && g.Common().IsInvoke() && g.Common().Method.Name() == "Get" {
				if id, ok := g.Common().Value.(*ssa.Call); ok && id.Common().IsInvoke() && id.Common().Method.Name() == "GetJSONLDId" {
					chain = act != nil && id.Common().Value == ssa.Value(act)
				}
			}
		}
		found = true
		res.check(fromW && chain && dominates(ci, created), "C10-R3b", fname(fn), p.pos(ci), "Location := id of the activity returned by deliver, set on w's header before WriteHeader(201)",
			fmt.Sprintf("on w.Header(): %v; value is deliver()#0.GetJSONLDId().Get().String(): %v; dominates WriteHeader(201): %v", fromW, chain, dominates(ci, created)))
	}
	if !found {
		res.bad("C10-R3b", fname(fn), p.pos(created), "Location header set for the 201", "no Header().Set(\"Location\", …) found")
	}
}

// The JSON-LD id property keeps an id member that is not an IRI (null, "", a
// number, an object, a relative reference) as an 'unknown' value: the property
// is non-nil and Get() is nil. "Usable" therefore needs both tests.
var idIRIPredicates = []string{"IsXMLSchemaAnyURI", "IsIRI"}
var idIRIGetters = []string{"Get", "GetIRI"}

func idUnusableIn(ff *FuncFacts, s *factState, idCall *ssa.Call) bool {
	n := ff.canon(s, idCall)
	if s.facts[fact{n, fNIL, ""}] {
		return true
	}
	for _, m := range idIRIPredicates {
		if s.facts[fact{"get:" + n + "." + m, fFALSE, ""}] {
			return true
		}
	}
	for _, m := range idIRIGetters {
		if s.facts[fact{"get:" + n + "." + m, fNIL, ""}] {
			return true
		}
	}
	return false
}

func idUsableIn(ff *FuncFacts, s *factState, idCall *ssa.Call) bool {
	n := ff.canon(s, idCall)
	if !s.facts[fact{n, fNONNIL, ""}] {
		return false
	}
	for _, m := range idIRIPredicates {
		if s.facts[fact{"get:" + n + "." + m, fTRUE, ""}] {
			return true
		}
	}
	for _, m := range idIRIGetters {
		if s.facts[fact{"get:" + n + "." + m, fNONNIL, ""}] {
			return true
		}
	}
	return false
}

// inboxIDUsableAt: at instruction ins of PostInboxScheme some GetJSONLDId()
// result is known non-nil and known to hold an IRI.
func inboxIDUsableAt(ff *FuncFacts, ins ssa.Instruction) (bool, string) {
	s := ff.at[ins]
	if s == nil {
		return true, "unreachable"
	}
	seen := false
	nonNil := false
	for _, ci := range callsIn(ff.fn) {
		if c, ok := ci.(*ssa.Call); ok && c.Common().IsInvoke() && c.Common().Method.Name() == "GetJSONLDId" {
			seen = true
			if idUsableIn(ff, s, c) {
				return true, ""
			}
			if s.facts[fact{ff.canon(s, c), fNONNIL, ""}] {
				nonNil = true
			}
		}
	}
	if !seen {
		return false, "the function does not test GetJSONLDId()"
	}
	if nonNil {
		return false, "reached with an id property that is non-nil but not known to hold an IRI: an id member that is null, empty, a number, an object or a relative reference gives a non-nil property whose Get() is nil"
	}
	return false, "reachable with a nil id property"
}
