package main

import (
	"fmt"
	"go/token"
	"go/types"

	"golang.org/x/tools/go/ssa"
)

// lapAvoiding: is there a way round the loop, from its header back to its
// header, that passes through none of the given blocks?
func lapAvoiding(loop map[*ssa.BasicBlock]bool, H *ssa.BasicBlock, avoid map[*ssa.BasicBlock]bool) ([]int, bool) {
	if avoid[H] {
		return nil, false
	}
	type node struct {
		b     *ssa.BasicBlock
		trail []int
	}
	seen := map[*ssa.BasicBlock]bool{H: true}
	q := []node{{H, []int{H.Index}}}
	for len(q) > 0 {
		n := q[0]
		q = q[1:]
		for _, s := range n.b.Succs {
			if !loop[s] || avoid[s] {
				continue
			}
			if s == H {
				return n.trail, true
			}
			if !seen[s] {
				seen[s] = true
				q = append(q, node{s, append(append([]int{}, n.trail...), s.Index)})
			}
		}
	}
	return nil, false
}

// checkEveryElementTried: in the loop of fn that contains call, every way
// round the loop passes through the call: no element of the list is skipped
// without being tried.
func checkEveryElementTried(res *Result, p *Pub, rule string, fn *ssa.Function, call ssa.Instruction, what, consequence string) {
	loop := loopBlocks(call.Block())
	if len(loop) == 0 {
		res.bad(rule, fname(fn), p.pos(call), what, "the call is not inside a loop over the list")
		return
	}
	H := loopHeader(loop)
	if H == nil {
		res.undecided(rule, fname(fn), p.pos(call), what, "loop header not found")
		return
	}
	trail, bad := lapAvoiding(loop, H, map[*ssa.BasicBlock]bool{call.Block(): true})
	res.check(!bad, rule, fname(fn), p.pos(call), what, fmt.Sprintf("the lap through blocks %v goes on to the next element without the call: %s", trail, consequence))
}

// ---- no write through a slice while it is being ranged over

// writesThroughParam: may f write elements of the backing array of its i-th
// parameter, or return a slice sharing that array? (in-place filters:
// p[:0] + append, p[i] = …, append(p[:i], …)).
type sliceSummary struct {
	writes  map[int]bool // parameter index -> may write its backing array
	aliases map[int]bool // parameter index -> a result may share its backing array
}

var sliceSummaryCache = map[*ssa.Function]*sliceSummary{}

func sliceSummaryOf(f *ssa.Function, depth int) *sliceSummary {
	if s, ok := sliceSummaryCache[f]; ok {
		return s
	}
	s := &sliceSummary{writes: map[int]bool{}, aliases: map[int]bool{}}
	sliceSummaryCache[f] = s
	if len(f.Blocks) == 0 || depth > 3 {
		return s
	}
	// derived[v] = parameter index whose backing array v may share
	derived := map[ssa.Value]int{}
	for i, pa := range f.Params {
		if _, ok := pa.Type().Underlying().(*types.Slice); ok {
			derived[pa] = i
		}
	}
	short := map[ssa.Value]bool{}
	changed := true
	for changed {
		changed = false
		mark := func(v ssa.Value, i int) {
			if _, ok := derived[v]; !ok {
				derived[v] = i
				changed = true
			}
		}
		for _, b := range f.Blocks {
			for _, ins := range b.Instrs {
				switch x := ins.(type) {
				case *ssa.Slice:
					if i, ok := derived[x.X]; ok {
						mark(x, i)
						if (x.High != nil || short[x.X]) && !short[x] {
							short[x] = true
							changed = true
						}
					}
				case *ssa.Phi:
					for _, e := range x.Edges {
						if i, ok := derived[e]; ok {
							mark(x, i)
						}
						if short[e] && !short[x] {
							short[x] = true
							changed = true
						}
					}
				case *ssa.Call:
					if bi, ok := x.Common().Value.(*ssa.Builtin); ok && bi.Name() == "append" {
						if i, ok := derived[x.Common().Args[0]]; ok {
							// appending onto a shortened view of the array (p[:0], p[:i]) overwrites
							// elements that are still part of the caller's list; appending onto the
							// full slice only writes beyond its length
							if short[x.Common().Args[0]] {
								s.writes[i] = true
								if !short[x] {
									short[x] = true
									changed = true
								}
							}
							mark(x, i)
						}
					} else if callee := x.Common().StaticCallee(); callee != nil && callee.Pkg == f.Pkg {
						cs := sliceSummaryOf(callee, depth+1)
						for j, a := range x.Common().Args {
							if i, ok := derived[a]; ok {
								if cs.writes[j] {
									s.writes[i] = true
								}
								if cs.aliases[j] {
									mark(x, i)
								}
							}
						}
					}
				case *ssa.Store:
					if ia, ok := x.Addr.(*ssa.IndexAddr); ok {
						if i, ok := derived[ia.X]; ok {
							s.writes[i] = true
						}
					}
				}
			}
		}
	}
	for _, r := range returnsIn(f) {
		for _, v := range r.Results {
			if i, ok := derived[v]; ok {
				s.aliases[i] = true
			}
		}
	}
	// a plain `append(param, x)` on the parameter itself (not a reslice) only writes beyond len: callers
	// that range over the parameter are unaffected; keep "writes" for reslices and index stores only
	return s
}

// checkNoWriteWhileRanging: in fn, no call inside a `for … range S` loop hands
// S (or a slice sharing its array) to a function that may write through it, and
// no element of S is stored to inside the loop other than by the recognised
// in-place filter (which the index rule checks). An in-place helper applied to
// the list being walked makes the walk skip or repeat elements.
func checkNoWriteWhileRanging(res *Result, p *Pub, rule string, fn *ssa.Function) int {
	n := 0
	for _, b := range fn.Blocks {
		for _, ins := range b.Instrs {
			// range over a slice: t = &S[i] with i a loop-header phi compared against len(S)
			ia, ok := ins.(*ssa.IndexAddr)
			if !ok {
				continue
			}
			if _, isSlice := ia.X.Type().Underlying().(*types.Slice); !isSlice {
				continue
			}
			loop := loopBlocks(b)
			if len(loop) == 0 {
				continue
			}
			// is this the loop's own range access? index is (phi + 1) or phi of the header
			idxPhi := false
			switch ix := ia.Index.(type) {
			case *ssa.Phi:
				idxPhi = loop[ix.Block()]
			case *ssa.BinOp:
				if ph, ok := ix.X.(*ssa.Phi); ok && ix.Op == token.ADD {
					idxPhi = loop[ph.Block()]
				}
			}
			if !idxPhi {
				continue
			}
			n++
			S := ia.X
			// values that may share S's array, computed over the function
			shares := map[ssa.Value]bool{S: true}
			changed := true
			for changed {
				changed = false
				for _, bb := range fn.Blocks {
					for _, i2 := range bb.Instrs {
						v, isV := i2.(ssa.Value)
						if !isV || shares[v] {
							continue
						}
						switch x := i2.(type) {
						case *ssa.Slice:
							if shares[x.X] {
								shares[v], changed = true, true
							}
						case *ssa.Phi:
							for _, e := range x.Edges {
								if shares[e] {
									shares[v], changed = true, true
								}
							}
						case *ssa.Call:
							if callee := x.Common().StaticCallee(); callee != nil && callee.Pkg == fn.Pkg {
								cs := sliceSummaryOf(callee, 0)
								for j, a := range x.Common().Args {
									if shares[a] && cs.aliases[j] {
										shares[v], changed = true, true
									}
								}
							}
						}
					}
				}
			}
			// S itself may be a phi of the variable across iterations: include what flows into it
			if ph, ok := S.(*ssa.Phi); ok {
				for _, e := range ph.Edges {
					shares[e] = true
				}
			}
			bad := ""
			for lb := range loop {
				for _, i2 := range lb.Instrs {
					c, ok := i2.(*ssa.Call)
					if !ok {
						continue
					}
					callee := c.Common().StaticCallee()
					if callee == nil || callee.Pkg != fn.Pkg {
						continue
					}
					cs := sliceSummaryOf(callee, 0)
					for j, a := range c.Common().Args {
						if shares[a] && cs.writes[j] {
							bad = fmt.Sprintf("%s at %s receives the slice being ranged over and may write through it (in-place filter): elements shift under the running loop, so the element after each hit is skipped", fname(callee), p.pos(c))
						}
					}
				}
			}
			res.check(bad == "", rule, fname(fn), p.pos(ia), "the list being ranged over is not written through inside the loop", bad)
		}
	}
	return n
}
