package main

import (
	"fmt"
	"go/ast"
	"go/token"
	"sort"
	"strings"

	"golang.org/x/tools/go/ssa"
)

// C01-R9 — vocabulary aliases: what the decoder reads under an alias must be
// what the encoder writes and what the type claims, and the @context object
// must be read in the orientation in which it is written.

func mentionsIdent(n ast.Node, name string) bool {
	hit := false
	ast.Inspect(n, func(m ast.Node) bool {
		if id, ok := m.(*ast.Ident); ok && id.Name == name {
			hit = true
		}
		if sel, ok := m.(*ast.SelectorExpr); ok && sel.Sel.Name == name {
			hit = true
		}
		return !hit
	})
	return hit
}

func checkC01Alias(res *Result, S *Streams) {
	const rule = "C01-R9"
	res.Rule(rule, "vocabulary aliases are symmetric: (a) the @context object is read in the orientation streams.Serialize writes it ({alias: vocabulary}); (b) a property that is looked up under \"<alias>:<name>\" when an alias is set is also written (Name()) under that spelling, so that the member read is the member written and the member the type claims")
	// (b) per property: Deserialize<P>Property builds the aliased name; Name() must consult the alias too
	var asym []string
	n := 0
	for _, g := range S.Props {
		var de, name *ast.FuncDecl
		for fn, fd := range g.Funcs {
			if strings.HasPrefix(fn, "Deserialize") && strings.HasSuffix(fn, "Property") && fd.Recv == nil {
				de = fd
			}
			if strings.HasSuffix(fn, ".Name") && !strings.Contains(fn, "Iterator") {
				name = fd
			}
		}
		if de == nil || name == nil {
			continue
		}
		n++
		readsAliased := false
		ast.Inspect(de.Body, func(m ast.Node) bool {
			if c, ok := m.(*ast.CallExpr); ok && len(c.Args) >= 2 {
				if bl, ok := c.Args[0].(*ast.BasicLit); ok && bl.Kind == token.STRING && strings.Contains(bl.Value, "%s:%s") && mentionsIdent(c.Args[1], "alias") {
					readsAliased = true
				}
			}
			return true
		})
		if readsAliased && !mentionsIdent(name.Body, "alias") {
			asym = append(asym, g.Dir)
		}
	}
	res.Count(rule+" properties with a reader and a Name()", n, 90)
	sort.Strings(asym)
	if len(asym) > 0 {
		ex := asym
		if len(ex) > 4 {
			ex = ex[:4]
		}
		res.Add(Oblig{Rule: rule, Func: "streams/impl", Pos: "-", Key: rule + "|streams/impl|aliased member names: read with the alias, written and claimed without it",
			Desc: "a property read under \"<alias>:<name>\" is written under the same spelling", Verdict: VIOLATION,
			Detail: fmt.Sprintf("%d of %d properties look the member up under the aliased name but Name() ignores the alias (e.g. %s): an aliased member is written back under its plain name and, not being claimed by the type, once more from the unknown members — the document is not JSON-equal after a round trip", len(asym), n, strings.Join(ex, ", "))})
	} else {
		res.ok(rule, "streams/impl", "-", "a property read under \"<alias>:<name>\" is written under the same spelling")
	}

	// (c) per type: the unknown-member filter must compare keys in the spelling the readers use
	if ok, nT, ex := claimsIgnoreAlias(S); nT > 0 {
		if !ok {
			res.Add(Oblig{Rule: rule, Func: "streams/impl", Pos: "-", Key: rule + "|streams/impl|claimed member names ignore the vocabulary alias",
				Desc: "a type claims its members in the spelling its property readers look them up (with the alias, when the document sets one)", Verdict: VIOLATION,
				Detail: fmt.Sprintf("%d of %d types compare the keys of the document with the plain member names only (e.g. %s): in a document that aliases the vocabulary every known member is interpreted by its property AND kept among the unknown members, which are written back verbatim — also after the typed property was changed or cleared", len(ex), nT, strings.Join(ex[:min(len(ex), 3)], ", "))})
		} else {
			res.ok(rule, "streams/impl", "-", "a type claims its members in the spelling its property readers look them up")
		}
	}

	// (a) orientation of the @context object
	sp := loadStreamsRootSSA()
	if sp == nil {
		res.undecided(rule, "streams", "-", "package streams in SSA form", "not built")
		return
	}
	pos := func(p interface{ Pos() token.Pos }) string { return relPos(sp.Prog.Fset, p.Pos()) }
	// writer: in Serialize, a map[string]string receives entries whose key comes from the VALUE (alias) or the KEY (vocabulary) of the range over JSONLDContext()
	writerKey := ""
	if fn := sp.Func("Serialize"); fn != nil {
		for _, b := range fn.Blocks {
			for _, ins := range b.Instrs {
				mu, ok := ins.(*ssa.MapUpdate)
				if !ok || mu.Map.Type().String() != "map[string]string" {
					continue
				}
				if ex, ok := unwrap(mu.Key).(*ssa.Extract); ok {
					if _, isNext := ex.Tuple.(*ssa.Next); isNext {
						switch ex.Index {
						case 1:
							writerKey = "vocabulary"
						case 2:
							writerKey = "alias"
						}
					}
				}
			}
		}
	}
	// reader: in toAliasMap, the result (keyed by vocabulary: it is indexed with the vocabulary URI constants) receives result[<range key>] or result[<range value>]
	readerKey := ""
	var readerPos string
	if fn := sp.Func("toAliasMap"); fn != nil {
		for _, b := range fn.Blocks {
			for _, ins := range b.Instrs {
				mu, ok := ins.(*ssa.MapUpdate)
				if !ok {
					continue
				}
				if ex, ok := unwrap(mu.Key).(*ssa.Extract); ok && ex.Index == 1 {
					if nx, isNext := ex.Tuple.(*ssa.Next); isNext {
						if rg, ok := nx.Iter.(*ssa.Range); ok && strings.HasPrefix(rg.X.Type().String(), "map[string]interface") {
							readerKey = "vocabulary" // result[ctxKey] = …: the context object's key is used as the vocabulary
							readerPos = pos(mu)
						}
					}
				}
				// result[<asserted string value>] = key
				if ta, ok := unwrap(mu.Key).(*ssa.Extract); ok {
					if _, isTA := ta.Tuple.(*ssa.TypeAssert); isTA {
						if kx, ok := unwrap(mu.Value).(*ssa.Extract); ok && kx.Index == 1 {
							if _, isNext := kx.Tuple.(*ssa.Next); isNext {
								readerKey = "alias"
								readerPos = pos(mu)
							}
						}
					}
				}
			}
		}
	}
	checkToAliasMapPairs(res, rule)
	if writerKey == "" || readerKey == "" {
		res.undecided(rule, "streams", "-", "orientation of the @context object in Serialize and toAliasMap", fmt.Sprintf("writer: %q, reader: %q", writerKey, readerKey))
		return
	}
	if writerKey != readerKey {
		res.Add(Oblig{Rule: rule, Func: "toAliasMap", Pos: readerPos, Key: rule + "|toAliasMap|the @context object is read in the orientation it is written",
			Desc: "the @context object is read in the orientation it is written", Verdict: VIOLATION,
			Detail: fmt.Sprintf("streams.Serialize writes {%s: …} but toAliasMap takes the object's keys as the %s: a document in the JSON-LD form {alias: vocabulary} — including the library's own output — is not recognised (\"did not match any known types\")", writerKey, readerKey)})
	} else {
		res.ok(rule, "toAliasMap", readerPos, "the @context object is read in the orientation it is written")
	}
}

// claimsIgnoreAlias: for every generated type, are the member names of its vocabulary
// properties claimed under the alias-prefixed spelling the property readers look them up under
// (k == <prefix of the vocabulary's alias> + "name")? Returns ok, the number of types examined
// and the names of the types with at least one vocabulary member claimed plain.
func claimsIgnoreAlias(S *Streams) (bool, int, []string) {
	M := loadGenModel()
	var bad []string
	n := 0
	for _, tm := range M.Types {
		tt := extractTypeTables(M, tm)
		if len(tt.claimed) == 0 {
			continue
		}
		n++
		plain := false
		for _, pm := range tm.Fields {
			if pm.VocabURI == "" {
				continue // JSON-LD id / type: never aliased
			}
			if u, claimed := tt.claimedVocab[pm.Name]; claimed && (u == "" || normURI(u) != normURI(pm.VocabURI)) {
				plain = true // compared plain, or under the alias of a vocabulary the property does not read it under
			}
		}
		if plain {
			bad = append(bad, tm.G.Name)
		}
	}
	sort.Strings(bad)
	return len(bad) == 0, n, bad
}

// checkToAliasMapPairs: rule (d) of C01-R9, shared with C14.
func checkToAliasMapPairs(res *Result, rule string) {
	// (d) both spellings: a vocabulary URI with an http(s) scheme is entered into the alias map under
	// its http and its https spelling (the generated readers look the alias up under one canonical
	// spelling only). Every store into toAliasMap's result either uses a key produced by the
	// http/https helper, or lies where that helper said "not an http(s) URI".
	sp := loadStreamsRootSSA()
	if sp == nil {
		return
	}
	pos := func(p interface{ Pos() token.Pos }) string { return relPos(sp.Prog.Fset, p.Pos()) }
	if fn := sp.Func("toAliasMap"); fn != nil {
		ff := computeFacts(fn)
		isPair := func(c *ssa.Call) bool {
			sig := c.Call.Signature()
			return sig.Results().Len() == 3 && sig.Results().At(0).Type().String() == "bool" && sig.Results().At(1).Type().String() == "string" && sig.Results().At(2).Type().String() == "string"
		}
		var pairCalls []*ssa.Call
		for _, b := range fn.Blocks {
			for _, ins := range b.Instrs {
				if c, ok := ins.(*ssa.Call); ok && !c.Common().IsInvoke() && isPair(c) {
					pairCalls = append(pairCalls, c)
				}
			}
		}
		nStore, badStore := 0, ""
		for _, b := range fn.Blocks {
			for _, ins := range b.Instrs {
				mu, ok := ins.(*ssa.MapUpdate)
				if !ok || mu.Map.Type().String() != "map[string]string" {
					continue
				}
				// copying the entries of a nested result (r := toAliasMap(elem); m[k] = val) is not a registration
				if ex, ok := unwrap(mu.Key).(*ssa.Extract); ok {
					if nx, isNext := ex.Tuple.(*ssa.Next); isNext {
						if rg, ok := nx.Iter.(*ssa.Range); ok && rg.X.Type().String() == "map[string]string" {
							continue
						}
					}
				}
				nStore++
				okS := false
				if ex, ok := unwrap(mu.Key).(*ssa.Extract); ok && (ex.Index == 1 || ex.Index == 2) {
					if c, ok := ex.Tuple.(*ssa.Call); ok && isPair(c) {
						okS = true
					}
				}
				if !okS {
					for _, c := range pairCalls {
						if okx := extractOf2(c, 0); okx != nil && ff.has(mu, okx, fFALSE, "") {
							okS = true
						}
					}
				}
				if !okS {
					badStore = pos(mu)
				}
			}
		}
		res.check(nStore >= 3 && badStore == "", rule, "toAliasMap", pos(fn), "every vocabulary is registered under its http and its https spelling (or is known not to be an http(s) URI)", "the store at "+badStore+" registers the URI as written only: an alias bound to the other scheme's spelling of a vocabulary is not found by the generated readers")
	}
}
