package main

// E5 — extraction of the tables embedded in the generated code of streams/...
// (go/ast + go/types), to be compared with the ontology oracle.

import (
	"go/ast"
	"go/constant"
	"go/token"
	"go/types"
	"path"
	"sort"
	"strings"

	"golang.org/x/tools/go/packages"
)

type GenType struct {
	Pkg      *packages.Package
	Name     string // GetTypeName() literal
	VocabURI string // VocabularyURI() literal
	Struct   *types.Named
	Funcs    map[string]*ast.FuncDecl // package-level funcs and methods (methods keyed "(T).Name")
}

type GenProp struct {
	Pkg   *packages.Package
	Dir   string // property_<x>
	Funcs map[string]*ast.FuncDecl
}

type Streams struct {
	Pkgs     []*packages.Package
	Fset     *token.FileSet
	Root     *packages.Package // streams
	Vocab    *packages.Package // streams/vocab
	Types    []*GenType
	Props    []*GenProp
	Values   []*packages.Package
	funcDecl map[*types.Func]*ast.FuncDecl
	declPkg  map[*ast.FuncDecl]*packages.Package
}

var streamsCache *Streams

func loadStreams() *Streams {
	if streamsCache != nil {
		return streamsCache
	}
	pkgs := loadPkgs(packages.LoadSyntax, false, "./streams/...")
	S := &Streams{Pkgs: pkgs, Fset: pkgs[0].Fset, funcDecl: map[*types.Func]*ast.FuncDecl{}, declPkg: map[*ast.FuncDecl]*packages.Package{}}
	for _, p := range pkgs {
		for _, f := range p.Syntax {
			if isTestFile(p.Fset, f.Pos()) {
				continue
			}
			for _, d := range f.Decls {
				if fd, ok := d.(*ast.FuncDecl); ok {
					if o, ok := p.TypesInfo.Defs[fd.Name].(*types.Func); ok {
						S.funcDecl[o] = fd
						S.declPkg[fd] = p
					}
				}
			}
		}
		base := path.Base(p.PkgPath)
		switch {
		case p.PkgPath == modPath+"/streams":
			S.Root = p
		case p.PkgPath == modPath+"/streams/vocab":
			S.Vocab = p
		case strings.Contains(p.PkgPath, "/streams/impl/") && strings.HasPrefix(base, "type_"):
			S.Types = append(S.Types, extractGenType(p))
		case strings.Contains(p.PkgPath, "/streams/impl/") && strings.HasPrefix(base, "property_"):
			S.Props = append(S.Props, &GenProp{Pkg: p, Dir: base, Funcs: declaredFuncs(p)})
		case strings.Contains(p.PkgPath, "/streams/values/"):
			S.Values = append(S.Values, p)
		}
	}
	if S.Root == nil || S.Vocab == nil {
		fatalf("streams or streams/vocab package not found")
	}
	sort.Slice(S.Types, func(i, j int) bool { return S.Types[i].Pkg.PkgPath < S.Types[j].Pkg.PkgPath })
	sort.Slice(S.Props, func(i, j int) bool { return S.Props[i].Pkg.PkgPath < S.Props[j].Pkg.PkgPath })
	streamsCache = S
	return S
}

func declaredFuncs(p *packages.Package) map[string]*ast.FuncDecl {
	out := map[string]*ast.FuncDecl{}
	for _, f := range p.Syntax {
		if isTestFile(p.Fset, f.Pos()) {
			continue
		}
		for _, d := range f.Decls {
			fd, ok := d.(*ast.FuncDecl)
			if !ok || fd.Body == nil {
				continue
			}
			name := fd.Name.Name
			if fd.Recv != nil && len(fd.Recv.List) > 0 {
				t := fd.Recv.List[0].Type
				if s, ok := t.(*ast.StarExpr); ok {
					t = s.X
				}
				name = "(" + types.ExprString(t) + ")." + name
			}
			out[name] = fd
		}
	}
	return out
}

// stringReturn returns the literal of a function whose body is `return "lit"`.
func stringReturn(info *types.Info, fd *ast.FuncDecl) (string, bool) {
	if fd == nil || fd.Body == nil || len(fd.Body.List) != 1 {
		return "", false
	}
	r, ok := fd.Body.List[0].(*ast.ReturnStmt)
	if !ok || len(r.Results) != 1 {
		return "", false
	}
	tv, ok := info.Types[r.Results[0]]
	if !ok || tv.Value == nil || tv.Value.Kind() != constant.String {
		return "", false
	}
	return constant.StringVal(tv.Value), true
}

func extractGenType(p *packages.Package) *GenType {
	g := &GenType{Pkg: p, Funcs: declaredFuncs(p)}
	for name, fd := range g.Funcs {
		if strings.HasSuffix(name, ").GetTypeName") {
			if s, ok := stringReturn(p.TypesInfo, fd); ok {
				g.Name = s
				recv := strings.TrimSuffix(strings.TrimPrefix(name, "("), ").GetTypeName")
				if o := p.Types.Scope().Lookup(recv); o != nil {
					g.Struct, _ = o.Type().(*types.Named)
				}
			}
		}
		if strings.HasSuffix(name, ").VocabularyURI") {
			if s, ok := stringReturn(p.TypesInfo, fd); ok {
				g.VocabURI = s
			}
		}
	}
	return g
}

func (S *Streams) pos(n ast.Node) string { return relPos(S.Fset, n.Pos()) }

// calleeOf resolves the callee of a call expression to its declared function.
func calleeFunc(info *types.Info, call *ast.CallExpr) *types.Func {
	switch f := call.Fun.(type) {
	case *ast.Ident:
		fn, _ := info.Uses[f].(*types.Func)
		return fn
	case *ast.SelectorExpr:
		fn, _ := info.Uses[f.Sel].(*types.Func)
		return fn
	}
	return nil
}

// strLit returns the constant string value of an expression.
func strLit(info *types.Info, e ast.Expr) (string, bool) {
	tv, ok := info.Types[e]
	if !ok || tv.Value == nil || tv.Value.Kind() != constant.String {
		return "", false
	}
	return constant.StringVal(tv.Value), true
}
