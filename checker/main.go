package main

// verifchk — static checks of go-fed/activity properties C01..C20.
// Usage: verifchk -prop C09 [-tier quick|thorough] [-repo /repo] [-verif /verif]

import (
	"encoding/json"
	"flag"
	"fmt"
	"os"
	"runtime/debug"
	"sort"
	"strconv"
)

type propCheck struct {
	level string
	run   func(res *Result)
}

var props = map[string]propCheck{}

func register(id, level string, f func(res *Result)) { props[id] = propCheck{level, f} }

func main() {
	prop := flag.String("prop", "", "property id")
	tier := flag.String("tier", "quick", "quick|thorough")
	repo := flag.String("repo", "/repo", "repository root")
	verif := flag.String("verif", "/verif", "verif dir (known_findings.txt, evidence/)")
	list := flag.Bool("list", false, "list properties")
	dumpKnown := flag.String("dump-known", "", "print known_funcs.go for the given package directory and exit")
	flag.Parse()
	if *dumpKnown != "" {
		repoDir = *repo
		dumpKnownFuncs(*dumpKnown)
		return
	}
	if *list {
		var ids []string
		for id := range props {
			ids = append(ids, id)
		}
		sort.Strings(ids)
		for _, id := range ids {
			fmt.Println(id, props[id].level)
		}
		return
	}
	pc, ok := props[*prop]
	if !ok {
		fmt.Println("ERROR: unknown property", *prop)
		os.Exit(2)
	}
	repoDir = *repo
	var seed int64
	if s := os.Getenv("VERIF_SEED"); s != "" {
		seed, _ = strconv.ParseInt(s, 10, 64)
	}
	res := NewResult(*prop, pc.level, *tier, seed)
	code := 2
	func() {
		defer func() {
			if r := recover(); r != nil {
				// a panic in the checker is a failed check, never a pass
				fmt.Printf("ERROR: checker panic: %v\n%s\n", r, debug.Stack())
				res.undecided(*prop+"-ENGINE", "checker", "-", "checker panicked", fmt.Sprint(r))
			}
		}()
		pc.run(res)
		if pubOverlayDone && (len(lastInline.Expanded) > 0 || len(lastInline.Skipped) > 0 || lastInline.Dropped != "") {
			res.Extra["helper_expansion"] = lastInline
			for _, e := range lastInline.Expanded {
				fmt.Println("NOTE: expanded new helper " + e)
			}
			if lastInline.Dropped != "" {
				fmt.Println("NOTE: helper expansion dropped: " + lastInline.Dropped)
			}
		}
		if streamsOverlayDone && (len(lastInlineStreams.Expanded) > 0 || len(lastInlineStreams.Skipped) > 0 || lastInlineStreams.Dropped != "") {
			res.Extra["helper_expansion_streams"] = lastInlineStreams
			for _, e := range lastInlineStreams.Expanded {
				fmt.Println("NOTE: expanded new helper " + e)
			}
			if lastInlineStreams.Dropped != "" {
				fmt.Println("NOTE: helper expansion dropped: " + lastInlineStreams.Dropped)
			}
		}
		if f := os.Getenv("VERIF_AUDIT_SUMMARY"); f != "" {
			if b, err := os.ReadFile(f); err == nil {
				var v interface{}
				if json.Unmarshal(b, &v) == nil {
					res.Extra["sensitivity_audit"] = v
				}
			}
		}
	}()
	code = res.Finish(*verif)
	os.Exit(code)
}

func init() {
	register("C08", "other", checkC08)
	register("C09", "other", checkC09)
	register("C07", "other", checkC07)
	register("C10", "other", checkC10)
	register("C13", "proof", checkC13)
	register("C05", "other", checkC05)
	register("C11", "other", checkC11)
	register("C01", "other", checkC01)
	register("C18", "other", checkC18)
	register("C12", "other", checkC12)
	register("C14", "other", checkC14)
	register("C19", "other", checkC19)
	register("C17", "other", checkC17)
	register("C16", "other", checkC16)
	register("C20", "other", checkC20)
	register("C04", "other", checkC04)
	register("C02", "other", checkC02)
	register("C03", "other", checkC03)
	register("C06", "other", checkC06)
	register("C15", "other", checkC15)
	register("XERR", "other", func(res *Result) {
		p := loadPub()
		E := computeEffects(p)
		var names []string
		for _, f := range p.Funcs {
			names = append(names, fname(f))
		}
		addErrFlowObligations(res, p, E, "XERR", names, os.Getenv("TRACKALL") != "")
	})
}
