package main

// C20 — served ActivityStreams bodies are faithful, de-duplicated and integrity-tagged.

import (
	"fmt"
	"strings"

	"golang.org/x/tools/go/ssa"
)

func checkC20(res *Result) {
	p := loadPub()
	E := computeEffects(p)
	res.Packages = []string{p.Pkg.PkgPath}
	res.Explanation = "Decides on all SSA paths of GetInbox, GetOutbox and the handler closure: the bytes written are the very slice whose digest was put in the headers, and that slice is json.Marshal(streams.Serialize(x)) with x the value the application supplied (delegate.GetInbox/GetOutbox, Database.Get), after — for the inbox — dedupeOrderedItems(x) succeeded and — for the handler — clearSensitiveFields(x); headers are set before the status and the status before the body; addResponseHeaders derives Content-Type from the ActivityStreams constant, Date from clock.Now().UTC().Format(RFC 7231 layout)+\" GMT\" and Digest from \"SHA-256=\"+base64.StdEncoding(sha256.Sum256(exactly the parameter bytes)); dedupeOrderedItems removes an element exactly when its id was seen before, marks it otherwise, and its in-place loop cannot skip the element after a removed one; a missing value yields ErrNotFound before anything is written. That the body equals the serialisation at the value level is C01's."
	res.Rule("C20-R1", "one byte slice: the value passed to addResponseHeaders and to w.Write is the same SSA value, the result of json.Marshal(streams.Serialize(x)), x flowing from the application; addResponseHeaders ≺ WriteHeader ≺ Write")
	res.Rule("C20-R2", "header derivation in addResponseHeaders: Content-Type ← the ActivityStreams media-type constant; Date ← clock.Now().UTC().Format(layout)+\" GMT\" (RFC 7231); Digest ← \"SHA-256\"+\"=\"+base64.StdEncoding.EncodeToString(sha256.Sum256(param))")
	res.Rule("C20-R3", "inbox de-duplication precedes serialisation (and is absent from the outbox); the handler scrubs before serialising; dedupeOrderedItems keeps the first occurrence, removes later ones, examines every element")
	res.Rule("C20-R4", "a missing value yields ErrNotFound with nothing written; Tombstone ⇒ 410 else 200 (status table shared with C10)")

	type ep struct{ name, source string }
	for _, e := range []ep{{"baseActor.GetInbox", "delegate.GetInbox"}, {"baseActor.GetOutbox", "delegate.GetOutbox"}, {"NewActivityStreamsHandlerScheme$1", "Database.Get"}} {
		fn := p.MustFunc(res, "C20-R1", e.name)
		if fn == nil {
			continue
		}
		ff := computeFacts(fn)
		g := flowOf(fn)
		w := respWriterParam(fn)
		var write, header ssa.CallInstruction
		for _, ci := range callsIn(fn) {
			switch rwEventOf(ci, w, E) {
			case "body":
				write = ci
			}
		}
		hs := findCalls(E, fn, "addResponseHeaders")
		if write == nil || len(hs) != 1 {
			res.bad("C20-R1", e.name, p.pos(fn), "the response is built with one addResponseHeaders and one Write", fmt.Sprintf("Write found: %v, addResponseHeaders calls: %d", write != nil, len(hs)))
			continue
		}
		header = hs[0]
		body := ff.resolveAt(write, write.Common().Args[0])
		res.check(ff.resolveAt(header, header.Common().Args[2]) == body, "C20-R1", e.name, p.pos(write), "the bytes written are the bytes whose digest was put in the headers (same value)", "addResponseHeaders and Write receive different values: the body can differ from what the Digest covers")
		// body = json.Marshal(streams.Serialize(x))
		mv, okM := unwrapExtract(body)
		mc, isCall := mv.(*ssa.Call)
		okChain := okM && isCall && staticName(mc) == "json.Marshal"
		var src ssa.Value
		if okChain {
			sv, _ := unwrapExtract(unwrap(ff.resolveAt(mc, mc.Call.Args[0])))
			sc, ok := sv.(*ssa.Call)
			okChain = ok && staticName(sc) == "streams.Serialize"
			if okChain {
				src = unwrap(ff.resolveAt(sc, sc.Call.Args[0]))
			}
		}
		res.check(okChain, "C20-R1", e.name, p.pos(write), "the body is json.Marshal(streams.Serialize(x))", "the written value is not built that way")
		if src != nil {
			sx, _ := unwrapExtract(src)
			res.check(isCallNamedOrLabel(E, sx, e.source), "C20-R1", e.name, p.pos(write), "x is the value the application supplied ("+e.source+")", "serialised value is "+valueLabel(src))
			// nothing else flows into the body: no mutation of x other than the sanctioned ones
			for _, ci := range callsIn(fn) {
				cc := ci.Common()
				if cc.IsInvoke() && isMutatorName(cc.Method.Name()) && anyBackward(g, cc.Value, func(v ssa.Value) bool { return v == sx }) && !isResponseWriter(cc.Value.Type()) {
					res.bad("C20-R1", e.name, p.pos(ci), "the supplied value is served unmodified", "mutator "+cc.Method.Name()+" is applied to it in the handler")
				}
			}
			// R3 order
			if e.name == "baseActor.GetInbox" {
				dd := findCalls(E, fn, "dedupeOrderedItems")
				okD := len(dd) == 1
				if okD {
					d := dd[0].(*ssa.Call)
					ser := mc.Call.Args[0]
					_ = ser
					sv, _ := unwrapExtract(unwrap(mc.Call.Args[0]))
					okD = unwrap(ff.resolveAt(d, d.Call.Args[0])) == src && dominates(d, sv.(*ssa.Call)) && ff.has(sv.(*ssa.Call), d, fNIL, "")
				}
				res.check(okD, "C20-R3", e.name, p.pos(fn), "dedupeOrderedItems(x) succeeded before x is serialised", "missing, applied to another value, or not dominating Serialize")
			}
			if e.name == "baseActor.GetOutbox" {
				res.check(len(findCalls(E, fn, "dedupeOrderedItems")) == 0, "C20-R3", e.name, p.pos(fn), "the outbox is served as supplied (no de-duplication)", "dedupeOrderedItems is applied to the outbox")
			}
			if e.name == "NewActivityStreamsHandlerScheme$1" {
				sv, _ := unwrapExtract(unwrap(mc.Call.Args[0]))
				okS := false
				for _, c := range findCalls(E, fn, "clearSensitiveFields") {
					if unwrap(ff.resolveAt(c, c.Common().Args[0])) == src && dominates(c, sv.(*ssa.Call)) {
						okS = true
					}
				}
				res.check(okS, "C20-R3", e.name, p.pos(fn), "clearSensitiveFields(x) on every path before x is serialised", "some path serialises the value unscrubbed")
			}
		}
		// order
		var status []ssa.CallInstruction
		for _, ci := range callsIn(fn) {
			if rwEventOf(ci, w, E) == "header" {
				status = append(status, ci)
			}
		}
		res.check(len(status) >= 1, "C20-R1", e.name, p.pos(fn), "a status is written", "no WriteHeader")
		for _, st := range status {
			res.check(dominates(header, st), "C20-R1", e.name, p.pos(st), "headers are set before the status is written (later ones would be ignored)", "addResponseHeaders does not dominate WriteHeader")
			res.check(!reachesInstr(write, st), "C20-R1", e.name, p.pos(st), "the status is written before the body", "Write can precede WriteHeader")
		}
		anyDom := false
		for _, st := range status {
			if dominates(st, write) {
				anyDom = true
			}
		}
		if len(status) == 1 {
			res.check(anyDom, "C20-R1", e.name, p.pos(write), "the body is written only after the status", "WriteHeader does not dominate Write")
		}
		// header arg 0 is w.Header(), arg 1 the clock
		h0, ok := header.Common().Args[0].(*ssa.Call)
		res.check(ok && h0.Common().IsInvoke() && h0.Common().Value == w && h0.Common().Method.Name() == "Header", "C20-R1", e.name, p.pos(header), "the headers set are those of this response", "first argument is not w.Header()")
	}

	// R2
	if fn := p.MustFunc(res, "C20-R2", "addResponseHeaders"); fn != nil {
		sets := map[string]ssa.CallInstruction{}
		for _, ci := range callsIn(fn) {
			if staticName(ci) == "(http.Header).Set" {
				if n, ok := stringConst(ci.Common().Args[1]); ok {
					sets[n] = ci
				}
				res.check(isParamNamed(ci.Common().Args[0], "h"), "C20-R2", fname(fn), p.pos(ci), "headers are set on the header map passed in", "different receiver")
			}
		}
		for _, hn := range []string{"Content-Type", "Date", "Digest"} {
			if c := sets[hn]; c != nil {
				okDom := true
				for _, r := range returnsIn(fn) {
					if !dominates(c, r) {
						okDom = false
					}
				}
				res.check(okDom, "C20-R2", fname(fn), p.pos(c), hn+" is set on every path (whatever the header map held before)", "the Set is conditional: a response can leave with a "+hn+" the library did not derive")
			}
		}
		if c := sets["Content-Type"]; c != nil {
			v, ok := stringConst(c.Common().Args[2])
			res.check(ok && v == "application/ld+json; profile=\"https://www.w3.org/ns/activitystreams\"", "C20-R2", fname(fn), p.pos(c), "Content-Type is the ActivityStreams media type", "value: "+v)
		} else {
			res.bad("C20-R2", fname(fn), p.pos(fn), "Content-Type is set", "missing")
		}
		if c := sets["Date"]; c != nil {
			okDate, why := dateChain(c.Common().Args[2], "c")
			res.check(okDate, "C20-R2", fname(fn), p.pos(c), "Date is clock.Now().UTC().Format(\"Mon, 02 Jan 2006 15:04:05\")+\" GMT\" (RFC 7231, from the application's clock)", why)
		} else {
			res.bad("C20-R2", fname(fn), p.pos(fn), "Date is set", "missing")
		}
		if c := sets["Digest"]; c != nil {
			t := termOf(c.Common().Args[2], nil, 0)
			var enc, sum *term
			okShape := t.op == "concat" && len(t.args) == 2 && t.args[0].op == "const" && t.args[0].s == "SHA-256=" && isCallTerm(t.args[1], "(base64.Encoding).EncodeToString")
			if okShape {
				enc = t.args[1]
			}
			okEnc := enc != nil && len(enc.args) == 2 && enc.args[0].op == "global" && enc.args[0].s == "StdEncoding"
			if okEnc && enc.args[1].op == "slice" && isCallTerm(enc.args[1].args[0], "sha256.Sum256") {
				sum = enc.args[1].args[0]
			}
			okSum := sum != nil && len(sum.args) == 1 && sum.args[0].op == "param" && sum.args[0].s == "responseContent"
			res.check(okSum, "C20-R2", fname(fn), p.pos(c), "the digest is sha256.Sum256 of exactly the bytes passed in", "Sum256 missing or applied to something else: "+t.String())
			res.check(okEnc, "C20-R2", fname(fn), p.pos(c), "the digest is encoded with base64.StdEncoding", "different encoding or input: "+t.String())
			res.check(okShape, "C20-R2", fname(fn), p.pos(c), "Digest is \"SHA-256=\" followed by the base64 digest", "value is "+t.String())
		} else {
			res.bad("C20-R2", fname(fn), p.pos(fn), "Digest is set", "missing")
		}
	}

	// R3 (handler): bto/bcc removed — the recursive scrub itself (shared with C03-R4)
	checkStripper(res, p, "C20-R3", "clearSensitiveFields", true)
	// R3: dedupeOrderedItems
	checkInPlaceFilterLoop(res, p, "C20-R3", "dedupeOrderedItems", 1)
	if fn := p.MustFunc(res, "C20-R3", "dedupeOrderedItems"); fn != nil {
		ff := computeFacts(fn)
		var seenLookup *ssa.Lookup
		for _, b := range fn.Blocks {
			for _, ins := range b.Instrs {
				if l, ok := ins.(*ssa.Lookup); ok && strings.HasPrefix(l.X.Type().String(), "map[string]bool") {
					seenLookup = l
				}
			}
		}
		if seenLookup == nil {
			res.bad("C20-R3", fname(fn), p.pos(fn), "ids already served are remembered in a set", "no map[string]bool lookup")
		} else {
			for _, ci := range callsIn(fn) {
				cc := ci.Common()
				if cc.IsInvoke() && cc.Method.Name() == "Remove" {
					res.check(ff.has(ci, seenLookup, fTRUE, ""), "C20-R3", fname(fn), p.pos(ci), "an element is removed exactly when its id was seen before (later duplicates go, the first stays)", "facts: "+ff.describe(ci))
				}
			}
			for _, b := range fn.Blocks {
				for _, ins := range b.Instrs {
					if mu, ok := ins.(*ssa.MapUpdate); ok && mu.Map == seenLookup.X {
						v, isC := boolConst(mu.Value)
						res.check(isC && v && ff.has(mu, seenLookup, fFALSE, ""), "C20-R3", fname(fn), p.pos(mu), "a first occurrence is recorded as seen", "facts: "+ff.describe(mu))
					}
				}
			}
			// the key looked up and the key recorded are the id of the current element
			g := flowOf(fn)
			res.check(anyBackward(g, seenLookup.Index, func(x ssa.Value) bool { return isCallNamed(x, "ActivityStreamsOrderedItemsProperty.At") }), "C20-R3", fname(fn), p.pos(seenLookup), "the id tested is that of the current element", "lookup key does not derive from At(i)")
		}
	}

	// R4
	if fn := p.MustFunc(res, "C20-R4", "NewActivityStreamsHandlerScheme$1"); fn != nil {
		ff := computeFacts(fn)
		w := respWriterParam(fn)
		hist := computeWriteHistories(fn, w, E)
		gets := findCalls(E, fn, "Database.Get")
		if len(gets) == 1 {
			t := ssa.Value(extractOf(gets[0].(*ssa.Call), 0))
			n := 0
			getErr := ssa.Value(extractOf(gets[0].(*ssa.Call), 1))
			missing := func(s *factState) bool {
				return s != nil && s.facts[fact{ff.canon(s, t), fNIL, ""}] && s.facts[fact{ff.canon(s, getErr), fNIL, ""}]
			}
			for _, r := range returnsIn(fn) {
				if !ff.reachable(r) {
					continue
				}
				hs := hist.at[r]
				clean := len(hs) == 1 && hs[wh{}]
				if ff.has(r, t, fNIL, "") && ff.has(r, getErr, fNIL, "") {
					n++
					ev := ff.resolve(r, r.Results[1])
					res.check(isSentinel(ev, "ErrNotFound") && clean, "C20-R4", fname(fn), p.pos(r), "a missing value yields ErrNotFound with nothing written", fmt.Sprintf("returns %s; histories %s", valueLabel(ev), hs))
					continue
				}
				// the missing-value exit may share its return with other failures (a helper's exits
				// merged before the caller's `if err != nil { return }`): look at what the merge
				// delivers along the edges on which Get returned (nil, nil)
				for _, ev := range valuesAlong(ff, r.Results[1], missing, 0) {
					n++
					res.check(isSentinel(ev, "ErrNotFound") && clean, "C20-R4", fname(fn), p.pos(r), "a missing value yields ErrNotFound with nothing written", fmt.Sprintf("returns %s; histories %s", valueLabel(ev), hs))
				}
			}
			res.check(n == 1, "C20-R4", fname(fn), p.pos(fn), "there is a return for the missing-value case", fmt.Sprintf("%d such returns", n))
			// every use of t as a receiver/argument after that is in the non-nil region
			for _, ci := range E.byFn[fn] {
				if ci.Label == "clearSensitiveFields" || ci.Label == "streams.Serialize" || strings.HasSuffix(ci.Label, "streams.Serialize") {
					res.check(ff.has(ci.Instr, t, fNONNIL, ""), "C20-R4", fname(fn), p.pos(ci.Instr), ci.Label+" only for a value that exists", "facts: "+ff.describe(ci.Instr))
				}
			}
		} else {
			res.bad("C20-R4", fname(fn), p.pos(fn), "the value is read from the Database once", fmt.Sprintf("%d Get calls", len(gets)))
		}
	}
	res.Rule("C20-R6", "'with bto/bcc removed' holds for the bytes served: every type with bto / bcc claims the member in the spelling its property reads it, so that no raw copy survives among the unknown members and is written back after the scrub (shared with C03-R7)")
	checkHiddenClaimed(res, "C20-R6")
	res.Rule("C20-R5", "'later duplicates of an id': the id by which inbox items are compared is the one notion of identity of the library — GetId: JSON-LD id first, href only without one; ToId: GetId of an embedded value or the IRI (shared with C06-R7)")
	checkIdentity(res, p, "C20-R5")
	res.Assumptions = append(res.Assumptions, "net/http sends headers set before WriteHeader and ignores later ones", "value flow is an over-approximation")
	res.Undecided = []string{"that Serialize's output equals the value (C01)", "time-zone arithmetic inside time.Time"}
	res.Trusted = []string{"go/types, go/ssa (x/tools v0.29.0)", "e1_effects.go, e2_facts.go, e4_flow.go"}
}

func unwrapExtract(v ssa.Value) (ssa.Value, bool) {
	v = unwrap(v)
	if e, ok := v.(*ssa.Extract); ok {
		return e.Tuple, true
	}
	return v, true
}

func isCallNamedOrLabel(E *Effects, v ssa.Value, name string) bool {
	c, ok := v.(*ssa.Call)
	if !ok {
		return false
	}
	if ci := E.calls[c]; ci != nil && ci.Label == name {
		return true
	}
	return isCallNamed(v, name)
}

// dateChain: v is Format(UTC(Now(clock)), layout) + " GMT" with the RFC 7231
// layout (or the full layout including " GMT"), read as a term so that locals
// and small helper functions in between do not matter.
func dateChain(v ssa.Value, clockParam string) (bool, string) {
	return dateTerm(termOf(v, nil, 0), clockParam)
}

// valuesAlong: the values a merge delivers along those incoming edges whose state satisfies
// pred (followed through nested merges).
func valuesAlong(ff *FuncFacts, v ssa.Value, pred func(*factState) bool, depth int) []ssa.Value {
	ph, ok := v.(*ssa.Phi)
	if !ok || depth > 6 {
		return nil
	}
	es := ff.edgeIn[ph.Block()]
	if len(es) != len(ph.Edges) {
		return nil
	}
	var out []ssa.Value
	for i, e := range ph.Edges {
		if es[i] == nil {
			continue
		}
		if pred(es[i]) {
			if _, isPhi := e.(*ssa.Phi); isPhi {
				if sub := valuesAlong(ff, e, func(*factState) bool { return true }, depth+1); len(sub) > 0 {
					out = append(out, sub...)
					continue
				}
			}
			out = append(out, e)
		} else if _, isPhi := e.(*ssa.Phi); isPhi {
			out = append(out, valuesAlong(ff, e, pred, depth+1)...)
		}
	}
	return out
}
