package main

// Core result model shared by every property check: obligations, instance
// counts with hand-confirmed minima, known-findings matching, evidence and
// replay files.

import (
	"bufio"
	"encoding/json"
	"fmt"
	"os"
	"path/filepath"
	"sort"
	"strings"
	"time"
)

const (
	OK        = "ok"
	VIOLATION = "violation"
	UNDECIDED = "undecided" // counts as a failure, never as a pass
)

// Oblig is one rule instance: a construct of /repo to which a rule was applied.
type Oblig struct {
	Rule    string `json:"rule"`             // e.g. C09-R4
	Key     string `json:"key"`              // stable id: rule|function|construct (no line numbers)
	Func    string `json:"function"`         // enclosing function
	Pos     string `json:"pos"`              // file:line (diagnostic only)
	Desc    string `json:"what"`             // the instance, in words
	Verdict string `json:"verdict"`          // ok | violation | undecided
	Detail  string `json:"detail,omitempty"` // path / reason for a non-ok verdict
	Known   bool   `json:"known,omitempty"`  // matched an entry of known_findings.txt
}

// Result accumulates what one property check covered.
type Result struct {
	Prop        string
	Level       string
	Tier        string
	Seed        int64
	Rules       map[string]string // rule id -> statement of the rule
	Obligs      []Oblig
	Counts      map[string]int // measured instance counts
	Minima      map[string]int // hand-confirmed minimum for each count
	Packages    []string
	Functions   int
	Assumptions []string
	Trusted     []string
	Explanation string
	Undecided   []string // clauses of the property this check does not decide
	Extra       map[string]interface{}
	start       time.Time
	seenKeys    map[string]int
}

func NewResult(prop, level, tier string, seed int64) *Result {
	return &Result{Prop: prop, Level: level, Tier: tier, Seed: seed,
		Rules: map[string]string{}, Counts: map[string]int{}, Minima: map[string]int{},
		Extra: map[string]interface{}{}, start: time.Now(), seenKeys: map[string]int{}}
}

func (r *Result) Rule(id, text string) { r.Rules[id] = text }

// Add records one obligation. Keys must be unique; a repeated key gets a
// numeric suffix so that nothing is silently merged.
func (r *Result) Add(o Oblig) {
	if o.Key == "" {
		o.Key = o.Rule + "|" + o.Func + "|" + o.Desc
	}
	r.seenKeys[o.Key]++
	if n := r.seenKeys[o.Key]; n > 1 {
		o.Key = fmt.Sprintf("%s#%d", o.Key, n)
	}
	r.Obligs = append(r.Obligs, o)
}

// mark / rollback: a reader that does not recognise a statement form records its obligations
// provisionally; when a shape-independent reader then decides the same construct, the
// provisional ones are withdrawn.
type resultMark struct {
	n    int
	keys map[string]int
}

func (r *Result) mark() resultMark {
	k := map[string]int{}
	for a, b := range r.seenKeys {
		k[a] = b
	}
	return resultMark{len(r.Obligs), k}
}

func (r *Result) allOKSince(m resultMark) bool {
	for _, o := range r.Obligs[m.n:] {
		if o.Verdict != OK {
			return false
		}
	}
	return true
}

func (r *Result) rollback(m resultMark) {
	r.Obligs = r.Obligs[:m.n]
	r.seenKeys = m.keys
}

func (r *Result) ok(rule, fn, pos, desc string) {
	r.Add(Oblig{Rule: rule, Func: fn, Pos: pos, Desc: desc, Verdict: OK})
}
func (r *Result) bad(rule, fn, pos, desc, detail string) {
	r.Add(Oblig{Rule: rule, Func: fn, Pos: pos, Desc: desc, Verdict: VIOLATION, Detail: detail})
}
func (r *Result) undecided(rule, fn, pos, desc, detail string) {
	r.Add(Oblig{Rule: rule, Func: fn, Pos: pos, Desc: desc, Verdict: UNDECIDED, Detail: detail})
}

// check records ok or violation depending on cond.
func (r *Result) check(cond bool, rule, fn, pos, desc, detail string) bool {
	if cond {
		r.ok(rule, fn, pos, desc)
	} else {
		r.bad(rule, fn, pos, desc, detail)
	}
	return cond
}

// Count records a measured instance count together with the minimum confirmed
// by hand on the pinned tree. Falling below the minimum is a failure: a rule
// that matches nothing must not pass vacuously.
func (r *Result) Count(name string, n, min int) {
	r.Counts[name] = n
	r.Minima[name] = min
}

type knownEntry struct {
	prop, key, text string
	used            bool
}

func loadKnown(path, prop string) ([]*knownEntry, error) {
	f, err := os.Open(path)
	if err != nil {
		if os.IsNotExist(err) {
			return nil, nil
		}
		return nil, err
	}
	defer f.Close()
	var out []*knownEntry
	sc := bufio.NewScanner(f)
	sc.Buffer(make([]byte, 1<<20), 1<<20)
	for sc.Scan() {
		line := strings.TrimSpace(sc.Text())
		if !strings.HasPrefix(line, "known:") {
			continue // comments and "fixed:" entries suppress nothing
		}
		rest := strings.TrimSpace(strings.TrimPrefix(line, "known:"))
		// known: property=<id> key=<key> :: text
		var p, k, t string
		if i := strings.Index(rest, " :: "); i >= 0 {
			t = rest[i+4:]
			rest = rest[:i]
		}
		if i := strings.Index(rest, "key="); i >= 0 {
			k = strings.TrimSpace(rest[i+4:])
			rest = rest[:i]
		}
		for _, f := range strings.Fields(rest) {
			if strings.HasPrefix(f, "property=") {
				p = strings.TrimPrefix(f, "property=")
			}
		}
		if p == "" || k == "" {
			return nil, fmt.Errorf("malformed known-finding line: %q", line)
		}
		if p == prop {
			out = append(out, &knownEntry{prop: p, key: k, text: t})
		}
	}
	return out, sc.Err()
}

// Finish matches known findings, prints the verdict lines, writes the evidence
// and replay files, and returns the process exit code.
func (r *Result) Finish(verifDir string) int {
	known, err := loadKnown(filepath.Join(verifDir, "known_findings.txt"), r.Prop)
	if err != nil {
		fmt.Println("ERROR reading known findings:", err)
		return 2
	}
	kmap := map[string]*knownEntry{}
	for _, k := range known {
		kmap[k.key] = k
	}
	sort.SliceStable(r.Obligs, func(i, j int) bool {
		if r.Obligs[i].Rule != r.Obligs[j].Rule {
			return r.Obligs[i].Rule < r.Obligs[j].Rule
		}
		return r.Obligs[i].Key < r.Obligs[j].Key
	})
	var viol, und, knownHit []Oblig
	discharged := 0
	for i := range r.Obligs {
		o := &r.Obligs[i]
		switch o.Verdict {
		case OK:
			discharged++
		case VIOLATION:
			if k, ok := kmap[o.Key]; ok {
				k.used = true
				o.Known = true
				knownHit = append(knownHit, *o)
			} else {
				viol = append(viol, *o)
			}
		default:
			und = append(und, *o)
		}
	}
	var vac []string
	var cn []string
	for n := range r.Counts {
		cn = append(cn, n)
	}
	sort.Strings(cn)
	for _, n := range cn {
		if r.Counts[n] < r.Minima[n] {
			vac = append(vac, fmt.Sprintf("instance count %q = %d fell below the confirmed minimum %d (rule would pass vacuously)", n, r.Counts[n], r.Minima[n]))
		}
	}
	// A listed known finding that no longer fires is reported (not a failure:
	// the defect may have been repaired) so the file can be kept current.
	for _, k := range known {
		if !k.used {
			fmt.Printf("NOTE: known finding no longer observed: property=%s key=%s\n", k.prop, k.key)
		}
	}
	for _, o := range knownHit {
		fmt.Printf("KNOWN-FINDING: property=%s %s %s: %s [%s]\n", r.Prop, o.Key, o.Pos, o.Desc, o.Detail)
	}
	fail := len(viol) + len(und) + len(vac)
	evDir := filepath.Join(verifDir, "evidence")
	os.MkdirAll(filepath.Join(evDir, "replay"), 0o755)
	replay := filepath.Join(evDir, "replay", r.Prop+".json")
	os.Remove(replay)
	if fail > 0 {
		rp := map[string]interface{}{"property_id": r.Prop, "violations": viol, "undecided": und, "vacuity": vac,
			"how_to_read": "each entry names rule, function, file:line and the construct; re-run ./run.sh " + r.Prop + " quick to re-evaluate on the current tree"}
		b, _ := json.MarshalIndent(rp, "", " ")
		os.WriteFile(replay, b, 0o644)
		for _, o := range viol {
			fmt.Printf("FINDING rule=%s func=%s at %s: %s -- %s (key=%s)\n", o.Rule, o.Func, o.Pos, o.Desc, o.Detail, o.Key)
		}
		for _, o := range und {
			fmt.Printf("UNDECIDED rule=%s func=%s at %s: %s -- %s (key=%s)\n", o.Rule, o.Func, o.Pos, o.Desc, o.Detail, o.Key)
		}
		for _, v := range vac {
			fmt.Println("VACUITY", v)
		}
	}
	// samples: a spread of actual obligations (first of each rule, plus every non-ok one)
	var samples []interface{}
	seenRule := map[string]int{}
	for _, o := range r.Obligs {
		if o.Verdict != OK || seenRule[o.Rule] < 3 {
			seenRule[o.Rule]++
			samples = append(samples, o)
		}
		if len(samples) > 400 {
			break
		}
	}
	perRule := map[string]map[string]int{}
	distinct := map[string]bool{}
	for _, o := range r.Obligs {
		if perRule[o.Rule] == nil {
			perRule[o.Rule] = map[string]int{}
		}
		perRule[o.Rule][o.Verdict]++
		distinct[o.Key] = true
	}
	cov := map[string]interface{}{
		"explanation":         r.Explanation,
		"obligations":         len(r.Obligs),
		"discharged":          discharged,
		"known_findings":      len(knownHit),
		"evaluations":         len(r.Obligs),
		"distinct_nontrivial": len(distinct),
		"rule":                "one obligation per (rule, function, construct) instance found in /repo's current source; distinct = distinct keys; every instance is non-trivial in that it names a concrete construct the rule was applied to",
		"samples":             samples,
		"rules":               r.Rules,
		"per_rule":            perRule,
		"instance_counts":     r.Counts,
		"instance_minima":     r.Minima,
		"packages":            r.Packages,
		"functions_analysed":  r.Functions,
		"not_decided":         r.Undecided,
		"checker_cmd":         "./run.sh " + r.Prop + " " + r.Tier,
		"trusted_base":        r.Trusted,
		"exhaustive":          true,
	}
	for k, v := range r.Extra {
		cov[k] = v
	}
	ev := map[string]interface{}{
		"property_id": r.Prop,
		"tier":        r.Tier,
		"seed":        r.Seed,
		"level":       r.Level,
		"coverage":    cov,
		"assumptions": r.Assumptions,
		"wall_s":      time.Since(r.start).Seconds(),
		"violations":  len(viol) + len(und) + len(vac),
	}
	b, _ := json.MarshalIndent(ev, "", " ")
	if err := os.WriteFile(filepath.Join(evDir, r.Prop+".json"), b, 0o644); err != nil {
		fmt.Println("ERROR writing evidence:", err)
		return 2
	}
	fmt.Printf("SUMMARY property=%s tier=%s obligations=%d discharged=%d known=%d violations=%d undecided=%d vacuity=%d wall=%.1fs\n",
		r.Prop, r.Tier, len(r.Obligs), discharged, len(knownHit), len(viol), len(und), len(vac), time.Since(r.start).Seconds())
	var names []string
	for k := range perRule {
		names = append(names, k)
	}
	sort.Strings(names)
	for _, k := range names {
		fmt.Printf("  %-10s ok=%d violation=%d undecided=%d  %s\n", k, perRule[k][OK], perRule[k][VIOLATION], perRule[k][UNDECIDED], firstLine(r.Rules[k]))
	}
	for _, n := range cn {
		fmt.Printf("  count %-40s %d (min %d)\n", n, r.Counts[n], r.Minima[n])
	}
	if fail > 0 {
		fmt.Printf("VIOLATION property=%s replay=%s\n", r.Prop, replay)
		return 1
	}
	return 0
}

func firstLine(s string) string {
	if i := strings.IndexByte(s, '\n'); i >= 0 {
		s = s[:i]
	}
	if len(s) > 110 {
		s = s[:107] + "..."
	}
	return s
}
