package main

import (
	"fmt"
	"go/ast"
	"go/token"
	"go/types"
	"strconv"
)

// Next / Prev of an element: "return parent.At(myIdx ± 1) unless that index is outside
// [0, parent.Len())". The index and the boundary test are touched only through +, − and one
// comparison, so the rule is decided by normalising both to a linear form a·myIdx + b·Len + c:
// whatever the spelling (a local for the neighbour index, operands either way round, the nil
// branch first or last, `>=` or the equivalent `>` with the constant shifted).

type lin struct{ my, ln, c int }

func linearOf(info *types.Info, e ast.Expr, defs map[types.Object]ast.Expr, depth int) (lin, bool) {
	if depth > 6 {
		return lin{}, false
	}
	switch x := e.(type) {
	case *ast.ParenExpr:
		return linearOf(info, x.X, defs, depth+1)
	case *ast.BasicLit:
		if x.Kind == token.INT {
			if n, err := strconv.Atoi(x.Value); err == nil {
				return lin{c: n}, true
			}
		}
	case *ast.Ident:
		if d, ok := defs[info.ObjectOf(x)]; ok {
			return linearOf(info, d, defs, depth+1)
		}
	case *ast.SelectorExpr:
		if x.Sel.Name == "myIdx" && isIdentNamed(x.X, "this") {
			return lin{my: 1}, true
		}
	case *ast.CallExpr:
		// this.parent.Len()
		if sel, ok := x.Fun.(*ast.SelectorExpr); ok && sel.Sel.Name == "Len" && len(x.Args) == 0 {
			if ps, ok := sel.X.(*ast.SelectorExpr); ok && ps.Sel.Name == "parent" && isIdentNamed(ps.X, "this") {
				return lin{ln: 1}, true
			}
		}
	case *ast.BinaryExpr:
		a, ok1 := linearOf(info, x.X, defs, depth+1)
		b, ok2 := linearOf(info, x.Y, defs, depth+1)
		if ok1 && ok2 {
			switch x.Op {
			case token.ADD:
				return lin{a.my + b.my, a.ln + b.ln, a.c + b.c}, true
			case token.SUB:
				return lin{a.my - b.my, a.ln - b.ln, a.c - b.c}, true
			}
		}
	}
	return lin{}, false
}

// checkStep: dir is +1 for Next, −1 for Prev. Returns a description of what is wrong, or "".
func checkStep(info *types.Info, fd *ast.FuncDecl, dir int) string {
	defs := map[types.Object]ast.Expr{}
	nAssign := map[types.Object]int{}
	ast.Inspect(fd.Body, func(n ast.Node) bool {
		if as, ok := n.(*ast.AssignStmt); ok {
			for i, l := range as.Lhs {
				if id, ok := l.(*ast.Ident); ok {
					o := info.ObjectOf(id)
					nAssign[o]++
					if len(as.Lhs) == len(as.Rhs) {
						defs[o] = as.Rhs[i]
					}
				}
			}
		}
		return true
	})
	for o, n := range nAssign {
		if n != 1 {
			delete(defs, o)
		}
	}
	// returns: nil, or parent.At(myIdx+dir)
	type retInfo struct {
		r     *ast.ReturnStmt
		isNil bool
	}
	var rets []retInfo
	bad := ""
	ast.Inspect(fd.Body, func(n ast.Node) bool {
		r, ok := n.(*ast.ReturnStmt)
		if !ok {
			return true
		}
		if len(r.Results) != 1 {
			bad = "a return without exactly one result"
			return true
		}
		if isIdentNamed(r.Results[0], "nil") {
			rets = append(rets, retInfo{r, true})
			return true
		}
		if c, ok := r.Results[0].(*ast.CallExpr); ok && len(c.Args) == 1 {
			if sel, ok := c.Fun.(*ast.SelectorExpr); ok && sel.Sel.Name == "At" {
				if ps, ok := sel.X.(*ast.SelectorExpr); ok && ps.Sel.Name == "parent" && isIdentNamed(ps.X, "this") {
					if l, ok := linearOf(info, c.Args[0], defs, 0); ok && l == (lin{my: 1, c: dir}) {
						rets = append(rets, retInfo{r, false})
						return true
					}
					bad = "steps to " + types.ExprString(c.Args[0]) + ", not to the neighbouring index"
					return true
				}
			}
		}
		bad = "returns " + types.ExprString(r.Results[0])
		return true
	})
	if bad != "" {
		return bad
	}
	nNil, nAt := 0, 0
	for _, r := range rets {
		if r.isNil {
			nNil++
		} else {
			nAt++
		}
	}
	if nNil != 1 || nAt != 1 {
		return fmt.Sprintf("%d nil returns and %d neighbour returns (one of each expected)", nNil, nAt)
	}
	// the one boundary test
	var ifs *ast.IfStmt
	nIf := 0
	ast.Inspect(fd.Body, func(n ast.Node) bool {
		if s, ok := n.(*ast.IfStmt); ok {
			nIf++
			ifs = s
		}
		return true
	})
	if nIf != 1 || ifs.Init != nil {
		return fmt.Sprintf("%d if statements (one boundary test expected)", nIf)
	}
	be, ok := ifs.Cond.(*ast.BinaryExpr)
	if !ok {
		return "the boundary test is not a comparison"
	}
	l, ok1 := linearOf(info, be.X, defs, 0)
	r, ok2 := linearOf(info, be.Y, defs, 0)
	if !ok1 || !ok2 {
		return "the boundary test compares something other than myIdx, parent.Len() and constants"
	}
	d := lin{l.my - r.my, l.ln - r.ln, l.c - r.c} // d op 0
	op := be.Op
	flip := map[token.Token]token.Token{token.LSS: token.GTR, token.GTR: token.LSS, token.LEQ: token.GEQ, token.GEQ: token.LEQ}
	if d.my < 0 {
		d = lin{-d.my, -d.ln, -d.c}
		if f, ok := flip[op]; ok {
			op = f
		}
	}
	// normalise > and <= to >= and < (integers)
	switch op {
	case token.GTR: // d > 0  ⇔  d − 1 >= 0
		op, d.c = token.GEQ, d.c-1
	case token.LEQ: // d <= 0  ⇔  d − 1 < 0
		op, d.c = token.LSS, d.c-1
	}
	if op != token.GEQ && op != token.LSS {
		return "the boundary test uses " + be.Op.String()
	}
	// which branch is the if's body?
	bodyNil := false
	for _, rr := range rets {
		if rr.r.Pos() >= ifs.Body.Pos() && rr.r.End() <= ifs.Body.End() {
			bodyNil = rr.isNil
		}
	}
	var outside lin // "the neighbour is outside" as d >= 0 (Next) or d < 0 (Prev)
	var outsideOp token.Token
	if dir > 0 {
		outside, outsideOp = lin{my: 1, ln: -1, c: 1}, token.GEQ // myIdx + 1 − Len >= 0
	} else {
		outside, outsideOp = lin{my: 1, c: -1}, token.LSS // myIdx − 1 < 0
	}
	if d != outside {
		return fmt.Sprintf("the boundary test is %s, which is not 'the neighbouring index is outside the list'", types.ExprString(ifs.Cond))
	}
	condMeansOutside := op == outsideOp
	if condMeansOutside != bodyNil {
		return "nil is returned where the neighbour exists and the neighbour where it does not"
	}
	return ""
}
