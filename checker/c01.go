package main

// C01 — decode → encode without loss (conservation of members), and the
// reader/writer agreement of the literal codecs (also reported under C12).

import (
	"fmt"
	"go/ast"
	"go/constant"
	"go/token"
	"go/types"
	"path"
	"sort"
	"strings"

	"golang.org/x/tools/go/packages"
)

// ---- literal codecs: reader and writer tables agree

type unitRow struct {
	unit string
	ns   int64 // nanoseconds per unit
}

var durationUnits = []unitRow{
	{"Y", 8760 * 3600e9}, // 365-day years (stated in C12)
	{"M", 720 * 3600e9},  // 30-day months
	{"D", 24 * 3600e9},
	{"H", 3600e9},
	{"M", 60e9},
	{"S", 1e9},
}

// constProduct multiplies every constant factor of a multiplication chain.
func constProduct(info *types.Info, e ast.Expr) (float64, bool) {
	if tv, ok := info.Types[e]; ok && tv.Value != nil {
		f, _ := constant.Float64Val(constant.ToFloat(tv.Value))
		return f, true
	}
	switch x := e.(type) {
	case *ast.ParenExpr:
		return constProduct(info, x.X)
	case *ast.BinaryExpr:
		if x.Op == token.MUL {
			a, okA := constProduct(info, x.X)
			b, okB := constProduct(info, x.Y)
			switch {
			case okA && okB:
				return a * b, true
			case okA:
				return a, true
			case okB:
				return b, true
			}
		}
	case *ast.CallExpr:
		// conversion time.Duration(v): no constant factor
		return 0, false
	}
	return 0, false
}

func findValuesPkg(S *Streams, name string) *packages.Package {
	for _, p := range S.Values {
		if path.Base(p.PkgPath) == name {
			return p
		}
	}
	return nil
}

func checkCodecs(res *Result, S *Streams, rule string) {
	checkDurationSign(res, rule)
	checkDurationWriterSign(res, rule)
	checkAnyURIReader(res, rule)
	// duration
	if p := findValuesPkg(S, "duration"); p == nil {
		res.undecided(rule, "values/duration", "-", "duration codec found", "package missing")
	} else {
		info := p.TypesInfo
		fns := declaredFuncs(p)
		ser, de := fns["SerializeDuration"], fns["DeserializeDuration"]
		if ser == nil || de == nil {
			res.undecided(rule, "values/duration", "-", "SerializeDuration and DeserializeDuration found", "missing")
		} else {
			// writer: sequence of `if v := <expr>; v >= 1 { … tally += n * <mult> … Sprintf("%s%d<U>") }`
			type wrow struct {
				unit  string
				mult  float64
				div   float64
				cmpOK bool
				pos   token.Pos
			}
			var wr []wrow
			ast.Inspect(ser.Body, func(n ast.Node) bool {
				ifs, ok := n.(*ast.IfStmt)
				if !ok || ifs.Init == nil {
					return true
				}
				as, ok := ifs.Init.(*ast.AssignStmt)
				if !ok || len(as.Lhs) != 1 || len(as.Rhs) != 1 {
					return true
				}
				v, _ := as.Lhs[0].(*ast.Ident)
				row := wrow{pos: ifs.Pos()}
				if be, ok := ifs.Cond.(*ast.BinaryExpr); ok && v != nil && isIdentNamed(be.X, v.Name) {
					if tv, ok := info.Types[be.Y]; ok && tv.Value != nil {
						one, _ := constant.Float64Val(constant.ToFloat(tv.Value))
						row.cmpOK = be.Op == token.GEQ && one == 1
					}
				}
				// divisor in the init expression
				if d, ok := as.Rhs[0].(*ast.BinaryExpr); ok && d.Op == token.QUO {
					row.div, _ = constProduct(info, d.Y)
				}
				ast.Inspect(ifs.Body, func(m ast.Node) bool {
					switch x := m.(type) {
					case *ast.AssignStmt:
						if x.Tok == token.ADD_ASSIGN && len(x.Rhs) == 1 {
							row.mult, _ = constProduct(info, x.Rhs[0])
						}
					case *ast.CallExpr:
						if f := calleeFunc(info, x); f != nil && f.Name() == "Sprintf" && len(x.Args) > 0 {
							if s, ok := strLit(info, x.Args[0]); ok && strings.HasPrefix(s, "%s%d") {
								row.unit = strings.TrimPrefix(s, "%s%d")
							}
						}
					}
					return true
				})
				if row.unit != "" {
					wr = append(wr, row)
					return false
				}
				return true
			})
			okW := len(wr) == len(durationUnits)
			var whyW []string
			for i := 0; i < len(wr) && i < len(durationUnits); i++ {
				u := durationUnits[i]
				if wr[i].unit != u.unit || int64(wr[i].mult) != u.ns {
					okW = false
					whyW = append(whyW, fmt.Sprintf("position %d writes unit %q worth %v ns, expected %q worth %d ns", i, wr[i].unit, wr[i].mult, u.unit, u.ns))
				}
				if i < 3 && wr[i].div*3600e9 != float64(u.ns) {
					okW = false
					whyW = append(whyW, fmt.Sprintf("unit %s is counted by dividing hours by %v but tallied as %v ns", u.unit, wr[i].div, wr[i].mult))
				}
				if !wr[i].cmpOK {
					okW = false
					whyW = append(whyW, fmt.Sprintf("unit %s is emitted on a condition other than 'at least one whole unit' (>= 1)", wr[i].unit))
				}
			}
			res.check(okW, rule, "values/duration", S.pos(ser), "duration writer: Y=365d, M=30d, D=24h, H, M, S — each emitted when at least one whole unit remains, counted and tallied with the same factor", fmt.Sprintf("%d unit rows; %s", len(wr), strings.Join(whyW, "; ")))
			// reader: res[k] blocks with dur += Duration(v) * <const>
			var rd []float64
			var idxs []int64
			ast.Inspect(de.Body, func(n ast.Node) bool {
				as, ok := n.(*ast.AssignStmt)
				if !ok || len(as.Lhs) != 1 || len(as.Rhs) != 1 {
					return true
				}
				if as.Tok == token.DEFINE {
					if ix, ok := as.Rhs[0].(*ast.IndexExpr); ok && isIdentNamed(ix.X, "res") {
						if tv, ok := info.Types[ix.Index]; ok && tv.Value != nil {
							k, _ := constant.Int64Val(tv.Value)
							idxs = append(idxs, k)
						}
					}
				}
				if as.Tok == token.ADD_ASSIGN && isIdentNamed(as.Lhs[0], "dur") {
					f, _ := constProduct(info, as.Rhs[0])
					rd = append(rd, f)
				}
				return true
			})
			// regexp groups -> unit letters
			var groups []string
			ast.Inspect(de.Body, func(n ast.Node) bool {
				if c, ok := n.(*ast.CallExpr); ok {
					if f := calleeFunc(info, c); f != nil && f.Name() == "MustCompile" && len(c.Args) == 1 {
						if re, ok := strLit(info, c.Args[0]); ok {
							groups = regexGroupUnits(re)
						}
					}
				}
				return true
			})
			okR := len(rd) == len(durationUnits) && len(idxs) == len(rd)
			var whyR []string
			for i := 0; i < len(rd) && i < len(durationUnits) && i < len(idxs); i++ {
				u := durationUnits[i]
				gi := int(idxs[i])
				gu := ""
				if gi < len(groups) {
					gu = groups[gi]
				}
				if int64(rd[i]) != u.ns || gu != u.unit {
					okR = false
					whyR = append(whyR, fmt.Sprintf("submatch %d (unit %q) is worth %v ns, expected unit %q worth %d ns", gi, gu, rd[i], u.unit, u.ns))
				}
			}
			res.check(okR, rule, "values/duration", S.pos(de), "duration reader: each regexp group is scaled by the factor the writer uses for that unit (365-day years, 30-day months)", fmt.Sprintf("%d scaled groups; %s", len(rd), strings.Join(whyR, "; ")))
		}
	}
	// dateTime
	if p := findValuesPkg(S, "dateTime"); p != nil {
		info := p.TypesInfo
		fns := declaredFuncs(p)
		layoutOf := func(fd *ast.FuncDecl, fn string) []string {
			var out []string
			if fd == nil {
				return nil
			}
			ast.Inspect(fd.Body, func(n ast.Node) bool {
				if c, ok := n.(*ast.CallExpr); ok {
					if f := calleeFunc(info, c); f != nil && f.Name() == fn && len(c.Args) >= 1 {
						if s, ok := strLit(info, c.Args[0]); ok {
							out = append(out, s)
						}
					}
				}
				return true
			})
			return out
		}
		w := layoutOf(fns["SerializeDateTime"], "Format")
		r := layoutOf(fns["DeserializeDateTime"], "Parse")
		res.check(len(w) == 1 && w[0] == "2006-01-02T15:04:05Z07:00" && len(r) >= 1 && r[0] == w[0], rule, "values/dateTime", S.pos(fns["SerializeDateTime"]), "dateTime: written as RFC 3339 and read first as RFC 3339 (canonical forms round-trip)", fmt.Sprintf("writer layouts %v, reader layouts %v", w, r))
		// every accepted layout spells the zone the way the writer does ("Z07:00": the letter Z
		// for UTC, an offset otherwise); "-07:00" would refuse the Z the writer itself produces
		var badZone []string
		for _, l := range r {
			if !strings.Contains(l, "Z07:00") {
				badZone = append(badZone, l)
			}
		}
		res.check(len(r) >= 2 && len(badZone) == 0, rule, "values/dateTime", S.pos(fns["DeserializeDateTime"]), "dateTime: every reader layout (with and without seconds) accepts the zone forms the writer produces (Z07:00)", fmt.Sprintf("reader layouts %v; layouts that refuse the designator Z: %v", r, badZone))
	} else {
		res.undecided(rule, "values/dateTime", "-", "dateTime codec found", "missing")
	}
	// identity codecs: Serialize returns its argument (or its String())
	for _, name := range []string{"string", "boolean", "float", "nonNegativeInteger", "langString", "anyURI", "bcp47", "rfc2045", "rfc5988"} {
		p := findValuesPkg(S, name)
		if p == nil {
			res.undecided(rule, "values/"+name, "-", "codec found", "missing")
			continue
		}
		info := p.TypesInfo
		for fn, fd := range declaredFuncs(p) {
			if !strings.HasPrefix(fn, "Serialize") || fd.Type.Params == nil || len(fd.Type.Params.List) != 1 {
				continue
			}
			prm := info.ObjectOf(fd.Type.Params.List[0].Names[0])
			ok := false
			if len(fd.Body.List) == 1 {
				if r, ok2 := fd.Body.List[0].(*ast.ReturnStmt); ok2 && len(r.Results) == 2 && isIdentNamed(r.Results[1], "nil") {
					switch x := r.Results[0].(type) {
					case *ast.Ident:
						ok = info.ObjectOf(x) == prm
					case *ast.CallExpr:
						if sel, ok3 := x.Fun.(*ast.SelectorExpr); ok3 && sel.Sel.Name == "String" {
							if id, ok4 := sel.X.(*ast.Ident); ok4 && info.ObjectOf(id) == prm {
								ok = true
							}
						}
					}
				}
			}
			res.check(ok, rule, "values/"+name, S.pos(fd), fn+" writes the value itself (or its String form)", "writer transforms the value")
		}
	}
}

// regexGroupUnits maps capture-group index -> unit letter for groups of the
// form (\d*X); other groups get "".
func regexGroupUnits(re string) []string {
	out := []string{""}
	for i := 0; i < len(re); i++ {
		if re[i] == '\\' {
			i++
			continue
		}
		if re[i] == '(' {
			unit := ""
			rest := re[i+1:]
			if strings.HasPrefix(rest, `\d*`) && len(rest) >= 5 && rest[4] == ')' {
				unit = string(rest[3])
			}
			out = append(out, unit)
		}
	}
	return out
}

func checkC01(res *Result) {
	O := loadOntology()
	M := loadGenModel()
	S := M.S
	res.Packages = []string{modPath + "/streams/..."}
	res.Explanation = "Round-trip equality of arbitrary documents is value-level and not decided. Decided for every generated instance — conservation of members: (R1) every member name a type claims as known is read, unconditionally, by exactly one of its property deserialisers, and every name a property reads is claimed (else it would also land in unknown); (R2) every deserialised property is stored in its field and emitted under its own Name(); every unclaimed member is stored in the unknown map and re-emitted; (R3) an element deserialiser returns, on every path, an element holding exactly one representation — an IRI, one typed/literal member with its flag, or the raw value as unknown — and never drops a present value; (R4) a non-functional property reads a scalar and a one-element list through the same element reader and writes a single element as a scalar; (R5) streams.Serialize installs @context from the value's JSONLDContext (every type merging every property field — C12-R1 table) and removes nested @context; (R6) the literal codecs' reader and writer tables agree (duration units and thresholds, RFC 3339 layout, identity writers)."
	res.Rule("C01-R1", "claim/read agreement: claimed names = names read unconditionally by the type's property deserialisers")
	res.Rule("C01-R2", "store/emit agreement: each deserialised property is stored in its field and emitted under its Name(); unclaimed members go to unknown and are re-emitted")
	res.Rule("C01-R3", "exactly one representation: every return of an element deserialiser yields an element with exactly one of iri / member (+its flag, set to true) / unknown = the raw input; no path drops a present value")
	res.Rule("C01-R4", "scalar ↔ one-element list: the list and the scalar form go through the same element reader; a single element is written as a scalar")
	res.Rule("C01-R5", "@context: Serialize sets @context from JSONLDContext() and deletes nested @context; every type's JSONLDContext merges every property field")
	res.Rule("C01-R6", "literal codecs: reader and writer tables agree with each other and with the documented units")

	// R1 per property (aggregated over the types that have it)
	propsRead := map[string]map[string]string{} // prop key -> json key -> "unconditional"|"conditional"
	for _, pm := range M.Props {
		if len(pm.Problems) > 0 || pm.Name == "" {
			continue
		}
		r := map[string]string{pm.Name: "unconditional"}
		if pm.MapKeyRead != "" {
			r[pm.Name+"Map"] = pm.MapKeyRead
		}
		propsRead[pm.key()] = r
		if pm.MapKeyRead == "conditional" {
			res.Add(Oblig{Rule: "C01-R1", Func: pm.G.Dir, Pos: S.pos(pm.PropDeser), Key: "C01-R1|" + pm.G.Dir + "|Map spelling read only when the plain spelling is absent",
				Desc:    "member " + pm.Name + "Map is read whenever it is present",
				Verdict: VIOLATION,
				Detail:  "DeserializeProperty looks " + pm.Name + "Map up only if " + pm.Name + " is absent, yet every type with this property claims " + pm.Name + "Map as known: a document carrying both loses " + pm.Name + "Map (dropped, not even kept as unknown)"})
		} else {
			res.ok("C01-R1", pm.G.Dir, S.pos(pm.PropDeser), "every member name "+pm.Name+" handles is read unconditionally")
		}
	}
	for _, tm := range M.Types {
		g := tm.G
		if O.Types[g.Name] == nil || g.Struct == nil {
			continue
		}
		tt := extractTypeTables(M, tm)
		readable := map[string]bool{}
		for _, pm := range tm.Fields {
			for k := range propsRead[pm.key()] {
				readable[k] = true
			}
		}
		missing, extra := setDiff(readable, tt.claimed)
		res.Add(Oblig{Rule: "C01-R1", Func: g.Name, Pos: "-", Key: "C01-R1|" + g.Name + "|claimed = read",
			Desc:    fmt.Sprintf("%s: the %d member names claimed as known are exactly those its %d property readers look up", g.Name, len(tt.claimed), len(tm.Fields)),
			Verdict: map[bool]string{true: OK, false: VIOLATION}[len(missing) == 0 && len(extra) == 0],
			Detail:  fmt.Sprintf("read by a property but not claimed (duplicated into unknown): %v; claimed but read by no property (silently dropped): %v", missing, extra)})
		// R2
		fields := map[string]bool{}
		for _, pm := range tm.Fields {
			fields[pm.key()] = true
		}
		for _, tb := range []struct {
			name string
			got  map[string]bool
		}{{"deserialised and stored in its field", tt.assigned}, {"emitted under its own Name()", tt.serialized}, {"merged into @context", tt.context}} {
			missing, extra := setDiff(fields, tb.got)
			rule := "C01-R2"
			if tb.name == "merged into @context" {
				rule = "C01-R5"
			}
			res.Add(Oblig{Rule: rule, Func: g.Name, Pos: "-", Key: rule + "|" + g.Name + "|" + tb.name,
				Desc:    fmt.Sprintf("%s: each of its %d property fields is %s", g.Name, len(fields), tb.name),
				Verdict: map[bool]string{true: OK, false: VIOLATION}[len(missing) == 0 && len(extra) == 0],
				Detail:  fmt.Sprintf("not %s: %v; unexpected: %v", tb.name, missing, extra)})
		}
		res.check(tt.unknownStored && tt.unknownEmitted, "C01-R2", g.Name, "-", g.Name+": an unclaimed member is stored in unknown and re-emitted", fmt.Sprintf("stored %v, emitted %v", tt.unknownStored, tt.unknownEmitted))
	}

	// R3 / R4 per property
	nElem := 0
	for _, pm := range M.Props {
		if len(pm.Problems) > 0 {
			continue
		}
		info := pm.G.Pkg.TypesInfo
		fd := pm.ElemDeser
		nElem++
		// every return: (composite with one representation, nil) | (x, err) error | functional: (nil, nil) only when the key is absent
		var input types.Object
		if pm.Functional {
			// the raw value is `i` from `i, ok := m[propName]`
			ast.Inspect(fd.Body, func(n ast.Node) bool {
				if as, ok := n.(*ast.AssignStmt); ok && as.Tok == token.DEFINE && len(as.Lhs) == 2 && len(as.Rhs) == 1 {
					if ix, ok := as.Rhs[0].(*ast.IndexExpr); ok && isIdentNamed(ix.X, "m") {
						if id, ok := as.Lhs[0].(*ast.Ident); ok && input == nil {
							input = info.ObjectOf(id)
						}
					}
				}
				return true
			})
		} else if fd.Type.Params != nil && len(fd.Type.Params.List) > 0 && len(fd.Type.Params.List[0].Names) > 0 {
			input = info.ObjectOf(fd.Type.Params.List[0].Names[0])
		}
		locals := map[types.Object]*ast.CompositeLit{}
		ast.Inspect(fd.Body, func(n ast.Node) bool {
			if as, ok := n.(*ast.AssignStmt); ok && as.Tok == token.DEFINE && len(as.Lhs) == 1 && len(as.Rhs) == 1 {
				if u, ok := as.Rhs[0].(*ast.UnaryExpr); ok && u.Op == token.AND {
					if cl, ok := u.X.(*ast.CompositeLit); ok {
						if id, ok := as.Lhs[0].(*ast.Ident); ok {
							locals[info.ObjectOf(id)] = cl
						}
					}
				}
			}
			return true
		})
		nilnil := 0
		unknownReturns := 0
		var lastRet *ast.ReturnStmt
		ast.Inspect(fd.Body, func(n ast.Node) bool {
			if _, isLit := n.(*ast.FuncLit); isLit {
				return false
			}
			r, ok := n.(*ast.ReturnStmt)
			if !ok || len(r.Results) != 2 {
				return true
			}
			lastRet = r
			if isIdentNamed(r.Results[0], "nil") && isIdentNamed(r.Results[1], "nil") {
				nilnil++
				return true
			}
			if !isIdentNamed(r.Results[1], "nil") {
				return true // error return
			}
			var cl *ast.CompositeLit
			if id, ok := r.Results[0].(*ast.Ident); ok {
				cl = locals[info.ObjectOf(id)]
			}
			if cl == nil {
				// the element is built by a helper of the package: its returns are this reader's
				if c, ok := r.Results[0].(*ast.CallExpr); ok {
					if f := calleeFunc(info, c); f != nil {
						if hd := S.funcDecl[f]; hd != nil && hd.Body != nil && hd.Recv == nil && S.declPkg[hd] == pm.G.Pkg {
							// which parameter of the helper receives the raw value
							var hInput types.Object
							i := 0
							if hd.Type.Params != nil {
								for _, fl := range hd.Type.Params.List {
									for _, nm := range fl.Names {
										if i < len(c.Args) {
											if id, ok := c.Args[i].(*ast.Ident); ok && info.ObjectOf(id) == input {
												hInput = info.ObjectOf(nm)
											}
										}
										i++
									}
								}
							}
							okAll := true
							ast.Inspect(hd.Body, func(m ast.Node) bool {
								hr, ok := m.(*ast.ReturnStmt)
								if !ok || len(hr.Results) != 1 {
									return true
								}
								var hcl *ast.CompositeLit
								if u, ok := hr.Results[0].(*ast.UnaryExpr); ok && u.Op == token.AND {
									hcl, _ = u.X.(*ast.CompositeLit)
								}
								if hcl == nil {
									okAll = false
									return true
								}
								for _, kv := range hcl.Elts {
									if k, ok := kv.(*ast.KeyValueExpr); ok && isIdentNamed(k.Key, "unknown") {
										unknownReturns++
										if id, ok := k.Value.(*ast.Ident); !ok || hInput == nil || info.ObjectOf(id) != hInput {
											res.bad("C01-R3", pm.G.Dir, S.pos(hr), "the unknown representation keeps the raw input value verbatim", "unknown is set to "+types.ExprString(k.Value))
										}
									}
								}
								return true
							})
							if okAll {
								return true
							}
						}
					}
				}
				if pm.Functional || !isIdentNamed(r.Results[0], "this") {
					res.undecided("C01-R3", pm.G.Dir, S.pos(r), "a successful return yields a freshly built element", "returns "+types.ExprString(r.Results[0]))
				}
				return true
			}
			for _, kv := range cl.Elts {
				if k, ok := kv.(*ast.KeyValueExpr); ok && isIdentNamed(k.Key, "unknown") {
					unknownReturns++
					if id, ok := k.Value.(*ast.Ident); !ok || info.ObjectOf(id) != input {
						res.bad("C01-R3", pm.G.Dir, S.pos(r), "the unknown representation keeps the raw input value verbatim", "unknown is set to "+types.ExprString(k.Value))
					}
				}
			}
			return true
		})
		if pm.Functional {
			// (nil, nil) exactly once: the final statement, for an absent key
			last := fd.Body.List[len(fd.Body.List)-1]
			okLast := false
			if r, ok := last.(*ast.ReturnStmt); ok && len(r.Results) == 2 && isIdentNamed(r.Results[0], "nil") && isIdentNamed(r.Results[1], "nil") {
				okLast = true
			}
			res.check(nilnil == 1 && okLast, "C01-R3", pm.G.Dir, S.pos(fd), "a present value is never dropped: 'no property' is returned only when the member is absent", fmt.Sprintf("%d (nil, nil) returns; last statement is the absent case: %v", nilnil, okLast))
		} else {
			res.check(nilnil == 0, "C01-R3", pm.G.Dir, S.pos(fd), "an element reader never returns 'nothing' for a present value", fmt.Sprintf("%d (nil, nil) returns", nilnil))
			// final statement returns the unknown representation
			last := fd.Body.List[len(fd.Body.List)-1]
			res.check(lastRet != nil && ast.Stmt(lastRet) == last, "C01-R3", pm.G.Dir, S.pos(fd), "the reader ends by returning the fallback element", "last statement is not a return")
		}
		res.check(unknownReturns >= 1, "C01-R3", pm.G.Dir, S.pos(fd), "a value of no admitted kind is kept verbatim as unknown", "no return builds an element with unknown set")
		checkElementComposites(res, S, pm, "C01-R3", map[string]*Member{}, map[*ast.FuncDecl]bool{pm.ElemDeser: true, pm.PropDeser: true})
		// serialise ends with the unknown fallback
		en := elemStructName(pm)
		var serFd *ast.FuncDecl
		for _, nme := range []string{"(" + en + ").serialize", "(" + en + ").Serialize"} {
			if f := pm.G.Funcs[nme]; f != nil {
				serFd = f
			}
		}
		if serFd == nil {
			res.undecided("C01-R3", pm.G.Dir, "-", "element serialiser found", "missing")
		} else {
			last := serFd.Body.List[len(serFd.Body.List)-1]
			okU := false
			if r, ok := last.(*ast.ReturnStmt); ok && len(r.Results) == 2 && isIdentNamed(r.Results[1], "nil") {
				if fv := thisField(info, r.Results[0]); fv != nil && fv.Name() == "unknown" {
					okU = true
				}
			}
			if !okU {
				// other statement forms: the return of this.unknown sits where no representation test
				// holds — in a `default:` clause or a final else, not under a test
				var stack []ast.Node
				ast.Inspect(serFd.Body, func(n ast.Node) bool {
					if n == nil {
						stack = stack[:len(stack)-1]
						return true
					}
					if r, ok := n.(*ast.ReturnStmt); ok && len(r.Results) == 2 && isIdentNamed(r.Results[1], "nil") {
						if fv := thisField(info, r.Results[0]); fv != nil && fv.Name() == "unknown" {
							under := false
							for i := len(stack) - 1; i >= 0; i-- {
								switch par := stack[i].(type) {
								case *ast.CaseClause:
									if par.List != nil {
										under = true
									}
								case *ast.IfStmt:
									// in the then-branch?
									if i+1 < len(stack) && stack[i+1] == ast.Node(par.Body) {
										under = true
									}
								case *ast.ForStmt, *ast.RangeStmt:
									under = true
								}
							}
							if !under {
								okU = true
							}
						}
					}
					// named results: `value = this.unknown` in the final else / at top level, then a bare return
					if as, ok := n.(*ast.AssignStmt); ok && len(as.Lhs) == 1 && len(as.Rhs) == 1 && serFd.Type.Results != nil && len(serFd.Type.Results.List) >= 1 && len(serFd.Type.Results.List[0].Names) >= 1 {
						if fv := thisField(info, as.Rhs[0]); fv != nil && fv.Name() == "unknown" {
							if id, ok := as.Lhs[0].(*ast.Ident); ok && info.ObjectOf(id) == info.ObjectOf(serFd.Type.Results.List[0].Names[0]) {
								under := false
								for i := len(stack) - 1; i >= 0; i-- {
									switch par := stack[i].(type) {
									case *ast.CaseClause:
										if par.List != nil {
											under = true
										}
									case *ast.IfStmt:
										if i+1 < len(stack) && stack[i+1] == ast.Node(par.Body) {
											under = true
										}
									case *ast.ForStmt, *ast.RangeStmt:
										under = true
									}
								}
								last, _ := serFd.Body.List[len(serFd.Body.List)-1].(*ast.ReturnStmt)
								if !under && last != nil && len(last.Results) == 0 {
									okU = true
								}
							}
						}
					}
					stack = append(stack, n)
					return true
				})
			}
			res.check(okU, "C01-R3", pm.G.Dir, S.pos(serFd), "an unknown value is written back verbatim", "serialiser does not end with `return this.unknown, nil`")
			// every member has a serialise branch: Is<X> tests in the chain
			tested := map[string]bool{}
			ast.Inspect(serFd.Body, func(n ast.Node) bool {
				if c, ok := n.(*ast.CallExpr); ok {
					if sel, ok := c.Fun.(*ast.SelectorExpr); ok && isIdentNamed(sel.X, "this") && strings.HasPrefix(sel.Sel.Name, "Is") {
						tested[sel.Sel.Name] = true
					}
				}
				return true
			})
			want := len(pm.Members)
			if structHasField(pm.Elem, "iri") != nil {
				want++
			}
			res.check(len(tested) == want, "C01-R3", pm.G.Dir, S.pos(serFd), fmt.Sprintf("each of the %d representations has a branch in the serialiser", want), fmt.Sprintf("%d Is… tests", len(tested)))
		}
		// R4
		if !pm.Functional {
			pd := pm.PropDeser
			var calls []*ast.CallExpr
			rangeOverList := false
			ast.Inspect(pd.Body, func(n ast.Node) bool {
				switch x := n.(type) {
				case *ast.CallExpr:
					if f := calleeFunc(info, x); f != nil && pm.G.Funcs[f.Name()] == pm.ElemDeser {
						calls = append(calls, x)
					}
				case *ast.RangeStmt:
					if isIdentNamed(x.X, "list") {
						rangeOverList = true
					}
				}
				return true
			})
			okR4 := len(calls) == 2 && rangeOverList
			why4 := fmt.Sprintf("%d element-reader calls, list loop: %v", len(calls), rangeOverList)
			if !okR4 {
				// other statement forms: (list) a reader call on the loop variable of a range over a
				// []interface{}; (scalar) a reader call on the raw value outside any loop, or the raw value
				// wrapped as a one-element []interface{} that the same loop ranges over
				listForm, scalarForm := false, false
				var listVar types.Object
				// a local closure that applies the reader to its first parameter is the reader for
				// this purpose: its calls are the applications, the call inside it is not
				readerLike := map[types.Object]*ast.FuncLit{}
				ast.Inspect(pd.Body, func(n ast.Node) bool {
					as, ok := n.(*ast.AssignStmt)
					if !ok || len(as.Lhs) != 1 || len(as.Rhs) != 1 {
						return true
					}
					lit, ok := as.Rhs[0].(*ast.FuncLit)
					id, ok2 := as.Lhs[0].(*ast.Ident)
					if !ok || !ok2 || lit.Type.Params == nil || len(lit.Type.Params.List) == 0 || len(lit.Type.Params.List[0].Names) == 0 {
						return true
					}
					p0 := info.ObjectOf(lit.Type.Params.List[0].Names[0])
					ast.Inspect(lit.Body, func(m ast.Node) bool {
						if c, ok := m.(*ast.CallExpr); ok && len(c.Args) >= 1 {
							if f := calleeFunc(info, c); f != nil && pm.G.Funcs[f.Name()] == pm.ElemDeser {
								if a, ok := c.Args[0].(*ast.Ident); ok && info.ObjectOf(a) == p0 {
									readerLike[info.ObjectOf(id)] = lit
								}
							}
						}
						return true
					})
					return true
				})
				isReaderCall := func(c *ast.CallExpr) bool {
					if f := calleeFunc(info, c); f != nil && pm.G.Funcs[f.Name()] == pm.ElemDeser {
						return true
					}
					if id, ok := c.Fun.(*ast.Ident); ok && readerLike[info.ObjectOf(id)] != nil {
						return true
					}
					return false
				}
				if len(readerLike) > 0 {
					var sites []*ast.CallExpr
					ast.Inspect(pd.Body, func(n ast.Node) bool {
						if lit, ok := n.(*ast.FuncLit); ok {
							for _, rl := range readerLike {
								if rl == lit {
									return false
								}
							}
						}
						if c, ok := n.(*ast.CallExpr); ok && isReaderCall(c) {
							sites = append(sites, c)
						}
						return true
					})
					calls = sites
				}
				ast.Inspect(pd.Body, func(n ast.Node) bool {
					rs, ok := n.(*ast.RangeStmt)
					if !ok {
						return true
					}
					tv, ok := info.Types[rs.X]
					if !ok || tv.Type.String() != "[]interface{}" {
						return true
					}
					vid, _ := rs.Value.(*ast.Ident)
					ast.Inspect(rs.Body, func(m ast.Node) bool {
						if c, ok := m.(*ast.CallExpr); ok && len(c.Args) >= 1 && vid != nil {
							if isReaderCall(c) {
								if a, ok := c.Args[0].(*ast.Ident); ok && info.ObjectOf(a) == info.ObjectOf(vid) {
									listForm = true
									if id, ok := rs.X.(*ast.Ident); ok {
										listVar = info.ObjectOf(id)
									}
								}
							}
						}
						return true
					})
					return true
				})
				ast.Inspect(pd.Body, func(n ast.Node) bool {
					if as, ok := n.(*ast.AssignStmt); ok && len(as.Lhs) == 1 && len(as.Rhs) == 1 && listVar != nil {
						if l, ok := as.Lhs[0].(*ast.Ident); ok && info.ObjectOf(l) == listVar {
							if cl, ok := as.Rhs[0].(*ast.CompositeLit); ok && len(cl.Elts) == 1 {
								if tv, ok := info.Types[cl]; ok && tv.Type.String() == "[]interface{}" {
									scalarForm = true
								}
							}
						}
					}
					return true
				})
				// a reader call outside every range statement
				var inRange func(n ast.Node, depth int)
				_ = inRange
				for _, c := range calls {
					enclosed := false
					ast.Inspect(pd.Body, func(n ast.Node) bool {
						if rs, ok := n.(*ast.RangeStmt); ok && rs.Pos() <= c.Pos() && c.End() <= rs.End() {
							enclosed = true
						}
						return true
					})
					if !enclosed {
						scalarForm = true
					}
				}
				okR4 = listForm && scalarForm
				why4 = fmt.Sprintf("reader applied to each element of a list: %v; reader applied to a lone value: %v", listForm, scalarForm)
			}
			res.check(okR4, "C01-R4", pm.G.Dir, S.pos(pd), "a list and a scalar are read through the same element reader", why4)
			cn := pm.Container.Obj().Name()
			if sfd := pm.G.Funcs["("+cn+").Serialize"]; sfd != nil {
				okOne := false
				ast.Inspect(sfd.Body, func(n ast.Node) bool {
					if ifs, ok := n.(*ast.IfStmt); ok {
						if be, ok := ifs.Cond.(*ast.BinaryExpr); ok && be.Op == token.EQL {
							if c, ok := be.X.(*ast.CallExpr); ok && isIdentNamed(c.Fun, "len") {
								if l, ok := be.Y.(*ast.BasicLit); ok && l.Value == "1" && len(ifs.Body.List) == 1 {
									if r, ok := ifs.Body.List[0].(*ast.ReturnStmt); ok && len(r.Results) == 2 {
										if ix, ok := r.Results[0].(*ast.IndexExpr); ok {
											if z, ok := ix.Index.(*ast.BasicLit); ok && z.Value == "0" {
												okOne = true
											}
										}
									}
								}
								// named results: `out = s[0]; return`
								if l, ok := be.Y.(*ast.BasicLit); ok && l.Value == "1" && len(ifs.Body.List) == 2 && sfd.Type.Results != nil && len(sfd.Type.Results.List) >= 1 && len(sfd.Type.Results.List[0].Names) >= 1 {
									as, ok1 := ifs.Body.List[0].(*ast.AssignStmt)
									r, ok2 := ifs.Body.List[1].(*ast.ReturnStmt)
									if ok1 && ok2 && len(r.Results) == 0 && len(as.Lhs) == 1 && len(as.Rhs) == 1 {
										if id, ok := as.Lhs[0].(*ast.Ident); ok && info.ObjectOf(id) == info.ObjectOf(sfd.Type.Results.List[0].Names[0]) {
											if ix, ok := as.Rhs[0].(*ast.IndexExpr); ok {
												if z, ok := ix.Index.(*ast.BasicLit); ok && z.Value == "0" {
													okOne = true
												}
											}
										}
									}
								}
							}
						}
					}
					return true
				})
				res.check(okOne, "C01-R4", pm.G.Dir, S.pos(sfd), "a single element is written as a scalar", "no `if len(s) == 1 { return s[0], nil }`")
				// an empty list is written as [] (a nil slice would be marshalled as null and the
				// member lost on the next read): the slice returned on success is allocated
				okAlloc, whyAlloc := true, ""
				ast.Inspect(sfd.Body, func(n ast.Node) bool {
					r, ok := n.(*ast.ReturnStmt)
					if !ok || len(r.Results) != 2 || !isIdentNamed(r.Results[1], "nil") {
						return true
					}
					id, ok := r.Results[0].(*ast.Ident)
					if !ok {
						return true
					}
					obj := info.ObjectOf(id)
					if obj == nil {
						return true
					}
					if _, isSlice := obj.Type().Underlying().(*types.Slice); !isSlice {
						return true
					}
					// the declaration of that variable
					declared := false
					ast.Inspect(sfd.Body, func(m ast.Node) bool {
						switch x := m.(type) {
						case *ast.AssignStmt:
							if x.Tok == token.DEFINE {
								for i, l := range x.Lhs {
									if li, ok := l.(*ast.Ident); ok && info.ObjectOf(li) == obj && i < len(x.Rhs) {
										declared = true
										rhs := x.Rhs[i]
										if pe, ok := rhs.(*ast.ParenExpr); ok {
											rhs = pe.X
										}
										switch y := rhs.(type) {
										case *ast.CallExpr:
											if !isIdentNamed(y.Fun, "make") && !isIdentNamed(y.Fun, "append") {
												okAlloc, whyAlloc = false, "the list starts as "+types.ExprString(rhs)
											}
										case *ast.CompositeLit:
										default:
											okAlloc, whyAlloc = false, "the list starts as "+types.ExprString(rhs)
										}
									}
								}
							}
						case *ast.ValueSpec:
							for i, nm := range x.Names {
								if info.ObjectOf(nm) == obj {
									declared = true
									if i >= len(x.Values) {
										okAlloc, whyAlloc = false, "the list is declared without a value (nil)"
									}
								}
							}
						}
						return true
					})
					if !declared {
						okAlloc, whyAlloc = false, "the declaration of the returned list was not found"
					}
					return true
				})
				res.check(okAlloc, "C01-R4", pm.G.Dir, S.pos(sfd), "an empty list is written as [] (the list returned on success is allocated, never nil)", whyAlloc+": an empty list is marshalled as null, which the reader takes for 'member absent' — the member is gone after one more round trip")
			}
		}
	}
	res.Count("element readers examined", nElem, 100)

	// R5: streams.Serialize
	if fd := declaredFuncs(S.Root)["Serialize"]; fd != nil {
		info := S.Root.TypesInfo
		setsCtx, deletesNested, callsCtx := false, false, false
		ast.Inspect(fd.Body, func(n ast.Node) bool {
			switch x := n.(type) {
			case *ast.AssignStmt:
				if len(x.Lhs) == 1 {
					if ix, ok := x.Lhs[0].(*ast.IndexExpr); ok && isIdentNamed(ix.X, "m") {
						if s, ok := strLit(info, ix.Index); ok && s == "@context" {
							setsCtx = true
						}
					}
				}
			case *ast.CallExpr:
				if isIdentNamed(x.Fun, "delete") && len(x.Args) == 2 {
					if s, ok := strLit(info, x.Args[1]); ok && s == "@context" {
						deletesNested = true
					}
				}
				if sel, ok := x.Fun.(*ast.SelectorExpr); ok && sel.Sel.Name == "JSONLDContext" {
					callsCtx = true
				}
			}
			return true
		})
		if !deletesNested {
			// the removal may live in a function of the package that Serialize calls (a named
			// recursive helper instead of the recursive closure)
			ast.Inspect(fd.Body, func(n ast.Node) bool {
				if c, ok := n.(*ast.CallExpr); ok {
					if f := calleeFunc(info, c); f != nil && f.Pkg() == S.Root.Types {
						if cd := S.funcDecl[f]; cd != nil && cd.Body != nil {
							ast.Inspect(cd.Body, func(m ast.Node) bool {
								if d, ok := m.(*ast.CallExpr); ok && isIdentNamed(d.Fun, "delete") && len(d.Args) == 2 {
									if s, ok := strLit(info, d.Args[1]); ok && s == "@context" {
										deletesNested = true
									}
								}
								return true
							})
						}
					}
				}
				return true
			})
		}
		res.check(setsCtx && deletesNested && callsCtx, "C01-R5", "streams.Serialize", S.pos(fd), "@context is installed from JSONLDContext() and nested @context members are removed", fmt.Sprintf("sets: %v, from JSONLDContext: %v, deletes nested: %v", setsCtx, callsCtx, deletesNested))
	} else {
		res.undecided("C01-R5", "streams.Serialize", "-", "function found", "missing")
	}
	// property-level JSONLDContext: every typed member's context is merged
	for _, pm := range M.Props {
		if len(pm.Problems) > 0 {
			continue
		}
		en := elemStructName(pm)
		fd := pm.G.Funcs["("+en+").JSONLDContext"]
		if fd == nil {
			res.bad("C01-R5", pm.G.Dir, "-", "element has a JSONLDContext", "missing")
			continue
		}
		n := 0
		ast.Inspect(fd.Body, func(m ast.Node) bool {
			if c, ok := m.(*ast.CallExpr); ok {
				if sel, ok := c.Fun.(*ast.SelectorExpr); ok && sel.Sel.Name == "JSONLDContext" {
					n++
				}
			}
			return true
		})
		nType := 0
		for _, m := range pm.Members {
			if m.Kind == "type" {
				nType++
			}
		}
		res.check(n == nType, "C01-R5", pm.G.Dir, S.pos(fd), fmt.Sprintf("the @context of each of the %d embedded value kinds is merged", nType), fmt.Sprintf("%d JSONLDContext calls", n))
	}
	// R6
	checkCodecs(res, S, "C01-R6")
	checkC01Totality(res)
	checkC01Alias(res, S)

	res.Functions = nElem + len(M.Types)
	var natlang []string
	for _, v := range O.Vocabs {
		for _, p := range v.Props {
			if p.NatLang {
				natlang = append(natlang, p.Name)
			}
		}
	}
	sort.Strings(natlang)
	res.Extra["natural_language_properties"] = natlang
	res.Assumptions = append(res.Assumptions, "a document's members are exactly the keys of the decoded map (encoding/json)", "GetTypeName/Name literals as extracted")
	res.Undecided = []string{"JSON equality of the round-tripped document (canonical-form values)", "idempotence of a second round trip", "arrays nested directly in arrays", "JSON null for a known property (documented exception)"}
	res.Trusted = []string{"go/parser, go/types", "ontology.go", "e5_model.go extraction"}
}
