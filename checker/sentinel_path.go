package main

import (
	"strings"

	"golang.org/x/tools/go/ssa"
)

// checkSentinelTransparent: on the way from the default callbacks to the place where the entry
// point compares the error with ErrObjectRequired / ErrTargetRequired (to answer 400), the error
// is handed on as it is. A function on that path that builds a new error out of the callee's
// error (fmt.Errorf with %v or %w, errors.New(err.Error()), …) and returns it makes the
// comparison fail: the request then ends as "handled, error, nothing written" instead of one 400.
func checkSentinelTransparent(res *Result, p *Pub, E *Effects, rule string, fnNames []string) {
	// how do the entry points recognise the sentinels: by identity (==) or through errors.Is?
	usesIs := false
	for _, ep := range []string{"baseActor.PostInboxScheme", "baseActor.PostOutboxScheme"} {
		if f := p.Func(ep); f != nil {
			for _, ci := range callsIn(f) {
				if c := ci.Common().StaticCallee(); c != nil && c.Pkg != nil && c.Pkg.Pkg.Path() == "errors" && c.Name() == "Is" {
					usesIs = true
				}
			}
		}
	}
	n := 0
	for _, name := range fnNames {
		fn := p.Func(name)
		if fn == nil || !p.HasFunc(name) {
			continue
		}
		g := flowOf(fn)
		// error values that may carry a sentinel: results of the resolver / default callback /
		// delegate calls (anything of type error produced by a call in this function)
		isCalleeErr := func(v ssa.Value) bool {
			switch x := v.(type) {
			case *ssa.Call:
				if isErrorType(x) {
					if f := x.Common().StaticCallee(); f != nil && f.Pkg != nil && (f.Pkg.Pkg.Path() == "fmt" || f.Pkg.Pkg.Path() == "errors") {
						return false
					}
					return true
				}
			case *ssa.Extract:
				if isErrorType(x) {
					if c, ok := x.Tuple.(*ssa.Call); ok {
						if f := c.Common().StaticCallee(); f != nil && f.Pkg != nil && (f.Pkg.Pkg.Path() == "fmt" || f.Pkg.Pkg.Path() == "errors") {
							return false
						}
						return true
					}
				}
			}
			return false
		}
		var retVals []ssa.Value
		for _, r := range returnsIn(fn) {
			for _, v := range r.Results {
				if isErrorType(v) {
					retVals = append(retVals, v)
				}
			}
		}
		for _, ci := range callsIn(fn) {
			f := ci.Common().StaticCallee()
			if f == nil || f.Pkg == nil {
				continue
			}
			pk := f.Pkg.Pkg.Path()
			if !(pk == "fmt" && f.Name() == "Errorf") && !(pk == "errors" && f.Name() == "New") {
				continue
			}
			call, ok := ci.(*ssa.Call)
			if !ok {
				continue
			}
			// does a callee's error flow into this new error …
			fromCallee := false
			for _, a := range ci.Common().Args {
				if anyBackward(g, a, isCalleeErr) {
					fromCallee = true
				}
			}
			if !fromCallee {
				continue
			}
			// … and the new error into a returned error
			reaches := false
			fw := g.forward(call, nil)
			for _, rv := range retVals {
				if fw[rv] || rv == ssa.Value(call) {
					reaches = true
				}
			}
			if usesIs && f.Name() == "Errorf" && len(ci.Common().Args) > 0 {
				// wrapping with %w keeps errors.Is working
				if fs, ok := stringConst(ci.Common().Args[0]); ok && strings.Contains(fs, "%w") {
					continue
				}
			}
			n++
			res.check(!reaches, rule, fname(fn), p.pos(ci), "an error coming from the callbacks is returned as it is (the 400 sentinels must still compare equal at the entry point)", "a new error is built from the callee's error and returned in its place: ErrObjectRequired / ErrTargetRequired no longer reach the comparison that answers 400")
		}
		res.ok(rule, fname(fn), p.pos(fn), "no error on the sentinel path is re-made on the way up")
	}
	_ = n
}
